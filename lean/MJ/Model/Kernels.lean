import MJ.Model.Chk
import MJ.Gen.Tables
/-!
# Integer kernels behind C01 ("never crashes the host")

Hand transcriptions of the arithmetic that template-chosen numbers flow through, written in `Chk`
so that every Rust panic (overflow in a build with overflow checks, division by zero, slice index
out of range, `std::fmt`'s "Formatting argument out of range") is the distinguished result
`Chk.panic`.  Errors returned as values are `Res.error`.  Every kernel also reports the sizes of the
allocations it asks for with a size computed from template-chosen numbers:

* `allocs`     — infallible requests (`Vec::with_capacity`, `str::repeat`, …): a failure aborts the
                 process, so these must be bounded by a named constant (`alloc_le` theorems);
* `tryAllocs`  — fallible requests (`try_reserve_exact`): a failure is an error value.

Limits come from `MJ.Gen` (regenerated from the sources on every run).  The kernels mirror the code
*after* the C01 `fix:` commits; `Legacy` keeps the three pre-fix kernels whose panics were found.
Tied to the code by the `k …` stream of `harness/src/bin/c01.rs` (same cases through the public API
and through `drive_c01`).
-/
namespace MJ.Kernels
open MJ Chk

/-- outcome of an operation that can fail with an error *value* -/
inductive Res (α : Type) where
  | ok (a : α)
  | error
  deriving Repr, DecidableEq

structure Out (α : Type) where
  allocs : List Nat := []
  tryAllocs : List Nat := []
  res : Res α
  deriving Repr, DecidableEq

def err {α : Type} : Out α := { res := .error }

/-- a value of Rust type `i128` -/
def i128 (x : Int) : Chk Int :=
  if -(170141183460469231731687303715884105728 : Int) ≤ x ∧ x < 170141183460469231731687303715884105728
  then .ok x else .panic

/-- `a % b` on unsigned integers -/
def urem (a b : Nat) : Chk Nat := if b = 0 then .panic else .ok (a % b)

/-- `a.checked_mul(b)` on `usize` -/
def checkedMul (a b : Nat) : Option Nat :=
  if a * b < 18446744073709551616 then some (a * b) else none

/-- `Value::as_usize` / `usize::try_from(value)` of an integer value -/
def asUsize? (x : Int) : Option Nat :=
  if 0 ≤ x ∧ x < 18446744073709551616 then some x.toNat else none

/-- a `usize` result computed from non-negative parts (checks on `Nat`: comparisons of an open `Int`
    term with a large literal send the kernel into deep recursion when it has to reduce them) -/
def usizeN (x : Nat) : Chk Nat := if x < 18446744073709551616 then .ok x else .panic
/-- a `u16` result -/
def u16N (x : Nat) : Chk Nat := if x < 65536 then .ok x else .panic
/-- `a - b` on unsigned integers -/
def usub (a b : Nat) : Chk Nat := if b ≤ a then .ok (a - b) else .panic

def isizeMax : Nat := 9223372036854775807
/-- `size_of::<Value>()` (checked against the real type by the harness) -/
def valueSize : Nat := 24

/-! ## `functions::range` -/

structure RangeOut where
  len : Nat
  first : Int
  stride : Int
  deriving Repr, DecidableEq

/-- `ExactSizeIterator::len` of `lo..hi` over `isize` (`Step::steps_between`) -/
def rangeLen (lo hi : Int) : Nat := if lo < hi then (hi - lo).toNat else 0

/-- `to_result`: the 100000 limit is checked before the iterable is created -/
def toResult (len : Nat) (first stride : Int) : Out RangeOut :=
  if len > Gen.rangeLimit then err else { allocs := [len], res := .ok ⟨len, first, stride⟩ }

/-- length for a negative step, in `i128` as the code does -/
def negStepLen (lo hi s : Int) : Chk Nat :=
  if lo ≤ hi then pure 0 else do
    let a ← i128 (lo - hi)
    let b ← i128 (a - s)
    let c ← i128 (b - 1)
    let d ← i128 (-s)
    if d = 0 then .panic else pure (Chk.asUsize (c / d))

/-- `lower..upper`, or `0..lower` when `upper` is omitted -/
def rangeLo (lower : Int) : Option Int → Int
  | some _ => lower
  | none => 0
def rangeHi (lower : Int) : Option Int → Int
  | some u => u
  | none => lower

def rangeK (lower : Int) (upper step : Option Int) : Chk (Out RangeOut) :=
  let lo := rangeLo lower upper
  let hi := rangeHi lower upper
  match step with
  | none => pure (toResult (rangeLen lo hi) lo 1)
  | some s =>
    if s = 0 then pure err
    else if s > 0 then
      -- `StepBy::len`: 0 when the range is empty, else 1 + (n - 1) / step
      let n := rangeLen lo hi
      pure (toResult (if n = 0 then 0 else 1 + (n - 1) / s.toNat) lo s)
    else do
      let len ← negStepLen lo hi s
      pure (toResult len lo s)

/-- the `i`-th item: `start + i * step` (for a negative step computed in `i128` and cast back) -/
def RangeOut.item (r : RangeOut) (i : Nat) : Int := r.first + (i : Int) * r.stride

/-! ## `Loop::call_method("cycle")` -/

def cycleK (idx argc : Nat) : Chk (Out (Option Nat)) :=
  if argc = 0 then pure err
  else do
    let i ← urem idx argc
    pure { res := .ok (if i < argc then some i else none) }      -- `args.get(i)`

/-! ## `ops::mul`: string repetition, `repeat_iterable` -/

def mulStrK (slen : Nat) (n : Option Nat) : Chk (Out Nat) :=
  match n with
  | none => pure err
  | some n =>
    match checkedMul slen n with
    | none => pure err
    | some len =>
      if len ≤ Gen.maxRepeatedStringLen then pure { allocs := [len], res := .ok len } else pure err

/-- `len = seq.enumerator_len()`; a tuple is repeated eagerly, everything else lazily
    (`LenIterWrap(total, …)`, no allocation) -/
def repeatSeqK (isTuple : Bool) (len : Option Nat) (n : Option Nat) : Chk (Out Nat) :=
  match n with
  | none => pure err
  | some n =>
    match len with
    | none => pure err
    | some len =>
      match checkedMul len n with
      | none => pure err
      | some total =>
        if total ≤ Gen.maxRepeatedStringLen then
          if isTuple then
            match checkedMul total valueSize with
            | none => pure err
            | some size =>
              if size ≤ Gen.maxRepeatedStringLen then pure { allocs := [total * valueSize], res := .ok total }
              else pure err
          else pure { res := .ok total }
        else pure err

/-! ## `filters::indent`, `filters::tojson(indent)` -/

def stripSuffixChar (c : Char) (s : List Char) : List Char :=
  match s.reverse with
  | x :: rest => if x = c then rest.reverse else s
  | [] => s

/-- `strip_trailing_newline` -/
def stripTrailingNewline (s : List Char) : List Char :=
  stripSuffixChar '\r' (stripSuffixChar '\n' s)

/-- `str::split('\n')`: lengths of the pieces (always at least one piece) -/
def splitNlLens : List Char → List Nat
  | [] => [0]
  | c :: rest =>
    if c = '\n' then 0 :: splitNlLens rest
    else match splitNlLens rest with
      | l :: ls => (l + 1) :: ls
      | [] => [1]

/-- bytes written for one line -/
def indentLine (width : Nat) (blank : Bool) (len : Nat) : Nat :=
  (if len = 0 then (if blank then width else 0) else width) + len + 1

/-- length of the output of `indent` for the given line lengths (ASCII input) -/
def indentOutLen (width : Nat) (first blank : Bool) (lines : List Nat) : Nat :=
  match lines with
  | [] => 0
  | l0 :: rest =>
    let head := if first then indentLine width blank l0 else l0 + 1
    let total := head + (rest.map (indentLine width blank)).sum
    total - 1            -- the trailing newline is stripped again (no '\r' can precede it here)

def indentK (width : Option Nat) (first blank : Bool) (input : List Char) : Chk (Out Nat) :=
  match width with
  | none => pure err
  | some width =>
    let lines := splitNlLens (stripTrailingNewline input)
    match checkedMul width lines.length with
    | none => pure err
    | some added =>
      if added ≤ Gen.maxRepeatedStringLen then
        pure { allocs := [width, added], res := .ok (indentOutLen width first blank lines) }
      else pure err

def tojsonIndentK (indent : Option Nat) : Chk (Out Nat) :=
  match indent with
  | none => pure err
  | some indent =>
    if indent > Gen.maxRepeatedStringLen then pure err
    else pure { allocs := [indent], res := .ok indent }

/-! ## `formatting.rs`: width and precision of a format spec -/

/-- a width or precision handed to `std::fmt` must fit `u16` ("Formatting argument out of range") -/
def fmtArg (x : Nat) : Chk Nat := if x ≤ 65535 then .ok x else .panic

/-- `parse_limited_number(cursor, MAX_WIDTH, …)` then padding a field of `cur` characters -/
def fmtWidthK (width : Option Nat) (cur : Nat) : Chk (Out Nat) :=
  match width with
  | none => pure err                                   -- does not parse as `usize`
  | some w =>
    if w > Gen.fmtMaxWidth then pure err
    else pure { allocs := [w - cur], res := .ok (max w cur) }

/-- precision: `%f`/`%e` pass it on unchanged, `%g` asks for up to three more digits
    (`decimal_places = precision - 1 - exp` with `exp ≥ -4`) -/
def fmtPrecisionK (precision : Option Nat) (extra : Nat) : Chk (Out Nat) :=
  match precision with
  | none => pure err
  | some p =>
    if p > Gen.fmtMaxPrecision then pure err
    else do
      let a ← fmtArg (p + extra)
      pure { allocs := [a], res := .ok a }

/-! ## `filters::batch`, `filters::slice` (count arithmetic; after commit cea73bf) -/

/-- `Vec::try_reserve_exact(n)` for elements of `valueSize` bytes when the allocator would grant
    `mem` bytes: capacity overflow above `isize::MAX`, allocator refusal above `mem` -/
def tryReserve (mem n : Nat) : Bool := n * valueSize ≤ isizeMax && n * valueSize ≤ mem

/-- what is left in `tmp` after the loop -/
def batchRest (len count : Nat) : Nat := if len = 0 then 0 else (len - 1) % count + 1

def batchK (mem len : Nat) (count : Option Nat) (fill : Bool) : Chk (Out (List Nat)) :=
  match count with
  | none => pure err
  | some count =>
    if count = 0 then pure err
    else do
      let rvCap ← udiv len count                                  -- `value.len().unwrap_or(0) / count`
      let tmpCap := min count Gen.untrustedSizeHintCap            -- `untrusted_size_hint(count)`
      let rest := batchRest len count
      let fullBatches := if len = 0 then 0 else (len - 1) / count
      if rest = 0 then pure { allocs := [rvCap, tmpCap], res := .ok [] }
      else if fill then do
        let missing ← usub count rest                             -- `count - tmp.len()`
        if tryReserve mem missing then
          pure { allocs := [rvCap, tmpCap], tryAllocs := [missing],
                 res := .ok (List.replicate fullBatches count ++ [count]) }
        else pure { allocs := [rvCap, tmpCap], tryAllocs := [missing], res := .error }
      else pure { allocs := [rvCap, tmpCap], res := .ok (List.replicate fullBatches count ++ [rest]) }

/-- one round of the `for slice in 0..count` loop: length of the produced column.
    `offset` before the round is `min slice extra` (it is incremented while `slice < extra`). -/
def sliceColumn (len ips extra : Nat) (fill : Bool) (s : Nat) : Chk Nat :=
  let start := min s extra + s * ips                  -- `offset + slice * items_per_slice`
  let stop := min (s + 1) extra + (s + 1) * ips       -- `offset + (slice + 1) * items_per_slice`
  if start < 18446744073709551616 ∧ stop < 18446744073709551616 then        -- `usize` arithmetic
    if start ≤ stop ∧ stop ≤ len then                                       -- `&items[start..end]`
      .ok (stop - start + (if fill && decide (s ≥ extra) then 1 else 0))
    else .panic
  else .panic

def sliceFK (mem len : Nat) (count : Option Nat) (fill : Bool) : Chk (Out (List Nat)) :=
  match count with
  | none => pure err
  | some count =>
    if count = 0 then pure err
    else if tryReserve mem count = false then pure { tryAllocs := [count], res := .error }
    else do
      let ips ← udiv len count
      let extra ← urem len count
      let cols ← (List.range count).mapM (sliceColumn len ips extra fill)
      pure { tryAllocs := [count], res := .ok cols }

/-! ## lexer `advance` / `syntax_error` (after commit ec1cf0d) and `debug::render_debug_info` -/

structure Pos where
  line : Nat
  col : Nat
  deriving Repr, DecidableEq

/-- `advance` over one character: `u16::saturating_add` -/
def advanceChar (p : Pos) (c : Char) : Chk Pos :=
  if c = '\n' then do
    let l ← u16N (min (p.line + 1) 65535)
    pure ⟨l, 0⟩
  else do
    let k ← u16N (min (p.col + 1) 65535)
    pure ⟨p.line, k⟩

def advance (p : Pos) : List Char → Chk Pos
  | [] => pure p
  | c :: cs => do
    let p' ← advanceChar p c
    advance p' cs

/-- `syntax_error`: an empty span is widened by one column (saturating) -/
def widen (startCol endCol : Nat) : Chk Nat :=
  if startCol = endCol then u16N (min (endCol + 1) 65535) else pure endCol

/-- the caret line of `render_debug_info`: `" ".repeat(start_col)`, `"^".repeat(end_col ⊖ start_col)`
    (`saturating_sub`) -/
def caretCount (startCol endCol : Nat) : Chk Nat := usizeN (endCol - startCol)

/-- a lexer error after skipping `text`: (line, spaces, carets) as the debug output shows them -/
def lexErrK (text : List Char) : Chk (Out (Nat × Nat × Nat)) :=
  match advance ⟨1, 0⟩ text with
  | .panic => .panic
  | .ok p =>
    match widen p.col p.col with
    | .panic => .panic
    | .ok e =>
      match caretCount p.col e with
      | .panic => .panic
      | .ok carets => .ok { allocs := [p.col, carets], res := .ok (p.line, p.col, carets) }

/-! ## `Loop` attributes (`vm/loop_object.rs: get_value_by_str`) -/

structure LoopAttrs where
  index0 : Nat
  index : Nat
  length : Option Nat
  revindex : Option Nat
  revindex0 : Option Nat
  first : Bool
  last : Bool
  depth : Nat
  depth0 : Nat
  deriving Repr, DecidableEq

/-- `a + b` on `u64` -/
def u64Add (a b : Nat) : Chk Nat := if a + b < 18446744073709551616 then .ok (a + b) else .panic

/-- `a.saturating_sub(b)` -/
def usat (a b : Nat) : Nat := a - b

/-- `idx` = the loop counter as `u64` (`!0` before the first item: every attribute is undefined),
    `len` = `Some` for iterators with an exact size hint, `depth` = recursion depth of the loop.
    State space: `LoopState::next` bumps the counter *before* asking the iterator, so inside the body
    `idx < len`, but an exhausted loop has `idx = len` — and the loop object can outlive its loop
    (`{% set ns.l = loop %}`), so every `idx` has to be handled (an iterator whose size hint lies makes
    any `idx` possible). -/
def loopAttrsK (idx : Nat) (len : Option Nat) (depth : Nat) : Chk (Option LoopAttrs) :=
  if idx = 18446744073709551615 then pure none
  else do
    let index ← u64Add idx 1                                     -- `idx + 1`
    let last ← match len with
      | none => pure false
      | some l => if l = 0 then pure true else do                -- `len == 0 || idx == len - 1`
          let m ← usub l 1
          pure (idx == m)
    let d1 ← usizeN (depth + 1)                                  -- `self.depth + 1`
    pure (some { index0 := idx, index := index, length := len,
                 revindex := len.map (fun l => usat l idx),      -- `len.saturating_sub(idx)`
                 revindex0 := len.map (fun l => usat (usat l idx) 1),
                 first := idx == 0, last := last, depth := d1, depth0 := depth })

/-! ## `formatting.rs: apply_zero_padding` with a grouping option -/

/-- length of `Self::group(num, sep, g)` for `n` digits: one separator before every full group but
    the first -/
def groupedLen (n g : Nat) : Nat := if n = 0 then 0 else n + (n - 1) / g

/-- is position `i` of the grouped string a separator?  The first group has `n % g` digits (`g` if
    that is 0), then separator and `g` digits alternate. -/
def isSepAt (n g i : Nat) : Bool :=
  let r := if n % g = 0 then g else n % g
  decide (r ≤ i) && ((i - r) % (g + 1) == 0) && decide (i < groupedLen n g)

/-- `numLen` = length of the (already grouped) number, `prefixLen` = its part before the first
    separator, `fill` = zeros to insert, `g` = group size; result: length of the padded string -/
def zeroPadK (numLen prefixLen fill g : Nat) : Chk (Out Nat) :=
  if g = 0 then .panic                                            -- `num.len() % group_size`
  else do
    let n := prefixLen + fill                                     -- `zero_padded_prefix.len()`
    let glen := groupedLen n g
    let t1 ← usub glen prefixLen
    let trim ← usub t1 fill                                       -- `trim_index`
    if trim ≤ glen then                                           -- `&grouped_prefix[trim_index..]`
      pure { allocs := [fill], res := .ok ((if isSepAt n g trim then 1 else 0) + (glen - trim) + (numLen - prefixLen)) }
    else .panic

/-! ## filter / test local ids: `codegen.rs: get_local_id` and `vm/mod.rs: get_or_lookup_local`

The code generator hands every distinct filter (test) name of an instruction stream a small id; the
VM caches the looked-up filter in `loaded_filters: [None; MAX_LOCALS]` under that id.  `!0` (255)
means "not cached".  A width boundary shared by two files. -/

/-- position of a name in the table (`ids.get(name)`) -/
def indexOfName : List String → String → Option Nat
  | [], _ => none
  | a :: as, n => if a = n then some 0 else (indexOfName as n).map (· + 1)

/-- the sentinel `!0` of `LocalId = u8` -/
def noLocalId : Nat := 255

/-- `get_local_id`: the ids handed out so far (`ids[i]` = name with id `i`) and the id for `name`;
    `limit` = `MAX_LOCALS` as the code generator sees it -/
def getLocalId (limit : Nat) (ids : List String) (name : String) : List String × Nat :=
  match indexOfName ids name with
  | some i => (ids, i)
  | none =>
    if ids.length ≥ limit then (ids, noLocalId)
    else (ids ++ [name], ids.length % 256)                       -- `ids.len() as LocalId`

/-- the ids of a sequence of filter applications -/
def assignLocalIds (limit : Nat) : List String → List String → List Nat
  | _, [] => []
  | ids, n :: ns => let r := getLocalId limit ids n; r.2 :: assignLocalIds limit r.1 ns

/-- `get_or_lookup_local(vec, idx, f)` on an array of `slots` entries: `vec.get(idx)` is `None` beyond
    the array, and then `vec[idx] = Some(val)` is out of bounds -/
def lookupLocal (slots idx : Nat) : Chk Unit :=
  if idx = noLocalId then .ok ()
  else if idx < slots then .ok ()
  else .panic

/-! ## `value/merge_object.rs: MergeSeq` — the depth of lazily concatenated sequences is bounded -/

/-- a value as far as concatenation is concerned: something else, or a `MergeSeq` with its stored
    `depth` and its parts -/
inductive MS where
  | leaf
  | node (depth : Nat) (children : List MS)

def MS.stored : MS → Nat
  | .leaf => 0
  | .node d _ => d

/-- `depth_for_values`: deepest `MergeSeq` among the parts (0 if none), plus one -/
def depthForValues (vs : List MS) : Nat := (vs.map MS.stored).foldl max 0 + 1

mutual
  /-- `push_flattened_value`: the non-`MergeSeq` values below, in order -/
  def MS.flatten : MS → List MS
    | .leaf => [.leaf]
    | .node _ cs => flattenList cs
  def flattenList : List MS → List MS
    | [] => []
    | c :: cs => c.flatten ++ flattenList cs
end

/-- `MergeSeq::with_repr` -/
def mkMergeSeq (maxDepth : Nat) (vs : List MS) : MS :=
  let d := depthForValues vs
  if d > maxDepth then
    let fl := flattenList vs
    .node (depthForValues fl) fl
  else .node d vs

mutual
  /-- how deep iteration / `len` really recurse -/
  def MS.real : MS → Nat
    | .leaf => 0
    | .node _ cs => realMax cs + 1
  def realMax : List MS → Nat
    | [] => 0
    | c :: cs => max c.real (realMax cs)
end

/-! ## The kernels as they were before the C01 fixes (the panics that were found) -/
namespace Legacy

/-- `args.get(idx % args.len())` -/
def cycleK (idx argc : Nat) : Chk (Option Nat) := do
  let i ← urem idx argc
  pure (if i < argc then some i else none)

/-- `((start - end + (-step) - 1) / (-step)) as usize` in `isize` -/
def negStepLen (lo hi s : Int) : Chk Nat :=
  if lo ≤ hi then pure 0 else do
    let a ← i64 (lo - hi)
    let n ← i64 (-s)
    let b ← i64 (a + n)
    let c ← i64 (b - 1)
    if n = 0 then .panic else pure (Chk.asUsize (c / n))

/-- `span.end_col += 1` on a `u16` -/
def widen (startCol endCol : Nat) : Chk Nat :=
  if startCol = endCol then u16N (endCol + 1) else pure endCol

/-- `get_local_id` with the limit check one off (`len > MAX_LOCALS`): the name after the last cached
    one gets an id one past the VM's array -/
def getLocalIdGt (limit : Nat) (ids : List String) (name : String) : List String × Nat :=
  match indexOfName ids name with
  | some i => (ids, i)
  | none => if ids.length > limit then (ids, noLocalId) else (ids ++ [name], ids.length % 256)

/-- `depth_for_values` looking only at the FIRST `MergeSeq` operand instead of the deepest one -/
def depthForValuesFirst (vs : List MS) : Nat :=
  match vs.find? (fun v => match v with | .node _ _ => true | .leaf => false) with
  | some v => v.stored + 1
  | none => 1

/-- `with_repr` on top of it -/
def mkMergeSeqFirst (maxDepth : Nat) (vs : List MS) : MS :=
  let d := depthForValuesFirst vs
  if d > maxDepth then
    let fl := flattenList vs
    .node (depthForValuesFirst fl) fl
  else .node d vs

/-- a fresh concatenation `[i] + [i]` put in front of the accumulator, `k` times -/
def freshFirst (maxDepth : Nat) : Nat → MS
  | 0 => .leaf
  | k + 1 => mkMergeSeqFirst maxDepth [mkMergeSeqFirst maxDepth [.leaf, .leaf], freshFirst maxDepth k]

/-- `revindex0` with plain subtraction (`len - idx - 1`): fine inside the body, underflows on the
    exhausted loop object -/
def revindex0Plain (idx len : Nat) : Chk Nat := do
  let a ← usub len idx
  usub a 1

/-- `" ".repeat(width)`: `Vec::with_capacity(width)` panics above `isize::MAX`, otherwise the
    allocation is as large as the template says -/
def indentAlloc (width : Nat) : Chk (List Nat) :=
  if width ≤ isizeMax then pure [width] else .panic

end Legacy

end MJ.Kernels
