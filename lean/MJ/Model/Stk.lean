/-!
# Operand-stack discipline of instruction streams (C01, `no_underflow`)

`minijinja/src/vm/mod.rs: eval_impl` and `vm/context.rs: Stack`, abstracted to what matters for the
`unwrap`s and slice indexes on the operand stack:

* `Stack::pop`/`peek` (`unwrap` on an empty stack), `reverse_top(n)`, `drop_top(n)`,
  `get_call_args(Some n)` (`len - n` underflow, slice index), `get_call_args(None)` and
  `BuildList(None)`/`BuildTuple(None)` (`pop().try_into::<usize>().unwrap()`: the top must be a
  number `k`, and `k` more values must be there), `args[0]` of `CallMethod`/`CallObject`,
  `build_macro` (`pop().try_iter().unwrap()`: the top must be a list).

* `Cell`: what the machine knows about a value on the operand stack: a number (`num n`, the only
  values whose content matters: dynamic argument counts), a list of known length (`list m`), or
  anything (`other`).
* `Instr`: the stack-relevant instruction alphabet; `harness/src/bin/c01.rs: stk_tok` maps every
  variant of the real `Instruction` enum to it (exhaustive match).
* `State`/`Step`/`pre`: the machine of one `eval_impl` activation.  `pre i s` is the precondition
  under which the Rust code of instruction `i` does not panic on the operand stack in state `s`;
  `Step` is only defined when it holds.  Values pushed by an instruction are arbitrary cells, so
  a run of the machine exists for every run of the engine (conditions, iterators, filter results,
  errors — a failing instruction just ends the run — are not modelled).
  Recursive loops: `loop(x)` (`CallFunction` on a loop object with one argument) and `FastRecurse`
  jump to a recursive `PushLoop` with the argument on top and come back through the `PopLoopFrame`
  of that loop.  The machine keeps the operand stack *relative to the recursion level*: the
  caller's stack is saved (`Saved`) and the re-entered loop body starts on `[arg]`; the engine's
  stack is the concatenation of the saved stacks and the current one, so "no relative underflow"
  implies "no underflow".  When the re-entered loop ends, whatever its level left on the stack (the
  flag for an `else` block) is dropped (`stack.truncate(base)`) and the caller continues with the
  captured output pushed.  A recursion may target ANY recursive loop of the stream (the engine:
  only loops whose object the template got hold of).
* `Abs`/`AE`: abstract stacks.  `v` one arbitrary value, `z`/`o` the constants 0 and 1, `l m` a
  list of `m` items, `s min` a *counted segment* (`k ≥ min` values with the number `k` on top: what
  `UnpackLists` leaves and what `BuildList(None)`/`get_call_args(None)` consume), `p min` a counted
  segment whose count is one behind (the state between `Swap` and `Add` of the filtered-loop
  idiom `LoadConst 0 … [Swap; LoadConst 1; Add | DiscardTop] … BuildList(None)`, where the count is
  computed by the loop and the height at the loop head differs from path to path).
* `checkStk code cert`: the certificate checker (`cert[pc]` = abstract stack and live loops when
  `pc` is about to execute); soundness theorem in `MJ/Props/C01.lean`.
* `inferStk`: untrusted forward pass with joins that proposes a certificate.
-/
namespace MJ.Stk

/-! ## Alphabet -/

inductive Instr where
  /-- pops `pops` values, pushes `pushes` arbitrary values -/
  | eff (pops pushes : Nat)
  /-- `LoadConst` of the integer 0 / 1 / of a list constant with `m` items -/
  | loadZero
  | loadOne
  | loadList (m : Nat)
  /-- `BuildList(Some n)` -/
  | buildList (n : Nat)
  /-- `BuildList(None)`, `BuildTuple(None)`: the count is popped from the stack -/
  | buildDyn
  /-- `UnpackLists(n)`: pops `n` lists, pushes all their items and then the number of items -/
  | unpackLists (n : Nat)
  /-- a call with a static argument count `n` (`get_call_args(Some n)`, `drop_top(n)`, push):
      `recv` = `args[0]` is used (`CallMethod`, `CallObject`), `fn` = `CallFunction` (may be `loop(x)`) -/
  | call (n : Nat) (recv fn : Bool)
  /-- a call with a dynamic argument count (`get_call_args(None)`) -/
  | callDyn (recv fn : Bool)
  | swap
  | add
  | dupTop
  /-- `BuildMacro(_, offset, _)`; `nargs` = length of the argument-name list loaded before it -/
  | buildMacro (offset nargs : Nat)
  | pushLoop (recursive : Bool)
  | iterate (t : Nat)
  | popLoopFrame
  | jump (t : Nat)
  | jumpIfFalse (t : Nat)
  | jumpIfFalseOrPop (t : Nat)
  | jumpIfTrueOrPop (t : Nat)
  | fastRecurse
  | ret
  deriving DecidableEq, Repr, Inhabited

abbrev Code := Array Instr

/-! ## The machine -/

inductive Cell where
  | num (n : Nat)
  | list (m : Nat)
  | other
  deriving DecidableEq, Repr

/-- a suspended caller of a loop recursion -/
structure Saved where
  stack : List Cell
  loops : List Bool
  ret : Nat
  /-- `loop(x)` captures the output of the recursion and pushes it; `FastRecurse` does not -/
  capture : Bool
  deriving DecidableEq, Repr

structure State where
  pc : Nat
  /-- operand stack of the current recursion level, top first -/
  stack : List Cell
  /-- live loops of the current recursion level, innermost first; `true` = the loop this level was
      entered through (its frame carries `current_recursion_jump`) -/
  loops : List Bool
  saved : List Saved
  deriving DecidableEq, Repr

def minArgs (recv : Bool) : Nat := if recv then 1 else 0

/-- the operand-stack precondition of an instruction: the Rust code does not panic -/
def pre (i : Instr) (s : State) : Bool :=
  match i with
  | .eff a _ => decide (a ≤ s.stack.length)
  | .loadZero => true
  | .loadOne => true
  | .loadList _ => true
  | .buildList n => decide (n ≤ s.stack.length)
  | .buildDyn =>
    match s.stack with
    | .num k :: rest => decide (k ≤ rest.length)
    | _ => false
  | .unpackLists n => decide (n ≤ s.stack.length)
  | .call n recv _ => decide (n ≤ s.stack.length) && decide (minArgs recv ≤ n)
  | .callDyn recv _ =>
    match s.stack with
    | .num k :: rest => decide (k ≤ rest.length) && decide (minArgs recv ≤ k)
    | _ => false
  | .swap => decide (2 ≤ s.stack.length)
  | .add => decide (2 ≤ s.stack.length)
  | .dupTop => decide (1 ≤ s.stack.length)
  | .buildMacro _ _ =>
    match s.stack with
    | .list _ :: _ :: _ => true
    | _ => false
  | .pushLoop _ => decide (1 ≤ s.stack.length)
  | .iterate _ => !s.loops.isEmpty
  | .popLoopFrame =>
    match s.loops with
    | [] => false
    | false :: _ => true
    | true :: _ => !s.saved.isEmpty
  | .jump _ => true
  | .jumpIfFalse _ => decide (1 ≤ s.stack.length)
  | .jumpIfFalseOrPop _ => decide (1 ≤ s.stack.length)
  | .jumpIfTrueOrPop _ => decide (1 ≤ s.stack.length)
  | .fastRecurse => decide (1 ≤ s.stack.length)
  | .ret => true

/-- straight-line instructions: the stack afterwards (nondeterministic in the pushed values) -/
inductive StkStep : Instr → List Cell → List Cell → Prop where
  | eff (a b : Nat) (st cs : List Cell) : cs.length = b → StkStep (.eff a b) st (cs ++ st.drop a)
  | loadZero (st) : StkStep .loadZero st (.num 0 :: st)
  | loadOne (st) : StkStep .loadOne st (.num 1 :: st)
  | loadList (m st) : StkStep (.loadList m) st (.list m :: st)
  | buildList (n st) : StkStep (.buildList n) st (.list n :: st.drop n)
  | buildDyn (k rest c) : StkStep .buildDyn (.num k :: rest) (c :: rest.drop k)
  /-- the popped values yield `items` (a `list m` exactly `m` of them); then the count is pushed -/
  | unpackLists (n st) (items : List Cell) :
      (st.take n).foldl (fun acc c => match c with | .list m => acc + m | _ => acc) 0 ≤ items.length →
      StkStep (.unpackLists n) st (.num items.length :: items ++ st.drop n)
  | call (n recv fn st c) : StkStep (.call n recv fn) st (c :: st.drop n)
  | callDyn (recv fn k rest c) : StkStep (.callDyn recv fn) (.num k :: rest) (c :: rest.drop k)
  | swap (a b rest) : StkStep .swap (a :: b :: rest) (b :: a :: rest)
  | addNum (x y rest) : StkStep .add (.num y :: .num x :: rest) (.num (x + y) :: rest)
  | addOther (a b rest c) : (∀ x y, ¬ (a = .num y ∧ b = .num x)) → StkStep .add (a :: b :: rest) (c :: rest)
  | dupTop (a rest) : StkStep .dupTop (a :: rest) (a :: a :: rest)
  | buildMacro (o n m x rest c) : StkStep (.buildMacro o n) (.list m :: x :: rest) (c :: rest)

/-- may the instruction at the call site start a loop recursion?  `(arg, rest, capture)`: the
    iterable handed to the re-entered `PushLoop`, the caller's stack below it, and whether the output
    of the recursion is captured and pushed (`loop(x)`) or not (`FastRecurse`) -/
def recursionSite (i : Instr) (st : List Cell) : Option (Cell × List Cell × Bool) :=
  match i, st with
  | .call 1 _ true, a :: rest => some (a, rest, true)
  | .callDyn _ true, .num 1 :: a :: rest => some (a, rest, true)
  | .fastRecurse, a :: rest => some (a, rest, false)
  | _, _ => none

def Cell.isNum : Cell → Bool
  | .num _ => true
  | _ => false

inductive Step (code : Code) : State → State → Prop where
  | straight {s i st'} : code[s.pc]? = some i → pre i s = true → StkStep i s.stack st' →
      Step code s { s with pc := s.pc + 1, stack := st' }
  /-- the re-entered `PushLoop` pops `arg`; a number is not iterable (`push_loop` fails, the run ends) -/
  | recurse {s i t arg rest cap} : code[s.pc]? = some i → pre i s = true →
      recursionSite i s.stack = some (arg, rest, cap) → arg.isNum = false →
      code[t]? = some (.pushLoop true) →
      Step code s { pc := t + 1, stack := [], loops := [true],
                    saved := ⟨rest, s.loops, s.pc + 1, cap⟩ :: s.saved }
  | pushLoop {s r a rest} : code[s.pc]? = some (.pushLoop r) → s.stack = a :: rest →
      Step code s { s with pc := s.pc + 1, stack := rest, loops := false :: s.loops }
  | iterNext {s t c} : code[s.pc]? = some (.iterate t) → s.loops ≠ [] →
      Step code s { s with pc := s.pc + 1, stack := c :: s.stack }
  | iterEnd {s t} : code[s.pc]? = some (.iterate t) → s.loops ≠ [] →
      Step code s { s with pc := t }
  | popLoop {s L} : code[s.pc]? = some .popLoopFrame → s.loops = false :: L →
      Step code s { s with pc := s.pc + 1, loops := L }
  /-- the end of a loop that was entered through a recursion: whatever the level left on the stack
      (the flag for an `else` block) is dropped (`stack.truncate(base)`), the caller continues -/
  | popLoopRet {s L sv rest r} : code[s.pc]? = some .popLoopFrame → s.loops = true :: L →
      s.saved = sv :: rest → r.length = (if sv.capture then 1 else 0) →
      Step code s { pc := sv.ret, stack := r ++ sv.stack, loops := sv.loops, saved := rest }
  | jump {s t} : code[s.pc]? = some (.jump t) → Step code s { s with pc := t }
  | jumpIfFalseFall {s t a rest} : code[s.pc]? = some (.jumpIfFalse t) → s.stack = a :: rest →
      Step code s { s with pc := s.pc + 1, stack := rest }
  | jumpIfFalseJump {s t a rest} : code[s.pc]? = some (.jumpIfFalse t) → s.stack = a :: rest →
      Step code s { s with pc := t, stack := rest }
  | orPopFall {s t a rest} : (code[s.pc]? = some (.jumpIfFalseOrPop t) ∨ code[s.pc]? = some (.jumpIfTrueOrPop t)) →
      s.stack = a :: rest → Step code s { s with pc := s.pc + 1, stack := rest }
  | orPopJump {s t a rest} : (code[s.pc]? = some (.jumpIfFalseOrPop t) ∨ code[s.pc]? = some (.jumpIfTrueOrPop t)) →
      s.stack = a :: rest → Step code s { s with pc := t }

/-- straight-line instructions (handled by `StkStep`) -/
def isStraight : Instr → Bool
  | .pushLoop _ | .iterate _ | .popLoopFrame | .jump _ | .jumpIfFalse _ | .jumpIfFalseOrPop _
  | .jumpIfTrueOrPop _ | .ret | .fastRecurse => false
  | _ => true

/-- region entries: pc 0 on an empty stack, every macro body on its `nargs` argument values -/
def macroEntries : List Instr → List (Nat × Nat)
  | [] => []
  | .buildMacro o n :: is => (o, n) :: macroEntries is
  | _ :: is => macroEntries is

def entries (code : Code) : List (Nat × Nat) := (0, 0) :: macroEntries code.toList

def Init (code : Code) (s : State) : Prop :=
  ∃ e ∈ entries code, s.pc = e.1 ∧ s.stack.length = e.2 ∧ s.loops = [] ∧ s.saved = []

inductive Reach (code : Code) : State → State → Prop where
  | refl (s : State) : Reach code s s
  | tail {s m t} : Reach code s m → Step code m t → Reach code s t

/-! ## Abstract stacks and the certificate checker -/

inductive AE where
  | v
  | z
  | o
  | l (m : Nat)
  | s (min : Nat)
  | p (min : Nat)
  deriving DecidableEq, Repr

def AE.single : AE → Bool
  | .v | .z | .o | .l _ => true
  | _ => false

/-- `a ⊑ b`: everything `a` describes is described by `b` -/
def AE.le : AE → AE → Bool
  | .v, .v => true
  | .z, .z => true
  | .z, .v => true
  | .z, .s m => m == 0
  | .o, .o => true
  | .o, .v => true
  | .l m, .l n => m == n
  | .l _, .v => true
  | .s a, .s b => decide (b ≤ a)
  | .p a, .p b => decide (b ≤ a)
  | _, _ => false

def leStk : List AE → List AE → Bool
  | [], [] => true
  | a :: as, b :: bs => a.le b && leStk as bs
  | _, _ => false

structure Abs where
  stk : List AE
  loops : List Nat
  deriving DecidableEq, Repr

abbrev Cert := Array (Option Abs)

def look (cert : Cert) (pc : Nat) : Option Abs :=
  match cert[pc]? with
  | some (some a) => some a
  | _ => none

/-- guaranteed number of items a popped value contributes to `UnpackLists` -/
def minItems : AE → Nat
  | .l m => m
  | _ => 0

def sumMin (xs : List AE) : Nat := xs.foldl (fun acc a => acc + minItems a) 0

/-- abstract effect of the straight-line instructions -/
def absStk (i : Instr) (stk : List AE) : Option (List AE) :=
  match i with
  | .eff a b =>
    if a ≤ stk.length ∧ (stk.take a).all AE.single then some (List.replicate b .v ++ stk.drop a) else none
  | .loadZero => some (.z :: stk)
  | .loadOne => some (.o :: stk)
  | .loadList m => some (.l m :: stk)
  | .buildList n =>
    if n ≤ stk.length ∧ (stk.take n).all AE.single then some (.l n :: stk.drop n) else none
  | .buildDyn =>
    match stk with
    | .s _ :: rest => some (.v :: rest)
    | .z :: rest => some (.v :: rest)
    | _ => none
  | .unpackLists n =>
    if n ≤ stk.length ∧ (stk.take n).all AE.single then some (.s (sumMin (stk.take n)) :: stk.drop n) else none
  | .call n recv _ =>
    if n ≤ stk.length ∧ (stk.take n).all AE.single ∧ minArgs recv ≤ n then some (.v :: stk.drop n) else none
  | .callDyn recv _ =>
    match stk with
    | .s k :: rest => if minArgs recv ≤ k then some (.v :: rest) else none
    | .z :: rest => if minArgs recv = 0 then some (.v :: rest) else none
    | _ => none
  | .swap =>
    match stk with
    | a :: .s k :: rest => if a.single then some (.p k :: rest) else none
    -- a value above the constant 0: the constant is the count of an (empty) counted segment
    | a :: .z :: rest => if a.single then some (.p 0 :: rest) else none
    | a :: b :: rest => if a.single ∧ b.single then some (b :: a :: rest) else none
    | _ => none
  | .add =>
    match stk with
    | .o :: .p k :: rest => some (.s (k + 1) :: rest)
    | a :: b :: rest => if a.single ∧ b.single then some (.v :: rest) else none
    | _ => none
  | .dupTop =>
    match stk with
    | a :: rest => if a.single then some (a :: a :: rest) else none
    | _ => none
  | .buildMacro _ _ =>
    match stk with
    | .l _ :: x :: rest => if x.single then some (.v :: rest) else none
    | _ => none
  | _ => none

/-- the CFG edges leaving `pc` with the abstract state each successor carries -/
def absEdges (pc : Nat) (i : Instr) (A : Abs) : Option (List (Nat × Abs)) :=
  match i with
  | .pushLoop _ =>
    match A.stk with
    | a :: rest => if a.single then some [(pc + 1, ⟨rest, pc :: A.loops⟩)] else none
    | _ => none
  | .iterate t => if A.loops.isEmpty then none else some [(pc + 1, ⟨.v :: A.stk, A.loops⟩), (t, A)]
  | .popLoopFrame =>
    match A.loops with
    | _ :: L => some [(pc + 1, ⟨A.stk, L⟩)]
    | [] => none
  | .jump t => some [(t, A)]
  | .jumpIfFalse t =>
    match A.stk with
    | a :: rest => if a.single then some [(pc + 1, ⟨rest, A.loops⟩), (t, ⟨rest, A.loops⟩)] else none
    | _ => none
  | .jumpIfFalseOrPop t =>
    match A.stk with
    | a :: rest => if a.single then some [(pc + 1, ⟨rest, A.loops⟩), (t, A)] else none
    | _ => none
  | .jumpIfTrueOrPop t =>
    match A.stk with
    | a :: rest => if a.single then some [(pc + 1, ⟨rest, A.loops⟩), (t, A)] else none
    | _ => none
  | .ret => some []
  | .fastRecurse =>
    -- no straight successor: either an error or a recursion that comes back to `pc + 1` without the
    -- argument; a counted segment on top means the argument is a number: `push_loop` fails
    match A.stk with
    | .s _ :: _ => some []
    | a :: rest => if a.single then some [(pc + 1, ⟨rest, A.loops⟩)] else none
    | _ => none
  | i =>
    match absStk i A.stk with
    | some out => some [(pc + 1, ⟨out, A.loops⟩)]
    | none => none

def isRecLoop (code : Code) (t : Nat) : Bool := code[t]? == some (.pushLoop true)

/-- the floor of a recursive loop: the height of the operand stack below its iterable -/
def floorOf (cert : Cert) (t : Nat) : Option Nat :=
  match look cert t with
  | some B => if B.stk.length = 0 then none else some (B.stk.length - 1)
  | none => none

/-- the floors the stack must respect at a pc whose live loops are `loops`: 0 (the recursion level
    the region was entered at) and the floor of every live recursive loop (the pc may be executing
    in a recursion level entered through that loop); `none` if such a loop is not certified -/
def floorsOf (code : Code) (cert : Cert) : List Nat → Option (List Nat)
  | [] => some [0]
  | t :: L =>
    match floorsOf code cert L with
    | none => none
    | some fs =>
      if isRecLoop code t then
        match floorOf cert t with
        | some f => some (f :: fs)
        | none => none
      else some fs

/-- the edges of `pc`, computed on the part of the abstract stack above floor `f`, are certified -/
def checkAt (code : Code) (cert : Cert) (pc : Nat) (A : Abs) (f : Nat) : Bool :=
  decide (f ≤ A.stk.length) &&
  (match code[pc]? with
   | none => true
   | some i =>
     let hi := A.stk.take (A.stk.length - f)
     let lo := A.stk.drop (A.stk.length - f)
     match absEdges pc i ⟨hi, A.loops⟩ with
     | none => false
     | some es => es.all (fun (e : Nat × Abs) =>
         match look cert e.1 with
         | some C => leStk (e.2.stk ++ lo) C.stk && decide (e.2.loops = C.loops)
         | none => false))

def checkPc (code : Code) (cert : Cert) (pc : Nat) : Bool :=
  match look cert pc with
  | none => true
  | some A =>
    match floorsOf code cert A.loops with
    | none => false
    | some fs =>
      fs.all (checkAt code cert pc A)

def checkStk (code : Code) (cert : Cert) : Bool :=
  (entries code).all (fun e => decide (look cert e.1 = some ⟨List.replicate e.2 .v, []⟩)) &&
  -- every recursive loop is certified (a recursion may enter it)
  (List.range code.size).all (fun t => !isRecLoop code t || (floorOf cert t).isSome) &&
  (List.range cert.size).all (fun pc => checkPc code cert pc)

/-! ## Untrusted inference of a certificate (forward propagation with joins) -/

def AE.join (a b : AE) : Option AE :=
  if a.le b then some b else if b.le a then some a
  else match a, b with
    | .z, .s _ => some (.s 0)
    | .s _, .z => some (.s 0)
    | .s x, .s y => some (.s (min x y))
    | .p x, .p y => some (.p (min x y))
    | x, y => if x.single ∧ y.single then some .v else none

def joinStk : List AE → List AE → Option (List AE)
  | [], [] => some []
  | a :: as, b :: bs =>
    match a.join b, joinStk as bs with
    | some c, some cs => some (c :: cs)
    | _, _ => none
  | _, _ => none

/-- edges of `pc` on the whole abstract stack (the inference ignores floors) -/
def edgesAt (code : Code) (_cert : Cert) (pc : Nat) (A : Abs) : Option (List (Nat × Abs)) :=
  match code[pc]? with
  | some i => absEdges pc i A
  | none => none

def propagate (code : Code) : Nat → List Nat → Cert → Cert
  | 0, _, cert => cert
  | _, [], cert => cert
  | fuel + 1, pc :: work, cert =>
    match look cert pc with
    | some A =>
      match edgesAt code cert pc A with
      | none => propagate code fuel work cert
      | some es =>
        let (cert', work') := es.foldl (fun (acc : Cert × List Nat) (e : Nat × Abs) =>
          if e.1 < acc.1.size then
            match look acc.1 e.1 with
            | none => (acc.1.set! e.1 (some e.2), e.1 :: acc.2)
            | some C =>
              if leStk e.2.stk C.stk then acc
              else match joinStk e.2.stk C.stk with
                | some j => (acc.1.set! e.1 (some ⟨j, C.loops⟩), e.1 :: acc.2)
                | none => acc
          else acc) (cert, work)
        propagate code fuel work' cert'
    | none => propagate code fuel work cert

/-- is some recursive loop of the stream left without a state? -/
def hasDeadRecLoop (code : Code) (cert : Cert) : Bool :=
  (List.range code.size).any (fun t => isRecLoop code t && (look cert t).isNone)

/-- the first pc without a state that directly follows an unconditional `Jump` with a state: dead code
    behind `{% break %}` / `{% continue %}`; statements leave the operand stack as they found it, so the
    state in front of the jump is proposed for the code behind it -/
def deadSeed (code : Code) (cert : Cert) : Option (Nat × Abs) :=
  (List.range code.size).findSome? (fun p =>
    match look cert p, code[p - 1]?, look cert (p - 1) with
    | none, some (.jump _), some A => if p = 0 then none else some (p, A)
    | _, _, _ => none)

/-- certify dead code too while a recursive loop lies in it (the checker wants every recursive loop of the
    stream certified: a recursion may enter any of them) -/
def certifyDead (code : Code) (n : Nat) : Nat → Cert → Cert
  | 0, cert => cert
  | k + 1, cert =>
    if hasDeadRecLoop code cert then
      match deadSeed code cert with
      | some (p, A) => certifyDead code n k (propagate code (8 * n + 8) [p] (cert.set! p (some A)))
      | none => cert
    else cert

def inferStk (code : Code) : Cert :=
  let n := code.size + 1
  let es := (entries code).filter (·.1 < n)
  let cert0 : Cert := es.foldl (fun c e => c.set! e.1 (some ⟨List.replicate e.2 .v, []⟩)) (Array.replicate n none)
  certifyDead code n 16 (propagate code (8 * n + 8) (es.map (·.1)) cert0)

/-- the verdict of the translation validation of one stream -/
def validate (code : Code) : Bool := checkStk code (inferStk code)

end MJ.Stk
