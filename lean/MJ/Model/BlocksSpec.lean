import MJ.Model.Blocks
/-!
# Specification of template composition (no block stacks, no cursor, no capture stack)

`defs env chain n` are the bodies of block `n` along an inheritance chain from the most- to the
least-derived template.  The spec renders

* a block reference (`{% block %}`, `{{ self.n() }}`, `{% set v = self.n() %}`) as the *first*
  element of `defs` — the most-derived definition; a template that does not define the block
  contributes nothing, so the nearest ancestor's definition is used; a single `required`
  definition is an error,
* `super()` (emitted or captured into a variable) inside the `k`-th definition as the `k+1`-st
  definition (an error when there is none),
* the statements in front of an executed `extends` tag normally, the statements behind it
  silently and without rendering blocks (their side effects and errors still happen; a second
  executed `extends` is an error), then the parent; a chain that comes back to a template it
  already extended, or that names a missing template, is an error,
* `include` as "the first existing template of the list, rendered as an inheritance chain of its
  own on the includer's frames" (`ignore missing` only matters when no name exists; errors inside
  are wrapped in `BadInclude`); the one thing of the includer's block machinery that reaches
  into the included template is the *name* of the block the tag stands in
  (`state.current_block`): `super()` outside of blocks in the included chain is `super()` of
  that name among the included chain's own definitions (an error unless the included chain
  defines it at least twice),
* `import` / `from … import` as such an include into a fresh frame whose locals become the
  module / the imported value,
* loops, `{% autoescape %}` blocks and macro calls by running their bodies (macro: fresh frames,
  no current block),
* the auto-escape mode: an included / imported template runs in *its own* initial mode
  (the one its name selects) whatever the includer's current mode is; blocks, `super()`,
  macros and the parent's layout reached through `extends` keep the current mode.

What is shared with the driver: the handling of variables (`varItem`, `store`, `load`: the
frames are threaded exactly as the engine does — the spec abstracts from the *block* machinery,
not from variable scoping) and the recursion-limit accounting (`outer` + number of frames).
Fuel bounds the nesting depth exactly as in the driver (`MJ.Blocks.evalImpl`), so the two can be
compared for every amount of fuel.
-/
namespace MJ.Blocks

abbrev SRes := Except Err (List String × Vars)

/-- the spec one nesting level further down -/
structure SpecCbs where
  /-- definition `k` of block `n` (its frame already pushed): `D n k disc outer ae frames` -/
  body : (Nat → List (List Item)) → Nat → Nat → Bool → Nat → AE → Vars → SRes
  /-- a statement list inside the current definition (loop / macro bodies):
      `D cur disc ext outer ae items frames` -/
  list : (Nat → List (List Item)) → Option (Nat × Nat) → Bool → Bool → Nat → AE → List Item → Vars → SRes
  /-- the layout of the last template of `chain`, then its parents:
      `chain inh disc outer ae layout frames`; `inh` = the name of the block the include tag
      stands in (`state.current_block` is handed into an included template) -/
  chain : List Nat → Option Nat → Bool → Nat → AE → List Item → Vars → SRes

/-- the block table entry of template `i` for block `n` -/
def blockOf (env : Env) (i n : Nat) : Option (List Item) :=
  match env[i]? with
  | none => none
  | some T => lookupBlock n T.blocks

/-- bodies of block `n` along `chain` (most-derived template first) -/
def defs (env : Env) (chain : List Nat) (n : Nat) : List (List Item) :=
  chain.filterMap (fun i => blockOf env i n)

/-- a block reference: the most-derived definition -/
def specBlock (cbs : SpecCbs) (D : Nat → List (List Item)) (disc : Bool) (outer : Nat) (ae : AE) (m : Nat)
    (fs : Vars) : SRes :=
  match D m with
  | [] => .error [.unknownBlock]
  | b :: bs =>
    if (b :: bs).length == 1 && isRequired b then .error [.invalidOperation]
    else if pushFails outer fs then .error [.invalidOperation]
    else
      match cbs.body D m 0 disc outer ae (fs.push [[]]) with
      | .error e => .error e
      | .ok (o, fs') => .ok (o, fs'.take fs.length)

/-- `super()` inside definition `k` of block `n`: definition `k + 1` -/
def specSuper (cbs : SpecCbs) (D : Nat → List (List Item)) (cur : Option (Nat × Nat)) (disc : Bool)
    (outer : Nat) (ae : AE) (fs : Vars) : SRes :=
  match cur with
  | none => .error [.invalidOperation]
  | some (n, k) =>
    if k + 1 < (D n).length then
      if pushFails outer fs then .error [.invalidOperation]
      else
        match cbs.body D n (k + 1) disc outer ae (fs.push [[]]) with
        | .error e => .error (.evalBlock :: e)
        | .ok (o, fs') => .ok (o, fs'.take fs.length)
    else .error [.invalidOperation]

/-- what the property calls "the named template (or the first existing one of a list)": a value
    that can be iterated *is* the list of what it yields — whatever kind of object carries the
    names (list, tuple, lazily evaluated iterable, one-shot iterator, the keys of a map) —;
    anything else is one name.  No table, no filter. -/
def Arg.cands : Arg → List Cand
  | .single c => [c]
  | .object _ (some items) => items
  | .object _ none => [none]

/-- include: the first existing template of the candidates, as a chain of its own, on the
    includer's frames; a candidate that is not a string is an error where it is reached; when no
    candidate exists and at least one was asked for, `TemplateNotFound` unless `ignore missing` -/
def specInclude (env : Env) (cbs : SpecCbs) (inh : Option Nat) (disc ign : Bool) (outer : Nat) :
    List Cand → Bool → Vars → SRes
  | [], tried, fs => if tried && !ign then .error [.templateNotFound] else .ok ([], fs)
  | none :: _, _, _ => .error [.invalidOperation]
  | some t :: rest, _, fs =>
    match env[t]? with
    | none => specInclude env cbs inh disc ign outer rest true fs
    | some T =>
      -- a name that exists but cannot be loaded is an error of its own kind, `ignore missing`
      -- or not; only a missing name lets the next one be tried
      match T.loadErr with
      | some k => .error [loadErrKind t k]
      | none =>
      if outer + INCLUDE_COST + fs.length > LIMIT then .error [.invalidOperation]
      else
        -- the included file runs in the includer's frame, but with the frame's closure detached:
        -- what it assigns does not reach the includer's macros, and its own macros get a closure
        -- of their own; afterwards the includer's closure is attached again
        match cbs.chain [t] inh disc (outer + INCLUDE_COST) T.ae T.layout (fs.setTopClosure none) with
        | .error e => .error (.badInclude :: e)
        | .ok (o, fs') => .ok (o, (fs'.take fs.length).setTopClosure fs.topClosure)

def specLoop (run : Vars → SRes) (v : Nat) (vals : List String) (fl : Nat) (fs : Vars) : SRes :=
  vals.foldl (fun (acc : SRes) val =>
    match acc with
    | .error e => .error e
    | .ok (o, s) =>
      match run ((s.take fl).push [[(v, Val.str val)]]) with
      | .error e => .error e
      | .ok (o', s') => .ok (o ++ o', s')) (.ok ([], fs))

/-- a statement list.  `disc`: the output is discarding; `ext`: an `extends` of the enclosing
    template has been executed; `cur`: the block definition being rendered -/
def specItems (env : Env) (rootCtx : Cfg) (cbs : SpecCbs) (D : Nat → List (List Item))
    (cur : Option (Nat × Nat)) (disc ext : Bool) (outer : Nat) (ae : AE) : List Item → Vars → SRes
  | [], fs => .ok ([], fs)
  | it :: rest, fs =>
    let cont (r : SRes) : SRes :=
      match r with
      | .error e => .error e
      | .ok (o, fs') =>
        match specItems env rootCtx cbs D cur disc ext outer ae rest fs' with
        | .error e => .error e
        | .ok (o', fs'') => .ok (o ++ o', fs'')
    match it with
    | .callBlock m =>
      if ext || disc then cont (.ok ([], fs)) else cont (specBlock cbs D disc outer ae m fs)
    | .super => cont (specSuper cbs D cur disc outer ae fs)
    | .setSuper v =>
      match specSuper cbs D cur false outer ae fs with
      | .error e => .error e
      | .ok (o, fs') => cont (.ok ([], store fs' v (captured ae o)))
    | .setSelf v m =>
      if ext then cont (.ok ([], store fs v (captured ae [])))
      else
        match specBlock cbs D false outer ae m fs with
        | .error e => .error e
        | .ok (o, fs') => cont (.ok ([], store fs' v (captured ae o)))
    | .extends exec _ =>
      if !exec then cont (.ok ([], fs))
      else if ext then .error [.invalidOperation]
      else .error [.unsupported]
    | .incl a ign => cont (specInclude env cbs (cur.map Prod.fst) disc ign outer a.cands false fs)
    | .importAs a v =>
      if pushFails outer fs then .error [.invalidOperation]
      else
        match specInclude env cbs (cur.map Prod.fst) false false outer a.cands false (fs.push [[]]) with
        | .error e => .error e
        | .ok (_, fs') =>
          cont (.ok ([], store (fs'.take fs.length) v (.module (dedupKeys (topFrame fs')))))
    | .fromImport a name alias =>
      if pushFails outer fs then .error [.invalidOperation]
      else
        match specInclude env cbs (cur.map Prod.fst) true false outer a.cands false (fs.push [[]]) with
        | .error e => .error e
        | .ok (_, fs') =>
          cont (.ok ([], store (fs'.take fs.length) alias ((lookupVal name (topFrame fs')).getD .undef)))
    | .loop v vals body =>
      if body.any isExtends then .error [.unsupported]
      else if pushFails outer fs then .error [.invalidOperation]
      else
        match specLoop (cbs.list D cur disc ext outer ae body) v vals fs.length (fs.push [[]]) with
        | .error e => .error e
        | .ok (o, s) => cont (.ok (o, s.take fs.length))
    | .inMacro m arg val body =>
      if body.any isExtends then .error [.unsupported]
      else
        let fs1 := store fs m .opaque
        let outer' := outer + fs1.length + MACRO_COST
        if outer' + 2 > LIMIT then .error [.invalidOperation]
        else
          match cbs.list D none false false outer' ae body (fs1.macroCtx arg (.str val)) with
          | .error e => .error e
          | .ok (o, _) => cont (.ok (if disc then [] else o, fs1))
    | .badTarget => .error [.invalidOperation]
    | .autoesc m body =>
      if body.any isExtends || decide (AE_NEST_MAX ≤ aeDepthL body) then .error [.unsupported]
      else cont (cbs.list D cur disc ext outer m body fs)
    | it =>
      match varItem rootCtx disc ae it fs with
      | some (.ok (o, fs')) => cont (.ok (o, fs'))
      | some (.error e) => .error e
      | none => .error [.unsupported]

/-- split a layout at its first executed `extends` -/
def splitExtends : List Item → Option (List Item × Nat × List Item)
  | [] => none
  | .extends true t :: rest => some ([], t, rest)
  | it :: rest =>
    match splitExtends rest with
    | none => none
    | some (pre, t, post) => some (it :: pre, t, post)

def hasExecExtends : List Item → Bool
  | [] => false
  | .extends true _ :: _ => true
  | _ :: rest => hasExecExtends rest

/-- the layout of the last template of `chain` (most-derived first), then its parents -/
def specChain (env : Env) (rootCtx : Cfg) (cbs : SpecCbs) (chain : List Nat) (inh : Option Nat) (disc : Bool)
    (outer : Nat) (ae : AE) (layout : List Item) (fs : Vars) : SRes :=
  let D := defs env chain
  -- outside of blocks `super()` refers to the block the include tag stands in, looked up among
  -- the definitions of *this* chain, as if the layout were its most-derived definition
  let cur := inh.map (fun n => (n, 0))
  match splitExtends layout with
  | none => specItems env rootCtx cbs D cur disc false outer ae layout fs
  | some (pre, t, post) =>
    match specItems env rootCtx cbs D cur disc false outer ae pre fs with
    | .error e => .error e
    | .ok (o, fs1) =>
      if t ∈ chain.tail then .error [.invalidOperation]
      else
        match env[t]? with
        | none => .error [.templateNotFound]
        | some T =>
          match T.loadErr with
          | some k => .error [loadErrKind t k]
          | none =>
          match specItems env rootCtx cbs (defs env (chain ++ [t])) cur true true outer ae post fs1 with
          | .error e => .error e
          | .ok (o2, fs2) =>
            match cbs.chain (chain ++ [t]) inh disc outer ae T.layout fs2 with
            | .error e => .error e
            | .ok (o3, fs3) => .ok (o ++ o2 ++ o3, fs3)

/-- the spec with `fuel` nesting levels left -/
def specAll (env : Env) (rootCtx : Cfg) : Nat → SpecCbs
  | 0 =>
    { body := fun _ _ _ _ _ _ _ => .error [.recursion],
      list := fun _ _ _ _ _ _ _ _ => .error [.recursion],
      chain := fun _ _ _ _ _ _ _ => .error [.recursion] }
  | fuel + 1 =>
    { body := fun D n k disc outer ae fs =>
        match (D n)[k]? with
        | none => .error [.panic]
        | some b => specItems env rootCtx (specAll env rootCtx fuel) D (some (n, k)) disc false outer ae b fs,
      list := fun D cur disc ext outer ae items fs =>
        specItems env rootCtx (specAll env rootCtx fuel) D cur disc ext outer ae items fs,
      chain := fun chain inh disc outer ae layout fs =>
        specChain env rootCtx (specAll env rootCtx fuel) chain inh disc outer ae layout fs }

def specRender (env : Env) (rootCtx : Cfg) (fuel : Nat) (main : Nat) : Except Err (List String) :=
  match env[main]? with
  | none => .error [.templateNotFound]
  | some T =>
    match T.loadErr with
    | some k => .error [loadErrKind main k]
    | none =>
    match (specAll env rootCtx fuel).chain [main] none false 0 T.ae T.layout Vars.init with
    | .error e => .error e
    | .ok (o, _) => .ok o

/-- fuel that suffices for everything nested below depth `d` in an environment of `E`
    templates (see `MJ.C06.rendering_terminates`) -/
def W (E d : Nat) : Nat := (LIMIT + 1 - d) * (E + 3 + AE_NEST_MAX)

/-- the fuel the line driver runs with: with this much the model's fuel is provably never the
    reason a render stops -/
def renderFuel (env : Env) : Nat := W env.length 2 + env.length + 2 + AE_NEST_MAX

/-! ## the fragment for which driver = spec is proved -/

mutual
/-- `cur` = the block whose body this is (a macro body counts as part of the block body that
    contains it: a macro call keeps the block table and its cursors — `BlockState::Isolate` only
    restores them afterwards); `blk` = block references allowed.  `super()` may stand anywhere:
    in a block body it is the next definition up, in a macro body it is an error (no current
    block), at the top level of a template it refers to the block the including tag stands in. -/
def itemOK (cur : Option Nat) (blk : Bool) : Item → Bool
  | .callBlock m | .setSelf _ m =>
    blk && (match cur with
      | some n => decide (n < m)
      | none => true)
  | .extends exec _ => !exec
  | .loop _ _ body => itemsOK cur blk body
  | .autoesc _ body => itemsOK cur blk body
  | .inMacro _ _ _ body => itemsOK cur blk body
  | _ => true
def itemsOK (cur : Option Nat) (blk : Bool) : List Item → Bool
  | [] => true
  | it :: rest => itemOK cur blk it && itemsOK cur blk rest
end

/-- layouts: statements, at most one *executed* `extends` at top level (not inside a loop or a
    macro), `super()` only inside blocks; behind the `extends` anything of the same kind, further
    `extends` tags included (they are errors) -/
def layoutOK : List Item → Bool
  | [] => true
  | .extends true _ :: rest => rest.all (fun it => isExtends it || itemOK none true it)
  | it :: rest => itemOK none true it && layoutOK rest

/-- block bodies: a block nested in (or called by name from) block `n` has a larger number than
    `n` — the nesting of blocks is well-founded across the whole environment -/
def templateOK (T : Template) : Bool :=
  layoutOK T.layout && T.blocks.all (fun p => itemsOK (some p.1) true p.2)

def EnvOK (env : Env) : Prop := ∀ T ∈ env, templateOK T = true

instance (env : Env) : Decidable (EnvOK env) := by unfold EnvOK; infer_instance

end MJ.Blocks
