import MJ.Model.Blocks
/-!
# Specification of template inheritance (state-free, substitution style)

`defs env chain n` are the bodies of block `n` along an inheritance chain from the most- to the
least-derived template.  The spec renders

* a block reference as the *first* element of `defs` (the most-derived definition; a template that
  does not define the block contributes nothing, so the nearest ancestor's definition is used),
* `super()` inside the `k`-th definition as the `k+1`-st definition (an error when there is none),
* the text in front of an `extends` tag, then the parent; everything that stands outside blocks
  behind an executed `extends` tag contributes nothing (a second executed `extends` is an error),
* a chain that comes back to a template it already extended, or that names a missing template,
  as an error.

There is no block stack, no depth cursor, no output capture and no state here.  Fuel bounds the
nesting depth exactly as in the driver (`MJ.Blocks.evalImpl`), so the two can be compared for
every amount of fuel, including the runs that are cut off.
-/
namespace MJ.Blocks

/-- text or block reference (or an `extends` that is not executed) -/
def Item.isPlain : Item → Bool
  | .text _ | .callBlock _ | .extends false _ => true
  | _ => false

/-- what may stand in a block body of the core fragment -/
def Item.isBody : Item → Bool
  | .text _ | .callBlock _ | .super => true
  | _ => false

/-- what may follow an executed `extends`: plain items and further `extends` tags -/
def Item.isPost : Item → Bool
  | .text _ | .callBlock _ | .extends _ _ => true
  | _ => false

/-- the block table entry of template `i` for block `n` -/
def blockOf (env : Env) (i n : Nat) : Option (List Item) :=
  match env[i]? with
  | none => none
  | some T => lookupBlock n T.blocks

/-- bodies of block `n` along `chain` (most-derived template first) -/
def defs (env : Env) (chain : List Nat) (n : Nat) : List (List Item) :=
  chain.filterMap (fun i => blockOf env i n)

def liftErr (k : Kind) : Except Err (List String) → Except Err (List String)
  | .error e => .error (k :: e)
  | .ok o => .ok o

/-- items of the core fragment under the static resolution `D`; `rec n k` renders the `k`-th
    definition of block `n`; `cur` = the definition being rendered -/
def specItems (D : Nat → List (List Item)) (rec : Nat → Nat → Except Err (List String))
    (cur : Option (Nat × Nat)) : List Item → Except Err (List String)
  | [] => .ok []
  | .text s :: rest =>
    match specItems D rec cur rest with
    | .error e => .error e
    | .ok o => .ok (s :: o)
  | .callBlock m :: rest =>
    if (D m).isEmpty then .error [.unknownBlock]
    else
      match rec m 0 with
      | .error e => .error e
      | .ok o =>
        match specItems D rec cur rest with
        | .error e => .error e
        | .ok o' => .ok (o ++ o')
  | .super :: rest =>
    match cur with
    | none => .error [.invalidOperation]
    | some (n, k) =>
      if k + 1 < (D n).length then
        match liftErr .evalBlock (rec n (k + 1)) with
        | .error e => .error e
        | .ok o =>
          match specItems D rec cur rest with
          | .error e => .error e
          | .ok o' => .ok (o ++ o')
      else .error [.invalidOperation]
  | .extends false _ :: rest => specItems D rec cur rest
  | _ :: _ => .error [.unsupported]

/-- the `k`-th definition of block `n` -/
def specBody (D : Nat → List (List Item)) : Nat → Nat → Nat → Except Err (List String)
  | 0 => fun _ _ => .error [.recursion]
  | fuel + 1 => fun n k =>
    match (D n)[k]? with
    | none => .error [.panic]
    | some body => specItems D (specBody D fuel) (some (n, k)) body

/-- split a layout at its first executed `extends` -/
def splitExtends : List Item → Option (List Item × Nat × List Item)
  | [] => none
  | .extends true t :: rest => some ([], t, rest)
  | it :: rest =>
    match splitExtends rest with
    | none => none
    | some (pre, t, post) => some (it :: pre, t, post)

def hasExecExtends : List Item → Bool
  | [] => false
  | .extends true _ :: _ => true
  | _ :: rest => hasExecExtends rest

/-- render the layout of the last template of `chain` (most-derived first), then its parents -/
def specTemplate (env : Env) : Nat → List Nat → List Item → Except Err (List String)
  | 0 => fun _ _ => .error [.recursion]
  | fuel + 1 => fun chain layout =>
    let D := defs env chain
    match splitExtends layout with
    | none => specItems D (specBody D fuel) none layout
    | some (pre, t, post) =>
      match specItems D (specBody D fuel) none pre with
      | .error e => .error e
      | .ok o =>
        if t ∈ chain.tail then .error [.invalidOperation]
        else
          match env[t]? with
          | none => .error [.templateNotFound]
          | some T =>
            if hasExecExtends post then .error [.invalidOperation]
            else
              match specTemplate env fuel (chain ++ [t]) T.layout with
              | .error e => .error e
              | .ok o' => .ok (o ++ o')

def specRender (env : Env) (fuel : Nat) (main : Nat) : Except Err (List String) :=
  match env[main]? with
  | none => .error [.templateNotFound]
  | some T => specTemplate env fuel [main] T.layout

/-! ## the core fragment -/

def layoutOK : List Item → Bool
  | [] => true
  | .extends true _ :: rest => rest.all Item.isPost
  | it :: rest => it.isPlain && layoutOK rest

/-- block bodies: text / block references / super(), and a block nested in block `n` has a larger
    number than `n` (nesting of blocks is well-founded across the whole environment) -/
def bodyOK (n : Nat) (body : List Item) : Bool :=
  body.all (fun it => it.isBody && (match it with | .callBlock m => decide (n < m) | _ => true))

def templateOK (T : Template) : Bool :=
  layoutOK T.layout && T.blocks.all (fun p => bodyOK p.1 p.2)

def CoreEnv (env : Env) : Prop := ∀ T ∈ env, templateOK T = true

instance (env : Env) : Decidable (CoreEnv env) := by unfold CoreEnv; infer_instance

end MJ.Blocks
