import MJ.Gen.Tables
/-!
# Model of `minijinja::loader::safe_join` and of Unix paths (C17)

Strings are `List Char` (Unicode scalar values).  Rust's `str::split('/')`, `starts_with('.')` and
`contains('\\')` work on scalar values; `PathBuf` works on the UTF-8 bytes.  The byte `0x2F` never
occurs inside a multi-byte UTF-8 sequence, so splitting/joining on `'/'` agrees on both levels.

* `splitOn`      — `str::split(char)` (always at least one piece, empty pieces kept);
* `push`         — `PathBuf::push` on Unix, *including* the branch where an absolute argument
                   replaces the whole path (shown unreachable from `safe_join` in `Props/C17`);
* `safeJoin`     — transcription of `loader::safe_join`;
* `comps`/`isAbs`/`curDir` — `Path::components()` on Unix;
* `normalize`    — lexical normalisation (resolve `.`/`..`/empty without looking at the disk);
* `FS`/`walk`    — an abstract directory tree and the way the OS resolves a component list in it
                   (no symbolic links: the property excludes them).
-/
namespace MJ.Path

abbrev Str := List Char

/-! ## `str::split` -/

/-- put `c` in front of the first piece -/
def consHead (c : Char) : List Str → List Str
  | [] => [[c]]
  | s :: r => (c :: s) :: r

/-- `s.split(sep)` -/
def splitOn (sep : Char) : Str → List Str
  | [] => [[]]
  | c :: cs => if c = sep then [] :: splitOn sep cs else consHead c (splitOn sep cs)

/-! ## `loader::safe_join` -/

/-- the rejection condition of the loop, built from the rules the table extractor reads off the
    source (`MJ.Gen.c17Reject…`; today: `segment.starts_with('.') || segment.contains('\\')`) -/
def badSeg (s : Str) : Bool :=
  MJ.Gen.c17RejectPrefix.any (fun c => s.head? == some c) ||
  MJ.Gen.c17RejectContains.any (fun c => s.contains c) ||
  MJ.Gen.c17RejectEquals.any (fun t => t.toList == s)

/-- `PathBuf::push(seg)` on Unix: an absolute `seg` replaces the path; otherwise a separator is
    inserted unless the path is empty or already ends in one. -/
def push (p seg : Str) : Str :=
  if seg.head? = some '/' then seg
  else if p ≠ [] ∧ p.getLast? ≠ some '/' then p ++ '/' :: seg
  else p ++ seg

/-- the `for segment in template.split('/')` loop with `rv` as loop state -/
def safeJoinLoop (rv : Str) : List Str → Option Str
  | [] => some rv
  | s :: rest => if badSeg s then none else safeJoinLoop (push rv s) rest

/-- `safe_join(base, template)` -/
def safeJoin (base name : Str) : Option Str := safeJoinLoop base (splitOn MJ.Gen.c17SafeJoinSep name)

/-! ## `Path::components()` on Unix -/

/-- `Path::is_absolute` / `has_root` -/
def isAbs (p : Str) : Bool := p.head? == some '/'

/-- a piece that `components()` yields as `Normal` or `ParentDir` (empty pieces and `.` are skipped) -/
def keepPiece (s : Str) : Bool := s != [] && s != ['.']

/-- the `Normal`/`ParentDir` components, in order -/
def comps (p : Str) : List Str := (splitOn '/' p).filter keepPiece

/-- a leading `CurDir` component is reported only for a relative path that starts with `.` -/
def curDir (p : Str) : Bool := !isAbs p && (splitOn '/' p).head? == some ['.']

/-! ## lexical normalisation -/

def dotdot : Str := ['.', '.']

/-- one component applied to the stack of components seen so far -/
def normStep (abs : Bool) (st : List Str) (s : Str) : List Str :=
  if s = [] ∨ s = ['.'] then st
  else if s = dotdot then
    match st.getLast? with
    | none => if abs then [] else [dotdot]       -- `/..` = `/`; a relative path keeps `..`
    | some t => if t = dotdot then st ++ [dotdot] else st.dropLast
  else st ++ [s]

def normalizeFrom (abs : Bool) (st : List Str) (cs : List Str) : List Str := cs.foldl (normStep abs) st

/-- lexical normalisation of a component list of an absolute (`abs`) or relative path -/
def normalize (abs : Bool) (cs : List Str) : List Str := normalizeFrom abs [] cs

/-! ## an abstract directory tree -/

/-- directory tree without symbolic links: `child d n` looks the name `n` up in `d`, `parent d`
    is what `..` means in `d` -/
structure FS where
  Node : Type
  child : Node → Str → Option Node
  parent : Node → Node

/-- `e` is `d` or lies beneath `d` -/
inductive Below (fs : FS) (d : fs.Node) : fs.Node → Prop
  | refl : Below fs d d
  | step {e e' : fs.Node} {n : Str} : Below fs d e → fs.child e n = some e' → Below fs d e'

/-- path resolution as the OS does it: component by component -/
def walk (fs : FS) : fs.Node → List Str → Option fs.Node
  | d, [] => some d
  | d, s :: r =>
    if s = [] ∨ s = ['.'] then walk fs d r
    else if s = dotdot then walk fs (fs.parent d) r
    else match fs.child d s with
      | none => none
      | some e => walk fs e r

/-! ## `Environment::join_template_path` (names computed by include/import/extends) -/

/-- `State::get_template(name)` asks the environment for
    `join_template_path(name, current_template_name)`: the callback's answer, or `name` itself -/
def joinTemplatePath (cb : Option (Str → Str → Str)) (name parent : Str) : Str :=
  match cb with
  | some f => f name parent
  | none => name

/-! ## `path_loader` as a function of (configured base, file system at load time) -/

/-- what `fs::read_to_string(path)` can answer -/
inductive ReadResult where
  | content (s : Str)
  | notFound
  | failed
  deriving DecidableEq, Repr

/-- the file system as the process sees it at one moment: the answer of `fs::read_to_string` for
    every path string (relative paths are resolved against the working directory of that moment,
    so the working directory is part of the snapshot) -/
abbrev Snapshot := Str → ReadResult

/-- what the loader closure answers: `Ok(Some(source))`, `Ok(None)`, `Err(..)` -/
inductive LoadResult where
  | found (s : Str)
  | missing
  | unreadable
  deriving DecidableEq, Repr

/-- the closure `path_loader` returns; its only captured state is the base -/
structure Loader where
  base : Str
  deriving DecidableEq, Repr

/-- `path_loader(dir)` called while the file system is `fs0`: `dir.as_ref().to_path_buf()` —
    nothing is looked up at construction, the configured spelling is kept verbatim -/
def pathLoader (_fs0 : Snapshot) (dir : Str) : Loader := ⟨dir⟩

/-- the paths one request hands to the file system -/
def Loader.reads (l : Loader) (name : Str) : List Str :=
  match safeJoin l.base name with
  | none => []
  | some p => [p]

/-- one request against the file system of the moment: `NotFound` is "missing", any other error
    is "unreadable" -/
def Loader.load (l : Loader) (fs : Snapshot) (name : Str) : LoadResult :=
  match safeJoin l.base name with
  | none => .missing
  | some p =>
    match fs p with
    | .content s => .found s
    | .notFound => .missing
    | .failed => .unreadable

/-- an environment with a loader: templates that were loaded once are answered from the store,
    which is keyed by the template NAME (not by the path) -/
structure Env where
  loader : Loader
  cache : List (Str × Str)

def lookup (name : Str) : List (Str × Str) → Option Str
  | [] => none
  | (n, s) :: r => if n = name then some s else lookup name r

/-- `Environment::get_template(name)` on a loader-backed environment -/
def Env.get (e : Env) (fs : Snapshot) (name : Str) : LoadResult × Env :=
  match lookup name e.cache with
  | some s => (.found s, e)
  | none =>
    match e.loader.load fs name with
    | .found s => (.found s, { e with cache := (name, s) :: e.cache })
    | r => (r, e)

/-- a history: the file system changes arbitrarily between requests -/
def Env.run (e : Env) : List (Snapshot × Str) → List (Str × LoadResult)
  | [] => []
  | (fs, name) :: rest => (name, (e.get fs name).1) :: Env.run (e.get fs name).2 rest

/-- the environment after a history -/
def Env.after (e : Env) : List (Snapshot × Str) → Env
  | [] => e
  | (fs, name) :: rest => Env.after (e.get fs name).2 rest

/-- `Environment::clear_templates()`: the store is emptied, the loader stays -/
def Env.clear (e : Env) : Env := { e with cache := [] }

/-- `Environment::templates()`: what the store holds -/
def Env.templates (e : Env) : List (Str × Str) := e.cache

end MJ.Path
