/-!
# Model of `minijinja::loader::safe_join` and of Unix paths (C17)

Strings are `List Char` (Unicode scalar values).  Rust's `str::split('/')`, `starts_with('.')` and
`contains('\\')` work on scalar values; `PathBuf` works on the UTF-8 bytes.  The byte `0x2F` never
occurs inside a multi-byte UTF-8 sequence, so splitting/joining on `'/'` agrees on both levels.

* `splitOn`      — `str::split(char)` (always at least one piece, empty pieces kept);
* `push`         — `PathBuf::push` on Unix, *including* the branch where an absolute argument
                   replaces the whole path (shown unreachable from `safe_join` in `Props/C17`);
* `safeJoin`     — transcription of `loader::safe_join`;
* `comps`/`isAbs`/`curDir` — `Path::components()` on Unix;
* `normalize`    — lexical normalisation (resolve `.`/`..`/empty without looking at the disk);
* `FS`/`walk`    — an abstract directory tree and the way the OS resolves a component list in it
                   (no symbolic links: the property excludes them).
-/
namespace MJ.Path

abbrev Str := List Char

/-! ## `str::split` -/

/-- put `c` in front of the first piece -/
def consHead (c : Char) : List Str → List Str
  | [] => [[c]]
  | s :: r => (c :: s) :: r

/-- `s.split(sep)` -/
def splitOn (sep : Char) : Str → List Str
  | [] => [[]]
  | c :: cs => if c = sep then [] :: splitOn sep cs else consHead c (splitOn sep cs)

/-! ## `loader::safe_join` -/

/-- `segment.starts_with('.') || segment.contains('\\')` -/
def badSeg (s : Str) : Bool := s.head? == some '.' || s.contains '\\'

/-- `PathBuf::push(seg)` on Unix: an absolute `seg` replaces the path; otherwise a separator is
    inserted unless the path is empty or already ends in one. -/
def push (p seg : Str) : Str :=
  if seg.head? = some '/' then seg
  else if p ≠ [] ∧ p.getLast? ≠ some '/' then p ++ '/' :: seg
  else p ++ seg

/-- the `for segment in template.split('/')` loop with `rv` as loop state -/
def safeJoinLoop (rv : Str) : List Str → Option Str
  | [] => some rv
  | s :: rest => if badSeg s then none else safeJoinLoop (push rv s) rest

/-- `safe_join(base, template)` -/
def safeJoin (base name : Str) : Option Str := safeJoinLoop base (splitOn '/' name)

/-! ## `Path::components()` on Unix -/

/-- `Path::is_absolute` / `has_root` -/
def isAbs (p : Str) : Bool := p.head? == some '/'

/-- a piece that `components()` yields as `Normal` or `ParentDir` (empty pieces and `.` are skipped) -/
def keepPiece (s : Str) : Bool := s != [] && s != ['.']

/-- the `Normal`/`ParentDir` components, in order -/
def comps (p : Str) : List Str := (splitOn '/' p).filter keepPiece

/-- a leading `CurDir` component is reported only for a relative path that starts with `.` -/
def curDir (p : Str) : Bool := !isAbs p && (splitOn '/' p).head? == some ['.']

/-! ## lexical normalisation -/

def dotdot : Str := ['.', '.']

/-- one component applied to the stack of components seen so far -/
def normStep (abs : Bool) (st : List Str) (s : Str) : List Str :=
  if s = [] ∨ s = ['.'] then st
  else if s = dotdot then
    match st.getLast? with
    | none => if abs then [] else [dotdot]       -- `/..` = `/`; a relative path keeps `..`
    | some t => if t = dotdot then st ++ [dotdot] else st.dropLast
  else st ++ [s]

def normalizeFrom (abs : Bool) (st : List Str) (cs : List Str) : List Str := cs.foldl (normStep abs) st

/-- lexical normalisation of a component list of an absolute (`abs`) or relative path -/
def normalize (abs : Bool) (cs : List Str) : List Str := normalizeFrom abs [] cs

/-! ## an abstract directory tree -/

/-- directory tree without symbolic links: `child d n` looks the name `n` up in `d`, `parent d`
    is what `..` means in `d` -/
structure FS where
  Node : Type
  child : Node → Str → Option Node
  parent : Node → Node

/-- `e` is `d` or lies beneath `d` -/
inductive Below (fs : FS) (d : fs.Node) : fs.Node → Prop
  | refl : Below fs d d
  | step {e e' : fs.Node} {n : Str} : Below fs d e → fs.child e n = some e' → Below fs d e'

/-- path resolution as the OS does it: component by component -/
def walk (fs : FS) : fs.Node → List Str → Option fs.Node
  | d, [] => some d
  | d, s :: r =>
    if s = [] ∨ s = ['.'] then walk fs d r
    else if s = dotdot then walk fs (fs.parent d) r
    else match fs.child d s with
      | none => none
      | some e => walk fs e r

/-! ## `Environment::join_template_path` (names computed by include/import/extends) -/

/-- `State::get_template(name)` asks the environment for
    `join_template_path(name, current_template_name)`: the callback's answer, or `name` itself -/
def joinTemplatePath (cb : Option (Str → Str → Str)) (name parent : Str) : Str :=
  match cb with
  | some f => f name parent
  | none => name

end MJ.Path
