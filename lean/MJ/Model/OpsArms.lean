import MJ.Model.Ops
/-!
# What one step of the operand-stack machine pushes / pops, per instruction (C05)

`effOf` *executes* `MJ.Ops.step` on a set of probe states and measures, for every successor, how
many entries each of the four stacks of the machine gained or lost: the frame stack, the capture
stack, the auto-escape stack and `loop_recursion_bases`.  `MJ/Props/C05.lean` compares the result
with the table `MJ.Gen.c05VmEffects`, the count of every `push_frame` / `pop_frame` /
`begin_capture` / `end_capture` / `auto_escape_stack.push|pop` / `loop_recursion_bases.push|pop`
call in every arm of `eval_impl`, regenerated from `vm/mod.rs` on every run: an arm of the engine
that gains or loses one push or pop no longer agrees with the machine.
-/
namespace MJ.OpsArms
open MJ.Ops

/-- the letters an instruction of the real enum is replayed as (harness `op_tok`); instructions that
are straight-line for the machine (everything else) get representative `eff` / `dyn` / `unpack`
letters -/
def lettersOf : String → List Instr
  | "PushWith" => [.pushWith]
  | "PopFrame" => [.popFrame]
  | "PushLoop" => [.pushLoop true true, .pushLoop true false, .pushLoop false false]
  | "Iterate" => [.iterate 2]
  | "PushDidNotIterate" => [.pushDidNotIterate]
  | "PopLoopFrame" => [.popLoopFrame]
  | "BeginCapture" => [.beginCapture]
  | "EndCapture" => [.endCapture]
  | "PushAutoEscape" => [.pushAutoEscape]
  | "PopAutoEscape" => [.popAutoEscape]
  | "Jump" => [.jump 2]
  | "JumpIfFalse" => [.jumpIfFalse 2]
  | "JumpIfFalseOrPop" => [.jumpIfFalseOrPop 2]
  | "JumpIfTrueOrPop" => [.jumpIfTrueOrPop 2]
  | "FastRecurse" => [.fastRecurse]
  | "CallFunction" => [.call 0, .call 1, .call 2, .callDyn]
  | "Return" => [.ret]
  | "BuildMacro" => [.buildMacro 0]
  | "ExportLocals" => [.exportLocals]
  | _ => [.eff 0 0, .eff 1 0, .eff 0 1, .eff 1 1, .eff 2 1, .eff 4 1, .eff 2 2, .eff 1 2, .dyn, .unpack 1]

/-- pc 0 is the `PushLoop` of a recursive loop (the target of `loop(...)`), pc 1 the instruction -/
def probeCode (i : Instr) : Code := #[.pushLoop true true, i, .eff 0 0]

def recLoop (ret : Option (Nat × Bool)) (gb : Option Nat) : Frame :=
  .loopF { withVar := true, recTarget := some 0, ret := ret, gbase := gb, gh := 1 }

/-- probe states at pc 1: a `with` frame or a loop frame on top, the loop frame with and without a
recursion return of either form, open captures and escape entries, a pending recursion jump -/
def probes : List State := [
  { pc := 1, h := 6, frames := [recLoop (some (2, true)) (some 1), .withF 0], caps := [none, some 0],
    escs := [0], bases := [1], next := none },
  { pc := 1, h := 6, frames := [recLoop (some (2, false)) (some 1), .withF 0], caps := [some 0],
    escs := [0], bases := [1], next := none },
  { pc := 1, h := 6, frames := [recLoop none none, .withF 0], caps := [some 0], escs := [0], bases := [],
    next := none },
  { pc := 1, h := 6, frames := [.withF 3, recLoop none none], caps := [some 0], escs := [0], bases := [],
    next := none },
  { pc := 1, h := 6, frames := [.withF 3], caps := [], escs := [], bases := [], next := some (2, true) },
  { pc := 1, h := 6, frames := [], caps := [], escs := [], bases := [], next := some (2, false) },
  { pc := 1, h := 6, frames := [], caps := [], escs := [], bases := [], next := none }]

/-- gains and losses of one transition: [frames+, frames-, caps+, caps-, escs+, escs-, bases+, bases-] -/
def delta (p t : State) : List Nat :=
  [t.frames.length - p.frames.length, p.frames.length - t.frames.length,
   t.caps.length - p.caps.length, p.caps.length - t.caps.length,
   t.escs.length - p.escs.length, p.escs.length - t.escs.length,
   t.bases.length - p.bases.length, p.bases.length - t.bases.length]

def maxL : List Nat → List Nat → List Nat
  | a :: as, b :: bs => max a b :: maxL as bs
  | _, _ => []

def zero8 : List Nat := [0, 0, 0, 0, 0, 0, 0, 0]

/-- the most one step of letter `i` pushes / pops on each stack, over all probes, run-time counts
and successors -/
def effOfLetter (i : Instr) : List Nat :=
  (probes.flatMap (fun p => ([0, 1, 2].flatMap (fun k => step condReal (probeCode i) p k)).map (delta p))).foldl
    maxL zero8

def effOf (name : String) : List Nat :=
  ((lettersOf name).map effOfLetter).foldl maxL zero8

def addL : List Nat → List Nat → List Nat
  | a :: as, b :: bs => (a + b) :: addL as bs
  | _, _ => []

/-- a row of the regenerated table with the `recurse_loop!` calls of the arm expanded: the macro
begins its capture under `if $capture` -/
def expand (macroRow : List Nat) (counts : List Nat) (recurseArgs : List String) : List Nat :=
  recurseArgs.foldl (fun acc a =>
    addL acc (if a == "true" then macroRow else macroRow.set 2 0)) counts

end MJ.OpsArms
