import MJ.Model.Fold
/-!
# The instruction stream of `compile_expr` (C04)

`codeC e` is the list of instructions `CodeGenerator::compile_expr` emits for `e` - for EVERY
expression form, constant or not: fold first (`LoadConst` of the folder's value), otherwise the code
of the children in evaluation order followed by the node's own instruction(s):

* `compile_bin_op`: `left; right; <op>`; `and`/`or`: `left; JumpIfFalseOrPop(end) | JumpIfTrueOrPop(end); right; end:`
* `compile_compare`: `first; (operand; CompareAndPreserve(op); JumpIfFalseOrPop(cleanup))*; last; <op> [Not];
  Jump(end); cleanup: Swap; DiscardTop; end:` (the three trailing instructions only for two or more links)
* `UnaryOp`: `operand; Not | Neg` (there is NO rewrite of the operand: `not (a >= b)` is `a; b; Gte; Not`)
* conditional expression: `test; JumpIfFalse(else); true; Jump(end); else: false | LoadConst(silent); end:`
* `compile_call_args` with its batches (`BuildList`/`UnpackLists`, `BuildKwargs`/`MergeKwargs`, the
  static keyword map) and the five call instructions.

Jump targets are RELATIVE here (`k` = number of instructions skipped after the jump), so the code of
an expression does not depend on where it is placed; the check prints the real stream the same way
(`target - (index + 1)`) and compares the two for every dumped hoisting variant of every case.

`run` executes such a stream on a value stack with the VM's handlers of `MJ.Fold` (`notInstr`,
`binInstr`, `compareAndPreserve`, `isTrueM`, …).  `MJ/Proofs/FoldCode.lean` proves that running
`codeC e` pushes exactly `evalC e` (and fails exactly when it fails) for the call-free expression
language, so a peephole that is not semantics preserving breaks either this correspondence or
the theorem.
-/
namespace MJ.Fold

inductive Instr where
  | loadConst (v : V)
  | lookup (x : String)
  | buildList (n : Nat)
  | buildTuple (n : Nat)
  | buildMap (n : Nat)
  | buildKwargs (n : Nat)
  | mergeKwargs (n : Nat)
  | unpackLists (n : Nat)
  | not
  | neg
  /-- `Add … Pow`, `StringConcat`, `Eq … Gte`, `In` -/
  | bin (op : BinOp)
  | jumpIfFalseOrPop (k : Nat)
  | jumpIfTrueOrPop (k : Nat)
  | jumpIfFalse (k : Nat)
  | jump (k : Nat)
  | compareAndPreserve (op : CmpOp)
  | swap
  | discardTop
  | getAttr (name : String)
  | getItem
  | slice
  | applyFilter (name : String) (argc : Option Nat)
  | performTest (name : String) (argc : Option Nat)
  | callFunction (name : String) (argc : Option Nat)
  | callMethod (name : String) (argc : Option Nat)
  | callObject (argc : Option Nat)
  deriving Repr

section
variable (P : Prims)

/-- `if let Some(v) = expr.as_const() { LoadConst(v); return }` -/
def foldedI (e : Expr) (rt : List Instr) : List Instr :=
  match foldFirst P e with
  | some v => [.loadConst v]
  | none => rt

/-- `emit_compare`: the instruction of the last operator of a chain -/
def cmpBin : CmpOp → BinOp
  | .eq => .eq | .ne => .ne | .lt => .lt | .le => .le | .gt => .gt | .ge => .ge
  | .in_ => .in_ | .notIn => .in_

def emitCompare (op : CmpOp) : List Instr :=
  match op with
  | .notIn => [.bin .in_, .not]
  | op => [.bin (cmpBin op)]

def Exprs.len : Exprs → Nat
  | .nil => 0
  | .cons _ es => es.len + 1

def Pairs.len : Pairs → Nat
  | .nil => 0
  | .cons _ _ r => r.len + 1

def Kws.len : Kws → Nat
  | .nil => 0
  | .cons _ _ r => r.len + 1

/-- the cleanup tail of `compile_compare` (only when there are cleanup jumps = two or more links) -/
def chainTail : Chain → List Instr
  | .cons _ _ (.cons _ _ _) => [.jump 2, .swap, .discardTop]
  | _ => []

/-- the state of the first loop of `compile_call_args` -/
structure PosState where
  pending : Nat
  batches : Nat

/-- does the second loop run (`has_kwargs`, no caller here)? -/
def Args.hasKw : Args → Bool
  | .nil => false
  | .pos _ r => r.hasKw
  | .posSplat _ r => r.hasKw
  | .kw _ _ _ => true
  | .kwSplat _ _ => true

/-- the end of `compile_call_args`: the last positional batch, `UnpackLists`, the argument count -/
def finishArgs (s : PosState) (hasKw : Bool) : List Instr × Option Nat :=
  let pending := s.pending + (if hasKw then 1 else 0)
  if s.batches > 0 then
    if pending > 0 then ([.buildList pending, .unpackLists (s.batches + 1)], none)
    else ([.unpackLists s.batches], none)
  else ([], some pending)

/-- keyword arguments of a call without splats: nothing for none, one static map, or the name/value
    pairs `dyn` followed by `BuildKwargs` -/
def kwPart (kws : Kws) (dyn : List Instr) : List Instr :=
  match kws with
  | .nil => []
  | kws =>
    match gate (P.codegenSpecial "static-kwargs") (constKws kws) with
    | some ks => [.loadConst (kwargsValue P ks)]
    | none => dyn ++ [.buildKwargs kws.len]

mutual
  def codeC : Expr → List Instr
    | .const v => [.loadConst v]
    | .var x => [.lookup x]
    | .list items => foldedI P (.list items) (codeCList items ++ [.buildList items.len])
    | .tuple items => foldedI P (.tuple items) (codeCList items ++ [.buildTuple items.len])
    | .map kvs => foldedI P (.map kvs) (codeCPairs kvs ++ [.buildMap kvs.len])
    | .not e => foldedI P (.not e) (codeC e ++ [.not])
    | .neg e => foldedI P (.neg e)
      (match gate (P.codegenSpecial "neg-const-shortcut")
               (match e with
                | .const c => Except.toOpt (P.neg c)
                | _ => none) with
      | some negated => [.loadConst negated]
      | none => codeC e ++ [.neg])
    | .bin .and l r => foldedI P (.bin .and l r)
      (codeC l ++ .jumpIfFalseOrPop (codeC r).length :: codeC r)
    | .bin .or l r => foldedI P (.bin .or l r)
      (codeC l ++ .jumpIfTrueOrPop (codeC r).length :: codeC r)
    | .bin op l r => foldedI P (.bin op l r) (codeC l ++ codeC r ++ [.bin op])
    | .cmp e ops => foldedI P (.cmp e ops) (codeC e ++ codeCChain ops ++ chainTail ops)
    | .getAttr e name => codeC e ++ [.getAttr name]
    | .getItem e idx => codeC e ++ codeC idx ++ [.getItem]
    | .slice e a b c => codeC e ++ codeCOpt .none a ++ codeCOpt .none b ++ codeCOpt .none c ++ [.slice]
    | .ifExpr c t f =>
      codeC c ++ .jumpIfFalse ((codeC t).length + 1) :: codeC t ++ .jump (codeCOpt .silent f).length :: codeCOpt .silent f
    | .filter name e pos kws =>
      codeC e ++ codeCList pos ++ kwPart P kws (codeCKws kws) ++ [.applyFilter name (some (1 + pos.len + (if kws.len > 0 then 1 else 0)))]
    | .test name e pos kws =>
      codeC e ++ codeCList pos ++ kwPart P kws (codeCKws kws) ++ [.performTest name (some (1 + pos.len + (if kws.len > 0 then 1 else 0)))]
    | .call name pos kws =>
      codeCList pos ++ kwPart P kws (codeCKws kws) ++ [.callFunction name (some (pos.len + (if kws.len > 0 then 1 else 0)))]
    | .callx kind recv name args =>
      let extra := match kind with | .function => 0 | _ => 1
      let (posCode, st) := codeCArgsPos args ⟨extra, 0⟩
      let kwCode := if args.hasKw then
          (match gate (P.codegenSpecial "static-kwargs") (constKwArgs args) with
           | some ks => if ks.isEmpty then [.buildKwargs 0] else [.loadConst (kwargsValue P ks)]
           | none => codeCArgsKw args 0 0)
        else []
      let (fin, argc) := finishArgs st args.hasKw
      codeCList recv ++ posCode ++ kwCode ++ fin ++
        [match kind with
         | .function => .callFunction name argc
         | .method => .callMethod name argc
         | .object => .callObject argc
         | .filter => .applyFilter name argc
         | .test => .performTest name argc]
  def codeCOpt (dflt : V) : OptExpr → List Instr
    | .none => [.loadConst dflt]
    | .some e => codeC e
  def codeCList : Exprs → List Instr
    | .nil => []
    | .cons e es => codeC e ++ codeCList es
  def codeCPairs : Pairs → List Instr
    | .nil => []
    | .cons k v rest => codeC k ++ codeC v ++ codeCPairs rest
  /-- the code after the first operand, without the cleanup tail: a non-final link jumps over the rest
      of the chain and the `Jump(end)` behind it to `cleanup_start` -/
  def codeCChain : Chain → List Instr
    | .nil => []
    | .cons op e .nil => codeC e ++ emitCompare op
    | .cons op e rest =>
      codeC e ++ .compareAndPreserve op :: .jumpIfFalseOrPop ((codeCChain rest).length + 1) :: codeCChain rest
  def codeCKws : Kws → List Instr
    | .nil => []
    | .cons n e rest => .loadConst (.str n) :: (codeC e ++ codeCKws rest)
  /-- first loop of `compile_call_args` -/
  def codeCArgsPos : Args → PosState → List Instr × PosState
    | .nil, s => ([], s)
    | .pos e rest, s =>
      let (c, s') := codeCArgsPos rest ⟨s.pending + 1, s.batches⟩
      (codeC e ++ c, s')
    | .posSplat e rest, s =>
      let pre := if s.pending > 0 then [Instr.buildList s.pending] else []
      let b := if s.pending > 0 then s.batches + 1 else s.batches
      let (c, s') := codeCArgsPos rest ⟨0, b + 1⟩
      (pre ++ codeC e ++ c, s')
    | .kw _ _ rest, s => codeCArgsPos rest s
    | .kwSplat _ rest, s => codeCArgsPos rest s
  /-- second loop (dynamic path) and what follows it: `pending` keyword pairs, `batches` kwargs batches -/
  def codeCArgsKw : Args → Nat → Nat → List Instr
    | .nil, pending, batches =>
      if batches > 0 then
        (if pending > 0 then [.buildKwargs pending, .mergeKwargs (batches + 1)] else [.mergeKwargs batches])
      else [.buildKwargs pending]
    | .pos _ rest, p, b => codeCArgsKw rest p b
    | .posSplat _ rest, p, b => codeCArgsKw rest p b
    | .kw n e rest, p, b => .loadConst (.str n) :: (codeC e ++ codeCArgsKw rest (p + 1) b)
    | .kwSplat e rest, p, b =>
      (if p > 0 then [Instr.buildKwargs p] else []) ++ codeC e ++ codeCArgsKw rest 0 ((if p > 0 then b + 1 else b) + 1)
end

/-! ## executing a stream -/

variable (m : Mode) (ρ : Env)

/-- the top `n` values of the stack in push order, and the stack below them -/
def popN (n : Nat) (st : List V) : Option (List V × List V) :=
  if n ≤ st.length then some ((st.take n).reverse, st.drop n) else none

def pairUp : List V → List (V × V)
  | k :: v :: rest => (k, v) :: pairUp rest
  | _ => []

def stackErr : Except Err (List V) := .error (.named "stack")

/-- `run code skip stack`: `skip` instructions are passed over first (a taken forward jump) -/
def run : List Instr → Nat → List V → Except Err (List V)
  | [], 0, st => .ok st
  | [], _ + 1, _ => .error (.named "jump")
  | _ :: c, k + 1, st => run c k st
  | i :: c, 0, st =>
    match i, st with
    | .loadConst v, st => run c 0 (v :: st)
    | .lookup x, st => run c 0 (lookup ρ x :: st)
    | .buildList n, st =>
      match popN n st with
      | some (xs, st) => run c 0 (.list xs :: st)
      | none => stackErr
    | .buildTuple n, st =>
      match popN n st with
      | some (xs, st) => run c 0 (.tuple xs :: st)
      | none => stackErr
    | .buildMap n, st =>
      match popN (2 * n) st with
      | some (xs, st) => run c 0 (P.mkMap (pairUp xs) :: st)
      | none => stackErr
    | .not, a :: st =>
      match notInstr P m a with
      | .error e => .error e
      | .ok v => run c 0 (v :: st)
    | .neg, a :: st =>
      match P.neg a with
      | .error e => .error e
      | .ok v => run c 0 (v :: st)
    | .bin op, b :: a :: st =>
      match binInstr P m op a b with
      | .error e => .error e
      | .ok v => run c 0 (v :: st)
    | .jumpIfFalseOrPop k, a :: st =>
      match isTrueM P m a with
      | .error e => .error e
      | .ok t => if t then run c 0 st else run c k (a :: st)
    | .jumpIfTrueOrPop k, a :: st =>
      match isTrueM P m a with
      | .error e => .error e
      | .ok t => if t then run c k (a :: st) else run c 0 st
    | .jumpIfFalse k, a :: st =>
      match isTrueM P m a with
      | .error e => .error e
      | .ok t => if t then run c 0 st else run c k st
    | .jump k, st => run c k st
    | .compareAndPreserve op, b :: a :: st =>
      match compareAndPreserve P m op a b with
      | .error e => .error e
      | .ok t => run c 0 (.bool t :: b :: st)
    | .swap, a :: b :: st => run c 0 (b :: a :: st)
    | .discardTop, _ :: st => run c 0 st
    | .getAttr name, a :: st =>
      match getAttrInstr P m a name with
      | .error e => .error e
      | .ok v => run c 0 (v :: st)
    | .getItem, i :: a :: st =>
      match getItemInstr P m a i with
      | .error e => .error e
      | .ok v => run c 0 (v :: st)
    | .slice, z :: y :: x :: a :: st =>
      match sliceInstr P m a x y z with
      | .error e => .error e
      | .ok v => run c 0 (v :: st)
    -- the call family is outside the executable stack semantics (the callee is a parameter that takes
    -- the argument pieces, not a stack)
    | _, _ => stackErr

end

end MJ.Fold
