/-!
# Constant folding versus run-time evaluation (C04)

Transcription of

* `compiler/ast.rs`: `Expr::as_const`, `eval_binop`, `eval_compare`, `const_values`,
  `List/Tuple/Map::as_const`  →  `asConst`, `evalBinop`, `evalCompare`, `constValues`, `constPairs`;
* `compiler/codegen.rs`: `compile_expr` (fold first, otherwise emit run-time code; the `Neg`-of-
  `Const` shortcut; `compile_bin_op`, `compile_compare`, static keyword arguments of
  `compile_call_args`)  →  `evalC` (the value computed by the code `compile_expr` emits);
* `vm/mod.rs`: what the emitted instructions compute (`LoadConst`, `Lookup`, `BuildList/Tuple/Map`,
  `Not`, `Neg`, `func_binop!`, `op_binop!` with its undefined assertions, `StringConcat`, `In`,
  `JumpIfFalseOrPop`/`JumpIfTrueOrPop`, `CompareAndPreserve` + clean-up, `BuildKwargs`)
  →  `evalRt` (run-time semantics with no folding anywhere).

The primitive value operations (`ops::add … ops::neg`, `ops::contains`, `ops::string_concat`,
`PartialEq`/`Ord` of `Value`, `Value::is_true`, `ValueMap` construction, the callee of a call) are
*shared* by folder and VM in the Rust code; here they are the fields of `Prims`, so everything proved
about the model holds for every implementation of them.  What is modelled on both sides is the
duplicated control and coercion logic: the result of `and`/`or`, comparison chains, `not`, `in`,
`neg`, list/tuple/map construction, evaluation order and error-or-not.

Everything that can sit between constants but is *not* folded is part of the fragment too:
attribute and item access, slices, conditional expressions (a missing `else` is the silent
undefined), filters, tests and calls of global functions (all three with static keyword
arguments).  `asConst` is `none` on them; their run-time meaning is again a parameter (`Prims`),
the VM's own control around them (`handle_undefined`, the strict check of `Slice`, `JumpIfFalse`)
is modelled.
-/
namespace MJ.Fold

/-- `ErrorKind` (only the kind is observable to the property) -/
inductive Err where
  | invalidOperation
  | undefinedError
  | named (kind : String)
  deriving DecidableEq, Repr

/-- `UndefinedBehavior` -/
inductive Mode where
  | lenient | chainable | semiStrict | strict
  deriving DecidableEq, Repr

/-- run-time values (the fragment reachable from the literal syntax) -/
inductive V where
  | undef
  /-- `UndefinedType::Silent` (a conditional expression without `else`) -/
  | silent
  | none
  | bool (b : Bool)
  | int (n : Int)
  | float (bits : Nat)
  | str (s : String)
  | list (xs : List V)
  | tuple (xs : List V)
  | map (kvs : List (V × V))
  | other (tag : Nat)
  deriving Repr, Inhabited

inductive BinOp where
  | add | sub | mul | div | fdiv | rem | pow | cat
  | eq | ne | lt | le | gt | ge | in_ | and | or
  deriving DecidableEq, Repr

inductive CmpOp where
  | eq | ne | lt | le | gt | ge | in_ | notIn
  deriving DecidableEq, Repr

/-- what is called: `CallType::{Function, Method, Object}` of a call expression, or a filter / test
    (they share `compile_call_args`) -/
inductive CallKind where
  | function | method | object | filter | test
  deriving DecidableEq, Repr

/-- an evaluated argument, as `compile_call_args` arranges the stack for the callee: positional
    values and `*splat` values in source order, then keyword values and `**splat` values in source order -/
inductive ArgV where
  | pos (v : V)
  | posSplat (v : V)
  | kw (name : String) (v : V)
  | kwSplat (v : V)
  deriving Repr

mutual
  /-- `ast::Expr`, literal fragment + variables + calls with keyword arguments -/
  inductive Expr where
    | const (v : V)
    | var (x : String)
    | list (items : Exprs)
    | tuple (items : Exprs)
    | map (kvs : Pairs)
    | not (e : Expr)
    | neg (e : Expr)
    | bin (op : BinOp) (l r : Expr)
    | cmp (e : Expr) (ops : Chain)
    | getAttr (e : Expr) (name : String)
    | getItem (e : Expr) (idx : Expr)
    | slice (e : Expr) (start stop step : OptExpr)
    | ifExpr (test ifTrue : Expr) (ifFalse : OptExpr)
    | filter (name : String) (e : Expr) (pos : Exprs) (kws : Kws)
    | test (name : String) (e : Expr) (pos : Exprs) (kws : Kws)
    /-- `CallType::Function(name)` -/
    | call (name : String) (pos : Exprs) (kws : Kws)
    /-- the general call form: any callee kind (`recv` = the receiver of a method call, the callee of
        an object call, the subject of a filter or test; empty for a function call) and any mix of
        positional, `*splat`, keyword and `**splat` arguments -/
    | callx (kind : CallKind) (recv : Exprs) (name : String) (args : Args)
  inductive OptExpr where
    | none
    | some (e : Expr)
  inductive Exprs where
    | nil
    | cons (e : Expr) (es : Exprs)
  /-- `Map { keys, values }` zipped -/
  inductive Pairs where
    | nil
    | cons (k v : Expr) (rest : Pairs)
  /-- `Vec<CompareOp { op, expr }>` -/
  inductive Chain where
    | nil
    | cons (op : CmpOp) (e : Expr) (rest : Chain)
  /-- `CallArg::Kwarg(name, expr)` in source order -/
  inductive Kws where
    | nil
    | cons (name : String) (e : Expr) (rest : Kws)
  /-- `Vec<CallArg>`: `Pos`, `PosSplat`, `Kwarg`, `KwargSplat` in source order -/
  inductive Args where
    | nil
    | pos (e : Expr) (rest : Args)
    | posSplat (e : Expr) (rest : Args)
    | kw (name : String) (e : Expr) (rest : Args)
    | kwSplat (e : Expr) (rest : Args)
end

/-- the value operations shared by the folder and the VM -/
structure Prims where
  add : V → V → Except Err V
  sub : V → V → Except Err V
  mul : V → V → Except Err V
  div : V → V → Except Err V
  fdiv : V → V → Except Err V
  rem : V → V → Except Err V
  pow : V → V → Except Err V
  neg : V → Except Err V
  /-- `ops::string_concat(left, right)` -/
  concat : V → V → V
  /-- `PartialEq for Value` -/
  eq : V → V → Bool
  /-- `Ord for Value` -/
  cmp : V → V → Ordering
  /-- `ops::contains(container, item)` -/
  contains : V → V → Except Err V
  /-- `Value::is_true` -/
  isTrue : V → Bool
  /-- `ValueMap` filled by `insert` in the given order, then `Value::from_object` -/
  mkMap : List (V × V) → V
  /-- `Value::get_attr_fast` -/
  getAttr : V → String → Option V
  /-- `Value::get_item_opt(container, index)` -/
  getItem : V → V → Option V
  /-- `ops::slice(value, start, stop, step)` -/
  slice : V → V → V → V → Except Err V
  /-- the global function `name` applied to the positional values and the keyword map filled in
      the given order (`CallFunction`) -/
  callKw : Mode → String → List V → List (String × V) → Except Err V
  /-- `ApplyFilter(name)`: the filter applied to the subject followed by the positional values -/
  filter : Mode → String → List V → List (String × V) → Except Err V
  /-- `PerformTest(name)` -/
  test : Mode → String → List V → List (String × V) → Except Err Bool
  /-- the general call: `UnpackLists` / `MergeKwargs` over the evaluated arguments, then
      `CallFunction` / `CallMethod` / `CallObject` / `ApplyFilter` / `PerformTest`.  `BuildKwargs` over
      evaluated pairs and `LoadConst(Kwargs::wrap(..))` over constant pairs both fill a `ValueMap` in
      source order, so the callee sees the keyword pieces `kw n v` either way. -/
  callX : Mode → CallKind → String → List V → List ArgV → Except Err V
  /-- does `Expr::as_const` have an arm for this variant of `enum Expr`?  (The concrete instance
      reads the list regenerated from `compiler/ast.rs`; the model's folder dispatches over it, so
      it folds exactly the node kinds the source folds.) -/
  foldsVariant : String → Bool
  /-- is this compile-time special case present in `compiler/codegen.rs`?  (`"fold-first"`,
      `"neg-const-shortcut"`, `"static-kwargs"`; regenerated from the source as well) -/
  codegenSpecial : String → Bool

abbrev Env := String → Option V

def Except.toOpt {α : Type} : Except Err α → Option α
  | .ok a => some a
  | .error _ => none

/-- an arm / special case that is only there when the source has it -/
def gate {α : Type} (present : Bool) (x : Option α) : Option α := if present then x else none

section
variable (P : Prims)

/-! ## comparison helpers (`a < b` etc. on `Value` are `Ord::cmp`, `==` is `PartialEq::eq`) -/

def ltV (a b : V) : Bool := P.cmp a b == .lt
def leV (a b : V) : Bool := P.cmp a b != .gt
def gtV (a b : V) : Bool := P.cmp a b == .gt
def geV (a b : V) : Bool := P.cmp a b != .lt

/-! ## the folder (`compiler/ast.rs`) -/

/-- `eval_binop` (after the fix: `ScAnd` returns the deciding operand) -/
def evalBinop (op : BinOp) (l r : V) : Option V :=
  match op with
  | .add => Except.toOpt (P.add l r)
  | .sub => Except.toOpt (P.sub l r)
  | .mul => Except.toOpt (P.mul l r)
  | .div => Except.toOpt (P.div l r)
  | .fdiv => Except.toOpt (P.fdiv l r)
  | .rem => Except.toOpt (P.rem l r)
  | .pow => Except.toOpt (P.pow l r)
  | .cat => some (P.concat l r)
  | .eq => some (.bool (P.eq l r))
  | .ne => some (.bool (!P.eq l r))
  | .lt => some (.bool (ltV P l r))
  | .le => some (.bool (leV P l r))
  | .gt => some (.bool (gtV P l r))
  | .ge => some (.bool (geV P l r))
  | .in_ => Except.toOpt (P.contains r l)
  | .and => some (if P.isTrue l then r else l)
  | .or => some (if P.isTrue l then l else r)

/-- `eval_binop` before the fix (`fix:` commit 25af7fa), kept for the counterexample -/
def evalBinopOld (op : BinOp) (l r : V) : Option V :=
  match op with
  | .and => some (if P.isTrue l && P.isTrue r then r else .bool false)
  | op => evalBinop P op l r

/-- `eval_compare` -/
def evalCompare (op : CmpOp) (l r : V) : Option V :=
  match op with
  | .eq => some (.bool (P.eq l r))
  | .ne => some (.bool (!P.eq l r))
  | .lt => some (.bool (ltV P l r))
  | .le => some (.bool (leV P l r))
  | .gt => some (.bool (gtV P l r))
  | .ge => some (.bool (geV P l r))
  | .in_ => Except.toOpt (P.contains r l)
  | .notIn => (Except.toOpt (P.contains r l)).map fun v => .bool (!P.isTrue v)

/-- `const_values`: only *direct* `Expr::Const` items count -/
def constValues : Exprs → Option (List V)
  | .nil => some []
  | .cons (.const v) es => (constValues es).map (v :: ·)
  | .cons _ _ => none

/-- `Map::as_const`: keys and values all direct constants -/
def constPairs : Pairs → Option (List (V × V))
  | .nil => some []
  | .cons (.const k) (.const v) rest => (constPairs rest).map ((k, v) :: ·)
  | .cons _ _ _ => none

/-- the static keyword arguments of `compile_call_args`: every value a direct constant -/
def constKws : Kws → Option (List (String × V))
  | .nil => some []
  | .cons n (.const v) rest => (constKws rest).map ((n, v) :: ·)
  | .cons _ _ _ => none

/-- the static keyword arguments of `compile_call_args` in the general form: every keyword value a
    direct constant and no `**splat` (a `*splat` does not switch the static path off) -/
def constKwArgs : Args → Option (List (String × V))
  | .nil => some []
  | .pos _ rest => constKwArgs rest
  | .posSplat _ rest => constKwArgs rest
  | .kw n (.const v) rest => (constKwArgs rest).map ((n, v) :: ·)
  | .kw _ _ _ => none
  | .kwSplat _ _ => none

def kwPieces (ks : List (String × V)) : List ArgV := ks.map fun p => .kw p.1 p.2

mutual
  /-- `Expr::as_const` -/
  def asConst : Expr → Option V
    | .const v => some v
    | .var _ => none
    | .list items => gate (P.foldsVariant "List") ((constValues items).map V.list)
    | .tuple items => gate (P.foldsVariant "Tuple") ((constValues items).map V.tuple)
    | .map kvs => gate (P.foldsVariant "Map") ((constPairs kvs).map P.mkMap)
    | .not e => gate (P.foldsVariant "UnaryOp") ((asConst e).map fun v => .bool (!P.isTrue v))
    | .neg e => gate (P.foldsVariant "UnaryOp") ((asConst e).bind fun v => Except.toOpt (P.neg v))
    | .bin op l r =>
      gate (P.foldsVariant "BinOp")
        (match asConst l, asConst r with
         | some a, some b => evalBinop P op a b
         | _, _ => none)
    | .cmp e ops =>
      gate (P.foldsVariant "Compare")
        (match asConst e with
         | some left => asConstChain left ops
         | none => none)
    -- `_ => None`
    | .getAttr _ _ => none
    | .getItem _ _ => none
    | .slice _ _ _ _ => none
    | .ifExpr _ _ _ => none
    | .filter _ _ _ _ => none
    | .test _ _ _ _ => none
    | .call _ _ _ => none
    | .callx _ _ _ _ => none
  /-- the `for op in &c.ops` loop of the `Compare` arm; an operand is only looked at when reached -/
  def asConstChain (left : V) : Chain → Option V
    | .nil => some (.bool true)
    | .cons op e rest =>
      match asConst e with
      | none => none
      | some right =>
        match evalCompare P op left right with
        | none => none
        | some v => if P.isTrue v then asConstChain right rest else some (.bool false)
end

/-! ## the run-time side (`vm/mod.rs`) -/

variable (m : Mode)

/-- `UndefinedBehavior::assert_value_not_undefined` (= `assert_iterable` on the same value) -/
def assertDefined : V → Except Err Unit
  | .undef => match m with
    | .strict | .semiStrict => .error .undefinedError
    | _ => .ok ()
  | _ => .ok ()

/-- `UndefinedBehavior::is_true` -/
def isTrueM (v : V) : Except Err Bool :=
  match m, v with
  | .strict, .undef => .error .undefinedError
  | _, v => .ok (P.isTrue v)

/-- `op_binop!`: both operands popped, asserted (left first), compared -/
def opBinop (f : V → V → Bool) (a b : V) : Except Err V :=
  match assertDefined m a with
  | .error e => .error e
  | .ok _ => match assertDefined m b with
    | .error e => .error e
    | .ok _ => .ok (.bool (f a b))

/-- `Instruction::In`: `assert_iterable(container)`, `assert_value_not_undefined(item)`, `contains` -/
def inInstr (item container : V) : Except Err V :=
  match assertDefined m container with
  | .error e => .error e
  | .ok _ => match assertDefined m item with
    | .error e => .error e
    | .ok _ => P.contains container item

/-- `Instruction::Not` -/
def notInstr (v : V) : Except Err V :=
  match isTrueM P m v with
  | .error e => .error e
  | .ok b => .ok (.bool (!b))

/-- the instruction `compile_bin_op` emits for a non short-circuit operator, applied to the two
    operand values (left pushed first) -/
def binInstr (op : BinOp) (a b : V) : Except Err V :=
  match op with
  | .add => P.add a b
  | .sub => P.sub a b
  | .mul => P.mul a b
  | .div => P.div a b
  | .fdiv => P.fdiv a b
  | .rem => P.rem a b
  | .pow => P.pow a b
  | .cat =>
    match assertDefined m a with
    | .error e => .error e
    | .ok _ => match assertDefined m b with
      | .error e => .error e
      | .ok _ => .ok (P.concat a b)
  | .eq => opBinop m (P.eq) a b
  | .ne => opBinop m (fun x y => !P.eq x y) a b
  | .lt => opBinop m (ltV P) a b
  | .le => opBinop m (leV P) a b
  | .gt => opBinop m (gtV P) a b
  | .ge => opBinop m (geV P) a b
  | .in_ => inInstr P m a b
  -- `and`/`or` never reach an instruction (handled by jumps); any value keeps the function total
  | .and => .ok b
  | .or => .ok b

/-- `emit_compare`: the last operator of a chain -/
def finalCompare (op : CmpOp) (a b : V) : Except Err V :=
  match op with
  | .eq => opBinop m (P.eq) a b
  | .ne => opBinop m (fun x y => !P.eq x y) a b
  | .lt => opBinop m (ltV P) a b
  | .le => opBinop m (leV P) a b
  | .gt => opBinop m (gtV P) a b
  | .ge => opBinop m (geV P) a b
  | .in_ => inInstr P m a b
  | .notIn =>
    match inInstr P m a b with
    | .error e => .error e
    | .ok v => notInstr P m v

/-- `Instruction::CompareAndPreserve(op)`: the boolean pushed on top of the preserved operand -/
def compareAndPreserve (op : CmpOp) (a b : V) : Except Err Bool :=
  match op with
  | .eq | .ne | .lt | .le | .gt | .ge =>
    match assertDefined m a with
    | .error e => .error e
    | .ok _ => match assertDefined m b with
      | .error e => .error e
      | .ok _ => .ok (match op with
        | .eq => P.eq a b
        | .ne => !P.eq a b
        | .lt => ltV P a b
        | .le => leV P a b
        | .gt => gtV P a b
        | _ => geV P a b)
  | .in_ | .notIn =>
    match assertDefined m b with
    | .error e => .error e
    | .ok _ => match assertDefined m a with
      | .error e => .error e
      | .ok _ => match P.contains b a with
        | .error e => .error e
        | .ok v => .ok (if op = .notIn then !P.isTrue v else P.isTrue v)

/-- `Value::is_undefined` -/
def isUndefined : V → Bool
  | .undef | .silent => true
  | _ => false

/-- `UndefinedBehavior::handle_undefined(parent_was_undefined)` -/
def handleUndefined (parentUndefined : Bool) : Except Err V :=
  match m, parentUndefined with
  | .chainable, _ => .ok .undef
  | _, false => .ok .undef
  | _, true => .error .undefinedError

/-- `Instruction::GetAttr(name)` -/
def getAttrInstr (v : V) (name : String) : Except Err V :=
  match P.getAttr v name with
  | some r => .ok r
  | none => handleUndefined m (isUndefined v)

/-- `Instruction::GetItem` (container pushed first) -/
def getItemInstr (container idx : V) : Except Err V :=
  match P.getItem container idx with
  | some r => .ok r
  | none => handleUndefined m (isUndefined container)

/-- `Instruction::Slice` -/
def sliceInstr (v start stop step : V) : Except Err V :=
  if isUndefined v ∧ m = .strict then .error .undefinedError else P.slice v start stop step

/-- `Instruction::PerformTest`: the boolean is pushed as a value -/
def testInstr (name : String) (args : List V) (ks : List (String × V)) : Except Err V :=
  match P.test m name args ks with
  | .error e => .error e
  | .ok b => .ok (.bool b)

variable (ρ : Env)

/-- `Instruction::Lookup` -/
def lookup (x : String) : V := (ρ x).getD .undef

mutual
  /-- the value the *unfolded* run-time code of an expression computes -/
  def evalRt : Expr → Except Err V
    | .const v => .ok v
    | .var x => .ok (lookup ρ x)
    | .list items =>
      match evalRtList items with
      | .error e => .error e
      | .ok vs => .ok (.list vs)
    | .tuple items =>
      match evalRtList items with
      | .error e => .error e
      | .ok vs => .ok (.tuple vs)
    | .map kvs =>
      match evalRtPairs kvs with
      | .error e => .error e
      | .ok ps => .ok (P.mkMap ps)
    | .not e =>
      match evalRt e with
      | .error e => .error e
      | .ok v => notInstr P m v
    | .neg e =>
      match evalRt e with
      | .error e => .error e
      | .ok v => P.neg v
    | .bin .and l r =>
      -- left; JumpIfFalseOrPop(end); right; end:
      match evalRt l with
      | .error e => .error e
      | .ok a => match isTrueM P m a with
        | .error e => .error e
        | .ok t => if t then evalRt r else .ok a
    | .bin .or l r =>
      -- left; JumpIfTrueOrPop(end); right; end:
      match evalRt l with
      | .error e => .error e
      | .ok a => match isTrueM P m a with
        | .error e => .error e
        | .ok t => if t then .ok a else evalRt r
    | .bin op l r =>
      match evalRt l with
      | .error e => .error e
      | .ok a => match evalRt r with
        | .error e => .error e
        | .ok b => binInstr P m op a b
    | .cmp e ops =>
      match evalRt e with
      | .error e => .error e
      | .ok left => evalRtChain left ops
    | .getAttr e name =>
      match evalRt e with
      | .error e => .error e
      | .ok v => getAttrInstr P m v name
    | .getItem e idx =>
      match evalRt e with
      | .error e => .error e
      | .ok v => match evalRt idx with
        | .error e => .error e
        | .ok i => getItemInstr P m v i
    | .slice e a b c =>
      -- a missing bound is `LoadConst(none)`
      match evalRt e with
      | .error e => .error e
      | .ok v => match evalRtOpt .none a with
        | .error e => .error e
        | .ok av => match evalRtOpt .none b with
          | .error e => .error e
          | .ok bv => match evalRtOpt .none c with
            | .error e => .error e
            | .ok cv => sliceInstr P m v av bv cv
    | .ifExpr c t f =>
      -- test; JumpIfFalse(else); true; Jump(end); else: false | LoadConst(silent undefined); end:
      match evalRt c with
      | .error e => .error e
      | .ok cv => match isTrueM P m cv with
        | .error e => .error e
        | .ok b => if b then evalRt t else evalRtOpt .silent f
    | .filter name e pos kws =>
      match evalRt e with
      | .error e => .error e
      | .ok v => match evalRtList pos with
        | .error e => .error e
        | .ok ps => match evalRtKws kws with
          | .error e => .error e
          | .ok ks => P.filter m name (v :: ps) ks
    | .test name e pos kws =>
      match evalRt e with
      | .error e => .error e
      | .ok v => match evalRtList pos with
        | .error e => .error e
        | .ok ps => match evalRtKws kws with
          | .error e => .error e
          | .ok ks => testInstr P m name (v :: ps) ks
    | .call name pos kws =>
      match evalRtList pos with
      | .error e => .error e
      | .ok ps => match evalRtKws kws with
        | .error e => .error e
        | .ok ks => P.callKw m name ps ks
    | .callx kind recv name args =>
      -- receiver; first loop of `compile_call_args` (positional and `*splat`); second loop (keyword and `**splat`)
      match evalRtList recv with
      | .error e => .error e
      | .ok rv => match evalRtArgsPos args with
        | .error e => .error e
        | .ok ps => match evalRtArgsKw args with
          | .error e => .error e
          | .ok ks => P.callX m kind name rv (ps ++ ks)
  /-- an optional operand; `dflt` is what the code generator loads when it is missing -/
  def evalRtOpt (dflt : V) : OptExpr → Except Err V
    | .none => .ok dflt
    | .some e => evalRt e
  def evalRtList : Exprs → Except Err (List V)
    | .nil => .ok []
    | .cons e es =>
      match evalRt e with
      | .error e => .error e
      | .ok v => match evalRtList es with
        | .error e => .error e
        | .ok vs => .ok (v :: vs)
  def evalRtPairs : Pairs → Except Err (List (V × V))
    | .nil => .ok []
    | .cons k v rest =>
      match evalRt k with
      | .error e => .error e
      | .ok kv => match evalRt v with
        | .error e => .error e
        | .ok vv => match evalRtPairs rest with
          | .error e => .error e
          | .ok ps => .ok ((kv, vv) :: ps)
  /-- `compile_compare` after the first operand: `left` is the preserved value on the stack -/
  def evalRtChain (left : V) : Chain → Except Err V
    | .nil => .ok left
    | .cons op e .nil =>
      match evalRt e with
      | .error e => .error e
      | .ok right => finalCompare P m op left right
    | .cons op e rest =>
      match evalRt e with
      | .error e => .error e
      | .ok right => match compareAndPreserve P m op left right with
        | .error e => .error e
        -- JumpIfFalseOrPop on a boolean; the clean-up code (Swap; DiscardTop) leaves `false`
        | .ok t => if t then evalRtChain right rest else .ok (.bool false)
  def evalRtKws : Kws → Except Err (List (String × V))
    | .nil => .ok []
    | .cons n e rest =>
      match evalRt e with
      | .error e => .error e
      | .ok v => match evalRtKws rest with
        | .error e => .error e
        | .ok ks => .ok ((n, v) :: ks)
  def evalRtArgsPos : Args → Except Err (List ArgV)
    | .nil => .ok []
    | .pos e rest =>
      match evalRt e with
      | .error e => .error e
      | .ok v => match evalRtArgsPos rest with
        | .error e => .error e
        | .ok vs => .ok (.pos v :: vs)
    | .posSplat e rest =>
      match evalRt e with
      | .error e => .error e
      | .ok v => match evalRtArgsPos rest with
        | .error e => .error e
        | .ok vs => .ok (.posSplat v :: vs)
    | .kw _ _ rest => evalRtArgsPos rest
    | .kwSplat _ rest => evalRtArgsPos rest
  def evalRtArgsKw : Args → Except Err (List ArgV)
    | .nil => .ok []
    | .pos _ rest => evalRtArgsKw rest
    | .posSplat _ rest => evalRtArgsKw rest
    | .kw n e rest =>
      match evalRt e with
      | .error e => .error e
      | .ok v => match evalRtArgsKw rest with
        | .error e => .error e
        | .ok vs => .ok (.kw n v :: vs)
    | .kwSplat e rest =>
      match evalRt e with
      | .error e => .error e
      | .ok v => match evalRtArgsKw rest with
        | .error e => .error e
        | .ok vs => .ok (.kwSplat v :: vs)
end

/-! ## what `compile_expr` really emits: fold first, otherwise run-time code over compiled children -/

/-- the constant `compile_expr` loads instead of compiling the expression -/
def foldFirst (e : Expr) : Option V := gate (P.codegenSpecial "fold-first") (asConst P e)

/-- `if let Some(v) = expr.as_const() { LoadConst(v); return }` -/
def folded (e : Expr) (rt : Except Err V) : Except Err V :=
  match foldFirst P e with
  | some v => .ok v
  | none => rt

mutual
  def evalC : Expr → Except Err V
    | .const v => .ok v
    | .var x => .ok (lookup ρ x)
    | .list items => folded P (.list items)
      (match evalCList items with
      | .error e => .error e
      | .ok vs => .ok (.list vs))
    | .tuple items => folded P (.tuple items)
      (match evalCList items with
      | .error e => .error e
      | .ok vs => .ok (.tuple vs))
    | .map kvs => folded P (.map kvs)
      (match evalCPairs kvs with
      | .error e => .error e
      | .ok ps => .ok (P.mkMap ps))
    | .not e => folded P (.not e)
      (match evalC e with
      | .error e => .error e
      | .ok v => notInstr P m v)
    | .neg e => folded P (.neg e)
      -- the `Neg` special case of `compile_expr`: a constant operand is negated at compile time
      -- when that succeeds
      (match gate (P.codegenSpecial "neg-const-shortcut")
               (match e with
                | .const c => Except.toOpt (P.neg c)
                | _ => none) with
      | some negated => .ok negated
      | none =>
        match evalC e with
        | .error e => .error e
        | .ok v => P.neg v)
    | .bin .and l r => folded P (.bin .and l r)
      (match evalC l with
      | .error e => .error e
      | .ok a => match isTrueM P m a with
        | .error e => .error e
        | .ok t => if t then evalC r else .ok a)
    | .bin .or l r => folded P (.bin .or l r)
      (match evalC l with
      | .error e => .error e
      | .ok a => match isTrueM P m a with
        | .error e => .error e
        | .ok t => if t then .ok a else evalC r)
    | .bin op l r => folded P (.bin op l r)
      (match evalC l with
      | .error e => .error e
      | .ok a => match evalC r with
        | .error e => .error e
        | .ok b => binInstr P m op a b)
    | .cmp e ops => folded P (.cmp e ops)
      (match evalC e with
      | .error e => .error e
      | .ok left => evalCChain left ops)
    | .getAttr e name =>
      match evalC e with
      | .error e => .error e
      | .ok v => getAttrInstr P m v name
    | .getItem e idx =>
      match evalC e with
      | .error e => .error e
      | .ok v => match evalC idx with
        | .error e => .error e
        | .ok i => getItemInstr P m v i
    | .slice e a b c =>
      match evalC e with
      | .error e => .error e
      | .ok v => match evalCOpt .none a with
        | .error e => .error e
        | .ok av => match evalCOpt .none b with
          | .error e => .error e
          | .ok bv => match evalCOpt .none c with
            | .error e => .error e
            | .ok cv => sliceInstr P m v av bv cv
    | .ifExpr c t f =>
      match evalC c with
      | .error e => .error e
      | .ok cv => match isTrueM P m cv with
        | .error e => .error e
        | .ok b => if b then evalC t else evalCOpt .silent f
    | .filter name e pos kws =>
      match evalC e with
      | .error e => .error e
      | .ok v => match evalCList pos with
        | .error e => .error e
        | .ok ps =>
          match gate (P.codegenSpecial "static-kwargs") (constKws kws) with
          | some ks => P.filter m name (v :: ps) ks
          | none => match evalCKws kws with
            | .error e => .error e
            | .ok ks => P.filter m name (v :: ps) ks
    | .test name e pos kws =>
      match evalC e with
      | .error e => .error e
      | .ok v => match evalCList pos with
        | .error e => .error e
        | .ok ps =>
          match gate (P.codegenSpecial "static-kwargs") (constKws kws) with
          | some ks => testInstr P m name (v :: ps) ks
          | none => match evalCKws kws with
            | .error e => .error e
            | .ok ks => testInstr P m name (v :: ps) ks
    | .call name pos kws =>
      match evalCList pos with
      | .error e => .error e
      | .ok ps =>
        -- static keyword arguments: collected at compile time into one `LoadConst(Kwargs)`
        match gate (P.codegenSpecial "static-kwargs") (constKws kws) with
        | some ks => P.callKw m name ps ks
        | none => match evalCKws kws with
          | .error e => .error e
          | .ok ks => P.callKw m name ps ks
    | .callx kind recv name args =>
      match evalCList recv with
      | .error e => .error e
      | .ok rv => match evalCArgsPos args with
        | .error e => .error e
        | .ok ps =>
          -- `static_kwargs`: all keyword values constants, no `**splat`
          match gate (P.codegenSpecial "static-kwargs") (constKwArgs args) with
          | some ks => P.callX m kind name rv (ps ++ kwPieces ks)
          | none => match evalCArgsKw args with
            | .error e => .error e
            | .ok ks => P.callX m kind name rv (ps ++ ks)
  def evalCOpt (dflt : V) : OptExpr → Except Err V
    | .none => .ok dflt
    | .some e => evalC e
  def evalCList : Exprs → Except Err (List V)
    | .nil => .ok []
    | .cons e es =>
      match evalC e with
      | .error e => .error e
      | .ok v => match evalCList es with
        | .error e => .error e
        | .ok vs => .ok (v :: vs)
  def evalCPairs : Pairs → Except Err (List (V × V))
    | .nil => .ok []
    | .cons k v rest =>
      match evalC k with
      | .error e => .error e
      | .ok kv => match evalC v with
        | .error e => .error e
        | .ok vv => match evalCPairs rest with
          | .error e => .error e
          | .ok ps => .ok ((kv, vv) :: ps)
  def evalCChain (left : V) : Chain → Except Err V
    | .nil => .ok left
    | .cons op e .nil =>
      match evalC e with
      | .error e => .error e
      | .ok right => finalCompare P m op left right
    | .cons op e rest =>
      match evalC e with
      | .error e => .error e
      | .ok right => match compareAndPreserve P m op left right with
        | .error e => .error e
        | .ok t => if t then evalCChain right rest else .ok (.bool false)
  def evalCKws : Kws → Except Err (List (String × V))
    | .nil => .ok []
    | .cons n e rest =>
      match evalC e with
      | .error e => .error e
      | .ok v => match evalCKws rest with
        | .error e => .error e
        | .ok ks => .ok ((n, v) :: ks)
  def evalCArgsPos : Args → Except Err (List ArgV)
    | .nil => .ok []
    | .pos e rest =>
      match evalC e with
      | .error e => .error e
      | .ok v => match evalCArgsPos rest with
        | .error e => .error e
        | .ok vs => .ok (.pos v :: vs)
    | .posSplat e rest =>
      match evalC e with
      | .error e => .error e
      | .ok v => match evalCArgsPos rest with
        | .error e => .error e
        | .ok vs => .ok (.posSplat v :: vs)
    | .kw _ _ rest => evalCArgsPos rest
    | .kwSplat _ rest => evalCArgsPos rest
  def evalCArgsKw : Args → Except Err (List ArgV)
    | .nil => .ok []
    | .pos _ rest => evalCArgsKw rest
    | .posSplat _ rest => evalCArgsKw rest
    | .kw n e rest =>
      match evalC e with
      | .error e => .error e
      | .ok v => match evalCArgsKw rest with
        | .error e => .error e
        | .ok vs => .ok (.kw n v :: vs)
    | .kwSplat e rest =>
      match evalC e with
      | .error e => .error e
      | .ok v => match evalCArgsKw rest with
        | .error e => .error e
        | .ok vs => .ok (.kwSplat v :: vs)
end

/-! ## the constants in the emitted code

`constsC e` lists the values of the `LoadConst` instructions of the code `compile_expr` emits for `e`,
in code order: a folded node is ONE constant (the folder's value), an unfolded node contributes the
constants of its children plus the fixed ones of its own code (`none` for a missing slice bound, the
silent undefined for a missing `else`, the negated constant of the `Neg` shortcut, the static keyword
map, the names of dynamic keyword arguments).  No operator rewrites an operand into another constant:
the right operand of `in` is compiled like every other operand.  The driver prints this list and the
check compares it with the real instruction stream of the hoisting variants. -/

/-- `Kwargs::wrap(collected_kwargs)`: a `ValueMap` filled by `insert(Value::from(key), value)` -/
def kwargsValue (ks : List (String × V)) : V := P.mkMap (ks.map fun (n, v) => (V.str n, v))

def foldedK (e : Expr) (rt : List V) : List V :=
  match foldFirst P e with
  | some v => [v]
  | none => rt

mutual
  def constsC : Expr → List V
    | .const v => [v]
    | .var _ => []
    | .list items => foldedK P (.list items) (constsCList items)
    | .tuple items => foldedK P (.tuple items) (constsCList items)
    | .map kvs => foldedK P (.map kvs) (constsCPairs kvs)
    | .not e => foldedK P (.not e) (constsC e)
    | .neg e => foldedK P (.neg e)
      (match gate (P.codegenSpecial "neg-const-shortcut")
               (match e with
                | .const c => Except.toOpt (P.neg c)
                | _ => none) with
      | some negated => [negated]
      | none => constsC e)
    | .bin op l r => foldedK P (.bin op l r) (constsC l ++ constsC r)
    | .cmp e ops => foldedK P (.cmp e ops) (constsC e ++ constsCChain ops)
    | .getAttr e _ => constsC e
    | .getItem e idx => constsC e ++ constsC idx
    | .slice e a b c => constsC e ++ constsCOpt .none a ++ constsCOpt .none b ++ constsCOpt .none c
    | .ifExpr c t f => constsC c ++ constsC t ++ constsCOpt .silent f
    | .filter _ e pos kws => constsC e ++ constsCList pos ++
        (match gate (P.codegenSpecial "static-kwargs") (constKws kws) with
         | some ks => if ks.isEmpty then [] else [kwargsValue P ks]
         | none => constsCKws kws)
    | .test _ e pos kws => constsC e ++ constsCList pos ++
        (match gate (P.codegenSpecial "static-kwargs") (constKws kws) with
         | some ks => if ks.isEmpty then [] else [kwargsValue P ks]
         | none => constsCKws kws)
    | .call _ pos kws => constsCList pos ++
        (match gate (P.codegenSpecial "static-kwargs") (constKws kws) with
         | some ks => if ks.isEmpty then [] else [kwargsValue P ks]
         | none => constsCKws kws)
    | .callx _ recv _ args => constsCList recv ++ constsCArgsPos args ++
        (match gate (P.codegenSpecial "static-kwargs") (constKwArgs args) with
         | some ks => if ks.isEmpty then [] else [kwargsValue P ks]
         | none => constsCArgsKw args)
  def constsCOpt (dflt : V) : OptExpr → List V
    | .none => [dflt]
    | .some e => constsC e
  def constsCList : Exprs → List V
    | .nil => []
    | .cons e es => constsC e ++ constsCList es
  def constsCPairs : Pairs → List V
    | .nil => []
    | .cons k v rest => constsC k ++ constsC v ++ constsCPairs rest
  def constsCChain : Chain → List V
    | .nil => []
    | .cons _ e rest => constsC e ++ constsCChain rest
  /-- the dynamic path: `LoadConst(name)` before every value -/
  def constsCKws : Kws → List V
    | .nil => []
    | .cons n e rest => .str n :: (constsC e ++ constsCKws rest)
  def constsCArgsPos : Args → List V
    | .nil => []
    | .pos e rest => constsC e ++ constsCArgsPos rest
    | .posSplat e rest => constsC e ++ constsCArgsPos rest
    | .kw _ _ rest => constsCArgsPos rest
    | .kwSplat _ rest => constsCArgsPos rest
  def constsCArgsKw : Args → List V
    | .nil => []
    | .pos _ rest => constsCArgsKw rest
    | .posSplat _ rest => constsCArgsKw rest
    | .kw n e rest => .str n :: (constsC e ++ constsCArgsKw rest)
    | .kwSplat e rest => constsC e ++ constsCArgsKw rest
end

/-! ## the call of a `{% call %}` block (`compile_call_block` → `compile_call(.., Some(caller))`)

The generated `caller` macro is an extra keyword argument that exists only at run time.  In
`compile_call_args` a caller forces the keyword map (`has_kwargs = caller.is_some()`), switches the
static path off (`static_kwargs = caller.is_none()`) and is appended after the user's keyword
arguments in the dynamic path.  The three facts are regenerated from the source as special cases
`"caller-forces-kwargs"`, `"static-kwargs-off-for-caller"`, `"caller-appended-last"`; the model
takes the static path for a call block exactly when the source would. -/

/-- run-time semantics: the keyword arguments are evaluated in order, `caller` comes last -/
def evalCallBlockRt (name : String) (pos : Exprs) (kws : Kws) (caller : V) : Except Err V :=
  match evalRtList P m ρ pos with
  | .error e => .error e
  | .ok ps => match evalRtKws P m ρ kws with
    | .error e => .error e
    | .ok ks => P.callKw m name ps (ks ++ [("caller", caller)])

/-- what `compile_call_args(args, extra, Some(caller))` emits -/
def evalCallBlockC (name : String) (pos : Exprs) (kws : Kws) (caller : V) : Except Err V :=
  match evalCList P m ρ pos with
  | .error e => .error e
  | .ok ps =>
    -- `let mut static_kwargs = caller.is_none();`
    let staticInit := !P.codegenSpecial "static-kwargs-off-for-caller"
    match gate (P.codegenSpecial "static-kwargs" && staticInit) (constKws kws) with
    | some ks =>
      -- `if !collected_kwargs.is_empty() { LoadConst(Kwargs::wrap(collected)) }`: the branch that adds
      -- the caller is the `else` of this test
      if ks.isEmpty then P.callKw m name ps [("caller", caller)] else P.callKw m name ps ks
    | none => match evalCKws P m ρ kws with
      | .error e => .error e
      | .ok ks => P.callKw m name ps (ks ++ [("caller", caller)])

/-- the general form (any callee kind, any arguments): run-time semantics -/
def evalCallBlockXRt (kind : CallKind) (recv : Exprs) (name : String) (args : Args) (caller : V) : Except Err V :=
  match evalRtList P m ρ recv with
  | .error e => .error e
  | .ok rv => match evalRtArgsPos P m ρ args with
    | .error e => .error e
    | .ok ps => match evalRtArgsKw P m ρ args with
      | .error e => .error e
      | .ok ks => P.callX m kind name rv (ps ++ ks ++ [.kw "caller" caller])

/-- … and what `compile_call(.., Some(caller))` emits for it -/
def evalCallBlockXC (kind : CallKind) (recv : Exprs) (name : String) (args : Args) (caller : V) : Except Err V :=
  match evalCList P m ρ recv with
  | .error e => .error e
  | .ok rv => match evalCArgsPos P m ρ args with
    | .error e => .error e
    | .ok ps =>
      let staticInit := !P.codegenSpecial "static-kwargs-off-for-caller"
      match gate (P.codegenSpecial "static-kwargs" && staticInit) (constKwArgs args) with
      | some ks =>
        if ks.isEmpty then P.callX m kind name rv (ps ++ [.kw "caller" caller])
        else P.callX m kind name rv (ps ++ kwPieces ks)
      | none => match evalCArgsKw P m ρ args with
        | .error e => .error e
        | .ok ks => P.callX m kind name rv (ps ++ ks ++ [.kw "caller" caller])

/-- the two shapes of code `compile_expr` produces for a whole expression -/
inductive Code where
  | loadConst (v : V)
  | runtime (e : Expr)

/-- code generation has no error channel: a constant expression whose evaluation fails is simply
    not folded (`.ok()` / `?` turn the error into `None`) -/
def compileTop (e : Expr) : Code :=
  match foldFirst P e with
  | some v => .loadConst v
  | none => .runtime e

def exec : Code → Except Err V
  | .loadConst v => .ok v
  | .runtime e => evalC P m ρ e

end

/-! ## well-formedness guaranteed by lexer and parser -/

mutual
  /-- constants are never the (default) `undefined` (no literal denotes it) and a `Compare` node has at least
      one operator (the parser builds it only for two or more) -/
  def Expr.WF : Expr → Prop
    | .const v => v ≠ .undef
    | .var _ => True
    | .list items => items.WF
    | .tuple items => items.WF
    | .map kvs => kvs.WF
    | .not e => e.WF
    | .neg e => e.WF
    | .bin _ l r => l.WF ∧ r.WF
    | .cmp e ops => e.WF ∧ ops ≠ .nil ∧ ops.WF
    | .getAttr e _ => e.WF
    | .getItem e i => e.WF ∧ i.WF
    | .slice e a b c => e.WF ∧ a.WF ∧ b.WF ∧ c.WF
    | .ifExpr c t f => c.WF ∧ t.WF ∧ f.WF
    | .filter _ e pos kws => e.WF ∧ pos.WF ∧ kws.WF
    | .test _ e pos kws => e.WF ∧ pos.WF ∧ kws.WF
    | .call _ pos kws => pos.WF ∧ kws.WF
    | .callx _ recv _ args => recv.WF ∧ args.WF
  def OptExpr.WF : OptExpr → Prop
    | .none => True
    | .some e => e.WF
  def Exprs.WF : Exprs → Prop
    | .nil => True
    | .cons e es => e.WF ∧ es.WF
  def Pairs.WF : Pairs → Prop
    | .nil => True
    | .cons k v rest => k.WF ∧ v.WF ∧ rest.WF
  def Chain.WF : Chain → Prop
    | .nil => True
    | .cons _ e rest => e.WF ∧ rest.WF
  def Kws.WF : Kws → Prop
    | .nil => True
    | .cons _ e rest => e.WF ∧ rest.WF
  def Args.WF : Args → Prop
    | .nil => True
    | .pos e rest => e.WF ∧ rest.WF
    | .posSplat e rest => e.WF ∧ rest.WF
    | .kw _ e rest => e.WF ∧ rest.WF
    | .kwSplat e rest => e.WF ∧ rest.WF
end

/-- no primitive returns `undefined` (in the Rust code they return numbers, strings, booleans,
    sequences and maps) -/
structure Prims.Defined (P : Prims) : Prop where
  add : ∀ a b v, P.add a b = .ok v → v ≠ .undef
  sub : ∀ a b v, P.sub a b = .ok v → v ≠ .undef
  mul : ∀ a b v, P.mul a b = .ok v → v ≠ .undef
  div : ∀ a b v, P.div a b = .ok v → v ≠ .undef
  fdiv : ∀ a b v, P.fdiv a b = .ok v → v ≠ .undef
  rem : ∀ a b v, P.rem a b = .ok v → v ≠ .undef
  pow : ∀ a b v, P.pow a b = .ok v → v ≠ .undef
  neg : ∀ a v, P.neg a = .ok v → v ≠ .undef
  concat : ∀ a b, P.concat a b ≠ .undef
  contains : ∀ a b v, P.contains a b = .ok v → v ≠ .undef
  mkMap : ∀ ps, P.mkMap ps ≠ .undef

/-! ## hoisting literals into variables -/

section
variable (P : Prims) (ρ : Env)

/-- `e'` is `e` with one literal sub-expression (anything the folder evaluates to `v`) replaced by a
    variable that the context binds to the same value -/
def HoistHere (e e' : Expr) : Prop :=
  ∃ x v, e' = .var x ∧ asConst P e = some v ∧ ρ x = some v

mutual
  /-- `Hoist e e'`: `e'` is obtained from `e` by hoisting any subset of its literal
      sub-expressions (possibly none) into context variables bound to the same values -/
  def Hoist : Expr → Expr → Prop
    | .const v, e' => e' = .const v ∨ HoistHere P ρ (.const v) e'
    | .var x, e' => e' = .var x
    | .list items, e' => (∃ items', e' = .list items' ∧ HoistList items items') ∨ HoistHere P ρ (.list items) e'
    | .tuple items, e' => (∃ items', e' = .tuple items' ∧ HoistList items items') ∨ HoistHere P ρ (.tuple items) e'
    | .map kvs, e' => (∃ kvs', e' = .map kvs' ∧ HoistPairs kvs kvs') ∨ HoistHere P ρ (.map kvs) e'
    | .not a, e' => (∃ a', e' = .not a' ∧ Hoist a a') ∨ HoistHere P ρ (.not a) e'
    | .neg a, e' => (∃ a', e' = .neg a' ∧ Hoist a a') ∨ HoistHere P ρ (.neg a) e'
    | .bin op l r, e' => (∃ l' r', e' = .bin op l' r' ∧ Hoist l l' ∧ Hoist r r') ∨ HoistHere P ρ (.bin op l r) e'
    | .cmp a ops, e' => (∃ a' ops', e' = .cmp a' ops' ∧ Hoist a a' ∧ HoistChain ops ops') ∨ HoistHere P ρ (.cmp a ops) e'
    | .getAttr a n, e' => ∃ a', e' = .getAttr a' n ∧ Hoist a a'
    | .getItem a i, e' => ∃ a' i', e' = .getItem a' i' ∧ Hoist a a' ∧ Hoist i i'
    | .slice a x y z, e' => ∃ a' x' y' z', e' = .slice a' x' y' z' ∧ Hoist a a' ∧ HoistOpt x x' ∧ HoistOpt y y' ∧ HoistOpt z z'
    | .ifExpr c t f, e' => ∃ c' t' f', e' = .ifExpr c' t' f' ∧ Hoist c c' ∧ Hoist t t' ∧ HoistOpt f f'
    | .filter n a pos kws, e' => ∃ a' pos' kws', e' = .filter n a' pos' kws' ∧ Hoist a a' ∧ HoistList pos pos' ∧ HoistKws kws kws'
    | .test n a pos kws, e' => ∃ a' pos' kws', e' = .test n a' pos' kws' ∧ Hoist a a' ∧ HoistList pos pos' ∧ HoistKws kws kws'
    | .call n pos kws, e' => ∃ pos' kws', e' = .call n pos' kws' ∧ HoistList pos pos' ∧ HoistKws kws kws'
    | .callx k recv n args, e' => ∃ recv' args', e' = .callx k recv' n args' ∧ HoistList recv recv' ∧ HoistArgs args args'
  def HoistOpt : OptExpr → OptExpr → Prop
    | .none, o' => o' = .none
    | .some e, o' => ∃ e', o' = .some e' ∧ Hoist e e'
  def HoistList : Exprs → Exprs → Prop
    | .nil, es' => es' = .nil
    | .cons e es, es' => ∃ e' es'', es' = .cons e' es'' ∧ Hoist e e' ∧ HoistList es es''
  def HoistPairs : Pairs → Pairs → Prop
    | .nil, ps' => ps' = .nil
    | .cons k v rest, ps' => ∃ k' v' rest', ps' = .cons k' v' rest' ∧ Hoist k k' ∧ Hoist v v' ∧ HoistPairs rest rest'
  def HoistChain : Chain → Chain → Prop
    | .nil, c' => c' = .nil
    | .cons op e rest, c' => ∃ e' rest', c' = .cons op e' rest' ∧ Hoist e e' ∧ HoistChain rest rest'
  def HoistKws : Kws → Kws → Prop
    | .nil, k' => k' = .nil
    | .cons n e rest, k' => ∃ e' rest', k' = .cons n e' rest' ∧ Hoist e e' ∧ HoistKws rest rest'
  def HoistArgs : Args → Args → Prop
    | .nil, a' => a' = .nil
    | .pos e rest, a' => ∃ e' rest', a' = .pos e' rest' ∧ Hoist e e' ∧ HoistArgs rest rest'
    | .posSplat e rest, a' => ∃ e' rest', a' = .posSplat e' rest' ∧ Hoist e e' ∧ HoistArgs rest rest'
    | .kw n e rest, a' => ∃ e' rest', a' = .kw n e' rest' ∧ Hoist e e' ∧ HoistArgs rest rest'
    | .kwSplat e rest, a' => ∃ e' rest', a' = .kwSplat e' rest' ∧ Hoist e e' ∧ HoistArgs rest rest'
end

end
end MJ.Fold
