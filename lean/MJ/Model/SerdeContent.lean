import MJ.Model.SerdeDispatch
import MJ.Model.SerdeValue
/-!
# serde's `Content` buffer filled from a `Value` (C16)

Untagged, internally tagged and adjacently tagged enums and `#[serde(flatten)]` first copy the input into
serde's private `Content` tree (`Content::deserialize` = `deserialize_any` with the `ContentVisitor`) and then
deserialise from the copy (`ContentDeserializer` / `ContentRefDeserializer`, whose `deserialize_any` makes the
visitor calls the tree records).  `toContent` transcribes the first step on top of the dispatch by kind
(`anySpec`, tied to deserialize.rs by `SERDE_DE_DISPATCH`), `ofContent` the second; `Proofs/SerdeContent.lean`
shows that the round trip through the buffer is the normal form `normV` the model used for it so far.
-/
namespace MJ.SerdeDispatch
open MJ.Serde

/-- serde's private `Content` buffer (untagged / internally tagged / adjacently tagged enums, flatten), as far
as its `ContentVisitor` can fill it from `Value`'s `deserialize_any` (it has no `visit_i128` / `visit_u128`) -/
inductive Content where
  | unit | bool (b : Bool) | u64 (n : Int) | i64 (i : Int) | f64 (bits : Nat) | str (s : Str) | bytes (b : List Nat)
  | seq (xs : List Content) | map (kvs : List (Content × Content))
  deriving Inhabited

/-- `Content::deserialize(value)`: `deserialize_any` with the `ContentVisitor`, each value dispatched by its
kind as `anySpec` says; `none` = an error -/
def leafContent (act : String) (v : V) : Option Content :=
  match act, v with
  | "visit_unit", _ => some .unit
  | "visit_bool", .bool b => some (.bool b)
  | "visit_u64", .int _ i => some (.u64 i)
  | "visit_i64", .int _ i => some (.i64 i)
  | "visit_f64", .f64 b => some (.f64 b)
  | "visit_str", .str s _ => some (.str s)
  | "visit_bytes", .bytes b => some (.bytes b)
  | _, _ => none

mutual
def toContent : V → Option Content
  | .seq _ xs => (toContentList xs).map .seq
  | .map kvs => (toContentPairs kvs).map .map
  | v => leafContent (anySpec (skindOfV v)) v
def toContentList : List V → Option (List Content)
  | [] => some []
  | x :: xs =>
    match toContent x, toContentList xs with
    | some c, some cs => some (c :: cs)
    | _, _ => none
def toContentPairs : List (V × V) → Option (List (Content × Content))
  | [] => some []
  | (k, x) :: rest =>
    match toContent k, toContent x, toContentPairs rest with
    | some a, some b, some cs => some ((a, b) :: cs)
    | _, _, _ => none
end

mutual
/-- what `ContentDeserializer::deserialize_any` shows a visitor: the same calls as a plain value would make -/
def ofContent : Content → V
  | .unit => .none
  | .bool b => .bool b
  | .u64 n => .int true n
  | .i64 i => .int false i
  | .f64 b => .f64 b
  | .str s => .str s false
  | .bytes b => .bytes b
  | .seq xs => .seq false (ofContentList xs)
  | .map kvs => .map (ofContentPairs kvs)
def ofContentList : List Content → List V
  | [] => []
  | c :: cs => ofContent c :: ofContentList cs
def ofContentPairs : List (Content × Content) → List (V × V)
  | [] => []
  | (a, b) :: rest => (ofContent a, ofContent b) :: ofContentPairs rest
end

end MJ.SerdeDispatch
