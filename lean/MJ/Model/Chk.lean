/-!
# Checked machine arithmetic

`Chk α` is the result of a Rust computation that may *panic* (arithmetic overflow in a build with
overflow checks, out-of-bounds indexing, `unwrap` on `None`, division by zero).  A panic is a
distinguished outcome, never a default value, so that "no panic" is something to prove.
-/
namespace MJ

inductive Chk (α : Type) where
  | ok (a : α)
  | panic
  deriving Repr, DecidableEq

namespace Chk

@[inline] def bind {α β : Type} (x : Chk α) (f : α → Chk β) : Chk β :=
  match x with
  | .ok a => f a
  | .panic => .panic

instance : Monad Chk where
  pure := .ok
  bind := bind

instance : LawfulMonad Chk := LawfulMonad.mk'
  (id_map := fun x => by cases x <;> rfl)
  (pure_bind := fun _ _ => rfl)
  (bind_assoc := fun x _ _ => by cases x <;> rfl)

@[simp] theorem pure_eq {α : Type} (a : α) : (pure a : Chk α) = .ok a := rfl
@[simp] theorem ok_bind {α β : Type} (a : α) (f : α → Chk β) : (Chk.ok a >>= f) = f a := rfl
@[simp] theorem panic_bind {α β : Type} (f : α → Chk β) : (Chk.panic >>= f) = .panic := rfl

/-- a value of Rust type `i64`: the operation panics when the exact result does not fit -/
def i64 (x : Int) : Chk Int :=
  if -(9223372036854775808 : Int) ≤ x ∧ x < 9223372036854775808 then .ok x else .panic

/-- a value of Rust type `usize` (64 bit) -/
def usize (x : Int) : Chk Nat :=
  if 0 ≤ x ∧ x < 18446744073709551616 then .ok x.toNat else .panic

/-- a value of Rust type `isize` (64 bit) -/
def isize (x : Int) : Chk Int := i64 x

/-- a value of Rust type `u16` -/
def u16 (x : Int) : Chk Nat :=
  if 0 ≤ x ∧ x < 65536 then .ok x.toNat else .panic

/-- the wrapping cast `x as usize` of an `i64` -/
def asUsize (x : Int) : Nat := (x % (18446744073709551616 : Int)).toNat

/-- the wrapping cast `x as i64` of a `usize` -/
def asI64 (x : Nat) : Int :=
  let y : Int := (x : Int) % 18446744073709551616
  if y < 9223372036854775808 then y else y - 18446744073709551616

/-- `xs[i]` on a slice/Vec -/
def index {α : Type} (xs : List α) (i : Nat) : Chk α :=
  match xs[i]? with
  | some a => .ok a
  | none => .panic

/-- `a / b` on unsigned integers -/
def udiv (a b : Nat) : Chk Nat := if b = 0 then .panic else .ok (a / b)

def InI64 (x : Int) : Prop := -(9223372036854775808 : Int) ≤ x ∧ x < 9223372036854775808
def OptInI64 : Option Int → Prop
  | none => True
  | some x => InI64 x

end Chk
end MJ
