import MJ.Model.Serde
import MJ.Gen.Tables
/-!
# The serde entry points of `Value` and where each is modelled (C16)

The method lists of serde's `Serializer` / `Deserializer` traits (locked serde_core) and of the impls in
`value/serialize.rs`, `value/deserialize.rs` and `impl Serialize for Value` are regenerated from the
sources on every run (`lib/tables/c16.py`: `SERDE_METHODS`, `SERDE_ARMS`).  This file states which
part of `MJ.Serde` / `MJ.ValueSer` models each of them; the theorems in `MJ/Props/C16.lean`
(`all_serde_methods_modelled`, `serde_arms_as_modelled`) compare the two, so that a new, removed,
forwarded or re-routed method breaks the tie instead of going unnoticed.
-/
namespace MJ.SerdeMethods
open MJ.Serde

/-- how `impl Deserializer for Value` answers a trait method -/
inductive Dispatch where
  /-- written out in deserialize.rs (and modelled by its own arm of `de`) -/
  | explicit
  /-- `forward_to_deserialize_any!`: the hint is ignored, `deserialize_any` decides by the value -/
  | forwardAny
  /-- the trait's provided body: an error (`i128 is not supported`) -/
  | unsupported
  /-- neither implemented, forwarded nor provided -/
  | missing
  deriving DecidableEq, Repr

def dispatchOf (explicit forwarded : List String) (trait : List (String × Bool)) (m : String) : Dispatch :=
  if explicit.contains m then .explicit
  else if forwarded.contains m then .forwardAny
  else match trait.lookup m with
    | some true => .unsupported
    | _ => .missing

/-- every `Serializer` method with the arm of the model that transcribes it -/
def serModel : List (String × String) := [
  ("serialize_bool", "ser .bool"),
  ("serialize_i8", "ser (.int false _ _): I64"), ("serialize_i16", "ser (.int false _ _): I64"),
  ("serialize_i32", "ser (.int false _ _): I64"), ("serialize_i64", "ser (.int false _ _): I64"),
  ("serialize_i128", "V.int false i beyond fits64 (outside the round-trip domain)"),
  ("serialize_u8", "ser (.int true _ _): U64"), ("serialize_u16", "ser (.int true _ _): U64"),
  ("serialize_u32", "ser (.int true _ _): U64"), ("serialize_u64", "ser (.int true _ _): U64"),
  ("serialize_u128", "V.int true i beyond fits64 (outside the round-trip domain)"),
  ("serialize_f32", "ser .f32: widen"), ("serialize_f64", "ser .f64"),
  ("serialize_char", "ser .char"), ("serialize_str", "ser .str"), ("serialize_bytes", "ser .bytes"),
  ("serialize_none", "ser (.opt _) .none"), ("serialize_some", "ser (.opt s) (.some d) = ser s d"),
  ("serialize_unit", "ser .unit"), ("serialize_unit_struct", "ser .ustruct"),
  ("serialize_unit_variant", "serV _ .unit"), ("serialize_newtype_struct", "ser (.nstruct s) d = ser s d"),
  ("serialize_newtype_variant", "serV _ (.newtype s)"),
  ("serialize_seq", "ser (.seq s)"), ("serialize_tuple", "ser (.tup ss)"),
  ("serialize_tuple_struct", "ser (.tstruct ss) / serValueM (value handle)"),
  ("serialize_tuple_variant", "serV _ (.tuple ss)"), ("serialize_map", "ser (.map k v): buildMap"),
  ("serialize_struct", "ser (.struct names ss): zipKeys"), ("serialize_struct_variant", "serV _ (.struct names ss)")]

/-- the compound serializers and the methods each implements -/
def compoundModel : List (String × List String) := [
  ("SerializeSeq", ["end", "serialize_element"]), ("SerializeTuple", ["end", "serialize_element"]),
  ("SerializeTupleStruct", ["end", "serialize_field"]), ("SerializeTupleVariant", ["end", "serialize_field"]),
  ("SerializeMap", ["end", "serialize_entry", "serialize_key", "serialize_value"]),
  ("SerializeStruct", ["end", "serialize_field"]), ("SerializeStructVariant", ["end", "serialize_field"])]

/-- every `Deserializer` method: how the impl answers it and what models that -/
def deModel : List (String × Dispatch) := [
  ("deserialize_any", .explicit),
  ("deserialize_bool", .forwardAny), ("deserialize_i8", .forwardAny), ("deserialize_i16", .forwardAny),
  ("deserialize_i32", .forwardAny), ("deserialize_i64", .forwardAny), ("deserialize_i128", .unsupported),
  ("deserialize_u8", .forwardAny), ("deserialize_u16", .forwardAny), ("deserialize_u32", .forwardAny),
  ("deserialize_u64", .forwardAny), ("deserialize_u128", .unsupported),
  ("deserialize_f32", .forwardAny), ("deserialize_f64", .forwardAny), ("deserialize_char", .forwardAny),
  ("deserialize_str", .forwardAny), ("deserialize_string", .forwardAny), ("deserialize_bytes", .forwardAny),
  ("deserialize_byte_buf", .forwardAny), ("deserialize_option", .explicit), ("deserialize_unit", .forwardAny),
  ("deserialize_unit_struct", .explicit), ("deserialize_newtype_struct", .explicit),
  ("deserialize_seq", .forwardAny), ("deserialize_tuple", .forwardAny), ("deserialize_tuple_struct", .forwardAny),
  ("deserialize_map", .forwardAny), ("deserialize_struct", .forwardAny), ("deserialize_enum", .explicit),
  ("deserialize_identifier", .forwardAny), ("deserialize_ignored_any", .forwardAny)]

/-- the `Deserializer` method serde's own / derived `Deserialize` impl of a type of this shape calls -/
def methodOfShape : Shape → String
  | .bool => "deserialize_bool"
  | .int true _ hi =>
    if hi ≤ 255 then "deserialize_u8" else if hi ≤ 65535 then "deserialize_u16"
    else if hi ≤ 4294967295 then "deserialize_u32" else "deserialize_u64"
  | .int false _ hi =>
    if hi ≤ 127 then "deserialize_i8" else if hi ≤ 32767 then "deserialize_i16"
    else if hi ≤ 2147483647 then "deserialize_i32" else "deserialize_i64"
  | .f32 => "deserialize_f32" | .f64 => "deserialize_f64" | .char => "deserialize_char"
  | .str => "deserialize_string" | .bytes => "deserialize_byte_buf" | .unit => "deserialize_unit"
  | .opt _ => "deserialize_option" | .seq _ => "deserialize_seq" | .map _ _ => "deserialize_map"
  | .tup _ => "deserialize_tuple" | .ustruct => "deserialize_unit_struct"
  | .nstruct _ => "deserialize_newtype_struct" | .tstruct _ => "deserialize_tuple_struct"
  | .struct _ _ => "deserialize_struct" | .enum _ _ => "deserialize_enum" | .value => "deserialize_any"

/-- the shapes whose method has a body of its own in deserialize.rs (the arms of `de` that do not
simply look at the value the way `deserialize_any` does) -/
def ownArm : Shape → Bool
  | .opt _ => true | .ustruct => true | .nstruct _ => true | .enum _ _ => true | .value => true
  | _ => false

/-- the arms of `deserialize_any` as `de` transcribes them: representation → visitor method -/
def anyArmsModel : List (String × String) := [
  ("ValueRepr::Invalid(ref error)", "error"), ("ValueRepr::Bool(v)", "visit_bool"),
  ("ValueRepr::U64(v)", "visit_u64"), ("ValueRepr::I64(v)", "visit_i64"),
  ("ValueRepr::I128(v)", "visit_i128"), ("ValueRepr::U128(v)", "visit_u128"),
  ("ValueRepr::F64(v)", "visit_f64"), ("ValueRepr::String(ref v, _)", "visit_str"),
  ("ValueRepr::SmallStr(v)", "visit_str"), ("ValueRepr::Undefined(_) | ValueRepr::None", "visit_unit"),
  ("ValueRepr::Bytes(ref v)", "visit_bytes"), ("ValueRepr::Object(o)", "match"),
  ("ObjectRepr::Plain", "error"), ("ObjectRepr::Seq | ObjectRepr::Iterable", "visit_seq"),
  ("ObjectRepr::Map", "visit_map")]

/-- the scalar arms of `ValueSerializer` as `ser` transcribes them -/
def primArmsModel : List (String × String) := [
  ("bool", "ValueRepr::Bool(v)"), ("i8", "ValueRepr::I64(v as i64)"), ("i16", "ValueRepr::I64(v as i64)"),
  ("i32", "ValueRepr::I64(v as i64)"), ("i64", "ValueRepr::I64(v)"), ("i128", "ValueRepr::I128(Packed(v))"),
  ("u8", "ValueRepr::U64(v as u64)"), ("u16", "ValueRepr::U64(v as u64)"), ("u32", "ValueRepr::U64(v as u64)"),
  ("u64", "ValueRepr::U64(v)"), ("u128", "ValueRepr::U128(Packed(v))"), ("f32", "ValueRepr::F64(v as f64)"),
  ("f64", "ValueRepr::F64(v)"), ("char", "Value::from(v)"), ("str", "Value::from(value)"),
  ("bytes", "ValueRepr::Bytes(Arc::new(value.to_owned()))"), ("none", "ValueRepr::None"),
  ("unit", "ValueRepr::None"), ("unit_struct", "ValueRepr::None"), ("unit_variant", "Value::from(variant)"),
  ("some", "transform(value)"), ("newtype_struct", "transform(value)")]

/-- `impl Serialize for Value` towards an external serializer as `MJ.ValueSer.serCalls` / `jsonOf` transcribe it -/
def externalArmsModel : List (String × String) := [
  ("ValueRepr::Bool(b)", "serialize_bool"), ("ValueRepr::U64(u)", "serialize_u64"),
  ("ValueRepr::I64(i)", "serialize_i64"), ("ValueRepr::F64(f)", "serialize_f64"),
  ("ValueRepr::None | ValueRepr::Undefined(_) | ValueRepr::Invalid(_)", "serialize_unit"),
  ("ValueRepr::U128(u)", "serialize_u128"), ("ValueRepr::I128(i)", "serialize_i128"),
  ("ValueRepr::String(ref s, _)", "serialize_str"), ("ValueRepr::SmallStr(ref s)", "serialize_str"),
  ("ValueRepr::Bytes(ref b)", "serialize_bytes"), ("ObjectRepr::Plain", "serialize_str")]

end MJ.SerdeMethods
