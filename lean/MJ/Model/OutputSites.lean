import MJ.Model.Output
import MJ.Gen.Tables
/-!
# C19: the facts about the source that the output model rests on, as switches

`MJ/Model/Output.lean` transcribes the adapter (`WriteWrapper`), the two API boundaries and the
evaluation loop *as they are*.  Here every fact of the source that the transcription relies on is a
parameter (`CodeFacts`):

* per method of `impl fmt::Write for WriteWrapper`: is the sticky guard there, is the sink's error
  stored (`AdapterFacts`);
* per function that builds a `WriteWrapper` (`Api`): does the `Ok` arm go through `check`, the
  `Err` arm through `take_err` (`ApiFacts`);
* per write site of the engine (a row of the regenerated table `MJ.Gen.c19WriteSites`): is the
  `fmt::Result` propagated (`site`).

`renderToF F api xs script` is the writer API of an engine whose source has the facts `F`.
`MJ/Props/C19.lean` reads `F` off the regenerated tables (`codeFacts`), proves that with all
switches on `renderToF` is the model of `Output.lean`, and exhibits, for every switch, a render
that violates C19 when it is off.
-/
namespace MJ.Output
open MJ

/-- `impl fmt::Write for WriteWrapper`, per method: the guard `if self.err.is_some() { return
    Err(fmt::Error) }` is there (`…Sticky`), the failing path assigns `self.err = Some(e)` (`…Stores`) -/
structure AdapterFacts where
  strSticky : Bool
  chrSticky : Bool
  strStores : Bool
  chrStores : Bool
  deriving DecidableEq, Repr

def AdapterFacts.ok : AdapterFacts := ⟨true, true, true, true⟩

/-- a method of the adapter without the guard / without the store: without the guard the sink is
    called again and a later error replaces the first one; without the store the slot keeps what
    it had -/
def WriteWrapper.writeBytesF (sticky stores : Bool) (w : WriteWrapper) (s : Bytes) : WriteWrapper × Bool :=
  match w.err, sticky with
  | some _, true => (w, false)
  | _, _ =>
    let r := writeAll w.script s
    match r.err with
    | none => ({ w with script := r.rest, calls := w.calls ++ r.calls }, true)
    | some e => ({ script := r.rest, calls := w.calls ++ r.calls, err := if stores then some e else w.err }, false)

@[reducible] def fmtWriteF (F : AdapterFacts) : FmtWrite WriteWrapper where
  writeStr := WriteWrapper.writeBytesF F.strSticky F.strStores
  writeChar := WriteWrapper.writeBytesF F.chrSticky F.chrStores

/-- the functions that build a `WriteWrapper` (= the public entry points generic over `io::Write`) -/
inductive Api where
  | capturedTo    -- `Template::render_captured_to`
  | blockToWrite  -- `State::render_block_to_write`
  deriving DecidableEq, Repr

def Api.fnName : Api → String
  | .capturedTo => "render_captured_to"
  | .blockToWrite => "render_block_to_write"

/-- per entry point: `Ok(x) => wrapper.check(x)` is there, `Err(e) => Err(wrapper.take_err(e))` is there -/
structure ApiFacts where
  okChecks : Bool
  errTakes : Bool
  deriving DecidableEq, Repr

def ApiFacts.ok : ApiFacts := ⟨true, true⟩

def WriteWrapper.finishF (a : ApiFacts) (w : WriteWrapper) : Chk (Except Err Unit) → Chk (Except Err Unit)
  | .ok (.error e) => .ok (.error (if a.errTakes then w.takeErr e else e))
  | .ok (.ok ()) => if a.okChecks then .ok w.check else .ok (.ok ())
  | .panic => .panic

/-- an operation of the render: issued by source site `site`, or a call of user code -/
inductive SXOp where
  | op (site : Nat) (o : Op)
  | user (u : UserCode)

/-- the operation when every site propagates -/
def SXOp.toX : SXOp → XOp
  | .op _ o => .strict o
  | .user u => .user u

/-- one step when the result of a write issued at site `i` is propagated iff `prop i`
    (a site that is not `propagate` drops the `fmt::Error` and the evaluation goes on) -/
def stepSX {B : Type} [FmtWrite B] (prop : Nat → Bool) (x : SXOp) (st : St B) : St B × Halt :=
  match x with
  | .op i (.write c) => if prop i then step (.write c) st else ({ st with out := (st.out.write c).1 }, none)
  | .op _ o => step o st
  | .user u => stepX (.user u) st

def runSX {B : Type} [FmtWrite B] (prop : Nat → Bool) : List SXOp → St B → St B × Chk (Except Err Unit)
  | [], st => (st, .ok (.ok ()))
  | x :: xs, st =>
    match stepSX prop x st with
    | (st', none) => runSX prop xs st'
    | (st', some (.ok e)) => (st', .ok (.error e))
    | (st', some .panic) => (st', .panic)

/-- number of operations the loop executes, the one that stops it included -/
def countSX {B : Type} [FmtWrite B] (prop : Nat → Bool) : List SXOp → St B → Nat
  | [], _ => 0
  | x :: xs, st =>
    match stepSX prop x st with
    | (st', none) => countSX prop xs st' + 1
    | (_, some _) => 1

/-- a site that drops the result is user code that writes and returns `Ok` whatever happened -/
def SXOp.toXWith (prop : Nat → Bool) : SXOp → XOp
  | .op i (.write c) => if prop i then .strict (.write c) else .user (.write c fun _ => .ret true)
  | .op _ o => .strict o
  | .user u => .user u

/-- everything the model of the writer API depends on in the source -/
structure CodeFacts where
  adapter : AdapterFacts
  api : Api → ApiFacts
  site : Nat → Bool

/-- the writer API `api` of an engine whose source has the facts `F` -/
def renderToF (F : CodeFacts) (api : Api) (xs : List SXOp) (script : List Beh) : Outcome :=
  let r := @runSX WriteWrapper (fmtWriteF F.adapter) F.site xs (St.init (⟨script, [], none⟩ : WriteWrapper))
  ⟨r.1.out.w.calls, r.1.out.w.finishF (F.api api) r.2⟩

/-- number of operations that render executes -/
def execCountF (F : CodeFacts) (xs : List SXOp) (script : List Beh) : Nat :=
  @countSX WriteWrapper (fmtWriteF F.adapter) F.site xs (St.init (⟨script, [], none⟩ : WriteWrapper))

/-- the plain render (`Template::render`, `State::render_block`): no adapter, no boundary -/
def renderStringF (F : CodeFacts) (xs : List SXOp) : StrOutcome :=
  let r := runSX F.site xs (St.init ([] : Bytes))
  ⟨r.1.out.w, r.2⟩

/-- **The facts of the source as the regenerated tables have them** (`MJ.Gen`, rewritten from
    /repo on every run): `C19_WRITEWRAPPER_STICKY`, `C19_WRITEWRAPPER_METHODS`, `C19_BOUNDARY_SITES`,
    `C19_WRITE_SITES`. -/
def codeFacts : CodeFacts where
  adapter :=
    { strSticky := MJ.Gen.c19WriteWrapperSticky.contains ("write_str", true)
      chrSticky := MJ.Gen.c19WriteWrapperSticky.contains ("write_char", true)
      strStores := MJ.Gen.c19WriteWrapperMethods.contains ("write_str", true)
      chrStores := MJ.Gen.c19WriteWrapperMethods.contains ("write_char", true) }
  api := fun a =>
    match MJ.Gen.c19BoundarySites.find? (fun r => r.2.1 == a.fnName) with
    | some r => ⟨r.2.2.1 == 1 && r.2.2.2.2.1 == 1, r.2.2.2.1 == 1 && r.2.2.2.2.2 == 1⟩
    | none => ⟨false, false⟩
  site := fun i =>
    match MJ.Gen.c19WriteSites[i]? with
    | some r => r.2.2 == "propagate"
    | none => false

/-! ## user code that forwards the failure of its writer -/

/-- the operations of user code on its all-writes-succeeded path (and its own failure, if it
    reports one there) -/
def UserCode.okOps : UserCode → List Op
  | .ret true => []
  | .ret false => [.fail Err.fromFmt]
  | .write c k => .write c :: (k true).okOps

/-- user code that **forwards** a failure of the writer it was given: after a failed write it
    writes nothing more and returns `Err(fmt::Error)` (the `?` after every write) -/
def UserCode.forwards : UserCode → Prop
  | .ret _ => True
  | .write _ k => k false = .ret false ∧ (k true).forwards

/-- the operation sequence of a render whose user code forwards -/
def flattenX : List XOp → List Op
  | [] => []
  | .strict o :: xs => o :: flattenX xs
  | .user u :: xs => u.okOps ++ flattenX xs

end MJ.Output
