import MJ.Gen.Tables
/-!
# Depth accounting of the interpreter's native re-entries (C11)

Model of `vm/context.rs` (`Context::{depth, push_frame, pop_frame, incr_depth, decr_depth,
check_depth, restore_stack_depth}`) and of the five places in `vm/mod.rs` where the interpreter
loop `eval_impl` is re-entered natively:

| kind      | code                         | depth bookkeeping before the nested `eval_state`/`do_eval`          |
|-----------|------------------------------|-----------------------------------------------------------------------|
| `macro`   | `eval_macro` (macro call)    | fresh context (2 frames, checked) + `incr_depth(caller.depth() + MACRO_RECURSION_COST)` |
| `caller`  | `eval_macro` (`caller()` of a call block is a macro object) | same                                  |
| `include` | `perform_include` (include, import, from-import) | `incr_depth(INCLUDE_RECURSION_COST)` … `decr_depth` |
| `block`   | `call_block` (block, `self.x()`, `State::render_block`) | `push_frame` … `restore_stack_depth`           |
| `super`   | `perform_super`              | `push_frame` … `restore_stack_depth`, `pop_frame`                     |

`with`, `for` (also every level of a *recursive* loop, which is a jump and not a native re-entry)
are the events `push`/`pop` on the current context.

A machine state is the current `Context` (its two counters), the configured limit and the stack
of native activations; each activation remembers what the code keeps on the native stack while
the nested interpreter runs (`old_ctx` for macros, the saved `stack_depth` for the others).

Rust panics (`pop_frame` on an empty stack, `outer_stack_depth -= delta` underflow,
`debug_assert!(len >= depth)` in `restore_stack_depth`) are the outcome `panic`, never a default.
-/
namespace MJ.Depth
open MJ.Gen

/-- the two counters of `Context`: `outer_stack_depth` and `stack.len()` -/
structure Ctx where
  outer : Nat
  frames : Nat
  deriving Repr, DecidableEq

/-- `Context::depth` -/
def Ctx.depth (c : Ctx) : Nat := c.outer + c.frames

/-- `check_depth`: `self.depth() > self.recursion_limit` is the error -/
abbrev Ctx.exceeds (limit : Nat) (c : Ctx) : Prop := c.depth > limit

/-- `push_frame`: push, check, pop again on failure (`none` = "recursion limit exceeded") -/
def Ctx.pushFrame (limit : Nat) (c : Ctx) : Option Ctx :=
  let c' : Ctx := { c with frames := c.frames + 1 }
  if c'.exceeds limit then none else some c'

/-- `incr_depth(delta)`: add, check, subtract again on failure -/
def Ctx.incrDepth (limit : Nat) (c : Ctx) (delta : Nat) : Option Ctx :=
  let c' : Ctx := { c with outer := c.outer + delta }
  if c'.exceeds limit then none else some c'

/-- kinds of native re-entry of `eval_impl` -/
inductive Kind where
  | macroCall | callerCall | includeTpl | blockCall | superCall
  deriving Repr, DecidableEq

/-- what one native re-entry of this kind adds to `Context::depth()` before the nested
    interpreter starts (constants regenerated from the source) -/
def cost : Kind → Nat
  | .macroCall => macroRecursionCost + 2
  | .callerCall => macroRecursionCost + 2
  | .includeTpl => includeRecursionCost
  | .blockCall => 1
  | .superCall => 1

/-- one native activation: its kind, the context at entry (`old`; the code keeps all of it for a
    macro call — `mem::replace(&mut state.ctx, ctx)` — and only `old.frames`, the saved
    `stack_depth`, otherwise) and the number of frames the activation starts with (`base`). -/
structure Act where
  kind : Kind
  old : Ctx
  base : Nat
  deriving Repr, DecidableEq

structure St where
  limit : Nat
  cur : Ctx
  acts : List Act
  deriving Repr, DecidableEq

/-- `Context::new_with_frame`: one frame, not checked -/
def init (limit : Nat) : St := { limit := limit, cur := ⟨0, 1⟩, acts := [] }

inductive Ev where
  | enter (k : Kind)
  | leave
  | push
  | pop
  /-- `perform_include` when no candidate template exists (`ignore missing`, or the
      `TemplateNotFound` error): the depth charge is taken inside the candidate loop only for a
      template that was found, so this path neither takes nor releases anything -/
  | missingInclude
  deriving Repr, DecidableEq

inductive Out where
  | ok (s : St)
  /-- `Error(InvalidOperation, "recursion limit exceeded")` -/
  | recursionError
  /-- a Rust panic in the bookkeeping -/
  | panic
  /-- the event is not enabled: a `pop` below the frames of the current activation or a `leave`
      of the root; compiled programs balance their frames inside one activation (C05) -/
  | stuck
  deriving Repr, DecidableEq

/-- `eval_macro` up to the nested `do_eval` -/
def enterMacro (s : St) (k : Kind) : Out :=
  -- `ctx.reset_with_frame(Frame::new(context_base))`
  let c0 : Ctx := ⟨0, 1⟩
  -- `ctx.push_frame(closure_frame)`
  match c0.pushFrame s.limit with
  | none => .recursionError
  | some c1 =>
    -- `ctx.incr_depth(state.ctx.depth() + MACRO_RECURSION_COST)`
    match c1.incrDepth s.limit (s.cur.depth + macroRecursionCost) with
    | none => .recursionError
    | some c2 => .ok { s with cur := c2, acts := ⟨k, s.cur, 2⟩ :: s.acts }

def enter (s : St) : Kind → Out
  | .macroCall => enterMacro s .macroCall
  | .callerCall => enterMacro s .callerCall
  | .includeTpl =>
    match s.cur.incrDepth s.limit includeRecursionCost with
    | none => .recursionError
    | some c => .ok { s with cur := c, acts := ⟨.includeTpl, s.cur, s.cur.frames⟩ :: s.acts }
  | .blockCall =>
    match s.cur.pushFrame s.limit with
    | none => .recursionError
    | some c => .ok { s with cur := c, acts := ⟨.blockCall, s.cur, s.cur.frames + 1⟩ :: s.acts }
  | .superCall =>
    match s.cur.pushFrame s.limit with
    | none => .recursionError
    | some c => .ok { s with cur := c, acts := ⟨.superCall, s.cur, s.cur.frames + 1⟩ :: s.acts }

/-- `restore_stack_depth(depth)`: `debug_assert!(len >= depth)`, `truncate` -/
def restoreStackDepth (c : Ctx) (depth : Nat) : Option Ctx :=
  if c.frames < depth then none else some { c with frames := depth }

/-- what happens after the nested interpreter returned (normally or with an error) -/
def leave (s : St) : Out :=
  match s.acts with
  | [] => .stuck
  | a :: rest =>
    match a.kind with
    | .macroCall | .callerCall =>
      -- `mem::replace(&mut state.ctx, old_ctx)`
      .ok { s with cur := a.old, acts := rest }
    | .includeTpl =>
      -- `with_execution_state` restores the saved stack depth, then `decr_depth(COST)`
      match restoreStackDepth s.cur a.old.frames with
      | none => .panic
      | some c =>
        if c.outer < includeRecursionCost then .panic
        else .ok { s with cur := { c with outer := c.outer - includeRecursionCost }, acts := rest }
    | .blockCall =>
      -- the stack depth was saved before the closure pushed the block's frame
      match restoreStackDepth s.cur a.old.frames with
      | none => .panic
      | some c => .ok { s with cur := c, acts := rest }
    | .superCall =>
      -- the stack depth was saved after `push_frame`; `pop_frame` follows
      match restoreStackDepth s.cur (a.old.frames + 1) with
      | none => .panic
      | some c =>
        if c.frames = 0 then .panic
        else .ok { s with cur := { c with frames := c.frames - 1 }, acts := rest }

/-- frames the current activation started with (`1` for the root) -/
def baseOf : List Act → Nat
  | [] => 1
  | a :: _ => a.base

def base (s : St) : Nat := baseOf s.acts

def step (s : St) : Ev → Out
  | .enter k => enter s k
  | .leave => leave s
  | .push =>
    match s.cur.pushFrame s.limit with
    | none => .recursionError
    | some c => .ok { s with cur := c }
  | .pop =>
    if base s < s.cur.frames then .ok { s with cur := { s.cur with frames := s.cur.frames - 1 } }
    else .stuck
  | .missingInclude => .ok s

/-- run a trace; the first outcome that is not `ok` ends the run -/
def run (s : St) : List Ev → Out
  | [] => .ok s
  | e :: es =>
    match step s e with
    | .ok s' => run s' es
    | o => o

/-- Σ cost(kind) over the native activations on the stack -/
def wsum : List Act → Nat
  | [] => 0
  | a :: rest => cost a.kind + wsum rest

/-- native stack consumed by the activations when one re-entry of kind `k` takes `bytes k`
    (the model cannot exhibit these numbers: they are measured parameters) -/
def stackBytes (bytes : Kind → Nat) : List Act → Nat
  | [] => 0
  | a :: rest => bytes a.kind + stackBytes bytes rest

/-- nested `eval_impl` activations including the root -/
def nativeDepth (s : St) : Nat := s.acts.length + 1

/-- pending (entered and not yet left) re-entries of a trace -/
def pending : List Ev → Nat → Nat
  | [], n => n
  | .enter _ :: es, n => pending es (n + 1)
  | .leave :: es, n => pending es (n - 1)
  | _ :: es, n => pending es n

/-- `Environment::set_recursion_limit` without the `stacker` feature -/
def setRecursionLimit (level : Nat) : Nat :=
  if recursionLimitClampedToMax then min level maxRecursionEnv else level

/-- `Environment::new()` / `Environment::empty()` -/
def defaultRecursionLimit : Nat := maxRecursionEnv

/-! ## Program shapes of the correspondence harness (`harness/src/bin/c11.rs`)

The driver turns a shape descriptor into the trace of depth events of the generated templates and
predicts the outcome and the high-water marks the hook observes. -/

structure Marks where
  depthHW : Nat
  nativeHW : Nat
  deriving Repr, DecidableEq

def Marks.note (m : Marks) (s : St) : Marks :=
  ⟨max m.depthHW s.cur.depth, max m.nativeHW (nativeDepth s)⟩

/-- the hook also sees the depth check that `eval_macro` passes on the fresh context (two frames)
    before the inherited depth is added -/
def Marks.noteFailed (m : Marks) (s : St) : Ev → Marks
  | .enter .macroCall | .enter .callerCall =>
    match (⟨0, 1⟩ : Ctx).pushFrame s.limit with
    | some c => ⟨max m.depthHW c.depth, m.nativeHW⟩
    | none => m
  | _ => m

inductive Pred where
  | ok (m : Marks)
  | recursion (m : Marks)
  | other (what : String)
  deriving Repr

/-- run events, recording the marks after every accepted event -/
def runMarks (s : St) (m : Marks) : List Ev → Except Pred (St × Marks)
  | [] => .ok (s, m)
  | e :: es =>
    match step s e with
    | .ok s' => runMarks s' (m.note s') es
    | .recursionError => .error (.recursion (m.noteFailed s e))
    | .panic => .error (.other "panic")
    | .stuck => .error (.other "stuck")

/-- one edge of a cycle: kind letter, `with` frames, `for` frames (the variant of other work
    has no effect on the depth) -/
structure Edge where
  kind : Char
  w : Nat
  f : Nat
  /-- depth-neutral statement executed on the frame before the recursive step -/
  noise : Char := '0'
  /-- variant of the frame-local work wrapped around the step (2: filter block, 3: set block —
      both capture the output —, 4: autoescape block) -/
  x : Nat := 0
  deriving Repr

/-- a completed nested construct; `swallow`: a Rust callback discards the error of the construct,
    so a failure (also "recursion limit exceeded") leaves the state as it was and execution goes on -/
structure Noise where
  evs : List Ev
  swallow : Bool := false

/-- the depth-neutral statements of the harness (`noise_src` in `c11.rs`) as depth events -/
def noiseOf : Char → Option Noise
  | '0' => some ⟨[], false⟩
  -- include that finds nothing: single name / list, `ignore missing`
  | '1' => some ⟨[.missingInclude], false⟩
  | '2' => some ⟨[.missingInclude], false⟩
  -- include of a tiny template
  | '3' => some ⟨[.enter .includeTpl, .leave], false⟩
  -- import / from-import of a tiny module and a call of its macro
  | '4' => some ⟨[.push, .enter .includeTpl, .leave, .pop, .enter .macroCall, .leave], false⟩
  | '5' => some ⟨[.push, .enter .includeTpl, .leave, .pop, .enter .macroCall, .leave], false⟩
  -- macro call that returns; call block
  | '6' => some ⟨[.enter .macroCall, .leave], false⟩
  | '7' => some ⟨[.enter .macroCall, .enter .callerCall, .leave, .leave], false⟩
  -- with / for frames
  | '8' => some ⟨[.push, .push, .pop, .pop], false⟩
  -- `State::render_block` / `State::call_macro` from a function
  | '9' => some ⟨[.enter .blockCall, .leave], false⟩
  | 'a' => some ⟨[.enter .macroCall, .leave], false⟩
  -- a block whose include finds nothing (error), rendered by a callback that swallows the error
  | 'b' => some ⟨[.enter .blockCall, .missingInclude, .leave], true⟩
  -- a block including a template that fails, rendered by a callback that swallows the error
  | 'c' => some ⟨[.enter .blockCall, .enter .includeTpl, .leave, .leave], true⟩
  -- a template the loader compiles lazily (deep expression / deep AST / deep statements): parsed
  -- on top of the current activations, then included like any other
  | 'd' => some ⟨[.enter .includeTpl, .leave], false⟩
  | 'e' => some ⟨[.enter .includeTpl, .leave], false⟩
  | 'f' => some ⟨[.enter .includeTpl, .leave], false⟩
  -- a lazily loaded template that does not compile (syntax error / parser recursion limit):
  -- `get_template` fails before any charge is taken; rendered by a callback that swallows the error
  | 'g' => some ⟨[.enter .blockCall, .missingInclude, .leave], true⟩
  | 'h' => some ⟨[.enter .blockCall, .missingInclude, .leave], true⟩
  -- `super()` / `{% set q = super() %}` in a block that has a parent
  | 'i' => some ⟨[.enter .superCall, .leave], false⟩
  | 'j' => some ⟨[.enter .superCall, .leave], false⟩
  | _ => none

/-- run a depth-neutral statement: the state afterwards is the state before -/
def runNoise (s : St) (m : Marks) (n : Noise) : Except Pred (St × Marks) :=
  match runMarks s m n.evs with
  | .ok (_, m') => .ok (s, m')
  | .error (.recursion m') => if n.swallow then .ok (s, m') else .error (.recursion m')
  | .error p => .error p

/-- depth events of one step along an edge, by family.  `first`: the edge is taken for the first
    time.  (`B`/`S`: `self.x()` → the child's block → `super()` → the parent's block → next node;
    while that `super()` is active the `BlockStack` of `x` stays at the parent's layer, so a later
    `self.x()` reaches the parent's block directly.) -/
def edgeEvents (fam : Char) (k : Char) (first : Bool) : Option (List Ev) :=
  match fam, k with
  | 'T', 'I' => some [Ev.enter .includeTpl]
  | 'T', 'P' => some [Ev.push, Ev.enter .includeTpl]
  | 'T', 'W' => some [Ev.enter .macroCall, Ev.enter .includeTpl]
  | 'T', 'K' => some [Ev.enter .macroCall, Ev.enter .callerCall, Ev.enter .includeTpl]
  | 'T', 'B' => some [Ev.enter .blockCall, Ev.enter .includeTpl]
  | 'T', 'L' => some [Ev.push, Ev.push, Ev.enter .includeTpl]
  | 'T', 'Y' => some [Ev.enter .macroCall, Ev.push, Ev.enter .includeTpl]
  -- a list of candidates whose first does not exist / an optional include of a template that
  -- exists / both (candidates after the one that is found are not looked at) / from-import
  | 'T', 'X' => some [Ev.missingInclude, Ev.enter .includeTpl]
  | 'T', 'Z' => some [Ev.enter .includeTpl]
  | 'T', 'V' => some [Ev.missingInclude, Ev.enter .includeTpl]
  | 'T', 'F' => some [Ev.push, Ev.enter .includeTpl]
  -- the node extends a parent: the block it overrides was entered before its work (`edgePre`)
  | 'T', 'E' => some [Ev.enter .includeTpl]
  | 'M', 'M' => some [Ev.enter .macroCall]
  | 'M', 'A' => some [Ev.enter .macroCall]
  | 'M', 'C' => some [Ev.enter .macroCall, Ev.enter .callerCall, Ev.enter .macroCall]
  | 'M', 'L' => some [Ev.push, Ev.push, Ev.enter .macroCall]
  | 'M', 'J' => some [Ev.enter .includeTpl, Ev.enter .macroCall]
  -- through Rust: State::call_macro, Value::call, Value::call_method, a Rust filter/test calling
  -- call_macro (via map / select / State::apply_filter / State::perform_test / a filter block)
  | 'M', 'Q' => some [Ev.enter .macroCall]
  | 'M', 'O' => some [Ev.enter .macroCall]
  | 'M', 'H' => some [Ev.enter .macroCall]
  | 'M', 'F' => some [Ev.enter .macroCall]
  | 'M', 'E' => some [Ev.enter .macroCall]
  | 'M', 'G' => some [Ev.enter .macroCall]
  | 'M', 'U' => some [Ev.enter .macroCall]
  | 'M', 'D' => some [Ev.enter .macroCall]
  -- nested call blocks: caller() chains
  | 'M', 'N' => some [Ev.enter .macroCall, Ev.enter .callerCall, Ev.enter .macroCall,
      Ev.enter .callerCall, Ev.enter .macroCall]
  -- an imported macro that calls the macro it is handed
  | 'M', 'I' => some [Ev.enter .macroCall, Ev.enter .macroCall]
  | 'B', 'B' => some [Ev.enter .blockCall]
  | 'B', 'V' => some [Ev.enter .blockCall]
  | 'B', 'R' => some [Ev.enter .blockCall]
  | 'B', 'M' => some [Ev.enter .macroCall, Ev.enter .blockCall]
  | 'B', 'L' => some [Ev.push, Ev.push, Ev.enter .blockCall]
  | 'B', 'S' =>
    if first then some [Ev.enter .blockCall, Ev.enter .superCall, Ev.enter .blockCall]
    else some [Ev.enter .blockCall, Ev.enter .blockCall]
  | _, _ => none

/-- what a node does before its work frames: a template that extends a parent runs its work inside
    the block it overrides (`CallBlock` of the parent's instructions, same activation) -/
def edgePre (fam : Char) (k : Char) : List Ev :=
  match fam, k with
  | 'T', 'E' => [Ev.enter .blockCall]
  | _, _ => []

def entryEvents : Char → List Ev
  | 'M' => [Ev.enter .macroCall]
  | 'B' => [Ev.enter .blockCall]
  | _ => []

/-- the cycle, unrolled: visit `t` does the work frames of node `t mod n`, then the noise, then
    (if the budget allows) the edge; `fuel` visits at most.  Also returns the visit at which the
    run ended (the cut-off the finite-recursion cases are placed around). -/
def cycle (fam : Char) (edges : Array Edge) (budget : Option Nat) :
    Nat → Nat → St → Marks → Bool → Pred × Nat
  | 0, t, _, _, _ => (.other "fuel", t)
  | fuel + 1, t, s, m, disc =>
    match edges[t % edges.size]? with
    | none => (.other "empty", t)
    | some e =>
      -- `disc`: the innermost capture of the output discards (below a `{% from … import … %}` with
      -- no capturing construct in between): `CallBlock` does nothing then, so a node that works
      -- inside the block it overrides does nothing at all
      if disc ∧ fam = 'T' ∧ e.kind = 'E' then (.ok m, t) else
      -- a filter block / set block around the step captures: what is below it is not discarded
      let dnode := disc && !(e.x = 2 || e.x = 3)
      match runMarks s m (edgePre fam e.kind ++ List.replicate (e.w + e.f) Ev.push) with
      | .error p => (p, t)
      | .ok (s0, m0) =>
        match (noiseOf e.noise).map (runNoise s0 m0) with
        | none => (.other "bad-noise", t)
        | some (.error p) => (p, t)
        | some (.ok (s1, m1)) =>
          if budget.any (t ≥ ·) then (.ok m1, t)
          -- a `{% block %}` statement is skipped while the output is discarded: the recursion ends here
          else if dnode ∧ fam = 'T' ∧ e.kind = 'B' then (.ok m1, t)
          else
            match edgeEvents fam e.kind (t < edges.size) with
            | none => (.other "bad-edge", t)
            | some evs =>
              match runMarks s1 m1 evs with
              | .error p => (p, t)
              | .ok (s2, m2) =>
                -- from-import discards; import, `loop(…)`, macros and call blocks capture
                cycle fam edges budget fuel (t + 1) s2 m2
                  (fam = 'T' && (e.kind = 'F' || (dnode && !(e.kind = 'P' || e.kind = 'L' || e.kind = 'W'
                    || e.kind = 'K' || e.kind = 'Y'))))

def predictCycleV (fam : Char) (edges : Array Edge) (limit : Nat) (budget : Option Nat) : Pred × Nat :=
  let s0 := init limit
  let m0 : Marks := ⟨s0.cur.depth, nativeDepth s0⟩
  -- `{% from "applylib" import applym %}` at the top of the template, where an edge uses it
  let prelude : List Ev :=
    if fam = 'M' ∧ edges.any (·.kind = 'I') then [.push, .enter .includeTpl, .leave, .pop] else []
  match runMarks s0 m0 (prelude ++ entryEvents fam) with
  | .error p => (p, 0)
  | .ok (s1, m1) =>
    -- every visit adds at least one depth unit; the cap only matters when the limit is not clamped
    cycle fam edges budget (min (limit + (budget.getD 0) + 3) 5000) 0 s1 m1 false

def predictCycle (fam : Char) (edges : Array Edge) (limit : Nat) (budget : Option Nat) : Pred :=
  (predictCycleV fam edges limit budget).1

/-- chain of `n` nested `super()` calls: the block, then `n` times super -/
def predictSuper (n limit : Nat) : Pred :=
  let s0 := init limit
  match runMarks s0 ⟨s0.cur.depth, nativeDepth s0⟩
      (Ev.enter .blockCall :: List.replicate n (Ev.enter .superCall)) with
  | .error p => p
  | .ok (_, m) => .ok m

/-- recursive loop over data nested `d` deep: `d + 1` loop frames, no native re-entry -/
def predictLoop (d limit : Nat) : Pred :=
  let s0 := init limit
  match runMarks s0 ⟨s0.cur.depth, nativeDepth s0⟩ (List.replicate (d + 1) Ev.push) with
  | .error p => p
  | .ok (_, m) => .ok m

/-- a depth-neutral statement in a loop of 1000 iterations, in a given surrounding: top level,
    inside an included template, a macro, a block, or an include inside a macro.  All iterations
    are alike (that is what the depth probes check), so one iteration gives the marks. -/
def predictNoise (ctx noise : Char) (limit : Nat) : Pred :=
  let pre : Option (List Ev) := match ctx with
    | 't' => some []
    | 'i' => some [.enter .includeTpl]
    | 'm' => some [.enter .macroCall]
    | 'b' => some [.enter .blockCall]
    | 'x' => some [.enter .macroCall, .enter .includeTpl]
    | 's' => some [.enter .blockCall]
    | _ => none
  match pre, noiseOf noise with
  | some pre, some n =>
    let s0 := init limit
    match runMarks s0 ⟨s0.cur.depth, nativeDepth s0⟩ (pre ++ [.push]) with
    | .error p => p
    | .ok (s1, m1) =>
      match runNoise s1 m1 n with
      | .error p => p
      | .ok (_, m2) => .ok m2
  | _, _ => .other "bad-noise-shape"

end MJ.Depth
