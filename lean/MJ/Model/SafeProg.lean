import MJ.Model.Safe
/-!
# Programs of the safe-bit calculus (C02, stage "programs")

An AST of templates (`Expr`, `Stmt`, `Tmpl`, `Prog`) and a big-step interpreter `execProg` that
drives the machine of `MJ/Model/Safe.lean`: the interpreter touches the machine state **only** by
running `Step`s; control flow (loop counts, conditions, attribute lookups) reads the registers.
It transcribes what `vm/mod.rs` does with the auto-escape mode and with captures:

* `Emit` writes in the current mode through the environment's formatter (`Environment::set_formatter`:
  the default `escape_formatter`, or a wrapper that rewrites the value first — `Fmt`);
  `{% autoescape x %}` = `derive_auto_escape` relative to the mode the current instruction stream was
  entered with (`initMode`), for every documented value (`true`, `false`, `"html"`, `"json"`, `"none"`;
  anything else is an error);
* set-block / filter-block / `super()` / recursive `loop(…)` = `BeginCapture … end_capture(mode)`;
* macro call, call block, `caller()` = fresh output … `Macro::call` tail (`macroReturn mode`) in the
  mode of the *call site* — also for macros imported from a template whose name selects another mode;
* `{% include %}` = the included template's top level under *its own* initial mode, writing into the
  current target; `{% import t as m %}` / `{% from t import a as b %}` = the same inside a capture
  (`import`: `Capture`, kept in the module object; `from`: `Discard`), exporting the variables the
  imported template set at its top level (computed under the imported template's mode) and its macros;
* `{% extends %}`: the child's statements outside blocks run with the output discarded (their `set`s,
  imports and macros stay visible), then the parent's body runs in the mode of the rendered template;
  blocks of the inheritance chain and `super()` run in the mode in effect at the block;
* the initial mode of a template is what the auto-escape callback says for its name:
  `default_auto_escape_callback` (`autoEscapeOfName`, extension lists regenerated from `defaults.rs`)
  unless the program installs a custom callback (`Prog.modes`, `Environment::set_auto_escape_callback`);
* entry points: `Template::render` (`execProg`), `Template::render_captured` + `State::render_block`
  (`execBlock`), `Expression::eval` (`execExpr`: mode `None`, no output).

`Env.opaq` ("opaque") records that the innermost output target is a buffer whose text can never become a `Safe`
string (discarded output, the capture of an `import`, a capture that will end in mode `None`).
With `strict := true` the interpreter refuses (returns `none`) to write an expression outside Html mode
unless the target is opaq, to enter Json mode, and to apply a filter that is not part of the
safe-marking-free fragment (`safe`, `tojson`); everything else is identical.  Simplifications (the
harness generator respects them): macro names are unique in a program (aliases and module prefixes are
resolved), imports stand at the head of a template, only top-level `block`s take part in inheritance,
an included or imported template does not extend another one.
-/
namespace MJ.Safe

inductive AutoArg where
  | tru
  | fals
  | str (s : String)
  deriving Repr, DecidableEq

inductive Expr where
  | var (n : String)
  | lit (s : String)
  | int (n : Int)
  | bool (b : Bool)
  | none
  | cat (a b : Expr)
  | add (a b : Expr)
  | mul (a : Expr) (n : Nat)
  | filt (name : String) (ps : List Nat) (args : List Expr)
  /-- `recv.name(args…)` through `unknown_method_callback` (pycompat): `args[0]` is the receiver,
      whose kind selects `string_methods` / `map_methods` / `seq_methods` -/
  | meth (name : String) (ps : List Nat) (args : List Expr)
  | index (a : Expr) (k : Nat)
  | slice (a : Expr) (x y : Nat)
  | attr (a : Expr) (key : String)
  | list (xs : List Expr)
  | dict (kvs : List (String × Expr))
  | call (m : String) (args : List Expr)
  /-- `alias.m(args…)` where `alias` names an imported module -/
  | modCall (alias m : String) (args : List Expr)
  /-- `alias.x`: a variable the imported template set at its top level -/
  | modVar (alias x : String)
  | caller
  | super
  | loopRec (e : Expr)
  | loopIndex
  | loopFirst
  | not (e : Expr)
  | cond (c a b : Expr)
  deriving Inhabited

inductive Stmt where
  | text (s : String)
  | emit (e : Expr)
  | set (n : String) (e : Expr)
  | setBlock (n : String) (filt : Option (String × List Nat)) (body : List Stmt)
  | filterBlock (name : String) (ps : List Nat) (body : List Stmt)
  | forIn (v : String) (it : Expr) (recursive : Bool) (body els : List Stmt)
  | ifE (c : Expr) (a b : List Stmt)
  | withE (n : String) (e : Expr) (body : List Stmt)
  | callBlock (m : String) (args : List Expr) (body : List Stmt)
  | incl (name : String)
  | block (name : String) (body : List Stmt)
  | auto (a : AutoArg) (body : List Stmt)
  deriving Inhabited

structure MacroDef where
  name : String
  params : List String
  body : List Stmt
  deriving Inhabited

inductive ImportDecl where
  /-- `{% import "tmpl" as alias %}` -/
  | asModule (tmpl alias : String)
  /-- `{% from "tmpl" import name as alias, … %}` (macros and top-level variables) -/
  | names (tmpl : String) (ns : List (String × String))
  deriving Inhabited

def ImportDecl.tmpl : ImportDecl → String
  | .asModule t _ => t
  | .names t _ => t

/-- source order: `extends`, imports, `pre` (top-level statements before the macro declarations),
    macros, body -/
structure Tmpl where
  name : String
  parent : Option String
  imports : List ImportDecl := []
  pre : List Stmt := []
  macros : List MacroDef
  body : List Stmt
  deriving Inhabited

/-- `Environment::set_formatter`: the default formatter, or the documented wrapper that hands
    `escape_formatter` an undefined value in place of `none` -/
inductive Fmt where
  | default
  | noneAsUndef
  deriving Repr, DecidableEq, Inhabited

structure Prog where
  templates : List Tmpl
  main : String
  /-- `Environment::set_auto_escape_callback`: the names the custom callback decides (all other names
      as `default_auto_escape_callback` does) -/
  modes : List (String × Mode) := []
  fmt : Fmt := .default
  deriving Inhabited

/-- context values handed in by the host: plain data, nothing marked -/
inductive CV where
  | str (s : String)
  | int (n : Int)
  | bool (b : Bool)
  | none
  | list (xs : List CV)
  | map (kvs : List (String × CV))
  /-- raw bytes (`Value::from_bytes`, serde bytes) -/
  | bytes (bs : List Nat)
  /-- a float, by the text of its `Display` -/
  | float (cs : List Char)
  /-- any object that is neither a sequence nor a map, by the text its `render` writes -/
  | obj (text : String)
  deriving Inhabited

mutual
def CV.toV : CV → V
  | .str s => .str (ofData s) false
  | .int n => .int n
  | .bool b => .bool b
  | .none => .none
  | .list xs => .seq (CV.toVL xs)
  | .map kvs => .map (CV.toVM kvs)
  | .bytes bs => .bytes bs
  | .float cs => .float cs
  | .obj t => .obj (ofData t)
def CV.toVL : List CV → List V
  | [] => []
  | x :: xs => x.toV :: CV.toVL xs
def CV.toVM : List (String × CV) → List (String × V)
  | [] => []
  | (k, v) :: kvs => (k, v.toV) :: CV.toVM kvs
end

/-! ## `default_auto_escape_callback` -/

/-- `name.strip_suffix(ext)` for the first extension of the list that matches (`break`) -/
def stripIgnoredExt (name : List Char) : List String → List Char
  | [] => name
  | ext :: rest =>
    if ext.toList.isSuffixOf name then name.take (name.length - ext.toList.length) else stripIgnoredExt name rest

/-- `name.rsplit('.').next()`: the text after the last dot, the whole name if there is none -/
def lastExt (name : List Char) : List Char := (name.reverse.takeWhile (· != '.')).reverse

def autoEscapeOfName (name : String) : Mode :=
  let ext := lastExt (stripIgnoredExt name.toList Gen.c02AutoEscapeIgnoredExts)
  if Gen.c02AutoEscapeHtmlExts.any (·.toList == ext) then .html
  else if Gen.c02AutoEscapeJsonExts.any (·.toList == ext) then .json
  else .none

/-- `Environment::initial_auto_escape(name)`: the installed callback -/
def modeOf (p : Prog) (name : String) : Mode := (p.modes.lookup name).getD (autoEscapeOfName name)

/-- `derive_auto_escape(value, initial_auto_escape)` -/
def deriveAutoEscape (a : AutoArg) (init : Mode) : Option Mode :=
  match a with
  | .str "html" => some .html
  | .str "json" => some .json
  | .str "none" => some .none
  | .str _ => Option.none
  | .fals => some .none
  | .tru => some (if init = .none then .html else init)

/-! ## the interpreter monad: machine state, failure -/

abbrev M (α : Type) := St → Option (α × St)

@[inline] def M.pure {α : Type} (a : α) : M α := fun st => some (a, st)
@[inline] def M.bind {α β : Type} (m : M α) (f : α → M β) : M β := fun st =>
  match m st with
  | Option.none => Option.none
  | some (a, st') => f a st'

instance : Monad M where
  pure := M.pure
  bind := M.bind

def failM {α : Type} : M α := fun _ => Option.none
/-- run a step that produces no register -/
def stepM (s : Step) : M Unit := fun st => (s.run st).map fun st' => ((), st')
/-- run a step that appends one register; returns its index (read off the new state, so that the
    old state is not kept alive and the register array is updated in place) -/
def pushM (s : Step) : M Nat := fun st => (s.run st).map fun st' => (st'.pool.size - 1, st')
def readM (i : Nat) : M V := fun st => (st.pool[i]?).map fun v => (v, st)

/-- the body of a call block with the scope it was written in -/
structure CallerCl where
  body : List Stmt
  vars : List (String × Nat)
  macros : List (String × String)
  mods : List (String × String)

structure Env where
  mode : Mode
  initMode : Mode
  /-- the innermost output target is a buffer whose text never becomes a `Safe` string -/
  opaq : Bool := false
  vars : List (String × Nat)
  globals : List (String × Nat)
  prog : Prog
  /-- visible macros: local name ↦ the (program-wide unique) name of the macro -/
  macros : List (String × String) := []
  /-- visible modules: alias ↦ template name -/
  mods : List (String × String) := []
  /-- the variables the templates loaded so far set at their top level -/
  tvars : List (String × List (String × Nat)) := []
  caller : Option CallerCl
  loopIdx : Option Nat
  recLoop : Option (String × List Stmt)
  supers : List (List Stmt)
  chains : List (String × List (List Stmt))
  /-- `CallBlock` does nothing: the template extends another one / the output is being discarded -/
  skipBlocks : Bool := false

/-- the rewriting a custom formatter applies before it calls `escape_formatter` -/
def fmtPreF : Fn
  | [.none] => some .undef
  | [v] => some v
  | _ => Option.none

/-- may an expression be written here?  Html escapes; an opaq target never becomes `Safe` -/
def Env.writable (env : Env) : Bool := env.mode == .html || (env.mode == .none && env.opaq)

/-- `Emit` through `Environment::format`, guarded in strict mode -/
def emitG (strict : Bool) (env : Env) (r : Nat) : M Unit :=
  if strict && !env.writable then failM
  else match env.prog.fmt with
    | .default => stepM (.emit env.mode r)
    | .noneAsUndef => do
      let r' ← pushM (.apply fmtPreF [r])
      stepM (.emit env.mode r')

/-- filter application, guarded in strict mode -/
def applyG (strict : Bool) (env : Env) (g : Fn) (ok : Bool) (rs : List Nat) : M Nat :=
  if strict && (!ok || env.mode == .json) then failM else pushM (.apply g rs)

def applyNamed (strict : Bool) (env : Env) (name : String) (ps : List Nat) (rs : List Nat) : M Nat :=
  match lookupF name env.mode ps with
  | Option.none => failM
  | some (g, ok) => applyG strict env g ok rs

def findTmpl (p : Prog) (name : String) : Option Tmpl := p.templates.find? (·.name == name)

/-- the template that declares the macro (macro names are unique in a program) and its declaration -/
def findMacro (p : Prog) (name : String) : Option (Tmpl × MacroDef) :=
  p.templates.findSome? fun t => (t.macros.find? (·.name == name)).map fun md => (t, md)

def tmplHasMacro (p : Prog) (tmpl name : String) : Bool :=
  match findTmpl p tmpl with
  | some t => t.macros.any (·.name == name)
  | Option.none => false

/-- macros a template sees: its own and the ones its `from … import` names -/
def importMacros (p : Prog) : List ImportDecl → List (String × String)
  | [] => []
  | .asModule _ _ :: rest => importMacros p rest
  | .names t ns :: rest => (ns.filter fun na => tmplHasMacro p t na.1).map (fun na => (na.2, na.1)) ++ importMacros p rest

def scopeMacros (p : Prog) (t : Tmpl) : List (String × String) :=
  t.macros.map (fun md => (md.name, md.name)) ++ importMacros p t.imports

def scopeMods : List ImportDecl → List (String × String)
  | [] => []
  | .asModule t a :: rest => (a, t) :: scopeMods rest
  | .names _ _ :: rest => scopeMods rest

def lookupVar (env : Env) (n : String) : Option Nat :=
  match env.vars.lookup n with
  | some r => some r
  | Option.none => env.globals.lookup n

/-- bind macro parameters to argument registers; missing arguments are undefined -/
def bindParams : List String → List Nat → M (List (String × Nat))
  | [], [] => pure []
  | [], _ :: _ => failM
  | p :: ps, [] => do
    let r ← pushM .undef
    let rest ← bindParams ps []
    pure ((p, r) :: rest)
  | p :: ps, r :: rs => do
    let rest ← bindParams ps rs
    pure ((p, r) :: rest)

/-- dispatch of `pycompat::unknown_method_callback` on the receiver's kind -/
def methodKind : V → Option String
  | .str _ _ => some "str"
  | .map _ => some "dict"
  | .seq _ => some "list"
  | _ => Option.none

def seqLen : V → Nat
  | .seq xs => xs.length
  | _ => 0

/-- a capture that begins here ends in the current mode: its text becomes `Safe` iff that is not `None` -/
def Env.inCapture (env : Env) : Env := { env with opaq := env.mode != .html }

/-- environment of a macro body: parameters, the variables its template had set at its top level
    (closure), the macros and modules its template sees; mode of the call site -/
def Env.forMacro (env : Env) (home : Tmpl) (params : List (String × Nat)) (caller : Option CallerCl) : Env :=
  { env with vars := params ++ (env.tvars.lookup home.name).getD [], macros := scopeMacros env.prog home,
             mods := scopeMods home.imports, caller := caller, loopIdx := Option.none, recLoop := Option.none,
             supers := [], initMode := env.mode, opaq := env.mode != .html, skipBlocks := false }

/-- environment of a call-block body run by `caller()`: the scope it was written in -/
def Env.forCaller (env : Env) (c : CallerCl) : Env :=
  { env with vars := c.vars, macros := c.macros, mods := c.mods, caller := Option.none, loopIdx := Option.none,
             recLoop := Option.none, supers := [], initMode := env.mode, opaq := env.mode != .html, skipBlocks := false }

/-- environment of the parent block run by `super()` (inside the capture of the call) -/
def Env.forSuper (env : Env) (rest : List (List Stmt)) : Env :=
  { env.inCapture with supers := rest, initMode := env.mode, loopIdx := Option.none, recLoop := Option.none }

/-- the module object of `{% import %}`: an object whose `render` writes the captured text -/
def moduleObjF : Fn
  | [v] => some (.obj v.display)
  | _ => Option.none

/-- what a loaded template exports: the variables set at its top level -/
abbrev TVars := List (String × List (String × Nat))

/-- bind the names of a `from … import`: variables the template exported (macros are resolved
    statically by `importMacros`; a name that is neither is undefined) -/
def bindImported (p : Prog) (tmpl : String) (exported : List (String × Nat)) : List (String × String) → M (List (String × Nat))
  | [] => pure []
  | (n, a) :: rest => do
    let more ← bindImported p tmpl exported rest
    if tmplHasMacro p tmpl n then pure more
    else match exported.lookup n with
      | some r => pure ((a, r) :: more)
      | Option.none => do
        let r ← pushM .undef
        pure ((a, r) :: more)

mutual
def evalExpr (strict : Bool) : Nat → Env → Expr → M Nat
  | 0, _, _ => failM
  | fuel + 1, env, e =>
    match e with
    | .var n =>
      match lookupVar env n with
      | some r => pure r
      | Option.none => pushM .undef
    | .lit s => pushM (.data s)
    | .int n => pushM (.int n)
    | .bool b => pushM (.bool b)
    | .none => pushM .none
    | .cat a b => do
      let ra ← evalExpr strict fuel env a
      let rb ← evalExpr strict fuel env b
      applyG strict env concatF true [ra, rb]
    | .add a b => do
      let ra ← evalExpr strict fuel env a
      let rb ← evalExpr strict fuel env b
      applyG strict env addF true [ra, rb]
    | .mul a n => do
      let ra ← evalExpr strict fuel env a
      applyG strict env (repeatF n) true [ra]
    | .filt name ps args => do
      let rs ← evalArgs strict fuel env args
      applyNamed strict env name ps rs
    | .meth name ps args => do
      let rs ← evalArgs strict fuel env args
      match rs with
      | [] => failM
      | r :: _ => do
        let v ← readM r
        match methodKind v with
        | Option.none => failM
        | some k => applyNamed strict env (k ++ "." ++ name) ps rs
    | .index a k => do
      let ra ← evalExpr strict fuel env a
      applyG strict env (elemF k) true [ra]
    | .slice a x y => do
      let ra ← evalExpr strict fuel env a
      applyG strict env (sliceF x y) true [ra]
    | .attr a key => do
      let ra ← evalExpr strict fuel env a
      applyG strict env (attrF key) true [ra]
    | .list xs => do
      let rs ← evalArgs strict fuel env xs
      pushM (.mkSeq rs)
    | .dict kvs => do
      let kis ← evalKVs strict fuel env kvs
      pushM (.mkMap kis)
    | .call m args =>
      match env.macros.lookup m with
      | Option.none => failM
      | some g => callMacro strict fuel env g args Option.none
    | .modCall alias m args =>
      match env.mods.lookup alias with
      | Option.none => failM
      | some tn => if tmplHasMacro env.prog tn m then callMacro strict fuel env m args Option.none else failM
    | .modVar alias x =>
      match env.mods.lookup alias with
      | Option.none => failM
      | some tn =>
        match ((env.tvars.lookup tn).getD []).lookup x with
        | some r => pure r
        | Option.none => pushM .undef
    | .caller =>
      match env.caller with
      | Option.none => failM
      | some c => do
        stepM .beginCapture
        let _ ← execStmts strict fuel (env.forCaller c) c.body
        pushM (.macroReturn env.mode)
    | .super =>
      match env.supers with
      | [] => failM
      | b :: rest => do
        stepM .beginCapture
        let _ ← execStmts strict fuel (env.forSuper rest) b
        pushM (.endCapture env.mode)
    | .loopRec e =>
      match env.recLoop with
      | Option.none => failM
      | some (v, body) => do
        let r ← evalExpr strict fuel env e
        stepM .beginCapture
        let r' ← applyG strict env charsF true [r]
        let items ← readM r'
        forLoop strict fuel env.inCapture v body r' 0 (seqLen items)
        pushM (.endCapture env.mode)
    | .loopIndex =>
      match env.loopIdx with
      | some k => pushM (.int (k + 1))
      | Option.none => failM
    | .loopFirst =>
      match env.loopIdx with
      | some k => pushM (.bool (k == 0))
      | Option.none => failM
    | .not e => do
      let r ← evalExpr strict fuel env e
      let v ← readM r
      pushM (.bool (!truthy v))
    | .cond c a b => do
      let rc ← evalExpr strict fuel env c
      let v ← readM rc
      if truthy v then evalExpr strict fuel env a else evalExpr strict fuel env b

/-- `Macro::call`: arguments, fresh output, body in the mode of the call site, result marked by that mode -/
def callMacro (strict : Bool) : Nat → Env → String → List Expr → Option CallerCl → M Nat
  | 0, _, _, _, _ => failM
  | fuel + 1, env, g, args, caller =>
    match findMacro env.prog g with
    | Option.none => failM
    | some (home, md) => do
      let rs ← evalArgs strict fuel env args
      let params ← bindParams md.params rs
      stepM .beginCapture
      let _ ← execStmts strict fuel (env.forMacro home params caller) md.body
      pushM (.macroReturn env.mode)

def evalArgs (strict : Bool) : Nat → Env → List Expr → M (List Nat)
  | 0, _, _ => failM
  | _ + 1, _, [] => pure []
  | fuel + 1, env, e :: es => do
    let r ← evalExpr strict fuel env e
    let rs ← evalArgs strict fuel env es
    pure (r :: rs)

def evalKVs (strict : Bool) : Nat → Env → List (String × Expr) → M (List (String × Nat))
  | 0, _, _ => failM
  | _ + 1, _, [] => pure []
  | fuel + 1, env, (k, e) :: kvs => do
    let r ← evalExpr strict fuel env e
    let rs ← evalKVs strict fuel env kvs
    pure ((k, r) :: rs)

/-- iterations `k, k+1, …, n-1` of a loop over the sequence in register `r` -/
def forLoop (strict : Bool) : Nat → Env → String → List Stmt → Nat → Nat → Nat → M Unit
  | 0, _, _, _, _, _, _ => failM
  | fuel + 1, env, v, body, r, k, n =>
    if k < n then do
      let rk ← applyG strict env (elemF k) true [r]
      let _ ← execStmts strict fuel { env with vars := (v, rk) :: env.vars, loopIdx := some k } body
      forLoop strict fuel env v body r (k + 1) n
    else pure ()

/-- statements; returns the variable bindings visible afterwards -/
def execStmts (strict : Bool) : Nat → Env → List Stmt → M (List (String × Nat))
  | 0, _, _ => failM
  | _ + 1, env, [] => pure env.vars
  | fuel + 1, env, s :: ss => do
    let vars ← execStmt strict fuel env s
    execStmts strict fuel { env with vars := vars } ss

def execStmt (strict : Bool) : Nat → Env → Stmt → M (List (String × Nat))
  | 0, _, _ => failM
  | fuel + 1, env, s =>
    match s with
    | .text t => do
      stepM (.raw t)
      pure env.vars
    | .emit e => do
      let r ← evalExpr strict fuel env e
      emitG strict env r
      pure env.vars
    | .set n e => do
      let r ← evalExpr strict fuel env e
      pure ((n, r) :: env.vars)
    | .setBlock n filt body => do
      stepM .beginCapture
      let _ ← execStmts strict fuel env.inCapture body
      let r ← pushM (.endCapture env.mode)
      match filt with
      | Option.none => pure ((n, r) :: env.vars)
      | some (name, ps) => do
        let r2 ← applyNamed strict env name ps [r]
        pure ((n, r2) :: env.vars)
    | .filterBlock name ps body => do
      stepM .beginCapture
      let _ ← execStmts strict fuel env.inCapture body
      let r ← pushM (.endCapture env.mode)
      let r2 ← applyNamed strict env name ps [r]
      emitG strict env r2
      pure env.vars
    | .forIn v it recursive body els => do
      let r ← evalExpr strict fuel env it
      let r' ← applyG strict env charsF true [r]
      let items ← readM r'
      let env' := { env with recLoop := if recursive then some (v, body) else Option.none }
      if seqLen items = 0 then do
        let _ ← execStmts strict fuel env els
        pure env.vars
      else do
        forLoop strict fuel env' v body r' 0 (seqLen items)
        pure env.vars
    | .ifE c a b => do
      let rc ← evalExpr strict fuel env c
      let v ← readM rc
      if truthy v then execStmts strict fuel env a else execStmts strict fuel env b
    | .withE n e body => do
      let r ← evalExpr strict fuel env e
      let _ ← execStmts strict fuel { env with vars := (n, r) :: env.vars } body
      pure env.vars
    | .callBlock m args body =>
      match env.macros.lookup m with
      | Option.none => failM
      | some g => do
        let r ← callMacro strict fuel env g args (some { body := body, vars := env.vars, macros := env.macros, mods := env.mods })
        emitG strict env r
        pure env.vars
    | .incl name =>
      match findTmpl env.prog name with
      | Option.none => failM
      | some t =>
        if t.parent.isSome then failM else do
          let _ ← runTop strict fuel { env with loopIdx := Option.none, recLoop := Option.none, caller := Option.none, supers := [], chains := [], skipBlocks := false } t (modeOf env.prog name)
          pure env.vars
    | .block name dflt =>
      if env.skipBlocks then pure env.vars else
      match (env.chains.lookup name).getD [dflt] with
      | [] => pure env.vars
      | b :: rest => do
        let _ ← execStmts strict fuel { env with supers := rest, initMode := env.mode, loopIdx := Option.none, recLoop := Option.none } b
        pure env.vars
    | .auto a body =>
      match deriveAutoEscape a env.initMode with
      | Option.none => failM
      | some m =>
        if strict && m == .json then failM else do
          let vars ← execStmts strict fuel { env with mode := m } body
          pure vars

/-- the top level of a template in mode `m` (its own initial mode when it is included or imported,
    the mode of the rendered template when it is part of an inheritance chain), in the scope it is
    loaded into: imports, statements, body (macro declarations are resolved statically).  Returns the
    variables visible afterwards and the table of template-level variables. -/
def runTop (strict : Bool) : Nat → Env → Tmpl → Mode → M (List (String × Nat) × TVars)
  | 0, _, _, _ => failM
  | fuel + 1, env, t, m =>
    if strict && m == .json then failM else do
      let env0 : Env := { env with mode := m, initMode := m, macros := scopeMacros env.prog t ++ env.macros,
                                   mods := scopeMods t.imports ++ env.mods }
      let l1 ← loadImports strict fuel env0 t.imports
      let vars2 ← execStmts strict fuel { env0 with vars := l1.1, tvars := l1.2 } t.pre
      let vars3 ← execStmts strict fuel { env0 with vars := vars2, tvars := (t.name, vars2) :: l1.2 } t.body
      pure (vars3, (t.name, vars3) :: l1.2)

/-- `{% import %}` / `{% from … import %}` statements at the head of a template, in order -/
def loadImports (strict : Bool) : Nat → Env → List ImportDecl → M (List (String × Nat) × TVars)
  | 0, _, _ => failM
  | _ + 1, env, [] => pure (env.vars, env.tvars)
  | fuel + 1, env, d :: rest =>
    match findTmpl env.prog d.tmpl with
    | Option.none => failM
    | some t =>
      if t.parent.isSome then failM else do
        -- `BeginCapture(Capture | Discard); PushWith; Include; EndCapture; ExportLocals; PopFrame`
        stepM .beginCapture
        let l ← runTop strict fuel { env with opaq := true, loopIdx := Option.none, recLoop := Option.none, caller := Option.none,
                                              supers := [], chains := [], skipBlocks := false } t (modeOf env.prog d.tmpl)
        -- the Safe bit `end_capture` puts on the captured text is never read: `Module::render` writes its
        -- Display into the text of the module object (discarded altogether by `from … import`)
        let rc ← pushM (.endCapture .none)
        let exported := l.1.take (l.1.length - env.vars.length)
        match d with
        | .asModule _ alias => do
          let ro ← pushM (.apply moduleObjF [rc])
          loadImports strict fuel { env with vars := (alias, ro) :: env.vars, tvars := l.2 } rest
        | .names _ ns => do
          let bound ← bindImported env.prog d.tmpl exported ns
          loadImports strict fuel { env with vars := bound ++ env.vars, tvars := l.2 } rest
end

/-! ## whole programs -/

/-- templates from the rendered one up to the root of its inheritance chain -/
def inheritChain (p : Prog) : Nat → String → List Tmpl
  | 0, _ => []
  | fuel + 1, name =>
    match findTmpl p name with
    | Option.none => []
    | some t =>
      match t.parent with
      | Option.none => [t]
      | some parent => t :: inheritChain p fuel parent

def topBlocks : List Stmt → List (String × List Stmt)
  | [] => []
  | .block n b :: rest => (n, b) :: topBlocks rest
  | _ :: rest => topBlocks rest

/-- add the bodies of one template (more derived templates come first) -/
def addBlocks (chains : List (String × List (List Stmt))) : List (String × List Stmt) → List (String × List (List Stmt))
  | [] => chains
  | (n, b) :: rest =>
    let chains' := match chains.lookup n with
      | some bodies => (n, bodies ++ [b]) :: chains.filter (·.1 != n)
      | Option.none => (n, [b]) :: chains
    addBlocks chains' rest

def buildChains (ts : List Tmpl) : List (String × List (List Stmt)) :=
  ts.foldl (fun acc t => addBlocks acc (topBlocks t.body)) []

def pushCtx : List (String × CV) → M (List (String × Nat))
  | [] => pure []
  | (n, cv) :: rest => do
    let r ← pushM (.value cv.toV)
    let more ← pushCtx rest
    pure ((n, r) :: more)

def defaultFuel : Nat := 100000

/-- the templates of an inheritance chain below the root, most derived first: their top level runs
    with the output discarded (`LoadBlocks` begins a discarding capture) and with `CallBlock` disabled;
    what they set, import and declare stays visible -/
def runChainHeads (strict : Bool) (fuel : Nat) : Env → List Tmpl → M Env
  | env, [] => pure env
  | env, t :: rest => do
    stepM .beginCapture
    let l ← runTop strict fuel { env with opaq := true, skipBlocks := true } t env.mode
    let _ ← pushM (.endCapture .none)
    let env' : Env := { env with vars := l.1, tvars := l.2, macros := scopeMacros env.prog t ++ env.macros,
                                 mods := scopeMods t.imports ++ env.mods }
    runChainHeads strict fuel env' rest

def baseEnv (p : Prog) (globals : List (String × Nat)) (chain : List Tmpl) : Env :=
  let m := modeOf p p.main
  { mode := m, initMode := m, vars := [], globals := globals, prog := p, caller := Option.none, loopIdx := Option.none,
    recLoop := Option.none, supers := [], chains := buildChains chain }

/-- render `p.main` with context `ctx`; returns the scope the render left behind -/
def renderMainM (strict : Bool) (fuel : Nat) (p : Prog) (ctx : List (String × CV)) : M Env := do
  let chain := inheritChain p (p.templates.length + 1) p.main
  match chain.getLast? with
  | Option.none => failM
  | some base =>
    let globals ← pushCtx ctx
    let m := modeOf p p.main
    if strict && m != .html then failM else do
      let env ← runChainHeads strict fuel (baseEnv p globals chain) chain.dropLast
      -- the root of the chain runs in the mode of the rendered template, its blocks dispatch through the chain
      let l ← runTop strict fuel env base env.mode
      let env' : Env := { env with vars := l.1, tvars := l.2, macros := scopeMacros p base ++ env.macros,
                                   mods := scopeMods base.imports ++ env.mods }
      pure env'

/-- `Template::render` -/
def execProgM (strict : Bool) (fuel : Nat) (p : Prog) (ctx : List (String × CV)) : M Unit := do
  let _ ← renderMainM strict fuel p ctx
  pure ()

def execProg (strict : Bool) (p : Prog) (ctx : List (String × CV)) : Option St :=
  (execProgM strict defaultFuel p ctx {}).map (·.2)

/-- `Template::render_captured(ctx)` followed by `State::render_block(name)` on the captured state:
    the template is rendered (its output is `Captured::output`), then the block is called in the mode the
    render ended with (the template's initial mode) with the variables it left behind.  The model output
    is the rendered text followed by the block's text. -/
def execBlockM (strict : Bool) (fuel : Nat) (p : Prog) (blockName : String) (ctx : List (String × CV)) : M Unit := do
  let env ← renderMainM strict fuel p ctx
  if (env.chains.lookup blockName).isNone then failM else do
    let _ ← execStmt strict fuel env (.block blockName [])
    pure ()

def execBlock (strict : Bool) (p : Prog) (blockName : String) (ctx : List (String × CV)) : Option St :=
  (execBlockM strict defaultFuel p blockName ctx {}).map (·.2)

/-- the environment of an expression: no template, mode `None` -/
def exprEnv (globals : List (String × Nat)) : Env :=
  { mode := .none, initMode := .none, vars := [], globals := globals, prog := { templates := [], main := "" },
    caller := Option.none, loopIdx := Option.none, recLoop := Option.none, supers := [], chains := [] }

/-- `Expression::eval`: no template, mode `None`, the null output; the value is the last register -/
def execExprM (strict : Bool) (fuel : Nat) (e : Expr) (ctx : List (String × CV)) : M Nat := do
  let globals ← pushCtx ctx
  evalExpr strict fuel (exprEnv globals) e

def execExpr (strict : Bool) (e : Expr) (ctx : List (String × CV)) : Option (V × St) :=
  match execExprM strict defaultFuel e ctx {} with
  | some (r, st) => (st.pool[r]?).map fun v => (v, st)
  | Option.none => Option.none

end MJ.Safe
