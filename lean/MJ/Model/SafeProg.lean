import MJ.Model.Safe
/-!
# Programs of the safe-bit calculus (C02, stage "programs")

An AST of templates (`Expr`, `Stmt`, `Tmpl`, `Prog`) and a big-step interpreter `execProg` that
drives the machine of `MJ/Model/Safe.lean`: the interpreter touches the machine state **only** by
running `Step`s; control flow (loop counts, conditions, attribute lookups) reads the registers.
It transcribes what `vm/mod.rs` does with the auto-escape mode and with captures:

* `Emit` writes in the current mode; `{% autoescape x %}` = `derive_auto_escape` relative to the mode
  the current instruction stream was entered with (`initMode`);
* set-block / filter-block / `super()` / recursive `loop(…)` = `BeginCapture … end_capture(mode)`;
* macro call, call block, `caller()` = fresh output … `Macro::call` tail (`macroReturn mode`) in the
  mode of the *call site*;
* include = the included template's body under `default_auto_escape_callback(name)`; blocks of the
  inheritance chain run in the mode of the template being rendered;
* the initial mode of the rendered template is `default_auto_escape_callback(main)`
  (`autoEscapeOfName`, extension lists regenerated from `defaults.rs`).

With `strict := true` the interpreter refuses (returns `none`) to emit or apply a filter outside
Html mode and to apply a filter that is not part of the safe-marking-free fragment (`safe`,
`tojson`); everything else is identical.  Simplifications (the harness generator respects them):
macro names are global and unique, only top-level `block`s take part in inheritance, statements
outside blocks in a child template are not modelled.
-/
namespace MJ.Safe

inductive AutoArg where
  | tru
  | fals
  | str (s : String)
  deriving Repr, DecidableEq

inductive Expr where
  | var (n : String)
  | lit (s : String)
  | int (n : Int)
  | bool (b : Bool)
  | none
  | cat (a b : Expr)
  | add (a b : Expr)
  | mul (a : Expr) (n : Nat)
  | filt (name : String) (ps : List Nat) (args : List Expr)
  /-- `recv.name(args…)` through `unknown_method_callback` (pycompat): `args[0]` is the receiver,
      whose kind selects `string_methods` / `map_methods` / `seq_methods` -/
  | meth (name : String) (ps : List Nat) (args : List Expr)
  | index (a : Expr) (k : Nat)
  | slice (a : Expr) (x y : Nat)
  | attr (a : Expr) (key : String)
  | list (xs : List Expr)
  | dict (kvs : List (String × Expr))
  | call (m : String) (args : List Expr)
  | caller
  | super
  | loopRec (e : Expr)
  | loopIndex
  | loopFirst
  | not (e : Expr)
  | cond (c a b : Expr)
  deriving Inhabited

inductive Stmt where
  | text (s : String)
  | emit (e : Expr)
  | set (n : String) (e : Expr)
  | setBlock (n : String) (filt : Option (String × List Nat)) (body : List Stmt)
  | filterBlock (name : String) (ps : List Nat) (body : List Stmt)
  | forIn (v : String) (it : Expr) (recursive : Bool) (body els : List Stmt)
  | ifE (c : Expr) (a b : List Stmt)
  | withE (n : String) (e : Expr) (body : List Stmt)
  | callBlock (m : String) (args : List Expr) (body : List Stmt)
  | incl (name : String)
  | block (name : String) (body : List Stmt)
  | auto (a : AutoArg) (body : List Stmt)
  deriving Inhabited

structure MacroDef where
  name : String
  params : List String
  body : List Stmt
  deriving Inhabited

structure Tmpl where
  name : String
  parent : Option String
  macros : List MacroDef
  body : List Stmt
  deriving Inhabited

structure Prog where
  templates : List Tmpl
  main : String
  deriving Inhabited

/-- context values handed in by the host: plain data, nothing marked -/
inductive CV where
  | str (s : String)
  | int (n : Int)
  | bool (b : Bool)
  | none
  | list (xs : List CV)
  | map (kvs : List (String × CV))
  /-- raw bytes (`Value::from_bytes`, serde bytes) -/
  | bytes (bs : List Nat)
  /-- a float, by the text of its `Display` -/
  | float (cs : List Char)
  /-- any object that is neither a sequence nor a map, by the text its `render` writes -/
  | obj (text : String)
  deriving Inhabited

mutual
def CV.toV : CV → V
  | .str s => .str (ofData s) false
  | .int n => .int n
  | .bool b => .bool b
  | .none => .none
  | .list xs => .seq (CV.toVL xs)
  | .map kvs => .map (CV.toVM kvs)
  | .bytes bs => .bytes bs
  | .float cs => .float cs
  | .obj t => .obj (ofData t)
def CV.toVL : List CV → List V
  | [] => []
  | x :: xs => x.toV :: CV.toVL xs
def CV.toVM : List (String × CV) → List (String × V)
  | [] => []
  | (k, v) :: kvs => (k, v.toV) :: CV.toVM kvs
end

/-! ## `default_auto_escape_callback` -/

/-- `name.strip_suffix(ext)` for the first extension of the list that matches (`break`) -/
def stripIgnoredExt (name : List Char) : List String → List Char
  | [] => name
  | ext :: rest =>
    if ext.toList.isSuffixOf name then name.take (name.length - ext.toList.length) else stripIgnoredExt name rest

/-- `name.rsplit('.').next()`: the text after the last dot, the whole name if there is none -/
def lastExt (name : List Char) : List Char := (name.reverse.takeWhile (· != '.')).reverse

def autoEscapeOfName (name : String) : Mode :=
  let ext := lastExt (stripIgnoredExt name.toList Gen.c02AutoEscapeIgnoredExts)
  if Gen.c02AutoEscapeHtmlExts.any (·.toList == ext) then .html
  else if Gen.c02AutoEscapeJsonExts.any (·.toList == ext) then .json
  else .none

/-- `derive_auto_escape(value, initial_auto_escape)` -/
def deriveAutoEscape (a : AutoArg) (init : Mode) : Option Mode :=
  match a with
  | .str "html" => some .html
  | .str "json" => some .json
  | .str "none" => some .none
  | .str _ => Option.none
  | .fals => some .none
  | .tru => some (if init = .none then .html else init)

/-! ## the interpreter monad: machine state, failure -/

abbrev M (α : Type) := St → Option (α × St)

@[inline] def M.pure {α : Type} (a : α) : M α := fun st => some (a, st)
@[inline] def M.bind {α β : Type} (m : M α) (f : α → M β) : M β := fun st =>
  match m st with
  | Option.none => Option.none
  | some (a, st') => f a st'

instance : Monad M where
  pure := M.pure
  bind := M.bind

def failM {α : Type} : M α := fun _ => Option.none
/-- run a step that produces no register -/
def stepM (s : Step) : M Unit := fun st => (s.run st).map fun st' => ((), st')
/-- run a step that appends one register; returns its index (read off the new state, so that the
    old state is not kept alive and the register array is updated in place) -/
def pushM (s : Step) : M Nat := fun st => (s.run st).map fun st' => (st'.pool.size - 1, st')
def readM (i : Nat) : M V := fun st => (st.pool[i]?).map fun v => (v, st)

structure Env where
  mode : Mode
  initMode : Mode
  vars : List (String × Nat)
  globals : List (String × Nat)
  prog : Prog
  caller : Option (List Stmt × List (String × Nat))
  loopIdx : Option Nat
  recLoop : Option (String × List Stmt)
  supers : List (List Stmt)
  chains : List (String × List (List Stmt))

/-- `Emit`, guarded in strict mode -/
def emitG (strict : Bool) (env : Env) (r : Nat) : M Unit :=
  if strict && env.mode != .html then failM else stepM (.emit env.mode r)

/-- filter application, guarded in strict mode -/
def applyG (strict : Bool) (env : Env) (g : Fn) (ok : Bool) (rs : List Nat) : M Nat :=
  if strict && (!ok || env.mode != .html) then failM else pushM (.apply g rs)

def applyNamed (strict : Bool) (env : Env) (name : String) (ps : List Nat) (rs : List Nat) : M Nat :=
  match lookupF name env.mode ps with
  | Option.none => failM
  | some (g, ok) => applyG strict env g ok rs

def findMacro (p : Prog) (name : String) : Option MacroDef :=
  (p.templates.flatMap (·.macros)).find? (·.name == name)

def findTmpl (p : Prog) (name : String) : Option Tmpl := p.templates.find? (·.name == name)

def lookupVar (env : Env) (n : String) : Option Nat :=
  match env.vars.lookup n with
  | some r => some r
  | Option.none => env.globals.lookup n

/-- bind macro parameters to argument registers; missing arguments are undefined -/
def bindParams : List String → List Nat → M (List (String × Nat))
  | [], [] => pure []
  | [], _ :: _ => failM
  | p :: ps, [] => do
    let r ← pushM .undef
    let rest ← bindParams ps []
    pure ((p, r) :: rest)
  | p :: ps, r :: rs => do
    let rest ← bindParams ps rs
    pure ((p, r) :: rest)

/-- dispatch of `pycompat::unknown_method_callback` on the receiver's kind -/
def methodKind : V → Option String
  | .str _ _ => some "str"
  | .map _ => some "dict"
  | .seq _ => some "list"
  | _ => Option.none

def seqLen : V → Nat
  | .seq xs => xs.length
  | _ => 0

/-- environment of a macro / call-block body -/
def Env.forMacro (env : Env) (vars : List (String × Nat)) (caller : Option (List Stmt × List (String × Nat))) : Env :=
  { env with vars := vars, caller := caller, loopIdx := Option.none, recLoop := Option.none, supers := [], initMode := env.mode }

mutual
def evalExpr (strict : Bool) : Nat → Env → Expr → M Nat
  | 0, _, _ => failM
  | fuel + 1, env, e =>
    match e with
    | .var n =>
      match lookupVar env n with
      | some r => pure r
      | Option.none => pushM .undef
    | .lit s => pushM (.data s)
    | .int n => pushM (.int n)
    | .bool b => pushM (.bool b)
    | .none => pushM .none
    | .cat a b => do
      let ra ← evalExpr strict fuel env a
      let rb ← evalExpr strict fuel env b
      applyG strict env concatF true [ra, rb]
    | .add a b => do
      let ra ← evalExpr strict fuel env a
      let rb ← evalExpr strict fuel env b
      applyG strict env addF true [ra, rb]
    | .mul a n => do
      let ra ← evalExpr strict fuel env a
      applyG strict env (repeatF n) true [ra]
    | .filt name ps args => do
      let rs ← evalArgs strict fuel env args
      applyNamed strict env name ps rs
    | .meth name ps args => do
      let rs ← evalArgs strict fuel env args
      match rs with
      | [] => failM
      | r :: _ => do
        let v ← readM r
        match methodKind v with
        | Option.none => failM
        | some k => applyNamed strict env (k ++ "." ++ name) ps rs
    | .index a k => do
      let ra ← evalExpr strict fuel env a
      applyG strict env (elemF k) true [ra]
    | .slice a x y => do
      let ra ← evalExpr strict fuel env a
      applyG strict env (sliceF x y) true [ra]
    | .attr a key => do
      let ra ← evalExpr strict fuel env a
      applyG strict env (attrF key) true [ra]
    | .list xs => do
      let rs ← evalArgs strict fuel env xs
      pushM (.mkSeq rs)
    | .dict kvs => do
      let kis ← evalKVs strict fuel env kvs
      pushM (.mkMap kis)
    | .call m args =>
      match findMacro env.prog m with
      | Option.none => failM
      | some md => do
        let rs ← evalArgs strict fuel env args
        let vars ← bindParams md.params rs
        stepM .beginCapture
        let _ ← execStmts strict fuel (env.forMacro vars Option.none) md.body
        pushM (.macroReturn env.mode)
    | .caller =>
      match env.caller with
      | Option.none => failM
      | some (body, vars) => do
        stepM .beginCapture
        let _ ← execStmts strict fuel (env.forMacro vars Option.none) body
        pushM (.macroReturn env.mode)
    | .super =>
      match env.supers with
      | [] => failM
      | b :: rest => do
        stepM .beginCapture
        let _ ← execStmts strict fuel { env with supers := rest, initMode := env.mode, loopIdx := Option.none, recLoop := Option.none } b
        pushM (.endCapture env.mode)
    | .loopRec e =>
      match env.recLoop with
      | Option.none => failM
      | some (v, body) => do
        let r ← evalExpr strict fuel env e
        stepM .beginCapture
        let r' ← applyG strict env charsF true [r]
        let items ← readM r'
        forLoop strict fuel env v body r' 0 (seqLen items)
        pushM (.endCapture env.mode)
    | .loopIndex =>
      match env.loopIdx with
      | some k => pushM (.int (k + 1))
      | Option.none => failM
    | .loopFirst =>
      match env.loopIdx with
      | some k => pushM (.bool (k == 0))
      | Option.none => failM
    | .not e => do
      let r ← evalExpr strict fuel env e
      let v ← readM r
      pushM (.bool (!truthy v))
    | .cond c a b => do
      let rc ← evalExpr strict fuel env c
      let v ← readM rc
      if truthy v then evalExpr strict fuel env a else evalExpr strict fuel env b

def evalArgs (strict : Bool) : Nat → Env → List Expr → M (List Nat)
  | 0, _, _ => failM
  | _ + 1, _, [] => pure []
  | fuel + 1, env, e :: es => do
    let r ← evalExpr strict fuel env e
    let rs ← evalArgs strict fuel env es
    pure (r :: rs)

def evalKVs (strict : Bool) : Nat → Env → List (String × Expr) → M (List (String × Nat))
  | 0, _, _ => failM
  | _ + 1, _, [] => pure []
  | fuel + 1, env, (k, e) :: kvs => do
    let r ← evalExpr strict fuel env e
    let rs ← evalKVs strict fuel env kvs
    pure ((k, r) :: rs)

/-- iterations `k, k+1, …, n-1` of a loop over the sequence in register `r` -/
def forLoop (strict : Bool) : Nat → Env → String → List Stmt → Nat → Nat → Nat → M Unit
  | 0, _, _, _, _, _, _ => failM
  | fuel + 1, env, v, body, r, k, n =>
    if k < n then do
      let rk ← applyG strict env (elemF k) true [r]
      let _ ← execStmts strict fuel { env with vars := (v, rk) :: env.vars, loopIdx := some k } body
      forLoop strict fuel env v body r (k + 1) n
    else pure ()

/-- statements; returns the variable bindings visible afterwards -/
def execStmts (strict : Bool) : Nat → Env → List Stmt → M (List (String × Nat))
  | 0, _, _ => failM
  | _ + 1, env, [] => pure env.vars
  | fuel + 1, env, s :: ss => do
    let vars ← execStmt strict fuel env s
    execStmts strict fuel { env with vars := vars } ss

def execStmt (strict : Bool) : Nat → Env → Stmt → M (List (String × Nat))
  | 0, _, _ => failM
  | fuel + 1, env, s =>
    match s with
    | .text t => do
      stepM (.raw t)
      pure env.vars
    | .emit e => do
      let r ← evalExpr strict fuel env e
      emitG strict env r
      pure env.vars
    | .set n e => do
      let r ← evalExpr strict fuel env e
      pure ((n, r) :: env.vars)
    | .setBlock n filt body => do
      stepM .beginCapture
      let _ ← execStmts strict fuel env body
      let r ← pushM (.endCapture env.mode)
      match filt with
      | Option.none => pure ((n, r) :: env.vars)
      | some (name, ps) => do
        let r2 ← applyNamed strict env name ps [r]
        pure ((n, r2) :: env.vars)
    | .filterBlock name ps body => do
      stepM .beginCapture
      let _ ← execStmts strict fuel env body
      let r ← pushM (.endCapture env.mode)
      let r2 ← applyNamed strict env name ps [r]
      emitG strict env r2
      pure env.vars
    | .forIn v it recursive body els => do
      let r ← evalExpr strict fuel env it
      let r' ← applyG strict env charsF true [r]
      let items ← readM r'
      let env' := { env with recLoop := if recursive then some (v, body) else Option.none }
      if seqLen items = 0 then do
        let _ ← execStmts strict fuel env els
        pure env.vars
      else do
        forLoop strict fuel env' v body r' 0 (seqLen items)
        pure env.vars
    | .ifE c a b => do
      let rc ← evalExpr strict fuel env c
      let v ← readM rc
      if truthy v then execStmts strict fuel env a else execStmts strict fuel env b
    | .withE n e body => do
      let r ← evalExpr strict fuel env e
      let _ ← execStmts strict fuel { env with vars := (n, r) :: env.vars } body
      pure env.vars
    | .callBlock m args body =>
      match findMacro env.prog m with
      | Option.none => failM
      | some md => do
        let rs ← evalArgs strict fuel env args
        let vars ← bindParams md.params rs
        stepM .beginCapture
        let _ ← execStmts strict fuel (env.forMacro vars (some (body, env.vars))) md.body
        let r ← pushM (.macroReturn env.mode)
        emitG strict env r
        pure env.vars
    | .incl name =>
      match findTmpl env.prog name with
      | Option.none => failM
      | some t =>
        if t.parent.isSome then failM else do
          let m := autoEscapeOfName name
          let _ ← execStmts strict fuel { env with mode := m, initMode := m, loopIdx := Option.none, recLoop := Option.none, caller := Option.none, supers := [], chains := [] } t.body
          pure env.vars
    | .block name dflt =>
      match (env.chains.lookup name).getD [dflt] with
      | [] => pure env.vars
      | b :: rest => do
        let _ ← execStmts strict fuel { env with supers := rest, initMode := env.mode, loopIdx := Option.none, recLoop := Option.none } b
        pure env.vars
    | .auto a body =>
      match deriveAutoEscape a env.initMode with
      | Option.none => failM
      | some m => do
        let vars ← execStmts strict fuel { env with mode := m } body
        pure vars
end

/-! ## whole programs -/

/-- templates from the rendered one up to the root of its inheritance chain -/
def inheritChain (p : Prog) : Nat → String → List Tmpl
  | 0, _ => []
  | fuel + 1, name =>
    match findTmpl p name with
    | Option.none => []
    | some t =>
      match t.parent with
      | Option.none => [t]
      | some parent => t :: inheritChain p fuel parent

def topBlocks : List Stmt → List (String × List Stmt)
  | [] => []
  | .block n b :: rest => (n, b) :: topBlocks rest
  | _ :: rest => topBlocks rest

/-- add the bodies of one template (more derived templates come first) -/
def addBlocks (chains : List (String × List (List Stmt))) : List (String × List Stmt) → List (String × List (List Stmt))
  | [] => chains
  | (n, b) :: rest =>
    let chains' := match chains.lookup n with
      | some bodies => (n, bodies ++ [b]) :: chains.filter (·.1 != n)
      | Option.none => (n, [b]) :: chains
    addBlocks chains' rest

def buildChains (ts : List Tmpl) : List (String × List (List Stmt)) :=
  ts.foldl (fun acc t => addBlocks acc (topBlocks t.body)) []

def pushCtx : List (String × CV) → M (List (String × Nat))
  | [] => pure []
  | (n, cv) :: rest => do
    let r ← pushM (.value cv.toV)
    let more ← pushCtx rest
    pure ((n, r) :: more)

def defaultFuel : Nat := 100000

/-- render `p.main` with context `ctx` -/
def execProgM (strict : Bool) (fuel : Nat) (p : Prog) (ctx : List (String × CV)) : M Unit := do
  let chain := inheritChain p (p.templates.length + 1) p.main
  match chain.getLast? with
  | Option.none => failM
  | some base =>
    let globals ← pushCtx ctx
    let m := autoEscapeOfName p.main
    let env : Env := { mode := m, initMode := m, vars := [], globals := globals, prog := p, caller := Option.none, loopIdx := Option.none, recLoop := Option.none, supers := [], chains := buildChains chain }
    let _ ← execStmts strict fuel env base.body
    pure ()

def execProg (strict : Bool) (p : Prog) (ctx : List (String × CV)) : Option St :=
  (execProgM strict defaultFuel p ctx {}).map (·.2)

end MJ.Safe
