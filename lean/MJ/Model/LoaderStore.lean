/-!
# `minijinja::loader::LoaderStore` — the template store that fast reload clears

Mirrors `minijinja/src/loader.rs` (`Environment::clear_templates` = `self.templates.clear()`):

```
struct LoaderStore { template_config, loader: Option<Arc<LoadFunc>>,
                     owned_templates: MemoMap<name, template>,       -- filled by the loader (memo!) and add_template_owned
                     borrowed_templates: BTreeMap<name, template> }  -- filled by add_template
get(name):    borrowed.get(name)  else  owned.get_or_try_insert(name, || loader(name)? .ok_or(not found)? -> compile?)
insert_cow:   compile first (a failure leaves the store untouched); borrowed: owned.remove + borrowed.insert;
              owned: borrowed.remove + owned.replace
remove(name): both maps;   clear(): both maps;   set_loader(f): loader = Some(f)
```

The loader and the compiler are PARAMETERS of the model: `disk : String → LoadAns` is what the loader would
answer *now* (it changes between calls: that is what a reload is about), `ok : String → Bool` says which
sources compile.  The field list of the model's `Store` is tied to the regenerated field list of the Rust
struct by `MJ.C20.clear_empties_every_lookup_cache`.
-/
namespace MJ.LoaderStore

/-- what the loader function answers for a name at this moment -/
inductive LoadAns where
  | found (src : String)
  | missing              -- `Ok(None)`
  | err                  -- `Err(..)` (e.g. an I/O error)
  deriving DecidableEq, Repr

/-- outcome of a lookup -/
inductive Res where
  | tmpl (src : String)  -- a compiled template with this source
  | notFound
  | loaderErr
  | syntaxErr
  deriving DecidableEq, Repr

structure Store where
  hasLoader : Bool := false                       -- `loader.is_some()`  (`template_config` plays no role in lookups)
  owned : List (String × String) := []            -- `owned_templates`: name ↦ source
  borrowed : List (String × String) := []         -- `borrowed_templates`
  deriving DecidableEq, Repr

/-- the fields of the Rust struct that the model's `Store` represents, in the struct's order
    (`template_config` is configuration only: it is not consulted to FIND a template) -/
def modelledFields : List String := ["template_config", "loader", "owned_templates", "borrowed_templates"]

def erase (m : List (String × String)) (name : String) : List (String × String) :=
  m.filter fun p => p.1 != name

def put (m : List (String × String)) (name src : String) : List (String × String) :=
  (name, src) :: erase m name

/-- `LoaderStore::clear` -/
def clear (s : Store) : Store := { s with owned := [], borrowed := [] }

/-- `LoaderStore::remove` -/
def remove (s : Store) (name : String) : Store :=
  { s with owned := erase s.owned name, borrowed := erase s.borrowed name }

/-- `LoaderStore::set_loader` -/
def setLoader (s : Store) : Store := { s with hasLoader := true }

/-- `insert_cow` with borrowed name and source (`add_template`): `none` = syntax error, store untouched -/
def insertBorrowed (ok : String → Bool) (s : Store) (name src : String) : Option Store :=
  if ok src then some { s with owned := erase s.owned name, borrowed := put s.borrowed name src } else none

/-- `insert_cow` otherwise (`add_template_owned`) -/
def insertOwned (ok : String → Bool) (s : Store) (name src : String) : Option Store :=
  if ok src then some { s with borrowed := erase s.borrowed name, owned := put s.owned name src } else none

structure GetOut where
  res : Res
  store : Store
  called : Bool       -- the loader function was invoked
  deriving DecidableEq, Repr

/-- `LoaderStore::get` (interior mutability: a successful load is memoised in `owned_templates`) -/
def get (ok : String → Bool) (disk : String → LoadAns) (s : Store) (name : String) : GetOut :=
  match s.borrowed.lookup name with
  | some src => ⟨.tmpl src, s, false⟩
  | none =>
    match s.owned.lookup name with
    | some src => ⟨.tmpl src, s, false⟩
    | none =>
      if s.hasLoader then
        match disk name with
        | .err => ⟨.loaderErr, s, true⟩
        | .missing => ⟨.notFound, s, true⟩
        | .found src =>
          if ok src then ⟨.tmpl src, { s with owned := (name, src) :: s.owned }, true⟩
          else ⟨.syntaxErr, s, true⟩
      else ⟨.notFound, s, false⟩

/-- what a lookup that goes to the loader answers -/
def fromDisk (ok : String → Bool) (a : LoadAns) : Res :=
  match a with
  | .err => .loaderErr
  | .missing => .notFound
  | .found src => if ok src then .tmpl src else .syntaxErr

/-! ## theorems (all stores, all names, all loaders, all compilers) -/

/-- **after `clear`, EVERY lookup consults the loader** and answers what the loader says now — whatever
    was added, loaded, looked up in vain or removed before -/
theorem get_after_clear (ok : String → Bool) (disk : String → LoadAns) (s : Store) (name : String)
    (hl : s.hasLoader = true) :
    (get ok disk (clear s) name).called = true ∧ (get ok disk (clear s) name).res = fromDisk ok (disk name) := by
  simp only [get, clear, List.lookup, hl, fromDisk]
  cases disk name with
  | err => simp
  | missing => simp
  | found src => cases h : ok src <;> simp [h]

/-- `clear` keeps the loader (and the configuration): only the caches are emptied -/
theorem clear_keeps_loader (s : Store) : (clear s).hasLoader = s.hasLoader ∧ (clear s).owned = [] ∧
    (clear s).borrowed = [] := ⟨rfl, rfl, rfl⟩

theorem lookup_cons_self (m : List (String × String)) (name src : String) :
    List.lookup name ((name, src) :: m) = some src := by
  simp [List.lookup]

/-- **without a clear a loaded template is never looked up again** (the memo): after a lookup that found
    `src`, the next lookup of that name answers `src` without calling the loader, whatever the loader
    would say by then — this is why fast reload has to clear -/
theorem get_memoises (ok : String → Bool) (disk disk' : String → LoadAns) (s : Store) (name src : String)
    (h : (get ok disk s name).res = .tmpl src) :
    (get ok disk' (get ok disk s name).store name).called = false ∧
    (get ok disk' (get ok disk s name).store name).res = .tmpl src := by
  unfold get at h ⊢
  cases hb : s.borrowed.lookup name with
  | some b => simp only [hb] at h ⊢; simp at h; simp [h]
  | none =>
    simp only [hb] at h ⊢
    cases ho : s.owned.lookup name with
    | some o => simp only [ho] at h ⊢; simp only [hb]; simp at h; simp [h]
    | none =>
      simp only [ho] at h ⊢
      cases hl : s.hasLoader with
      | false => simp [hl] at h
      | true =>
        simp only [hl, if_true] at h ⊢
        cases hd : disk name with
        | err => simp [hd] at h
        | missing => simp [hd] at h
        | found s0 =>
          simp only [hd] at h ⊢
          cases hk : ok s0 with
          | false => simp [hk] at h
          | true =>
            simp only [hk, if_true] at h ⊢
            simp at h
            simp [hb, List.lookup, h]

/-- a failed lookup memoises NOTHING: the store is unchanged, so the next lookup asks the loader again
    (there is no negative cache) -/
theorem failed_get_leaves_store (ok : String → Bool) (disk : String → LoadAns) (s : Store) (name : String)
    (h : ∀ src, (get ok disk s name).res ≠ .tmpl src) : (get ok disk s name).store = s := by
  unfold get at h ⊢
  cases hb : s.borrowed.lookup name with
  | some b => simp
  | none =>
    cases ho : s.owned.lookup name with
    | some o => simp
    | none =>
      cases hl : s.hasLoader with
      | false => simp
      | true =>
        cases hd : disk name with
        | err => simp
        | missing => simp
        | found s0 =>
          cases hk : ok s0 with
          | false => simp [hk]
          | true => exfalso; exact h s0 (by simp [hb, ho, hl, hd, hk])

end MJ.LoaderStore
