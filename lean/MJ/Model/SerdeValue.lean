import MJ.Model.Serde
/-! `Value` as the *target* of a deserialisation (`impl Deserialize for Value`: `deserialize_any`
driving `ValueVisitor`), C16. -/
namespace MJ.Serde

mutual
/-- `Value::deserialize(v)` / `Value::deserialize(&v)`: what `ValueVisitor` builds from the calls
`deserialize_any` makes -/
def reval : V → R V
  | .undefined => .ok .none                 -- visit_unit → Value::from(())
  | .none => .ok .none
  | .bool b => .ok (.bool b)                -- visit_bool
  | .int u i => .ok (.int u i)              -- visit_u64 / visit_i64 / visit_i128 / visit_u128
  | .f64 b => .ok (.f64 b)
  | .str s _ => .ok (.str s false)          -- visit_str: the safe flag is not carried
  | .bytes b => .ok (.bytes b)              -- visit_bytes
  | .seq _ xs => mapOk (V.seq false) (revalList xs)          -- visit_seq → Vec<Value>
  | .map kvs => mapOk (fun l => V.map (buildMap l)) (revalPairs kvs)   -- visit_map → ValueMap::insert
  | .obj _ => .error .unmodelled
  | .invalid => .error .err                 -- `Err(custom(error))`
def revalList : List V → R (List V)
  | [] => .ok []
  | x :: xs => consR (reval x) (revalList xs)
def revalPairs : List (V × V) → R (List (V × V))
  | [] => .ok []
  | (k, v) :: rest => consR (pairR (reval k) (reval v)) (revalPairs rest)
end

mutual
/-- what a value looks like after it went through `Value::deserialize` -/
def normV : V → V
  | .undefined => .none
  | .str s _ => .str s false
  | .seq _ xs => .seq false (normVList xs)
  | .map kvs => .map (normVPairs kvs)
  | v => v
def normVList : List V → List V
  | [] => []
  | x :: xs => normV x :: normVList xs
def normVPairs : List (V × V) → List (V × V)
  | [] => []
  | (k, v) :: rest => (normV k, normV v) :: normVPairs rest
end

mutual
/-- plain data: no dynamic objects, no invalid values, and no two keys of a map that become the same
key once read back -/
def cleanV : V → Bool
  | .obj _ => false
  | .invalid => false
  | .seq _ xs => cleanVList xs
  | .map kvs => cleanVPairs kvs && distinctKeys ((normVPairs kvs).map Prod.fst)
  | _ => true
def cleanVList : List V → Bool
  | [] => true
  | x :: xs => cleanV x && cleanVList xs
def cleanVPairs : List (V × V) → Bool
  | [] => true
  | (k, v) :: rest => cleanV k && cleanV v && cleanVPairs rest
end

end MJ.Serde
