import MJ.Model.Fuel
/-!
# The interpreter loop around the fuel tracker (`Executor::eval_impl`), generically

`eval_impl` is a loop `fetch instruction at pc → tracker.track(instr)? → dispatch`.  What the
dispatch does (operand stack, frames, output, loops, …) is irrelevant for fuel as long as it does
not *read* the tracker.  That is what the types below say: `fetch` and `exec` are arbitrary
functions of an arbitrary machine state `S` and do not receive the tracker (the tie
`MJ.C13.uses_as_modelled` checks on the source that nothing but `State::new`, the `track` call in
`eval_impl` and `State::fuel_levels` touches `state.fuel_tracker`).

* `Machine`  — a flat interpreter (one activation of `eval_impl`).
* `NMachine` — an interpreter whose dispatch may start a nested activation (macro call, include,
  block, `super()`, `State::render_block`/`call_macro` from a Rust callback): the nested activation
  receives the same `&mut State`, i.e. the same tracker, and an error inside aborts the caller.
* `Evs` — the call tree of one render; `flatten` gives the executed instruction trace.

Runs are defined with a step bound `n` (`none` = did not finish within `n` steps) so that the
functions are total; "the unlimited run terminates" = `∃ n, run n s = some _`.
-/
namespace MJ.Fuel

/-- error of a fuel-limited run: out of fuel, or whatever error `E` the dispatch produced -/
inductive FErr (E : Type) where
  | outOfFuel
  | other (e : E)
  deriving Repr, DecidableEq

/-- what a limited run returns given how the trace-level run ended and what the unlimited run returns -/
def limitedResult {S E : Type} (st : Status) (r : Except E S) : Except (FErr E) S :=
  match st with
  | .outOfFuel => .error .outOfFuel
  | .done =>
    match r with
    | .ok s => .ok s
    | .error e => .error (.other e)

/-! ## flat machine -/

structure Machine (S E : Type) where
  /-- `state.instructions.get(pc)`: name of the instruction to run, `none` = end of instructions -/
  fetch : S → Option String
  /-- the `match instr { … }` dispatch -/
  exec : S → Except E S

/-- record of an unlimited run -/
structure URun (S E : Type) where
  /-- instructions dispatched, in order -/
  trace : List String
  /-- the state in which each of them was dispatched -/
  states : List S
  /-- final state, or the error of the last dispatch -/
  result : Except E S

/-- record of a limited run -/
structure FRun (S E : Type) where
  trace : List String
  states : List S
  result : Except (FErr E) S
  tracker : Tracker

namespace Machine
variable {S E : Type}

/-- `eval_impl` without a tracker (`state.fuel_tracker = None`) -/
def run (m : Machine S E) : Nat → S → Option (URun S E)
  | 0, _ => none
  | n + 1, s =>
    match m.fetch s with
    | none => some { trace := [], states := [], result := .ok s }
    | some i =>
      match m.exec s with
      | .error e => some { trace := [i], states := [s], result := .error e }
      | .ok s' =>
        match run m n s' with
        | none => none
        | some r => some { trace := i :: r.trace, states := s :: r.states, result := r.result }

/-- `eval_impl` with a tracker: `ctx_ok!(tracker.track(instr))` right before the dispatch -/
def runFuel (m : Machine S E) : Nat → Tracker → S → Option (FRun S E)
  | 0, _, _ => none
  | n + 1, t, s =>
    match m.fetch s with
    | none => some { trace := [], states := [], result := .ok s, tracker := t }
    | some i =>
      match t.track (costOf i) with
      | .outOfFuel t' => some { trace := [], states := [], result := .error .outOfFuel, tracker := t' }
      | .ok t' =>
        match m.exec s with
        | .error e => some { trace := [i], states := [s], result := .error (.other e), tracker := t' }
        | .ok s' =>
          match runFuel m n t' s' with
          | none => none
          | some r => some { trace := i :: r.trace, states := s :: r.states, result := r.result, tracker := r.tracker }

end Machine

/-! ## call trees -/

/-- the call tree of a render: a sequence of instructions, some of which (`call`) ran a nested
    activation of the interpreter while they were dispatched -/
inductive Evs where
  | nil
  | instr (name : String) (rest : Evs)
  | call (name : String) (sub : Evs) (rest : Evs)
  deriving Repr

/-- the executed instruction trace of a call tree (what the instruction hook records) -/
def flatten : Evs → List String
  | .nil => []
  | .instr n r => n :: flatten r
  | .call n sub r => n :: (flatten sub ++ flatten r)

/-- nesting depth of a call tree -/
def Evs.depth : Evs → Nat
  | .nil => 0
  | .instr _ r => r.depth
  | .call _ sub r => max (sub.depth + 1) r.depth

/-- fuel-limited run over a call tree: the nested activation gets the caller's tracker, the caller
    continues with what the nested activation left; out of fuel inside aborts the caller -/
def runTree (t : Tracker) : Evs → Result
  | .nil => { executed := [], status := .done, tracker := t }
  | .instr n r =>
    match t.track (costOf n) with
    | .outOfFuel t' => { executed := [], status := .outOfFuel, tracker := t' }
    | .ok t' =>
      let x := runTree t' r
      { x with executed := n :: x.executed }
  | .call n sub r =>
    match t.track (costOf n) with
    | .outOfFuel t' => { executed := [], status := .outOfFuel, tracker := t' }
    | .ok t' =>
      let a := runTree t' sub
      match a.status with
      | .outOfFuel => { a with executed := n :: a.executed }
      | .done =>
        let b := runTree a.tracker r
        { executed := n :: (a.executed ++ b.executed), status := b.status, tracker := b.tracker }

/-! ## machine with nested activations -/

/-- what dispatching one instruction does -/
inductive Action (S E : Type) where
  /-- an ordinary instruction -/
  | step (r : Except E S)
  /-- start a nested activation in state `entry`; when it ends normally in state `s`, the caller
      continues in `resume s`; an error inside is the caller's error -/
  | call (entry : S) (resume : S → S)

structure NMachine (S E : Type) where
  fetch : S → Option String
  exec : S → Action S E

structure NURun (S E : Type) where
  tree : Evs
  result : Except E S

structure NFRun (S E : Type) where
  executed : List String
  result : Except (FErr E) S
  tracker : Tracker

namespace NMachine
variable {S E : Type}

def run (m : NMachine S E) : Nat → S → Option (NURun S E)
  | 0, _ => none
  | n + 1, s =>
    match m.fetch s with
    | none => some { tree := .nil, result := .ok s }
    | some i =>
      match m.exec s with
      | .step (.error e) => some { tree := .instr i .nil, result := .error e }
      | .step (.ok s') =>
        match run m n s' with
        | none => none
        | some r => some { tree := .instr i r.tree, result := r.result }
      | .call entry resume =>
        match run m n entry with
        | none => none
        | some sub =>
          match sub.result with
          | .error e => some { tree := .call i sub.tree .nil, result := .error e }
          | .ok s2 =>
            match run m n (resume s2) with
            | none => none
            | some r => some { tree := .call i sub.tree r.tree, result := r.result }

def runFuel (m : NMachine S E) : Nat → Tracker → S → Option (NFRun S E)
  | 0, _, _ => none
  | n + 1, t, s =>
    match m.fetch s with
    | none => some { executed := [], result := .ok s, tracker := t }
    | some i =>
      match t.track (costOf i) with
      | .outOfFuel t' => some { executed := [], result := .error .outOfFuel, tracker := t' }
      | .ok t' =>
        match m.exec s with
        | .step (.error e) => some { executed := [i], result := .error (.other e), tracker := t' }
        | .step (.ok s') =>
          match runFuel m n t' s' with
          | none => none
          | some r => some { r with executed := i :: r.executed }
        | .call entry resume =>
          match runFuel m n t' entry with
          | none => none
          | some sub =>
            match sub.result with
            | .error e => some { executed := i :: sub.executed, result := .error e, tracker := sub.tracker }
            | .ok s2 =>
              match runFuel m n sub.tracker (resume s2) with
              | none => none
              | some r => some { executed := i :: (sub.executed ++ r.executed), result := r.result, tracker := r.tracker }

end NMachine

/-! ## errors on their way up through nested activations and Rust callables -/

/-- an `Error` with its `source()` chain, as far as fuel is concerned -/
inductive RErr where
  | outOfFuel
  /-- any other kind, no source -/
  | plain (kind : String)
  /-- `Error::new(kind, …).with_source(src)` -/
  | wrapped (kind : String) (src : RErr)
  deriving Repr, DecidableEq

/-- the root cause is `OutOfFuel` (what the harness's oracle accepts as "an out-of-fuel error") -/
def RErr.rootIsOutOfFuel : RErr → Bool
  | .outOfFuel => true
  | .plain _ => false
  | .wrapped _ src => src.rootIsOutOfFuel

/-- kinds of the wrappers around the root cause, outermost first -/
def RErr.wrapperKinds : RErr → List String
  | .wrapped k src => k :: src.wrapperKinds
  | _ => []

/-- what a frame between the nested activation and the caller of `render` does with an error
    (the dispositions of `MJ.Gen.fuelErrConsumers`) -/
inductive Handler where
  /-- `?` / `ok!` / `Err(err) => return Err(err)` -/
  | propagate
  /-- `Error::new(kind, …).with_source(err)` (`perform_include`: BadInclude, `perform_super`: EvalBlock) -/
  | wrapKeepingSource (kind : String)
  /-- `Error::new(kind, format!("…{err}"))`: the original survives only as text -/
  | replace (kind : String)
  deriving Repr, DecidableEq

def Handler.keepsSource : Handler → Bool
  | .replace _ => false
  | _ => true

def Handler.apply : Handler → RErr → RErr
  | .propagate, e => e
  | .wrapKeepingSource k, e => .wrapped k e
  | .replace k, _ => .plain k

/-- the error that reaches the caller after passing the frames `hs` (innermost first) -/
def passThrough (hs : List Handler) (e : RErr) : RErr := hs.foldl (fun acc h => h.apply acc) e

/-! ## configuration path -/

/-- the part of the `Environment` that matters: `fuel: Option<u64>` -/
structure EnvCfg where
  fuel : Option Nat
  deriving Repr, DecidableEq

/-- `Environment::set_fuel` -/
def EnvCfg.setFuel (e : EnvCfg) (f : Option Nat) : EnvCfg := { e with fuel := f }

/-- `Environment::clone` (`#[derive(Clone)]`) -/
def EnvCfg.clone (e : EnvCfg) : EnvCfg := e

/-- `State::new`: `fuel_tracker: ctx.env().fuel().map(FuelTracker::new)` — every evaluation gets
    its own tracker, made from what the environment says at that moment -/
def newTracker (e : EnvCfg) : Option Tracker := e.fuel.map Tracker.new

/-- what the caller of an entry point gets: dispatched instructions, states, result, and
    `State::fuel_levels()` (`None` without a budget) -/
structure Render (S E : Type) where
  trace : List String
  states : List S
  result : Except (FErr E) S
  levels : Option (Nat × Nat)

/-- the unlimited result as seen through the limited run's result type -/
def sameResult {S E : Type} (r : Except E S) : Except (FErr E) S :=
  match r with
  | .ok s => .ok s
  | .error e => .error (.other e)

/-- any entry point (`Template::render*`, `Environment::render_str`, `Expression::eval`, …): they
    all end in `vm::eval → Executor::eval → State::new` (tie `entry_points_reach_state_new`) -/
def Machine.render {S E : Type} (m : Machine S E) (n : Nat) (e : EnvCfg) (s : S) : Option (Render S E) :=
  match newTracker e with
  | none => (m.run n s).map fun u =>
      { trace := u.trace, states := u.states, result := sameResult u.result, levels := none }
  | some t => (m.runFuel n t s).map fun f =>
      { trace := f.trace, states := f.states, result := f.result,
        levels := some (f.tracker.consumed, f.tracker.remainingFuel) }

/-! ## call graph of the entry points (regenerated: `MJ.Gen.fuelEntryCalls`) -/

/-- does `x` reach `target` in at most `fuel` call steps? -/
def reaches (g : List (String × List String)) (target : String) : Nat → String → Bool
  | 0, x => x == target
  | n + 1, x => x == target || ((g.lookup x).getD []).any (reaches g target n)

end MJ.Fuel
