import MJ.Model.CmpF64
import MJ.Gen.Tables
/-!
# Template values, as far as ordering / equality / hashing can see them

`N` mirrors the numeric variants of `ValueRepr` (`U64`, `I64`, `U128`, `I128`, `F64` — a float is its
bit pattern), `V` the whole `Value`:

* the three string representations (`SmallStr`, `String(_, Normal)`, `String(_, Safe)`) are one
  constructor holding the UTF-8 bytes — `PartialEq`/`Ord`/`Hash` only ever look at `as_str()`
  (checked by the correspondence, which sends all three forms);
* objects are classified by what the comparison code asks of them: `repr()` (`Seq`, `Iterable`,
  `Map`, `Plain`), `is_tuple()`, the items `try_iter` yields (or the pairs of a map in iteration
  order), and `to_string()` for plain objects.  Sized and unsized iterables are not distinguished
  (no comparison asks for the length of an iterable).  Object identity (`is_same_object`) and
  user-defined `custom_cmp` are not modelled; `Invalid` values are outside the property.
-/
namespace MJ.Val
open MJ.F64

inductive N where
  | u64 (n : Nat)
  | i64 (n : Int)
  | u128 (n : Nat)
  | i128 (n : Int)
  | f64 (bits : Nat)
  deriving Repr, DecidableEq, Inhabited

inductive V where
  | undef
  | none
  | bool (b : Bool)
  | num (n : N)
  | str (s : List Nat)
  | bytes (s : List Nat)
  | seq (xs : List V)
  | tuple (xs : List V)
  | iter (xs : List V)
  | map (ps : List (V × V))
  | plain (s : List Nat)
  deriving Repr, Inhabited

def i64Min : Int := -9223372036854775808
def i64Max : Int := 9223372036854775807
def u64Max : Int := 18446744073709551615
def i128Min : Int := -170141183460469231731687303715884105728
def i128Max : Int := 170141183460469231731687303715884105727
def u128Max : Int := 340282366920938463463374607431768211455

/-- the value really is one a Rust `u64`/`i64`/`u128`/`i128`/`f64` can hold -/
def N.WF : N → Prop
  | .u64 n => (n : Int) ≤ u64Max
  | .i64 n => i64Min ≤ n ∧ n ≤ i64Max
  | .u128 n => (n : Int) ≤ u128Max
  | .i128 n => i128Min ≤ n ∧ n ≤ i128Max
  | .f64 b => b < P64

def N.isFloat : N → Bool
  | .f64 _ => true
  | _ => false

/-- the integer an integer representation holds (`0` for floats) -/
def N.int : N → Int
  | .u64 n => n
  | .i64 n => n
  | .u128 n => n
  | .i128 n => n
  | .f64 _ => 0

/-- `ValueKind` as `Value::kind()` reports it (variant names of the enum) -/
def V.kindName : V → String
  | .undef => "Undefined"
  | .none => "None"
  | .bool _ => "Bool"
  | .num _ => "Number"
  | .str _ => "String"
  | .bytes _ => "Bytes"
  | .seq _ => "Seq"
  | .tuple _ => "Seq"
  | .iter _ => "Iterable"
  | .map _ => "Map"
  | .plain _ => "Plain"

/-- `cmp_kind`: the regenerated arms say which kinds share a slot in the ordering (iterables share
    the slot of the sequences); every other kind keeps its own -/
def cmpKindName (k : String) : String :=
  match MJ.Gen.cmpKindAlias.lookup k with
  | some t => t
  | Option.none => k

/-- position in the declaration order of `ValueKind` (derived `Ord`), from the regenerated table -/
def kindRank (k : String) : Nat := MJ.Gen.valueKindOrder.idxOf k

def V.rank (v : V) : Nat := kindRank (cmpKindName v.kindName)

/-! ## conversions used by `coerce`, `Hash` -/

/-- the float arm of `primitive_int_try_from!`: `val as i64 as f64 == val && val < i64::MAX as f64`
    then `val as i64` -/
def f64ToI64 (b : Nat) : Option Int :=
  let c := castInt i64Min i64Max b
  if feq (ofInt c) b && flt b (ofInt i64Max) then some c else Option.none

/-- `<int>::try_from(value)` for a number, target range `lo..=hi` -/
def N.tryInt (lo hi : Int) : N → Option Int
  | .u64 n => if lo ≤ (n : Int) ∧ (n : Int) ≤ hi then some n else Option.none
  | .i64 n => if lo ≤ n ∧ n ≤ hi then some n else Option.none
  | .u128 n => if lo ≤ (n : Int) ∧ (n : Int) ≤ hi then some n else Option.none
  | .i128 n => if lo ≤ n ∧ n ≤ hi then some n else Option.none
  | .f64 b => match f64ToI64 b with
    | some c => if lo ≤ c ∧ c ≤ hi then some c else Option.none
    | Option.none => Option.none

def N.toI128 (n : N) : Option Int := n.tryInt i128Min i128Max
def N.toI64 (n : N) : Option Int := n.tryInt i64Min i64Max

/-- the `checked!` macro of `as_f64`: `rv = x as f64`; lossless iff `rv < MAX as f64 && rv as T == x` -/
def checkedF64 (x lo hi : Int) (lossy : Bool) : Option Nat :=
  let rv := ofInt x
  if lossy || (flt rv (ofInt hi) && decide (castInt lo hi rv = x)) then some rv else Option.none

/-- `ops::as_f64` on numbers -/
def N.asF64 (lossy : Bool) : N → Option Nat
  | .u64 n => checkedF64 n 0 u64Max lossy
  | .u128 n => checkedF64 n 0 u128Max lossy
  | .i64 n => checkedF64 n i64Min i64Max lossy
  | .i128 n => checkedF64 n i128Min i128Max lossy
  | .f64 b => some b

inductive Co where
  | i (x y : Int)
  | f (x y : Nat)
  deriving Repr, DecidableEq

/-- `ops::coerce(a, b, lossy = false)` on two numbers.  (A `Bool` operand behaves in `coerce`
    exactly like `I64(b as i64)`: it takes the `as_f64` / `i128::try_from` arms with an exact result.) -/
def coerceN : N → N → Option Co
  | .u64 x, .u64 y => some (.i x y)
  | .u128 x, .u128 y =>
    if (x : Int) ≤ i128Max ∧ (y : Int) ≤ i128Max then some (.i x y) else Option.none
  | .i64 x, .i64 y => some (.i x y)
  | .i128 x, .i128 y => some (.i x y)
  | .f64 x, .f64 y => some (.f x y)
  | .f64 x, b => match b.asF64 false with
    | some y => some (.f x y)
    | Option.none => Option.none
  | a, .f64 y => match a.asF64 false with
    | some x => some (.f x y)
    | Option.none => Option.none
  | a, b => match a.toI128, b.toI128 with
    | some x, some y => some (.i x y)
    | _, _ => Option.none

/-- a `Bool` as the number `coerce` sees -/
def boolN (b : Bool) : N := .i64 (if b then 1 else 0)

end MJ.Val
