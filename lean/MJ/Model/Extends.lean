/-!
# `LoadBlocks`, its discard capture and the end-of-stream logic of `eval_impl` (C05)

`minijinja/src/vm/mod.rs: eval_impl`, the part the balance machine of `MJ/Model/Bal.lean` leaves out:

* `LoadBlocks` (`{% extends %}`): fails when `parent_instructions` is already set, otherwise stores the
  parent's instructions there and begins a `Discard` capture on the shared `Output`;
* the instruction fetch at the end of a stream: when `parent_instructions` holds something it is taken,
  ONE capture is ended (`out.end_capture(AutoEscape::None)`, whatever is on top), the parent's stream
  becomes the current one and the program counter is reset; otherwise the evaluation ends.

The state is the capture stack of the shared `Output` (entries tagged with who pushed them) and the
local `parent_instructions`; a run of one stream is abstracted to the sequence of its capture events.
-/
namespace MJ.Extends

/-- who pushed an entry of `Output.capture_stack` -/
inductive Entry where
  /-- `BeginCapture` of a set / filter block, an import, a `loop(...)` call (the `n`-th of the run) -/
  | block (n : Nat)
  /-- the `Discard` capture of `LoadBlocks` -/
  | discard
  deriving DecidableEq, Repr

inductive Ev where
  | beginCapture (n : Nat)
  | endCapture
  | loadBlocks (parent : Nat)
  deriving DecidableEq, Repr

structure St where
  /-- `Output.capture_stack`, innermost first -/
  caps : List Entry
  /-- `parent_instructions` -/
  parent : Option Nat
  /-- the entries `EndCapture` instructions popped, in order -/
  popped : List Entry
  deriving DecidableEq, Repr

/-- one capture event of the running stream; `none`: the engine fails (a second `extends`) or panics
(`end_capture` on an empty stack) -/
def ev (s : St) : Ev → Option St
  | .beginCapture n => some { s with caps := .block n :: s.caps }
  | .endCapture =>
    match s.caps with
    | e :: cs => some { s with caps := cs, popped := s.popped ++ [e] }
    | [] => none
  | .loadBlocks p =>
    match s.parent with
    | some _ => none
    | none => some { s with caps := .discard :: s.caps, parent := some p }

def run (s : St) : List Ev → Option St
  | [] => some s
  | e :: es => match ev s e with
    | some s' => run s' es
    | none => none

/-- the end of the stream: `some (stream to continue with, entry popped, state)` when a parent was
loaded, `none` when the evaluation ends (or `end_capture` panics on an empty stack) -/
def endOfStream (s : St) : Option (Nat × Entry × St) :=
  match s.parent, s.caps with
  | some p, e :: cs => some (p, e, { s with caps := cs, parent := none })
  | _, _ => none

/-- capture events that leave the stack as they found it and never reach below it (what an accepted
certificate gives for the code between two points of the same region at the same capture depth) -/
def dyck : Nat → List Ev → Bool
  | d, [] => d == 0
  | d, .beginCapture _ :: es => dyck (d + 1) es
  | 0, .endCapture :: _ => false
  | d + 1, .endCapture :: es => dyck d es
  | _, .loadBlocks _ :: _ => false

end MJ.Extends

namespace MJ.Extends

/-- capture events of a whole stream that may contain ONE `LoadBlocks` at any capture depth (inside
set / filter blocks, crossed with them): `bal loaded d es` follows the depth relative to the entry of
the stream, counting the discard capture of `LoadBlocks` as one more open entry; `none` when the
stream pops below its entry or extends a second time -/
def bal : Bool → Nat → List Ev → Option (Bool × Nat)
  | l, d, [] => some (l, d)
  | l, d, .beginCapture _ :: es => bal l (d + 1) es
  | _, 0, .endCapture :: _ => none
  | l, d + 1, .endCapture :: es => bal l d es
  | true, _, .loadBlocks _ :: _ => none
  | false, d, .loadBlocks _ :: es => bal true (d + 1) es

end MJ.Extends
