import MJ.Gen.Tables
/-!
# Kinded stack discipline of the code generator's `pending_block` (C01)

`CodeGenerator::pending_block : Vec<PendingBlock>` remembers the open construct (`Branch`, `Loop`,
`ScBool`, `Scope`) whose jump targets are patched when it is closed.  `end_for_loop`, `end_scope`,
`end_condition`, `sc_bool` pop / look at the top entry and hit `unreachable!()` when it is missing or of
another kind; `finish` asserts that nothing is left.  Whether they can fail depends only on the sequence
of KINDS on the stack, so a function body is a program over kind stacks (`MJ.Gen.KProg`, regenerated from
`codegen.rs` by `lib/tables/c01.py`), with one *signature* per function: the kinds it takes from the
caller's stack (top first) and the kinds it leaves instead.  `start_if : [] ⟶ [Branch]`,
`start_else : [Branch] ⟶ [Branch]`, `end_if : [Branch] ⟶ []`, every `compile_*` function `[] ⟶ []`.

`chkFn` checks a body against the signatures symbolically; `MJ/Proofs/KStack.lean` proves that a table
whose functions all pass never reaches a failing `pop` / `top` / `empty`, for every call tree.
-/
namespace MJ.KStack
open MJ.Gen (KProg)

abbrev Sig := List Nat × List Nat

/-- function table: body, signature, is it an entry point (called from outside on an empty stack: only
there `assert!(is_empty())` can be justified) -/
structure Fn where
  body : KProg
  pre : List Nat
  post : List Nat
  entry : Bool

/-- `Exec funs p stk r`: `none` = `unreachable!()` / failed assertion -/
inductive Exec (funs : List Fn) : KProg → List Nat → Option (List Nat) → Prop
  | done {s} : Exec funs .done s (some s)
  | push {kd k s r} : Exec funs k (kd :: s) r → Exec funs (.push kd k) s r
  | popOk {kd k s r} : Exec funs k s r → Exec funs (.pop kd k) (kd :: s) r
  | popWrong {kd kd' k s} : kd' ≠ kd → Exec funs (.pop kd k) (kd' :: s) none
  | popEmpty {kd k} : Exec funs (.pop kd k) [] none
  | topOk {kd k s r} : Exec funs k (kd :: s) r → Exec funs (.top kd k) (kd :: s) r
  | topWrong {kd kd' k s} : kd' ≠ kd → Exec funs (.top kd k) (kd' :: s) none
  | topEmpty {kd k} : Exec funs (.top kd k) [] none
  | emptyOk {k r} : Exec funs k [] r → Exec funs (.empty k) [] r
  | emptyFail {k x s} : Exec funs (.empty k) (x :: s) none
  | callPanic {f k s fn} : funs[f]? = some fn → Exec funs fn.body s none → Exec funs (.call f k) s none
  | callOk {f k s s' r fn} : funs[f]? = some fn → Exec funs fn.body s (some s') → Exec funs k s' r →
      Exec funs (.call f k) s r
  | callExt {f k s r} : funs[f]? = none → Exec funs k s r → Exec funs (.call f k) s r
  | branchLPanic {a b k s} : Exec funs a s none → Exec funs (.branch a b k) s none
  | branchL {a b k s s' r} : Exec funs a s (some s') → Exec funs k s' r → Exec funs (.branch a b k) s r
  | branchRPanic {a b k s} : Exec funs b s none → Exec funs (.branch a b k) s none
  | branchR {a b k s s' r} : Exec funs b s (some s') → Exec funs k s' r → Exec funs (.branch a b k) s r
  | loopExit {body k s r} : Exec funs k s r → Exec funs (.loop body k) s r
  | loopPanic {body k s} : Exec funs body s none → Exec funs (.loop body k) s none
  | loopIter {body k s s' r} : Exec funs body s (some s') → Exec funs (.loop body k) s' r →
      Exec funs (.loop body k) s r

/-- `pre ++ rest = s`? returns `rest` -/
def stripPrefix : List Nat → List Nat → Option (List Nat)
  | [], s => some s
  | _ :: _, [] => none
  | x :: xs, y :: ys => if x = y then stripPrefix xs ys else none

/-- symbolic check: `s` = the known top part of the stack (`base` = it is the whole stack) -/
def chk (funs : List Fn) (base : Bool) : KProg → List Nat → Option (List Nat)
  | .done, s => some s
  | .push kd k, s => chk funs base k (kd :: s)
  | .pop kd k, s =>
    match s with
    | x :: s' => if x = kd then chk funs base k s' else none
    | [] => none
  | .top kd k, s =>
    match s with
    | x :: _ => if x = kd then chk funs base k s else none
    | [] => none
  | .empty k, s => if base && s.isEmpty then chk funs base k s else none
  | .call f k, s =>
    match funs[f]? with
    | some fn =>
      -- an entry point asserts an empty stack: callable only where the whole stack is known to be empty
      if fn.entry && !(base && s.isEmpty) then none else
      match stripPrefix fn.pre s with
      | some rest => chk funs base k (fn.post ++ rest)
      | none => none
    | none => chk funs base k s
  | .branch a b k, s =>
    match chk funs base a s, chk funs base b s with
    | some x, some y => if x = y then chk funs base k x else none
    | _, _ => none
  | .loop body k, s => if chk funs base body s = some s then chk funs base k s else none

def fnOk (funs : List Fn) (fn : Fn) : Bool :=
  chk funs fn.entry fn.body fn.pre == some fn.post && (!fn.entry || (fn.pre.isEmpty && fn.post.isEmpty))

def tableOk (funs : List Fn) : Bool := funs.all (fnOk funs)

/-- the regenerated table of `compiler/codegen.rs` -/
def codegenFns : List Fn := MJ.Gen.codegenKFns.map (fun r => ⟨r.2.1, r.2.2.1, r.2.2.2.1, r.2.2.2.2⟩)

def fnIndex (name : String) : Nat := (MJ.Gen.codegenKFns.map (·.1)).idxOf name

end MJ.KStack
