import MJ.Model.Chk
/-!
# `python_string_debug_fmt` (value/mod.rs): the repr of a string

The function walks `value.char_indices()`, and whenever a character has to be escaped it flushes the
pending piece `&value[last..idx]` and continues behind the character (`last = idx + ch.len_utf8()`).
A `&str` slice panics unless both ends are character boundaries and `last <= idx <= len`.  The model
keeps exactly the byte offsets; which characters are escaped is a parameter (`esc`), so the theorem
holds for every escaping rule.
-/
namespace MJ.ReprStr
open MJ Chk

/-- length in bytes -/
def byteLen : List Char → Nat
  | [] => 0
  | c :: cs => c.utf8Size + byteLen cs

/-- `s.is_char_boundary(n)` -/
def isBoundary : List Char → Nat → Bool
  | [], n => n == 0
  | c :: cs, n => n == 0 || (c.utf8Size ≤ n && isBoundary cs (n - c.utf8Size))

/-- `&s[a..b]` -/
def slice (s : List Char) (a b : Nat) : Chk Unit :=
  if a ≤ b ∧ isBoundary s a = true ∧ isBoundary s b = true then .ok () else .panic

/-- the loop over `char_indices()`: `rest` are the characters from byte offset `idx` on; `step c` is what
    is added to `idx` to continue behind an escaped character (`ch.len_utf8()` in the code) -/
def loop (s : List Char) (esc : Char → Bool) (step : Char → Nat) : List Char → Nat → Nat → Chk Nat
  | [], _, last => .ok last
  | c :: rest, idx, last =>
    if esc c then
      match slice s last idx with
      | .panic => .panic
      | .ok _ => loop s esc step rest (idx + c.utf8Size) (idx + step c)
    else loop s esc step rest (idx + c.utf8Size) last

def reprWith (esc : Char → Bool) (step : Char → Nat) (s : List Char) : Chk Unit :=
  match loop s esc step s 0 0 with
  | .panic => .panic
  | .ok last => slice s last (byteLen s)       -- `&value[last..]`

/-- the function as it is -/
def reprK (esc : Char → Bool) (s : List Char) : Chk Unit := reprWith esc (fun c => c.utf8Size) s

/-- the escaping rule of the code: quote, backslash, `\n \r \t`, control characters -/
def escapes (quote : Char) (c : Char) : Bool :=
  c == quote || c == '\\' || c == '\n' || c == '\r' || c == '\t' || c.val < 32 || (127 ≤ c.val && c.val < 160)

/-- the quote the repr uses: `"` when the string contains `'` and no `"` -/
def quoteOf (s : List Char) : Char := if s.contains '\'' && !s.contains '"' then '"' else '\''

/-- bytes written for one character -/
def outLenChar (quote : Char) (c : Char) : Nat :=
  if c == quote || c == '\\' || c == '\n' || c == '\r' || c == '\t' then 2
  else if escapes quote c then 4            -- `\xNN` (control characters are below U+0100)
  else c.utf8Size

/-- the whole function: quote, pieces and escapes, quote; the result is the number of bytes written -/
def reprOut (s : List Char) : Chk Nat :=
  match reprK (escapes (quoteOf s)) s with
  | .panic => .panic
  | .ok _ => .ok (2 + (s.map (outLenChar (quoteOf s))).foldl (· + ·) 0)

end MJ.ReprStr
