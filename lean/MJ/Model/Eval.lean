/-!
# Reference semantics of the core template language (C03)

`evalExpr` / `exec` are the documented semantics of `minijinja/src/syntax.rs` for the core fragment,
written as a big-step interpreter that shares nothing with the compiler + VM of the implementation:

* no instructions, no jumps, no operand stack: expressions are evaluated by recursion on the AST,
  `if` picks a branch, a `for` walks the list of items;
* scopes are *cells* of a heap, the lexical environment is the list of cell ids that are visible
  (innermost first).  `set` writes the innermost cell.  `if` has no scope.  The body of a
  `for` iteration, of `with`, of a macro / call block gets a fresh cell, which is dropped again
  when the body ends (the heap is used like a stack).  A macro value remembers the cell ids that were
  visible where it was declared (lexical scoping *by reference*, as in Jinja2/Python: a macro sees
  later assignments of its declaring scope);
* `loop` is an ordinary variable of the per-iteration cell, bound to a map computed by `loopInfos`.

Termination: every function recurses structurally on a `fuel : Nat` that decreases at every
recursive call; running out of fuel is the distinguished error `Err.fuel` (never a default
value).  The drivers use a fuel far above what the bounded programs of the quantifier need and
treat `Err.fuel` as "check machinery broken", not as a result.

Anything the fragment does not define (list + list, list * int, non-string map keys, …) is the distinguished error `Err.outOfFragment`.

Integers are `Int` with the i128 window of the implementation: a result outside
`[-2^127, 2^127)` is `Err.invalidOp`.
-/
namespace MJ.Eval

/-- error classes (mirror `ErrorKind` where the implementation has one) -/
inductive Err where
  | invalidOp | undefinedErr | unknownFunction | unknownFilter | unknownTest
  | tooManyArgs | missingArg | cannotUnpack
  | fuel | outOfFragment
  deriving Repr, DecidableEq, Inhabited

abbrev Res (α : Type) := Except Err α

inductive Lit where
  | none | bool (b : Bool) | int (i : Int) | str (s : String)
  deriving Repr, DecidableEq, Inhabited

inductive UnOp where | not | neg
  deriving Repr, DecidableEq, Inhabited

inductive BinOp where
  | add | sub | mul | floordiv | rem | concat | eq | ne | lt | le | gt | ge | isin | and | or
  deriving Repr, DecidableEq, Inhabited

inductive CmpOp where
  | eq | ne | lt | le | gt | ge | isin | notin
  deriving Repr, DecidableEq, Inhabited

/-- assignment target: a name or a (nested) tuple of targets -/
inductive Target where
  | var (x : String)
  | tuple (ts : List Target)
  deriving Repr, Inhabited

/-- Expressions.  Call / filter / test arguments are `(none, e)` for positional and
`(some k, e)` for keyword arguments. -/
inductive Expr where
  | const (l : Lit)
  | var (x : String)
  | unop (op : UnOp) (e : Expr)
  | binop (op : BinOp) (l r : Expr)
  | cmp (e : Expr) (ops : List (CmpOp × Expr))
  | ife (c t : Expr) (f : Option Expr)
  | filter (name : String) (e : Expr) (args : List (Option String × Expr))
  | test (name : String) (e : Expr) (args : List (Option String × Expr))
  | getattr (e : Expr) (name : String)
  | getitem (e i : Expr)
  | call (f : Expr) (args : List (Option String × Expr))
  | list (items : List Expr)
  | map (kvs : List (Expr × Expr))
  deriving Repr, Inhabited

abbrev Args := List (Option String × Expr)
/-- a filter applied to a captured block: name and extra arguments -/
abbrev FilterApp := String × Args

inductive Stmt where
  | text (s : String)
  | emit (e : Expr)
  | ifS (c : Expr) (t f : List Stmt)
  | forS (target : Target) (iter : Expr) (filter : Option Expr) (body els : List Stmt)
  | set (target : Target) (e : Expr)
  | setBlock (x : String) (filters : List FilterApp) (body : List Stmt)
  | withS (binds : List (Target × Expr)) (body : List Stmt)
  | filterBlock (filters : List FilterApp) (body : List Stmt)
  | macroS (name : String) (params : List String) (defaults : List Expr) (body : List Stmt)
      (usesCaller : Bool)
  | callBlock (callee : Expr) (args : Args) (params : List String) (defaults : List Expr)
      (body : List Stmt) (usesCaller : Bool)
  | breakS
  | continueS
  deriving Repr, Inhabited

/-- Values.  A macro value carries its declaration and the ids of the scope cells visible at its
declaration (innermost first). -/
inductive Val where
  | undef
  | none
  | bool (b : Bool)
  | int (i : Int)
  | str (s : String)
  | list (xs : List Val)
  | map (kvs : List (String × Val))
  | macro (name : String) (params : List String) (defaults : List Expr) (body : List Stmt)
      (usesCaller : Bool) (env : List Nat)
  -- the remaining constructors belong to the VM models: a compiled macro (code offset + closure
  -- id), a keyword-argument bundle (what the VM builds for the keyword arguments of a call, and what
  -- a caller from Rust passes as last argument: see `callArgs`), a live reference to a loop object
  | vmMacro (name : String) (argSpec : List String) (offset : Nat) (closure : Option Nat) (callerRef : Bool)
  | kwargs (kvs : List (String × Val))
  | loopObj (id : Nat)
  deriving Repr, Inhabited

abbrev Scope := List (String × Val)
abbrev Heap := List Scope

/-! ## Value helpers -/

def litVal : Lit → Val
  | .none => .none
  | .bool b => .bool b
  | .int i => .int i
  | .str s => .str s

def i128Min : Int := -170141183460469231731687303715884105728
def i128Max : Int := 170141183460469231731687303715884105727

/-- the implementation computes in `i128` with checked operations -/
def chkInt (i : Int) : Res Val :=
  if i128Min ≤ i ∧ i ≤ i128Max then .ok (.int i) else .error .invalidOp

/-- `Value::is_true` -/
def truthy : Val → Bool
  | .undef => false
  | .none => false
  | .bool b => b
  | .int i => i != 0
  | .str s => !s.isEmpty
  | .list xs => !xs.isEmpty
  | .map kvs => !kvs.isEmpty
  | .macro .. => true
  | .vmMacro .. => true
  | .kwargs kvs => !kvs.isEmpty
  | .loopObj _ => true

def assocGet {α : Type} (k : String) : List (String × α) → Option α
  | [] => none
  | (k', v) :: rest => if k' = k then some v else assocGet k rest

/-- insert or overwrite, keeping the position of an existing key -/
def assocSet {α : Type} (k : String) (v : α) : List (String × α) → List (String × α)
  | [] => [(k, v)]
  | (k', v') :: rest => if k' = k then (k, v) :: rest else (k', v') :: assocSet k v rest

/-- maps iterate in key order (the implementation's `BTreeMap`); insert keeps the list sorted -/
def mapInsert (k : String) (v : Val) : List (String × Val) → List (String × Val)
  | [] => [(k, v)]
  | (k', v') :: rest =>
    if k = k' then (k, v) :: rest
    else if k < k' then (k, v) :: (k', v') :: rest
    else (k', v') :: mapInsert k v rest

def escapeChar (quote : Char) (c : Char) : String :=
  if c = quote then "\\" ++ String.singleton c
  else if c = '\\' then "\\\\"
  else if c = '\n' then "\\n"
  else if c = '\r' then "\\r"
  else if c = '\t' then "\\t"
  else String.singleton c

/-- Python-style string repr: single quotes unless the string has a `'` and no `"` -/
def reprStr (s : String) : String :=
  let quote : Char := if s.toList.contains '\'' && !s.toList.contains '"' then '"' else '\''
  String.singleton quote ++ String.join (s.toList.map (escapeChar quote)) ++ String.singleton quote

/-- Build a map from key/value pairs in source order: string keys only (anything else is outside
the fragment), a later duplicate key overwrites, iteration order is key order. -/
def insertPairs : List (Val × Val) → List (String × Val) → Res (List (String × Val))
  | [], acc => .ok acc
  | (.str k, v) :: rest, acc => insertPairs rest (match assocGet k acc with
      | some _ => mapInsert k v (acc.filter fun p => p.1 != k)
      | none => mapInsert k v acc)
  | _ :: _, _ => .error .outOfFragment

mutual
  /-- `Debug` rendering, used for the elements of lists and maps -/
  def reprVal : Val → String
    | .undef => "undefined"
    | .none => "None"
    | .bool b => if b then "True" else "False"
    | .int i => toString i
    | .str s => reprStr s
    | .list xs => "[" ++ reprList xs ++ "]"
    | .map kvs => "{" ++ reprPairs kvs ++ "}"
    | .macro name .. => "<macro " ++ name ++ ">"
    | .vmMacro name .. => "<macro " ++ name ++ ">"
    | .kwargs kvs => "{" ++ reprPairs kvs ++ "}"
    | .loopObj _ => "<loop>"
  def reprList : List Val → String
    | [] => ""
    | [x] => reprVal x
    | x :: y :: rest => reprVal x ++ ", " ++ reprList (y :: rest)
  def reprPairs : List (String × Val) → String
    | [] => ""
    | [(k, v)] => reprStr k ++ ": " ++ reprVal v
    | (k, v) :: p :: rest => reprStr k ++ ": " ++ reprVal v ++ ", " ++ reprPairs (p :: rest)
end

/-- `Display` rendering (what `{{ v }}` writes) -/
def render : Val → String
  | .undef => ""
  | .str s => s
  | v => reprVal v

/-- kind rank of the implementation's `ValueKind` -/
def kindRank : Val → Nat
  | .undef => 0 | .none => 1 | .bool _ => 2 | .int _ => 3 | .str _ => 4
  | .list _ => 6 | .map _ => 7 | .macro .. => 9 | .vmMacro .. => 9 | .kwargs _ => 7 | .loopObj _ => 7

def asInt? : Val → Option Int
  | .int i => some i
  | .bool b => some (if b then 1 else 0)
  | _ => none

mutual
  /-- `PartialEq for Value` on the fragment: numbers and booleans compare as integers -/
  def valEq : Val → Val → Bool
    | .undef, .undef => true
    | .none, .none => true
    | .bool a, .bool b => a == b
    | .int a, .int b => a == b
    | .bool a, .int b => (if a then 1 else 0) == b
    | .int a, .bool b => a == (if b then 1 else 0)
    | .str a, .str b => a == b
    | .list xs, .list ys => listEq xs ys
    | .map xs, .map ys => pairsEq xs ys
    | _, _ => false
  def listEq : List Val → List Val → Bool
    | [], [] => true
    | x :: xs, y :: ys => valEq x y && listEq xs ys
    | _, _ => false
  /-- both sides are sorted by key without duplicates -/
  def pairsEq : List (String × Val) → List (String × Val) → Bool
    | [], [] => true
    | (k, x) :: xs, (k', y) :: ys => k == k' && valEq x y && pairsEq xs ys
    | _, _ => false
end

def ordOfInt (a b : Int) : Ordering := if a < b then .lt else if a = b then .eq else .gt
def ordOfStr (a b : String) : Ordering := if a < b then .lt else if a = b then .eq else .gt
def ordOfNat (a b : Nat) : Ordering := if a < b then .lt else if a = b then .eq else .gt

mutual
  /-- `Ord for Value` on the fragment: kind first, then the natural order of the kind -/
  def valCmp : Val → Val → Ordering
    | .bool a, .bool b => ordOfInt (if a then 1 else 0) (if b then 1 else 0)
    | .int a, .int b => ordOfInt a b
    | .str a, .str b => ordOfStr a b
    | .list xs, .list ys => listCmp xs ys
    | .map xs, .map ys => pairsCmp xs ys
    | a, b => ordOfNat (kindRank a) (kindRank b)
  def listCmp : List Val → List Val → Ordering
    | [], [] => .eq
    | [], _ :: _ => .lt
    | _ :: _, [] => .gt
    | x :: xs, y :: ys => match valCmp x y with
      | .eq => listCmp xs ys
      | o => o
  def pairsCmp : List (String × Val) → List (String × Val) → Ordering
    | [], [] => .eq
    | [], _ :: _ => .lt
    | _ :: _, [] => .gt
    | (k, x) :: xs, (k', y) :: ys => match ordOfStr k k' with
      | .eq => (match valCmp x y with
        | .eq => pairsCmp xs ys
        | o => o)
      | o => o
end

/-- the items a `for` walks / `list`, `join`, `in` see (lenient undefined behaviour) -/
def iterate : Val → Res (List Val)
  | .undef => .ok []
  | .none => .ok []
  | .str s => .ok (s.toList.map fun c => .str (String.singleton c))
  | .list xs => .ok xs
  | .map kvs => .ok (kvs.map fun kv => .str kv.1)
  | _ => .error .invalidOp

def isSubstr (needle hay : String) : Bool :=
  let n := needle.toList
  let rec go : List Char → Bool
    | [] => n.isEmpty
    | c :: cs => n.isPrefixOf (c :: cs) || go cs
  go hay.toList

/-- `ops::contains container value` -/
def contains (container value : Val) : Res Bool :=
  match container with
  | .undef => .ok false
  | .str s => .ok (isSubstr (render value) s)
  | .list xs => .ok (xs.any fun x => valEq x value)
  | .map kvs => .ok (match value with
    | .str k => (assocGet k kvs).isSome
    | _ => false)
  | _ => .error .invalidOp

def intOp (f : Int → Int → Res Val) (a b : Val) : Res Val :=
  match asInt? a, asInt? b with
  | some x, some y => f x y
  | _, _ => .error .invalidOp

/-- euclidean division and remainder, as documented in `syntax.rs` -/
def floordivInt (x y : Int) : Res Val :=
  if y = 0 then .error .invalidOp else chkInt (Int.ediv x y)
def remInt (x y : Int) : Res Val :=
  if y = 0 then .error .invalidOp else chkInt (Int.emod x y)

/-- `"ab" * 3`; a negative count is an error, results above 10^8 bytes are not in the fragment -/
def repeatStr (x : String) (n : Int) : Res Val :=
  if n < 0 then .error .invalidOp
  else if x.utf8ByteSize = 0 then .ok (.str "")     -- any number of copies of the empty string
  else if x.utf8ByteSize * n.toNat > 100000 then .error .outOfFragment
  else .ok (.str (String.join (List.replicate n.toNat x)))

def arith (op : BinOp) (a b : Val) : Res Val :=
  match op with
  | .add => match a, b with
    | .str x, .str y => .ok (.str (x ++ y))
    | .list _, .list _ => .error .outOfFragment
    | _, _ => intOp (fun x y => chkInt (x + y)) a b
  | .sub => intOp (fun x y => chkInt (x - y)) a b
  | .mul => match a, b with
    | .str x, .int n => repeatStr x n
    | .int n, .str x => repeatStr x n
    | .str _, .str _ => .error .invalidOp
    | .str _, .bool _ => .error .outOfFragment
    | .bool _, .str _ => .error .outOfFragment
    | .str _, _ => .error .invalidOp
    | _, .str _ => .error .invalidOp
    | .list _, _ => .error .outOfFragment
    | _, .list _ => .error .outOfFragment
    | _, _ => intOp (fun x y => chkInt (x * y)) a b
  | .floordiv => intOp floordivInt a b
  | .rem => intOp remInt a b
  | _ => .error .outOfFragment

def compareOp (op : CmpOp) (a b : Val) : Res Bool :=
  match op with
  | .eq => .ok (valEq a b)
  | .ne => .ok (!valEq a b)
  | .lt => .ok (valCmp a b == .lt)
  | .le => .ok (valCmp a b != .gt)
  | .gt => .ok (valCmp a b == .gt)
  | .ge => .ok (valCmp a b != .lt)
  | .isin => contains b a
  | .notin => (contains b a).map (!·)

def negVal : Val → Res Val
  | .int i => chkInt (-i)
  | _ => .error .invalidOp

/-- `x.name` -/
def getAttr (v : Val) (name : String) : Res Val :=
  match v with
  | .undef => .error .undefinedErr
  | .map kvs => .ok ((assocGet name kvs).getD .undef)
  | _ => .ok .undef

def indexList {α : Type} (xs : List α) (i : Int) : Option α :=
  if 0 ≤ i then xs[i.toNat]?
  else if i.natAbs ≤ xs.length then xs[xs.length - i.natAbs]? else none

/-- `x[i]` -/
def getItem (v i : Val) : Res Val :=
  match v, i with
  | .undef, _ => .error .undefinedErr
  | .map kvs, .str k => .ok ((assocGet k kvs).getD .undef)
  | .list xs, .int n => .ok ((indexList xs n).getD .undef)
  | .str s, .int n => .ok (((indexList s.toList n).map fun c => Val.str (String.singleton c)).getD .undef)
  | .list _, .bool _ => .error .outOfFragment
  | .str _, .bool _ => .error .outOfFragment
  | _, _ => .ok .undef

def joinWith (sep : String) : List String → String
  | [] => ""
  | [x] => x
  | x :: y :: rest => x ++ sep ++ joinWith sep (y :: rest)

/-- the builtin filters of the fragment; `args` are the evaluated positional arguments -/
def applyFilter (name : String) (v : Val) (args : List Val) : Res Val :=
  match name, args with
  | "length", [] => match v with
    | .str s => .ok (.int s.length)
    | .list xs => .ok (.int xs.length)
    | .map kvs => .ok (.int kvs.length)
    | _ => .error .invalidOp
  | "upper", [] => .ok (.str (render v).toUpper)
  | "lower", [] => .ok (.str (render v).toLower)
  | "default", [] => .ok (match v with | .undef => .str "" | v => v)
  | "default", [d] => .ok (match v with | .undef => d | v => v)
  | "default", [d, lax] => .ok (match v with
    | .undef => d
    | v => if truthy lax && !truthy v then d else v)
  | "join", [] => (iterate v).map fun xs => .str (joinWith "" (xs.map render))
  | "join", [sep] => (iterate v).map fun xs => .str (joinWith (render sep) (xs.map render))
  | "first", [] => match v with
    | .str s => .ok ((s.toList.head?.map fun c => Val.str (String.singleton c)).getD .undef)
    | .list xs => .ok (xs.head?.getD .undef)
    | .map kvs => .ok ((kvs.head?.map fun kv => Val.str kv.1).getD .undef)
    | _ => .error .invalidOp
  | "last", [] => match v with
    | .str s => .ok ((s.toList.getLast?.map fun c => Val.str (String.singleton c)).getD .undef)
    | .list xs => .ok (xs.getLast?.getD .undef)
    | _ => .error .invalidOp
  | "list", [] => (iterate v).map .list
  | "length", _ => .error .tooManyArgs
  | "upper", _ => .error .tooManyArgs
  | "lower", _ => .error .tooManyArgs
  | "default", _ => .error .tooManyArgs
  | "join", _ => .error .tooManyArgs
  | "first", _ => .error .tooManyArgs
  | "last", _ => .error .tooManyArgs
  | "list", _ => .error .tooManyArgs
  | _, _ => .error .unknownFilter

def applyTest (name : String) (v : Val) (args : List Val) : Res Bool :=
  match name, args with
  | "defined", [] => .ok (match v with | .undef => false | _ => true)
  | "undefined", [] => .ok (match v with | .undef => true | _ => false)
  | "none", [] => .ok (match v with | .none => true | _ => false)
  | "odd", [] => .ok (match asInt? v with | some i => i % 2 != 0 | none => false)
  | "even", [] => .ok (match asInt? v with | some i => i % 2 == 0 | none => false)
  | "defined", _ => .error .tooManyArgs
  | "undefined", _ => .error .tooManyArgs
  | "none", _ => .error .tooManyArgs
  | "odd", _ => .error .tooManyArgs
  | "even", _ => .error .tooManyArgs
  | _, _ => .error .unknownTest

/-! ## Scopes -/

/-- variable lookup: innermost visible cell first, then the render context -/
def lookupIn (heap : Heap) (x : String) : List Nat → Option Val
  | [] => none
  | id :: rest => match (heap[id]?).bind (assocGet x) with
    | some v => some v
    | none => lookupIn heap x rest

def lookup (ctx : Scope) (heap : Heap) (stack : List Nat) (x : String) : Option Val :=
  match lookupIn heap x stack with
  | some v => some v
  | none => assocGet x ctx

/-- write one binding into cell `id` -/
def heapSet (heap : Heap) (id : Nat) (x : String) (v : Val) : Heap :=
  match heap[id]? with
  | some cell => heap.set id (assocSet x v cell)
  | none => heap

/-- bindings written one after the other into a cell: a later binding of the same name wins
(`for a, a in …` leaves the second item in `a`) -/
def setAll (cell : Scope) : List (String × Val) → Scope
  | [] => cell
  | (x, v) :: rest => setAll (assocSet x v cell) rest

def heapSetAll (heap : Heap) (id : Nat) : List (String × Val) → Heap
  | [] => heap
  | (x, v) :: rest => heapSetAll (heapSet heap id x v) id rest

/-- the top of the lexical stack; `set` at an empty stack is outside the fragment -/
def topCell : List Nat → Res Nat
  | [] => .error .outOfFragment
  | id :: _ => .ok id

mutual
  /-- destructuring: a tuple target needs a list (or map: its keys) of exactly that length -/
  def bindTarget : Target → Val → Res (List (String × Val))
    | .var x, v => .ok [(x, v)]
    | .tuple ts, v => match v with
      | .list xs => bindTargets ts xs
      | .map kvs => bindTargets ts (kvs.map fun kv => Val.str kv.1)
      | _ => .error .cannotUnpack
  def bindTargets : List Target → List Val → Res (List (String × Val))
    | [], [] => .ok []
    | t :: ts, v :: vs => match bindTarget t v with
      | .ok b => (match bindTargets ts vs with
        | .ok bs => .ok (b ++ bs)
        | .error e => .error e)
      | .error e => .error e
    | _, _ => .error .cannotUnpack
end

/-! ## The loop variable -/

/-- `length = none`: the sequence is a lazy iterator of unknown length (the characters of a
string), for which `syntax.rs` documents that `length`, `revindex`, `revindex0` are undefined (and
`last` never true). -/
structure LoopInfo where
  index0 : Nat
  length : Option Nat
  prev : Option Val
  next : Option Val
  deriving Repr, Inhabited

/-- what `loop.<attr>` shows -/
def loopVal (l : LoopInfo) : Val :=
  .map [ ("depth", .int 1), ("depth0", .int 0),
         ("first", .bool (l.index0 == 0)),
         ("index", .int (l.index0 + 1)), ("index0", .int l.index0),
         ("last", .bool (match l.length with | some n => l.index0 + 1 == n | none => false)),
         ("length", match l.length with | some n => .int n | none => .undef),
         ("nextitem", l.next.getD .undef), ("previtem", l.prev.getD .undef),
         ("revindex", match l.length with | some n => .int (n - l.index0) | none => .undef),
         ("revindex0", match l.length with | some n => .int (n - l.index0 - 1) | none => .undef) ]

/-- The loop bookkeeping, computed the way an iterator-driven loop does it: a running counter,
the previous item carried along, the next item peeked from the rest.  `len` is the length of the
whole sequence, fixed before the first iteration. -/
def loopInfosFrom (len : Option Nat) : Nat → Option Val → List Val → List LoopInfo
  | _, _, [] => []
  | idx, prev, x :: rest =>
    { index0 := idx, length := len, prev := prev, next := rest.head? } ::
      loopInfosFrom len (idx + 1) (some x) rest

def loopInfos (sized : Bool) (xs : List Val) : List LoopInfo :=
  loopInfosFrom (if sized then some xs.length else none) 0 none xs

/-- is the length of the iterated value known up front?  (everything but a string) -/
def isSized : Val → Bool
  | .str _ => false
  | _ => true

/-! ## Macro argument binding (`prepare_args`) -/

def splitArgs (vals : List (Option String × Val)) : List Val × List (String × Val) :=
  (vals.filterMap fun a => match a.1 with | none => some a.2 | some _ => none,
   vals.filterMap fun a => match a.1 with | none => none | some k => some (k, a.2))

/-- value of every parameter (or `undef`), in declaration order -/
def bindParams : List String → List Val → List (String × Val) → Res (List (String × Val))
  | [], [], _ => .ok []
  | [], _ :: _, _ => .error .tooManyArgs
  | p :: ps, [], kw => match bindParams ps [] kw with
    | .ok r => .ok ((p, (assocGet p kw).getD .undef) :: r)
    | .error e => .error e
  | p :: ps, a :: as, kw => match assocGet p kw with
    | some _ => .error .tooManyArgs
    | none => match bindParams ps as kw with
      | .ok r => .ok ((p, a) :: r)
      | .error e => .error e

/-- The calling convention of `Value::call`: the keyword arguments of a call travel as one value
behind the positional ones.  A call without explicit keyword arguments whose last positional value is
such a bundle (a `Kwargs` value handed in by a caller from Rust) is a call with these keyword
arguments. -/
def callArgs (as : List (Option String × Val)) : List Val × List (String × Val) :=
  match (splitArgs as).2 with
  | [] => match (splitArgs as).1.getLast? with
    | some (.kwargs kvs) => ((splitArgs as).1.dropLast, kvs)
    | _ => ((splitArgs as).1, [])
  | k :: ks => ((splitArgs as).1, k :: ks)

/-- **`Macro::prepare_args`** — the argument-binding rules of macros and of the `caller()` of a call
block, as a function of the parameter names, the positional values and the keyword values (in the
order they were written; `**kwargs` splats and keyword arguments passed from Rust arrive here as
keyword values too).  Result: the value of every parameter in declaration order (`undef` = not passed)
and — for a macro that refers to `caller` — the hidden `caller` argument; or the error:

* more positional values than parameters,
* a parameter filled by position *and* by keyword (whatever the two values are, `none` included),
* a keyword that names no parameter (`caller` is accepted exactly by macros that refer to it).

The *value* of an argument is never looked at: `none`, `false`, `0`, `""`, `[]` and `undef` are bound
like every other value.  (What happens to a parameter that is bound to `undef`: see `slotOf`.) -/
def bindArgs (params : List String) (usesCaller : Bool) (pos : List Val) (kw : List (String × Val)) :
    Res (List (String × Val) × Option Val) :=
  match bindParams params pos kw with
  | .error e => .error e
  | .ok bound =>
    if kw.any (fun p => !(params.contains p.1) && !(usesCaller && p.1 == "caller")) then .error .tooManyArgs
    else .ok (bound, if usesCaller then some ((assocGet "caller" kw).getD .undef) else none)

/-- the defaults belong to the *last* parameters -/
def defaultOf (params : List String) (defaults : List Expr) (i : Nat) : Option Expr :=
  if params.length ≤ i + defaults.length then defaults[i + defaults.length - params.length]? else none

/-- what a parameter holds when the body starts: the value that was bound, or its default -/
inductive Slot where
  | passed (v : Val)
  | dflt (d : Expr)
  deriving Repr, Inhabited

/-- The default of a parameter is used — and its expression evaluated, at call time, inside the
macro — exactly when the parameter is bound to `undef` (nothing was passed, or an undefined value
was passed) and has a default; every other bound value, `none` included, is kept as it is. -/
def slotOf (v : Val) (dflt : Option Expr) : Slot :=
  match v, dflt with
  | .undef, some d => .dflt d
  | v, _ => .passed v

inductive Flow where
  | normal | brk | cont
  deriving Repr, DecidableEq, Inhabited

structure State where
  heap : Heap
  out : String
  deriving Repr, Inhabited

/-- result of one `for` iteration fold step: state and "a `break` happened" -/
abbrev LoopAcc := State × Bool

/-! ## The interpreter -/

mutual

/-- expression evaluation is pure: a macro call runs in cells of its own which are dropped -/
def evalExpr : Nat → Scope → Heap → List Nat → Expr → Res Val
  | 0, _, _, _, _ => .error .fuel
  | fuel + 1, ctx, heap, stack, e =>
    match e with
    | .const l => .ok (litVal l)
    | .var x => .ok ((lookup ctx heap stack x).getD .undef)
    | .unop .not e => do
      let v ← evalExpr fuel ctx heap stack e
      .ok (.bool (!truthy v))
    | .unop .neg e => do
      let v ← evalExpr fuel ctx heap stack e
      negVal v
    | .binop .and l r => do
      let a ← evalExpr fuel ctx heap stack l
      if truthy a then evalExpr fuel ctx heap stack r else .ok a
    | .binop .or l r => do
      let a ← evalExpr fuel ctx heap stack l
      if truthy a then .ok a else evalExpr fuel ctx heap stack r
    | .binop op l r => do
      let a ← evalExpr fuel ctx heap stack l
      let b ← evalExpr fuel ctx heap stack r
      match op with
      | .concat => .ok (.str (render a ++ render b))
      | .eq => (compareOp .eq a b).map .bool
      | .ne => (compareOp .ne a b).map .bool
      | .lt => (compareOp .lt a b).map .bool
      | .le => (compareOp .le a b).map .bool
      | .gt => (compareOp .gt a b).map .bool
      | .ge => (compareOp .ge a b).map .bool
      | .isin => (compareOp .isin a b).map .bool
      | op => arith op a b
    | .cmp e ops => do
      let a ← evalExpr fuel ctx heap stack e
      evalChain fuel ctx heap stack a ops
    | .ife c t f => do
      let cv ← evalExpr fuel ctx heap stack c
      if truthy cv then evalExpr fuel ctx heap stack t
      else match f with
        | some f => evalExpr fuel ctx heap stack f
        | none => .ok .undef
    | .filter name e args => do
      let v ← evalExpr fuel ctx heap stack e
      let as ← evalArgs fuel ctx heap stack args
      match (splitArgs as).2 with
      | [] => applyFilter name v (splitArgs as).1
      | _ :: _ => .error .outOfFragment
    | .test name e args => do
      let v ← evalExpr fuel ctx heap stack e
      let as ← evalArgs fuel ctx heap stack args
      match (splitArgs as).2 with
      | [] => (applyTest name v (splitArgs as).1).map .bool
      | _ :: _ => .error .outOfFragment
    | .getattr e name => do
      let v ← evalExpr fuel ctx heap stack e
      getAttr v name
    | .getitem e i => do
      let v ← evalExpr fuel ctx heap stack e
      let iv ← evalExpr fuel ctx heap stack i
      getItem v iv
    | .call f args => do
      let fv ← match f with
        | .var x => match lookup ctx heap stack x with
          | some v => .ok v
          | none => .error .unknownFunction
        | f => evalExpr fuel ctx heap stack f
      let as ← evalArgs fuel ctx heap stack args
      callValue fuel ctx heap fv as
    | .list items => do
      let vs ← evalList fuel ctx heap stack items
      .ok (.list vs)
    | .map kvs => do
      let ps ← evalPairs fuel ctx heap stack kvs
      let m ← insertPairs ps []
      .ok (.map m)

def evalList : Nat → Scope → Heap → List Nat → List Expr → Res (List Val)
  | 0, _, _, _, _ => .error .fuel
  | _ + 1, _, _, _, [] => .ok []
  | fuel + 1, ctx, heap, stack, e :: es => do
    let v ← evalExpr fuel ctx heap stack e
    let vs ← evalList fuel ctx heap stack es
    .ok (v :: vs)

/-- the key / value expressions of a map literal, evaluated left to right -/
def evalPairs : Nat → Scope → Heap → List Nat → List (Expr × Expr) → Res (List (Val × Val))
  | 0, _, _, _, _ => .error .fuel
  | _ + 1, _, _, _, [] => .ok []
  | fuel + 1, ctx, heap, stack, (k, e) :: rest => do
    let kv ← evalExpr fuel ctx heap stack k
    let v ← evalExpr fuel ctx heap stack e
    let ps ← evalPairs fuel ctx heap stack rest
    .ok ((kv, v) :: ps)

def evalArgs : Nat → Scope → Heap → List Nat → Args → Res (List (Option String × Val))
  | 0, _, _, _, _ => .error .fuel
  | _ + 1, _, _, _, [] => .ok []
  | fuel + 1, ctx, heap, stack, (k, e) :: rest => do
    let v ← evalExpr fuel ctx heap stack e
    let vs ← evalArgs fuel ctx heap stack rest
    .ok ((k, v) :: vs)

/-- `a op₁ b op₂ c …` is `a op₁ b and b op₂ c and …`, every operand evaluated at most once and
nothing after the first false comparison -/
def evalChain : Nat → Scope → Heap → List Nat → Val → List (CmpOp × Expr) → Res Val
  | 0, _, _, _, _, _ => .error .fuel
  | _ + 1, _, _, _, _, [] => .ok (.bool true)
  | fuel + 1, ctx, heap, stack, a, (op, e) :: rest => do
    let b ← evalExpr fuel ctx heap stack e
    let r ← compareOp op a b
    if r then evalChain fuel ctx heap stack b rest else .ok (.bool false)

/-- calling a value: only macros are callable in the fragment -/
def callValue : Nat → Scope → Heap → Val → List (Option String × Val) → Res Val
  | 0, _, _, _, _ => .error .fuel
  | fuel + 1, ctx, heap, fv, as =>
    match fv with
    | .macro _ params defaults body usesCaller env =>
      match bindArgs params usesCaller (callArgs as).1 (callArgs as).2 with
      | .error e => .error e
      | .ok (bound, caller) =>
        let cell := heap.length
        let heap1 : Heap := heap ++ [match caller with | some c => [("caller", c)] | none => []]
        match bindDefaults fuel ctx heap1 (cell :: env) params defaults 0 bound with
        | .error e => .error e
        | .ok heap2 =>
          match execBlock fuel ctx (cell :: env) { heap := heap2, out := "" } body with
          | .error e => .error e
          | .ok (σ, .normal) => .ok (.str σ.out)
          | .ok _ => .error .outOfFragment
    | _ => .error .invalidOp

/-- store the parameters into the macro's cell; an undefined parameter with a default gets the
default, evaluated inside the macro (call time, macro scope): the slots of `slotOf`, one after the
other -/
def bindDefaults : Nat → Scope → Heap → List Nat → List String → List Expr → Nat →
    List (String × Val) → Res Heap
  | 0, _, _, _, _, _, _, _ => .error .fuel
  | _ + 1, _, heap, _, _, _, _, [] => .ok heap
  | fuel + 1, ctx, heap, stack, params, defaults, i, (p, v) :: rest =>
    match topCell stack with
    | .error e => .error e
    | .ok cell =>
      match slotOf v (defaultOf params defaults i) with
      | .dflt d =>
        match evalExpr fuel ctx heap stack d with
        | .error e => .error e
        | .ok dv => bindDefaults fuel ctx (heapSet heap cell p dv) stack params defaults (i + 1) rest
      | .passed v => bindDefaults fuel ctx (heapSet heap cell p v) stack params defaults (i + 1) rest

/-- apply a chain of block filters to a captured string -/
def applyFilters : Nat → Scope → Heap → List Nat → Val → List FilterApp → Res Val
  | 0, _, _, _, _, _ => .error .fuel
  | _ + 1, _, _, _, v, [] => .ok v
  | fuel + 1, ctx, heap, stack, v, (name, args) :: rest => do
    let as ← evalArgs fuel ctx heap stack args
    match (splitArgs as).2 with
    | [] => do
      let v' ← applyFilter name v (splitArgs as).1
      applyFilters fuel ctx heap stack v' rest
    | _ :: _ => .error .outOfFragment

/-- the `with` bindings are evaluated one after the other inside the new scope -/
def bindWith : Nat → Scope → Heap → List Nat → List (Target × Expr) → Res Heap
  | 0, _, _, _, _ => .error .fuel
  | _ + 1, _, heap, _, [] => .ok heap
  | fuel + 1, ctx, heap, stack, (t, e) :: rest =>
    match topCell stack with
    | .error e => .error e
    | .ok cell =>
      match evalExpr fuel ctx heap stack e with
      | .error e => .error e
      | .ok v => match bindTarget t v with
        | .error e => .error e
        | .ok bs => bindWith fuel ctx (heapSetAll heap cell bs) stack rest

/-- the items that pass the loop filter; the filter sees the loop target(s) in a scope of its own -/
def filterItems : Nat → Scope → Heap → List Nat → Target → Expr → List Val → Res (List Val)
  | 0, _, _, _, _, _, _ => .error .fuel
  | _ + 1, _, _, _, _, _, [] => .ok []
  | fuel + 1, ctx, heap, stack, target, cond, x :: xs =>
    match bindTarget target x with
    | .error e => .error e
    | .ok bs =>
      match evalExpr fuel ctx (heap ++ [setAll [] bs]) (heap.length :: stack) cond with
      | .error e => .error e
      | .ok c => match filterItems fuel ctx heap stack target cond xs with
        | .error e => .error e
        | .ok rest => .ok (if truthy c then x :: rest else rest)

/-- one iteration per (item, loop info): fresh cell with the target(s) and `loop`, body, drop the
cell.  `break` ends the walk, `continue` ends the iteration. -/
def execIters : Nat → Scope → List Nat → State → Target → List Stmt → List (Val × LoopInfo) →
    Res State
  | 0, _, _, _, _, _, _ => .error .fuel
  | _ + 1, _, _, σ, _, _, [] => .ok σ
  | fuel + 1, ctx, stack, σ, target, body, (x, info) :: rest =>
    match bindTarget target x with
    | .error e => .error e
    | .ok bs =>
      let cell := σ.heap.length
      let σ1 : State := { σ with heap := σ.heap ++ [setAll [("loop", loopVal info)] bs] }
      match execBlock fuel ctx (cell :: stack) σ1 body with
      | .error e => .error e
      | .ok (σ2, fl) =>
        let σ3 : State := { σ2 with heap := σ2.heap.take cell }
        match fl with
        | .brk => .ok σ3
        | _ => execIters fuel ctx stack σ3 target body rest

def exec : Nat → Scope → List Nat → State → Stmt → Res (State × Flow)
  | 0, _, _, _, _ => .error .fuel
  | fuel + 1, ctx, stack, σ, s =>
    match s with
    | .text t => .ok ({ σ with out := σ.out ++ t }, .normal)
    | .emit e => do
      let v ← evalExpr fuel ctx σ.heap stack e
      .ok ({ σ with out := σ.out ++ render v }, .normal)
    | .ifS c t f => do
      let cv ← evalExpr fuel ctx σ.heap stack c
      if truthy cv then execBlock fuel ctx stack σ t else execBlock fuel ctx stack σ f
    | .forS target iter filter body els => do
      let v ← evalExpr fuel ctx σ.heap stack iter
      let xs ← iterate v
      let kept ← match filter with
        | none => .ok xs
        | some cond => do
          -- the engine counts the items that pass with checked `i128` arithmetic
          let ks ← filterItems fuel ctx σ.heap stack target cond xs
          if (ks.length : Int) ≤ i128Max then .ok ks else .error .invalidOp
      -- a filtered loop walks the list of the items that passed
      let sized := match filter with
        | none => isSized v
        | some _ => true
      match kept with
      | [] => execBlock fuel ctx stack σ els
      | _ :: _ => do
        let σ' ← execIters fuel ctx stack σ target body (kept.zip (loopInfos sized kept))
        .ok (σ', .normal)
    | .set target e => do
      let v ← evalExpr fuel ctx σ.heap stack e
      let bs ← bindTarget target v
      let cell ← topCell stack
      .ok ({ σ with heap := heapSetAll σ.heap cell bs }, .normal)
    | .setBlock x filters body => do
      let r ← execBlock fuel ctx stack { σ with out := "" } body
      match r with
      | (σ1, .normal) => do
        let v ← applyFilters fuel ctx σ1.heap stack (.str σ1.out) filters
        let cell ← topCell stack
        .ok ({ heap := heapSet σ1.heap cell x v, out := σ.out }, .normal)
      -- `break` / `continue` inside the block: the capture is dropped, nothing is assigned
      | (σ1, fl) => .ok ({ heap := σ1.heap, out := σ.out }, fl)
    | .withS binds body => do
      let cell := σ.heap.length
      let heap1 ← bindWith fuel ctx (σ.heap ++ [[]]) (cell :: stack) binds
      let r ← execBlock fuel ctx (cell :: stack) { σ with heap := heap1 } body
      .ok ({ r.1 with heap := r.1.heap.take cell }, r.2)
    | .filterBlock filters body => do
      let r ← execBlock fuel ctx stack { σ with out := "" } body
      match r with
      | (σ1, .normal) => do
        let v ← applyFilters fuel ctx σ1.heap stack (.str σ1.out) filters
        .ok ({ heap := σ1.heap, out := σ.out ++ render v }, .normal)
      | (σ1, fl) => .ok ({ heap := σ1.heap, out := σ.out }, fl)
    | .macroS name params defaults body usesCaller => do
      let cell ← topCell stack
      let m := Val.macro name params defaults body usesCaller stack
      .ok ({ σ with heap := heapSet σ.heap cell name m }, .normal)
    | .callBlock callee args params defaults body usesCaller => do
      let fv ← match callee with
        | .var x => match lookup ctx σ.heap stack x with
          | some v => .ok v
          | none => .error .unknownFunction
        | f => evalExpr fuel ctx σ.heap stack f
      let as ← evalArgs fuel ctx σ.heap stack args
      let caller := Val.macro "caller" params defaults body usesCaller stack
      let v ← callValue fuel ctx σ.heap fv (as ++ [(some "caller", caller)])
      .ok ({ σ with out := σ.out ++ render v }, .normal)
    | .breakS => .ok (σ, .brk)
    | .continueS => .ok (σ, .cont)

/-- a statement list runs until the first `break` / `continue` -/
def execBlock : Nat → Scope → List Nat → State → List Stmt → Res (State × Flow)
  | 0, _, _, _, _ => .error .fuel
  | _ + 1, _, _, σ, [] => .ok (σ, .normal)
  | fuel + 1, ctx, stack, σ, s :: rest =>
    match exec fuel ctx stack σ s with
    | .error e => .error e
    | .ok (σ1, .normal) => execBlock fuel ctx stack σ1 rest
    | .ok (σ1, fl) => .ok (σ1, fl)

end

/-- fuel used by the drivers and the examples -/
def defaultFuel : Nat := 100000

/-- render a template (list of statements) against a context -/
def renderTemplate (fuel : Nat) (ctx : Scope) (prog : List Stmt) : Res String :=
  match execBlock fuel ctx [0] { heap := [[]], out := "" } prog with
  | .ok (σ, _) => .ok σ.out
  | .error e => .error e

/-- A program that is not rendered as a stand-alone template: `prog` is the top level of a child
template (the part after `{% extends %}`) or of a module loaded with `{% from … import … %}` /
`{% import … %}`; its output is discarded, but its top-level assignments persist — into the layout,
respectively the importing template, which is `tail` here (running in the same top-level scope and
reading only what `prog` assigned / exported).  Captures inside `prog` (`{% set x %}…{% endset %}`,
filter blocks) capture as usual although the surrounding output is thrown away. -/
def renderAfter (fuel : Nat) (ctx : Scope) (prog tail : List Stmt) : Res String :=
  match execBlock fuel ctx [0] { heap := [[]], out := "" } prog with
  | .ok (σ, _) =>
    match execBlock fuel ctx [0] { σ with out := "" } tail with
    | .ok (σ', _) => .ok σ'.out
    | .error e => .error e
  | .error e => .error e

end MJ.Eval
