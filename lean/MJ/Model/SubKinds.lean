import MJ.Model.Subscript
/-!
# Model of the other sliceable / subscriptable object kinds and of the conversion sites (C09)

* **conversion sites** (`convBy`): the functions through which a template value becomes a
  subscript, a slice bound / step or a count — `ops::slice_bound`, `Value::as_i64` + `isize::try_from`
  (`get_item_opt::index`), `Value::as_usize` (the `get_value` of vectors, tuples, arrays, `MergeSeq`,
  `GroupTuple`, the repetition count of `*`), and `TryFrom<Value>` of the integer types
  (`primitive_int_try_from!`: typed arguments of `range`, `batch`, `slice`, `indent`, …).  Which site
  calls which function is the regenerated table `MJ.Gen.c09ConversionSites`.
* **strings at the level of bytes** (`charBytesAt`, `strSliceBytes`): `collect::<String>()` appends
  the encoding of every selected character = copies its byte range.
* **repetitions** (`ops::repeat_iterable`, `struct Repeated`): `seq * n`, also of a repetition.
* **reversed views** (`Value::reverse`).
* **one-shot iterators** (`Value::make_one_shot_iterator`) used more than once: what each
  operation yields and what it leaves.
-/
namespace MJ.Sub
open MJ Chk Slice

/-! ## Conversion sites -/

/-- the range of a Rust integer type (64-bit target) -/
def intTypeRange (t : String) : Option (Int × Int) :=
  if t = "u8" then some (0, 255) else if t = "u16" then some (0, 65535)
  else if t = "u32" then some (0, 4294967295) else if t = "u64" then some (0, 18446744073709551615)
  else if t = "u128" then some (0, 340282366920938463463374607431768211455)
  else if t = "i8" then some (-128, 127) else if t = "i16" then some (-32768, 32767)
  else if t = "i32" then some (-2147483648, 2147483647) else if t = "i64" then some (i64Min, i64Max)
  else if t = "i128" then some (-170141183460469231731687303715884105728, 170141183460469231731687303715884105727)
  else if t = "usize" then some (0, usizeMax) else if t = "isize" then some (i64Min, i64Max)
  else Option.none

/-- `unsupported_conversion(value.kind(), stringify!($ty))` -/
def convErrT {α : Type} (v : Val α) (target : String) : Err :=
  ⟨MJ.Gen.c09ConversionErr.1, subst (subst MJ.Gen.c09ConversionErr.2 "kind" v.kindDisplay) "target" target⟩

/-- what a call site gets out of a value: an integer, the conversion error, or nothing
    (`None`: no subscript, the result is undefined) -/
inductive Conv where
  | int (x : Int)
  | error (e : Err)
  | absent
  deriving Repr, DecidableEq

/-- the conversion functions the subscript / bound / count sites call (`none`: the name is not a
    conversion of a value, e.g. `loop.cycle`, which indexes with the loop's own counter) -/
def convBy {α : Type} (fn target : String) (v : Val α) : Option Conv :=
  if fn = "slice_bound" then
    some (match sliceBound v with | .ok x => .int x | .error e => .error e)
  else if fn = "as_i64+isize" then
    some (match valI64 v with | some x => .int x | Option.none => .absent)
  else if fn = "as_usize" then
    some (match valUsize v with | some n => .int n | Option.none => .absent)
  else if fn = "try_from" then
    match intTypeRange target with
    | some (lo, hi) => some (match tryInt lo hi v with | some x => .int x | Option.none => .error (convErrT v target))
    | Option.none => Option.none
  else Option.none

/-- the same, as a function of the *integer* the value holds and of its kind name only -/
def convSpec (fn target : String) (x : Int) (kind : String) : Option Conv :=
  if fn = "slice_bound" then some (.int (if x < i64Min then i64Min else if i64Max < x then i64Max else x))
  else if fn = "as_i64+isize" then some (if i64Min ≤ x ∧ x ≤ i64Max then .int x else .absent)
  else if fn = "as_usize" then some (if 0 ≤ x ∧ x ≤ usizeMax then .int x else .absent)
  else if fn = "try_from" then
    match intTypeRange target with
    | some (lo, hi) => some (if lo ≤ x ∧ x ≤ hi then .int x else
        .error ⟨MJ.Gen.c09ConversionErr.1, subst (subst MJ.Gen.c09ConversionErr.2 "kind" kind) "target" target⟩)
    | Option.none => Option.none
  else Option.none

/-- what a site makes of a value that holds no integer -/
def convReject {α : Type} (fn target : String) (v : Val α) : Option Conv :=
  if fn = "slice_bound" then some (.error (convErr v))
  else if fn = "as_i64+isize" then some .absent
  else if fn = "as_usize" then some .absent
  else if fn = "try_from" then
    match intTypeRange target with
    | some _ => some (.error (convErrT v target))
    | Option.none => Option.none
  else Option.none

/-- is this row of the regenerated site table understood by the model? -/
def knownSite (p : String × String × String) : Bool :=
  ["slice_bound", "as_i64+isize", "as_usize", "u64-wrap", "internal-index", "parse-usize", "forward"].contains p.2.1 ||
  (p.2.1 == "try_from" && (intTypeRange p.2.2).isSome)

/-! ## Strings at the level of bytes -/

/-- the bytes of the `i`-th character of the string `bs`: the byte range that starts at the
    cursor offset of the `i`-th decoding step and is as long as the decoded character is wide -/
def charBytesAt (bs : List UInt8) (i : Nat) : List UInt8 :=
  match (charIndices bs)[i]? with
  | some (off, c) => (bs.drop off).take c.utf8Size
  | Option.none => []

/-- what `collect::<String>()` builds from the selected characters: the concatenation of the byte
    ranges of the selected characters, in the order of selection -/
def strSliceBytes (bs : List UInt8) (idxs : List Nat) : List UInt8 := idxs.flatMap (charBytesAt bs)

/-! ## Repetitions: `ops::repeat_iterable` and `struct Repeated` -/

/-- `Repeated::enumerate`: `(0..n).flat_map(|_| seq.try_iter())` -/
def repIter {α : Type} (n : Nat) (xs : List α) : List α := (List.range n).flatMap (fun _ => xs)

/-- the fields of `struct Repeated`; `xs` are the items of `seq` -/
structure Rep (α : Type) where
  xs : List α
  len : Nat
  n : Nat
  total : Nat
  deriving Repr

/-- the operand of `*`: a sized sequence / iterable, or a repetition -/
inductive Operand (α : Type) where
  | plain (xs : List α)
  | rep (r : Rep α)

def Rep.items {α : Type} (r : Rep α) : List α := repIter r.n r.xs

def Operand.items {α : Type} : Operand α → List α
  | .plain xs => xs
  | .rep r => r.items

/-- `seq.enumerator_len()`: a repetition announces `total` (`LenIterWrap`) -/
def Operand.enumLen {α : Type} : Operand α → Nat
  | .plain xs => xs.length
  | .rep r => r.total

def repTooLarge : Err := ⟨MJ.Gen.c09RepeatedTooLarge.1, MJ.Gen.c09RepeatedTooLarge.2⟩

/-- `repeat_iterable(n, seq)` for a sized non-tuple operand once `n` is a `usize`:
    `len.checked_mul(n)` within the limit, `n = 0` for an empty operand, and a repetition of a
    repetition repeats the innermost operand `inner.n * n` times instead of nesting -/
def repeatIterable {α : Type} (o : Operand α) (n : Nat) : Except Err (Rep α) :=
  let len := o.enumLen
  if len * n ≤ MJ.Gen.c09RepeatedMax then
    let total := len * n
    let n' := if len = 0 then 0 else n
    match o with
    | .rep inner => .ok ⟨inner.xs, inner.len, if total = 0 then 0 else inner.n * n', total⟩
    | .plain xs => .ok ⟨xs, len, n', total⟩
  else .error repTooLarge

/-- the value: a sized iterable (`ObjectRepr::Iterable`, exact size hints) -/
def Rep.val {α : Type} (r : Rep α) : Val α := .iter true r.items

/-- does the repetition announce the length it has? -/
def Rep.Honest {α : Type} (r : Rep α) : Prop := r.total = r.items.length ∧ r.len = r.xs.length

/-! ## Reversed views: `Value::reverse` -/

/-- `Value::reverse` on the values Python has a sequence for (strings and bytes are reversed
    eagerly; objects become a sized iterable over the items in reverse order — sequences are read
    back to front by position, iterators are collected first, one-shot iterators are consumed) -/
def reverseView {α : Type} : Val α → Option (Val α)
  | .undef => some .undef
  | .none => some .none
  | .str _ bs => some (.str .normal (encode (chars bs).reverse))
  | .bytes bs => some (.bytes bs.reverse)
  | .seq xs => some (.iter true xs.reverse)
  | .tuple xs => some (.iter true xs.reverse)
  | .iter _ xs => some (.iter true xs.reverse)
  | .once xs => some (.iter true xs.reverse)
  | _ => Option.none

/-! ## One-shot iterators used more than once

The state is what is left (`rem`).  Every operation returns what it yields and what it leaves. -/

/-- `it[key]` (`get_item_opt`, `ObjectRepr::Iterable` arm): a non-negative index pulls `k + 1`
    items; an index relative to the end has to count the items first, which drains the iterator,
    and then finds nothing -/
def onceGetItem {α : Type} (rem : List α) (key : Val α) : Option α × List α :=
  match valI64 key with
  | some i => if i < 0 then (Option.none, []) else (rem[i.toNat]?, rem.drop (i.toNat + 1))
  | Option.none => (Option.none, rem)

/-- one enumeration of the lazy result of `it[start:stop:step]` (step ≠ 0): forward without a
    bound relative to the end it pulls `skip(off).take(n).step_by(step)` from what is left —
    nothing at all when `n = 0`, else `off + n` items; otherwise it collects everything first -/
def onceSliceEnum {α : Type} (rem : List α) (start stop : Option Int) (step : Int) : Chk (List α × List α) :=
  if step > 0 ∧ (isNeg start || isNeg stop) = false then
    match offsetLen start stop MJ.Gen.c09UnsizedLen with
    | .panic => .panic
    | .ok (off, n) => .ok (stepBy (asUsize step) ((rem.drop off).take n), if n = 0 then rem else rem.drop (off + n))
  else
    match slice rem start stop (some step) with
    | .panic => .panic
    | .ok .zeroStep => .panic
    | .ok (.ok ys) => .ok (ys, [])

/-- `it|list` -/
def onceList {α : Type} (rem : List α) : List α × List α := (rem, [])
/-- `it|first` -/
def onceFirst {α : Type} (rem : List α) : Option α × List α := (rem.head?, rem.tail)

/-! ## Chains nested deeper than `MergeSeq::MAX_DEPTH`: `push_flattened_value` -/

/-- a value as `MergeSeq::push_flattened_value` sees it: a `MergeSeq` with its operands, or
    anything else (`xs` are its items) -/
inductive MTree (α : Type) where
  | leaf (xs : List α)
  | node (ts : List (MTree α))

mutual
/-- the items of the value, in iteration order -/
def MTree.items {α : Type} : MTree α → List α
  | .leaf xs => xs
  | .node ts => itemsList ts
def itemsList {α : Type} : List (MTree α) → List α
  | [] => []
  | t :: ts => t.items ++ itemsList ts
end

mutual
def MTree.size {α : Type} : MTree α → Nat
  | .leaf _ => 1
  | .node ts => 1 + sizeList ts
def sizeList {α : Type} : List (MTree α) → Nat
  | [] => 0
  | t :: ts => t.size + sizeList ts
end

/-- the loop of `push_flattened_value`: `pending` is a stack whose top is its LAST element
    (`Vec::pop`); a `MergeSeq` on top is replaced by its operands in reverse order
    (`pending.extend(seq.values.iter().rev().cloned())`), anything else is appended to `values` -/
def flattenLoop {α : Type} : Nat → List (MTree α) → List (MTree α) → List (MTree α)
  | 0, _, values => values
  | fuel + 1, pending, values =>
    match pending.getLast? with
    | none => values
    | some (.node ts) => flattenLoop fuel (pending.dropLast ++ ts.reverse) values
    | some (.leaf xs) => flattenLoop fuel pending.dropLast (values ++ [.leaf xs])

/-- `push_flattened_value(value, &mut values)` -/
def pushFlattened {α : Type} (t : MTree α) (values : List (MTree α)) : List (MTree α) :=
  flattenLoop t.size [t] values


/-- what `MergeSeq::with_repr` does with its operands when they nest too deep -/
def flattenAll {α : Type} (vs : List (MTree α)) : List (MTree α) := vs.foldl (fun acc v => pushFlattened v acc) []

end MJ.Sub
