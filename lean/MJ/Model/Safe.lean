import MJ.Gen.Tables
/-!
# Safe-bit calculus of the template engine (model for C02)

Characters carry a *taint*: `data` (context data, string literals of expressions, and everything
derived from them character by character) or `tmpl` (template text, and text produced by the engine
itself: the HTML escaper's replacement strings, padding, quotes of a `repr`, …).  A string value
carries the `Safe` bit (`StringType::Safe`).  The definitions transcribe

* `utils.rs`: `HtmlEscape`, `needs_html_escaping`, `write_with_html_escaping`, `write_escaped`
  (the escape table and both range pre-filters come from `MJ.Gen.Tables`, regenerated from source),
* `output.rs`: `begin_capture` / `end_capture`,   `vm/macro_object.rs`: `Macro::call`,
* `value/argtypes.rs`: `StringInput::{from_value, format, preserve_safety}`,
* `filters.rs` / contrib: every filter that creates a `Safe` string (`escape`, `replace`, `join`,
  `format`, `reverse`, `split`, `lines`, `last`, `truncate`, the `preserve_safety` users `upper`,
  `lower`, `capitalize`, `trim`, `indent`) and the operators (`~`, `+`, `*`, subscripts, slices,
  iteration) which produce unmarked strings.

Core Lean only (links into `drive_c02`).
-/
namespace MJ.Safe

/-! ## tainted characters and strings -/

inductive Taint where
  | tmpl
  | data
  deriving DecidableEq, Repr, Inhabited

structure TChar where
  c : Char
  t : Taint
  deriving DecidableEq, Repr, Inhabited

abbrev TStr := List TChar

def ofData (s : String) : TStr := s.toList.map (fun c => ⟨c, .data⟩)
def ofTmpl (s : String) : TStr := s.toList.map (fun c => ⟨c, .tmpl⟩)
def text (s : TStr) : String := String.ofList (s.map (·.c))

/-- the HTML metacharacters of the property statement -/
def isMeta (c : Char) : Bool := c == '<' || c == '>' || c == '"' || c == '\''

/-- no metacharacter that came from data -/
def Clean (s : TStr) : Prop := ∀ ch ∈ s, ch.t = .data → isMeta ch.c = false

instance (s : TStr) : Decidable (Clean s) := by unfold Clean; exact inferInstance

/-- auto-escape mode (`AutoEscape::{None, Html, Json}`; `Custom` always errors in the default formatter) -/
inductive Mode where
  | none
  | html
  | json
  deriving DecidableEq, Repr, Inhabited

/-! ## the HTML escaper (`utils.rs`) -/

/-- `b.wrapping_sub(LO) <= HI - SUB` on a byte: bytes of multi-byte characters are ≥ 0x80 and
    never pass, so the test is on the code point.  `wrapping_sub` makes it a two-sided test. -/
def inRange (lo hi sub : Nat) (c : Char) : Bool :=
  c.toNat < 128 && ((c.toNat + 256 - lo) % 256 ≤ hi - sub)

def escapeOf (c : Char) : Option String :=
  if inRange Gen.htmlEscapeFilterLo Gen.htmlEscapeFilterHi Gen.htmlEscapeFilterSub c
  then Gen.htmlEscapeTable.lookup c else none

/-- `HtmlEscape(s)`: replacement strings are engine text -/
def htmlEscape (s : TStr) : TStr :=
  s.flatMap fun ch => match escapeOf ch.c with
    | some r => ofTmpl r
    | none => [ch]

/-- `needs_html_escaping` -/
def needsChar (c : Char) : Bool :=
  inRange Gen.htmlNeedsLo Gen.htmlNeedsHi Gen.htmlNeedsSub c && Gen.htmlNeedsChars.contains c

def needsEscaping (s : TStr) : Bool := s.any (fun ch => needsChar ch.c)

/-- the string path of `write_with_html_escaping` (= what `|e` does to an unmarked string) -/
def escapeStr (s : TStr) : TStr := if needsEscaping s then htmlEscape s else s

/-! ## values -/

inductive V where
  | str (s : TStr) (safe : Bool)
  | int (n : Int)
  | bool (b : Bool)
  | none
  | undef
  | seq (xs : List V)
  /-- map with string keys (kept sorted by the constructors of the program model) -/
  | map (kvs : List (String × V))
  /-- `ValueRepr::Bytes`: raw bytes (text only through lossy UTF-8 decoding) -/
  | bytes (bs : List Nat)
  /-- `ValueRepr::F64`: the text the number formatter produces (digits, `.`, `e`, `-`, `inf`, `NaN`) -/
  | float (cs : List Char)
  /-- an object that is neither sequence nor map (`ObjectRepr::Plain`, or any object as far as
      printing goes): the text its `render` writes -/
  | obj (text : TStr)
  deriving Inhabited

def natDigits (n : Nat) : List Char :=
  if h : n < 10 then [Char.ofNat (48 + n)] else natDigits (n / 10) ++ [Char.ofNat (48 + n % 10)]
termination_by n
decreasing_by omega

def intChars (n : Int) : List Char :=
  if n < 0 then '-' :: natDigits n.natAbs else natDigits n.natAbs

def ofDataL (cs : List Char) : TStr := cs.map (fun c => ⟨c, .data⟩)

def contains (s : TStr) (c : Char) : Bool := s.any (fun ch => ch.c == c)

/-- `String::from_utf8_lossy` and `str::from_utf8(..).is_ok()` on the byte alphabet of the
    correspondence: ASCII, two-byte sequences (lead `C2..DF` + continuation), stray continuation
    bytes, lone leads and `F5..FF` (each replaced by U+FFFD).  Three- and four-byte sequences are
    outside the modelled alphabet.  The text is data; nothing the theorems say depends on the decoder. -/
def lossy : List Nat → TStr × Bool
  | [] => ([], true)
  | [b] => if b < 128 then ([⟨Char.ofNat b, .data⟩], true) else ([⟨Char.ofNat 65533, .data⟩], false)
  | b :: c :: rest =>
    if b < 128 then
      let r := lossy (c :: rest)
      (⟨Char.ofNat b, .data⟩ :: r.1, r.2)
    else if 194 ≤ b ∧ b ≤ 223 ∧ 128 ≤ c ∧ c ≤ 191 then
      let r := lossy rest
      (⟨Char.ofNat ((b - 192) * 64 + (c - 128)), .data⟩ :: r.1, r.2)
    else
      let r := lossy (c :: rest)
      (⟨Char.ofNat 65533, .data⟩ :: r.1, false)

def hexDigit (n : Nat) : Char := if n < 10 then Char.ofNat (48 + n) else Char.ofNat (87 + n)

/-- `Debug` of bytes: `b'…'` with `u8::escape_ascii` (`"` is written as is) -/
def bytesRepr (bs : List Nat) : TStr :=
  let esc (b : Nat) : TStr :=
    if b == 34 then [⟨'"', .data⟩]
    else if b == 9 then ofTmpl "\\t" else if b == 10 then ofTmpl "\\n" else if b == 13 then ofTmpl "\\r"
    else if b == 39 then [⟨'\\', .tmpl⟩, ⟨'\'', .data⟩]
    else if b == 92 then [⟨'\\', .tmpl⟩, ⟨'\\', .data⟩]
    else if 32 ≤ b ∧ b ≤ 126 then [⟨Char.ofNat b, .data⟩]
    else [⟨'\\', .tmpl⟩, ⟨'x', .tmpl⟩, ⟨hexDigit (b / 16), .data⟩, ⟨hexDigit (b % 16), .data⟩]
  ofTmpl "b'" ++ bs.flatMap esc ++ ofTmpl "'"

/-- text of a float: what the number formatter produced.  The formatter's alphabet (digits `.` `e`
    `-` `inf` `NaN`) has no metacharacter; the model makes that true by construction (validated on
    the real formatter by the harness) instead of modelling float formatting. -/
def floatText (cs : List Char) : TStr := ofDataL (cs.filter fun c => !isMeta c)

/-- `python_string_debug_fmt` (control characters other than `\n \r \t` are outside the modelled
    alphabet) -/
def pyRepr (s : TStr) : TStr :=
  let q : Char := if contains s '\'' && !contains s '"' then '"' else '\''
  let esc (ch : TChar) : TStr :=
    if ch.c == q then [⟨'\\', .tmpl⟩, ch]
    else if ch.c == '\\' then [⟨'\\', .tmpl⟩, ch]
    else if ch.c == '\n' then ofTmpl "\\n"
    else if ch.c == '\r' then ofTmpl "\\r"
    else if ch.c == '\t' then ofTmpl "\\t"
    else [ch]
  ⟨q, .tmpl⟩ :: s.flatMap esc ++ [⟨q, .tmpl⟩]

mutual
/-- `Debug` of a value (used inside containers) -/
def V.repr : V → TStr
  | .str s _ => pyRepr s
  | .int n => ofDataL (intChars n)
  | .bool b => ofData (if b then "True" else "False")
  | .none => ofData "None"
  | .undef => ofData "undefined"
  | .seq xs => ofTmpl "[" ++ V.reprL xs ++ ofTmpl "]"
  | .map kvs => ofTmpl "{" ++ V.reprM kvs ++ ofTmpl "}"
  | .bytes bs => bytesRepr bs
  | .float cs => floatText cs
  | .obj t => t
def V.reprL : List V → TStr
  | [] => []
  | [x] => x.repr
  | x :: y :: xs => x.repr ++ ofTmpl ", " ++ V.reprL (y :: xs)
def V.reprM : List (String × V) → TStr
  | [] => []
  | [(k, v)] => pyRepr (ofData k) ++ ofTmpl ": " ++ v.repr
  | (k, v) :: q :: kvs => pyRepr (ofData k) ++ ofTmpl ": " ++ v.repr ++ ofTmpl ", " ++ V.reprM (q :: kvs)
end

/-- `Display` of a value (`to_string`, `{value}`) -/
def V.display : V → TStr
  | .str s _ => s
  | .undef => []
  | .bytes bs => (lossy bs).1
  | v => v.repr

/-- `serde_json::to_string` of a string (characters of the modelled alphabet) -/
def jsonStr (s : TStr) : TStr :=
  let esc (ch : TChar) : TStr :=
    if ch.c == '"' then [⟨'\\', .tmpl⟩, ch]
    else if ch.c == '\\' then [⟨'\\', .tmpl⟩, ch]
    else if ch.c == '\n' then ofTmpl "\\n"
    else if ch.c == '\r' then ofTmpl "\\r"
    else if ch.c == '\t' then ofTmpl "\\t"
    else [ch]
  ⟨'"', .tmpl⟩ :: s.flatMap esc ++ [⟨'"', .tmpl⟩]

mutual
def V.json : V → TStr
  | .str s _ => jsonStr s
  | .int n => ofDataL (intChars n)
  | .bool b => ofData (if b then "true" else "false")
  | .none => ofData "null"
  | .undef => ofData "null"
  | .seq xs => ofTmpl "[" ++ V.jsonL xs ++ ofTmpl "]"
  | .map kvs => ofTmpl "{" ++ V.jsonM kvs ++ ofTmpl "}"
  | .bytes bs => ofTmpl "[" ++ ((bs.map fun b => ofDataL (natDigits b)).intersperse (ofTmpl ",")).flatten ++ ofTmpl "]"
  | .float cs => floatText cs
  | .obj t => t
def V.jsonL : List V → TStr
  | [] => []
  | [x] => x.json
  | x :: y :: xs => x.json ++ ofTmpl "," ++ V.jsonL (y :: xs)
def V.jsonM : List (String × V) → TStr
  | [] => []
  | [(k, v)] => jsonStr (ofData k) ++ ofTmpl ":" ++ v.json
  | (k, v) :: q :: kvs => jsonStr (ofData k) ++ ofTmpl ":" ++ v.json ++ ofTmpl "," ++ V.jsonM (q :: kvs)
end

/-- `write_with_html_escaping`: strings through the pre-filter and the escaper; undefined, none,
    booleans and numbers verbatim; everything else `HtmlEscape(to_string)`.  (The `SmallStr`
    ASCII-integer fast path writes digits and `-` verbatim, which is what the escaper does too.) -/
def writeHtml : V → TStr
  | .str s _ => escapeStr s
  | .seq xs => htmlEscape (V.seq xs).display
  | .map kvs => htmlEscape (V.map kvs).display
  -- bytes: `as_str()` is `Some` exactly for valid UTF-8 (string path), otherwise the catch-all
  | .bytes bs => if (lossy bs).2 then escapeStr (lossy bs).1 else htmlEscape (lossy bs).1
  | .obj t => htmlEscape t
  -- Undefined | None | Bool | Number: plain Display
  | v => v.display

/-- `write_escaped` -/
def writeEscaped (m : Mode) (v : V) : TStr :=
  match v with
  | .str s true => s
  | _ =>
    match m with
    | .none => v.display
    | .html => writeHtml v
    | .json => v.json

/-- the decisions of `write_escaped` and `write_with_html_escaping`, in source order, as
    `writeEscaped` / `writeHtml` above transcribe them (compared with the list regenerated from
    `utils.rs`, `Gen.c02WriteEscapedDispatch`) -/
def modelDispatch : List String := [
  "safe-string:raw",                        -- writeEscaped: `.str s true => s`
  "mode:None:display", "mode:Html:html", "mode:Json:json", "mode:Custom:error",
  "fast:U64:raw", "fast:I64:guarded:raw", "fast:I64:raw", "fast:Bool:raw",   -- digits / True / False: `v.display`
  "smallstr-ascii-integer:raw",             -- digits and `-`: what the escaper writes too
  "as_str:prefilter-or-escape",             -- `.str` and valid-UTF-8 `.bytes`: `escapeStr`
  "kind[Undefined,None,Bool,Number]:display",
  "else:escape-to_string"]                  -- `.seq`, `.map`, `.obj`, invalid-UTF-8 `.bytes`: `htmlEscape display`

/-- `Value::as_str`: which representations have text without conversion -/
def modelAsStrArms : List String := ["String:some", "SmallStr:some", "Bytes:utf8"]

/-- every `ValueRepr` variant (with its `ValueKind`) and how the model prints it under Html -/
def reprClass : String → Option String
  | "None:None" => some "no metacharacter by construction: V.none, text None"
  | "Undefined:Undefined" => some "no metacharacter by construction: V.undef, empty text"
  | "Bool:Bool" => some "no metacharacter by construction: V.bool, text True/False"
  | "U64:Number" | "I64:Number" | "U128:Number" | "I128:Number" =>
    some "no metacharacter by construction: V.int, digits and minus (intChars_noMeta)"
  | "F64:Number" => some "no metacharacter by construction: V.float, floatText (formatter alphabet validated by the harness)"
  | "String:String" | "SmallStr:String" => some "escaped via its text: V.str (Safe strings verbatim)"
  | "Bytes:Bytes" => some "escaped via its (lossy) text: V.bytes, both the valid-UTF-8 string path and the catch-all"
  | "Object:Object" => some "escaped via its text: V.seq / V.map / V.obj (Display of containers, render of objects)"
  | "Invalid:Invalid" => some "escaped via its text; an invalid value aborts rendering when it is looked up, so it is never printed by a template"
  | _ => Option.none

/-! ## the invariant -/

mutual
/-- a `Safe` string never contains a metacharacter that came from data (recursively in containers) -/
def V.Inv : V → Prop
  | .str s safe => safe = true → Clean s
  | .seq xs => V.InvL xs
  | .map kvs => V.InvM kvs
  | _ => True
def V.InvL : List V → Prop
  | [] => True
  | x :: xs => x.Inv ∧ V.InvL xs
def V.InvM : List (String × V) → Prop
  | [] => True
  | (_, v) :: kvs => v.Inv ∧ V.InvM kvs
end

/-! ## `StringInput` (`value/argtypes.rs`) -/

structure StrIn where
  s : TStr
  safe : Bool

/-- `StringInput::from_value` = `value_to_string_cow` + `is_safe` -/
def StrIn.ofV : V → StrIn
  | .str s safe => ⟨s, safe⟩
  | v => ⟨v.display, false⟩

/-- what the `escape` filter writes for an unmarked value in mode `m` (`None` falls back to the
    template's initial mode, which is Html for the `*.html`/`*.xml` names of the property) -/
def escapeWrite (m : Mode) (v : V) : TStr :=
  match m with
  | .json => v.json
  | _ => writeHtml v

/-- `StringInput::format`: safe input unchanged, anything else through the `escape` filter -/
def StrIn.format (m : Mode) (x : StrIn) : TStr :=
  if x.safe then x.s else escapeWrite m (.str x.s false)

/-- `StringInput::preserve_safety` -/
def StrIn.preserve (x : StrIn) (r : TStr) : V := .str r x.safe

/-! ## string algorithms on tainted strings (matching is on the characters, taints ride along) -/

def isWs (c : Char) : Bool := c == ' ' || c == '\n' || c == '\t' || c == '\r'

/-- `p` is a prefix of `s` (characters only) -/
def isPrefixC : TStr → TStr → Bool
  | [], _ => true
  | _ :: _, [] => false
  | p :: ps, c :: cs => p.c == c.c && isPrefixC ps cs

/-- `str::replace(from, to)` for a non-empty pattern: `skip` characters of a match still to drop -/
def replaceGo (pat to : TStr) : Nat → TStr → TStr
  | _, [] => []
  | skip + 1, _ :: rest => replaceGo pat to skip rest
  | 0, c :: rest =>
    if isPrefixC pat (c :: rest) then to ++ replaceGo pat to (pat.length - 1) rest
    else c :: replaceGo pat to 0 rest

/-- `str::replace`; the empty pattern matches between all characters -/
def replaceAll (s pat to : TStr) : TStr :=
  if pat.isEmpty then to ++ s.flatMap (fun c => c :: to) else replaceGo pat to 0 s

/-- `str::split(sep)` / `splitn(left + 1, sep)` for a non-empty separator -/
def splitGo (sep : TStr) : Nat → Nat → TStr → TStr → List TStr
  | _, _, cur, [] => [cur]
  | left, skip + 1, cur, _ :: rest => splitGo sep left skip cur rest
  | left, 0, cur, c :: rest =>
    if left > 0 && isPrefixC sep (c :: rest) then cur :: splitGo sep (left - 1) (sep.length - 1) [] rest
    else splitGo sep left 0 (cur ++ [c]) rest

/-- `split_whitespace` -/
def splitWsGo : TStr → TStr → List TStr
  | cur, [] => if cur.isEmpty then [] else [cur]
  | cur, c :: rest =>
    if isWs c.c then (if cur.isEmpty then splitWsGo [] rest else cur :: splitWsGo [] rest)
    else splitWsGo (cur ++ [c]) rest

/-- pieces at `\n` (all of them, including a trailing empty one) -/
def splitNl : TStr → TStr → List TStr
  | cur, [] => [cur]
  | cur, c :: rest => if c.c == '\n' then cur :: splitNl [] rest else splitNl (cur ++ [c]) rest

/-- `strip_suffix(c0)` -/
def stripLast (c0 : Char) (l : TStr) : TStr :=
  match l.reverse with
  | c :: r => if c.c == c0 then r.reverse else l
  | [] => l

def stripCr (l : TStr) : TStr := stripLast '\r' l

/-- `str::lines`: split at `\n`, no trailing empty line, one `\r` before the `\n` removed -/
def linesOf (s : TStr) : List TStr :=
  let ps := splitNl [] s
  let ps := match ps.reverse with
    | last :: r => if last.isEmpty then r.reverse.map stripCr else (last :: r.map stripCr).reverse
    | [] => []
  ps

def trimBy (p : Char → Bool) (s : TStr) : TStr :=
  ((s.dropWhile (fun ch => p ch.c)).reverse.dropWhile (fun ch => p ch.c)).reverse

/-- `strip_trailing_newline` of the `indent` filter -/
def stripTrailingNl (s : TStr) : TStr := stripLast '\r' (stripLast '\n' s)

def spaces (n : Nat) : TStr := List.replicate n ⟨' ', .tmpl⟩
def nl : TChar := ⟨'\n', .tmpl⟩

/-- body of the `indent` filter -/
def indentStr (s : TStr) (width : Nat) (first blank : Bool) : TStr :=
  let input := stripTrailingNl s
  let ls := splitNl [] input
  let ind (l : TStr) : TStr := if l.isEmpty then (if blank then spaces width else []) else spaces width ++ l
  let out : TStr := match ls, first with
    | l :: rest, false => l ++ [nl] ++ rest.flatMap (fun l => ind l ++ [nl])
    | ls, _ => ls.flatMap (fun l => ind l ++ [nl])
  stripTrailingNl out

/-! ### case mapping: ASCII plus the Greek letters of the correspondence alphabet.  The real filters
use the Unicode tables; that *no* character's image contains a metacharacter is validated
exhaustively over all scalar values by the harness (class hypothesis `Reflects`). -/

def upperC (c : Char) : List Char :=
  if 97 ≤ c.toNat ∧ c.toNat ≤ 122 then [Char.ofNat (c.toNat - 32)]
  else if 945 ≤ c.toNat ∧ c.toNat ≤ 969 ∧ c.toNat ≠ 962 then [Char.ofNat (c.toNat - 32)]
  else if c == 'ß' then ['S', 'S']
  else [c]

def lowerC (c : Char) : List Char :=
  if 65 ≤ c.toNat ∧ c.toNat ≤ 90 then [Char.ofNat (c.toNat + 32)]
  else if 913 ≤ c.toNat ∧ c.toNat ≤ 937 ∧ c.toNat ≠ 930 then [Char.ofNat (c.toNat + 32)]
  else [c]

/-- apply a character map, images inherit the taint of their source -/
def mapChars (f : Char → List Char) (s : TStr) : TStr :=
  s.flatMap fun ch => (f ch.c).map (fun d => ⟨d, ch.t⟩)

def capitalizeStr (s : TStr) : TStr :=
  match s with
  | [] => []
  | c :: rest => mapChars upperC [c] ++ mapChars lowerC rest

def isAsciiPunct (c : Char) : Bool :=
  let n := c.toNat
  (33 ≤ n && n ≤ 47) || (58 ≤ n && n ≤ 64) || (91 ≤ n && n ≤ 96) || (123 ≤ n && n ≤ 126)

def titleGo : Bool → TStr → TStr
  | _, [] => []
  | cap, c :: rest =>
    if isAsciiPunct c.c || isWs c.c then c :: titleGo true rest
    else if cap then mapChars upperC [c] ++ titleGo false rest
    else mapChars lowerC [c] ++ titleGo false rest

/-! ## filters and operators as functions on argument lists (`none` = the engine reports an error) -/

abbrev Fn := List V → Option V

def isStr : V → Bool
  | .str _ _ => true
  | _ => false

/-- `~`, and `+` on strings: `format!("{left}{right}")` -/
def concatF : Fn
  | [a, b] => some (.str (a.display ++ b.display) false)
  | _ => Option.none

/-- `+` on two strings (anything else involving a string is an error) -/
def addF : Fn
  | [.str a _, .str b _] => some (.str (a ++ b) false)
  | _ => Option.none

/-- `*` on a string -/
def repeatF (n : Nat) : Fn
  | [.str s _] => some (.str ((List.replicate n s).flatten) false)
  | _ => Option.none

/-- `v[a:b]` with `0 ≤ a ≤ b` (`ops::slice` never looks at the bit; elements of sequences are kept) -/
def sliceF (a b : Nat) : Fn
  | [.str s _] => some (.str ((s.drop a).take (b - a)) false)
  | [.seq xs] => some (.seq ((xs.drop a).take (b - a)))
  | [.bytes bs] => some (.bytes ((bs.drop a).take (b - a)))
  | [.undef] => some (.seq [])
  | [.none] => some (.seq [])
  | _ => Option.none

/-- `v[k]`, `v|attr(k)`, loop item `k`: element of a sequence, or a character of a string -/
def elemF (k : Nat) : Fn
  | [.str s _] => some (match s[k]? with | some c => .str [c] false | Option.none => .undef)
  | [.seq xs] => some (xs[k]?.getD .undef)
  | _ => Option.none

/-- iteration over a string / `|list` of a string -/
def charsF : Fn
  | [.str s _] => some (.seq (s.map fun c => .str [c] false))
  | [.seq xs] => some (.seq xs)
  | [.map kvs] => some (.seq (kvs.map fun kv => .str (ofData kv.1) false))
  | [.undef] => some (.seq [])
  | [.none] => some (.seq [])
  | _ => Option.none

/-- `v.key`, `v[key]`, `v|attr(key)` on a map -/
def attrF (key : String) : Fn
  | [.map kvs] => some ((kvs.lookup key).getD .undef)
  | [.undef] => Option.none
  | [_] => some .undef
  | _ => Option.none

/-- `items`: pairs `[key, value]` -/
def itemsF : Fn
  | [.map kvs] => some (.seq (kvs.map fun kv => .seq [.str (ofData kv.1) false, kv.2]))
  | _ => Option.none

/-- `|safe` (also `Value::from_safe_string` done by the host) — *excluded from the fragment* -/
def safeF : Fn
  | [v] => some (.str v.display true)
  | _ => Option.none

/-- `|e`, `|escape` -/
def escapeF (m : Mode) : Fn
  | [.str s true] => some (.str s true)
  | [v] => some (.str (escapeWrite m v) true)
  | _ => Option.none

/-- filters of the shape `value.preserve_safety(g(value.as_str()))` -/
def preserveF (g : TStr → TStr) : Fn
  | v :: _ => let x := StrIn.ofV v; some (x.preserve (g x.s))
  | _ => Option.none

/-- filters that return an unmarked string -/
def normalF (g : List V → TStr) : Fn := fun args => some (.str (g args) false)

/-- `reverse`: strings keep the bit, sequences are reversed -/
def reverseF : Fn
  | [.str s safe] => some (.str s.reverse safe)
  | [.seq xs] => some (.seq xs.reverse)
  | [.bytes bs] => some (.bytes bs.reverse)
  | [.undef] => some .undef
  | [.none] => some .none
  | _ => Option.none

/-- filters returning pieces of a string that inherit its bit: `split`, `lines` (`Arc<str>::try_from`
    accepts strings only) -/
def piecesF (g : TStr → List TStr) : Fn
  | .str s safe :: _ => some (.seq ((g s).map fun p => .str p safe))
  | _ => Option.none

/-- `first` -/
def firstF : Fn
  | [.str s _] => some (match s with | c :: _ => .str [c] false | [] => .undef)
  | [.seq xs] => some (xs.head?.getD .undef)
  | _ => Option.none

/-- `last` (the last character keeps the bit) -/
def lastF : Fn
  | [.str s safe] => some (match s.getLast? with | some c => .str [c] safe | Option.none => .undef)
  | [.seq xs] => some (xs.getLast?.getD .undef)
  | _ => Option.none

def truthy : V → Bool
  | .str s _ => !s.isEmpty
  | .int n => n != 0
  | .bool b => b
  | .seq xs => !xs.isEmpty
  | .map kvs => !kvs.isEmpty
  | .bytes bs => !bs.isEmpty
  | .float cs => cs != "0.0".toList
  | .obj _ => true
  | _ => false

/-- `default(value, other = "", lax = false)` -/
def defaultF (lax : Bool) : Fn
  | [v] => some (match v with | .undef => .str [] false | _ => if lax && !truthy v then .str [] false else v)
  | [v, d] => some (match v with | .undef => d | _ => if lax && !truthy v then d else v)
  | _ => Option.none

/-- `string` -/
def stringF : Fn
  | [.str s safe] => some (.str s safe)
  | [v] => some (.str v.display false)
  | _ => Option.none

def lengthF : Fn
  | [.str s _] => some (.int s.length)
  | [.seq xs] => some (.int xs.length)
  | [.map kvs] => some (.int kvs.length)
  | [.bytes bs] => some (.int bs.length)
  | _ => Option.none

/-- `replace(value, from, to)` -/
def replaceF (m : Mode) : Fn
  | [v, f, t] =>
    let value := StrIn.ofV v; let pat := StrIn.ofV f; let to := StrIn.ofV t
    let safetyAware := m != .none && (value.safe || pat.safe || to.safe)
    if safetyAware then some (.str (replaceAll (value.format m) pat.s (to.format m)) true)
    else some (.str (replaceAll value.s pat.s to.s) false)
  | _ => Option.none

/-- `state.format(item)`: the formatter applied to one value -/
def stateFormat (m : Mode) (v : V) : TStr := writeEscaped m v

def isSafeV : V → Bool
  | .str _ true => true
  | _ => false

def joinPlain (items : List V) (joiner : TStr) : TStr :=
  match items with
  | [] => []
  | [x] => x.display
  | x :: rest => x.display ++ joiner ++ joinPlain rest joiner

def joinSafe (m : Mode) (items : List V) (joiner : TStr) : TStr :=
  match items with
  | [] => []
  | [x] => (if isSafeV x then x.display else stateFormat m x)
  | x :: rest => (if isSafeV x then x.display else stateFormat m x) ++ joiner ++ joinSafe m rest joiner

def iterItems : V → Option (List V)
  | .seq xs => some xs
  | .str s _ => some (s.map fun c => .str [c] false)
  | .map kvs => some (kvs.map fun kv => .str (ofData kv.1) false)
  | .undef => some []
  | .none => some []
  | _ => Option.none

def joinerStr : Option StrIn → TStr
  | some j => j.s
  | Option.none => []
def joinerSafe : Option StrIn → Bool
  | some j => j.safe
  | Option.none => false
def joinerFmt (m : Mode) : Option StrIn → TStr
  | some j => j.format m
  | Option.none => []

/-- body of `join` once the joiner argument is converted -/
def joinGo (m : Mode) (v : V) (j : Option StrIn) : Option V :=
  match iterItems v with
  | Option.none => Option.none
  | some items =>
    if m = .none then some (.str (joinPlain items (joinerStr j)) false)
    else if joinerSafe j then some (.str (joinSafe m items (joinerStr j)) true)
    else if items.any isSafeV then some (.str (joinSafe m items (joinerFmt m j)) true)
    else some (.str (joinPlain items (joinerStr j)) false)

/-- `join(value, joiner?)` -/
def joinF (m : Mode) : Fn
  | [v] => joinGo m v Option.none
  | [v, .none] => joinGo m v Option.none
  | [v, .undef] => joinGo m v Option.none
  | [v, j] => joinGo m v (some (StrIn.ofV j))
  | _ => Option.none

/-! ### printf (`formatting.rs`, the part the `format` filter needs for strings and integers):
`%%`, `%s`, `%d`, with `-` flag, width and precision. -/

structure Spec where
  left : Bool := false
  width : Nat := 0
  prec : Option Nat := Option.none
  ty : Char := 's'

def digitsVal (ds : List Char) : Nat := ds.foldl (fun a d => a * 10 + (d.toNat - 48)) 0

def isDig (c : TChar) : Bool := c.c.isDigit

def dropFlag (s : TStr) : Bool × TStr :=
  match s with
  | c :: r => if c.c == '-' then (true, r) else (false, c :: r)
  | [] => (false, [])

def parsePrec (s : TStr) : Option Nat × TStr :=
  match s with
  | c :: r =>
    if c.c == '.' then (some (digitsVal ((r.takeWhile isDig).map (·.c))), r.dropWhile isDig)
    else (Option.none, c :: r)
  | [] => (Option.none, [])

/-- parse after `%`: flag `-`, width, `.precision`, type; returns the spec and the rest -/
def parseSpec (s : TStr) : Option (Spec × TStr) :=
  let lf := dropFlag s
  let w := lf.2.takeWhile isDig
  let ps := parsePrec (lf.2.dropWhile isDig)
  match ps.2 with
  | c :: r =>
    if c.c == 's' || c.c == 'd' || c.c == 'c' then
      some ({ left := lf.1, width := digitsVal (w.map (·.c)), prec := ps.1, ty := c.c }, r)
    else Option.none
  | [] => Option.none

/-- `str::len`: UTF-8 bytes -/
def utf8Len (t : TStr) : Nat := (t.map (fun ch => ch.c.utf8Size)).sum

/-- `apply_padding`: the current width is measured in bytes -/
def pad (sp : Spec) (t : TStr) : TStr :=
  if sp.left then t ++ spaces (sp.width - utf8Len t) else spaces (sp.width - utf8Len t) ++ t

/-- `FormatSpec::format_str` for `%s` -/
def fmtStr (sp : Spec) (t : TStr) : Option TStr :=
  if sp.ty == 's' || sp.ty == 'c' then
    some (pad sp (match sp.prec with | some p => t.take p | Option.none => t))
  else Option.none

/-- `FormatSpec::format` for the value kinds of the model (`%s` and `%d` of integers/booleans, `%s`
    of everything else) -/
def fmtValue (sp : Spec) (v : V) : Option TStr :=
  match v with
  | .int n => if sp.prec.isSome then Option.none else some (pad sp (ofDataL (intChars n)))
  | .bool b =>
    if sp.ty == 's' && sp.prec.isNone then some (pad sp (ofData (if b then "True" else "False")))
    else Option.none
  | v => fmtStr sp v.display

/-- `format_printf_with`; `tr` is the `transform` closure.  `fuel` bounds the number of tokens. -/
def printfGo (tr : V → Char → Option V) : Nat → TStr → List V → Option TStr
  | 0, _, _ => Option.none
  | _, [], _ => some []
  | fuel + 1, c :: rest, args =>
    if c.c == '%' then
      match rest with
      | d :: rest' =>
        if d.c == '%' then (printfGo tr fuel rest' args).map (c :: ·)
        else
          match parseSpec (d :: rest') with
          | Option.none => Option.none
          | some (sp, rest'') =>
            match args with
            | [] => Option.none
            | a :: args' =>
              match tr a sp.ty with
              | Option.none => Option.none
              | some a' =>
                match fmtValue sp a' with
                | Option.none => Option.none
                | some t => (printfGo tr fuel rest'' args').map (t ++ ·)
      | [] => Option.none
    else (printfGo tr fuel rest args).map (c :: ·)

def isScalar : V → Bool
  | .int _ => true
  | .bool _ => true
  | _ => false

/-- `format(format_str, args…)` -/
def formatF (m : Mode) : Fn
  | .str f safe :: args =>
    if safe then
      let tr (v : V) (ty : Char) : Option V :=
        if ty == 'c' then Option.none
        else if isSafeV v || isScalar v then some v
        else some (.str (escapeWrite m v) false)
      (printfGo tr (f.length + 1) f args).map (fun r => .str r true)
    else
      -- `%c` of an integer is the character with that code point (unmarked result only)
      let tr (v : V) (ty : Char) : Option V :=
        if ty == 'c' then
          match v with
          | .int n => some (.str [⟨Char.ofNat n.toNat, .data⟩] false)
          | .str [ch] _ => some (.str [ch] false)
          | _ => Option.none
        else some v
      (printfGo tr (f.length + 1) f args).map (fun r => .str r false)
  | _ => Option.none

/-- contrib `truncate(value, length, killwords, end, leeway)` -/
def truncateF (m : Mode) (length leeway : Nat) (killwords : Bool) : Fn
  | [v, e] =>
    match v, e with
    | .none, _ => some (.str [] false)
    | .undef, _ => some (.str [] false)
    | .str s vsafe, .str es esafe =>
      if length < es.length then Option.none
      else if s.length ≤ length + leeway then some v
      else
        let cut := s.take (length - es.length)
        let truncated : TStr :=
          if killwords then cut
          else match (cut.reverse.dropWhile (fun c => c.c != ' ')) with
            | _ :: r => r.reverse
            | [] => cut
        if vsafe || esafe then
          some (.str ((if vsafe then truncated else escapeWrite m (.str truncated false))
                      ++ (if esafe then es else escapeWrite m (.str es false))) true)
        else some (.str (truncated ++ es) false)
    | _, _ => Option.none
  | _ => Option.none

/-- `tojson` of a string — *excluded from the fragment* (documented to return markup; keeps `"`) -/
def tojsonF : Fn
  | [.str s _] =>
    let esc (ch : TChar) : TStr :=
      if ch.c == '<' then ofTmpl "\\u003c" else if ch.c == '>' then ofTmpl "\\u003e"
      else if ch.c == '&' then ofTmpl "\\u0026" else if ch.c == '\'' then ofTmpl "\\u0027" else [ch]
    some (.str ((jsonStr s).flatMap esc) true)
  | _ => Option.none

/-- `map(filter, args…)`: the filter applied to every item with the extra arguments -/
def mapF (g : Fn) : Fn
  | v :: extra =>
    match iterItems v with
    | Option.none => Option.none
    | some items => (items.mapM fun it => g (it :: extra)).map .seq
  | _ => Option.none

/-! ### filters that only select / reorder their inputs (exact on lists of strings) -/

def codes (s : TStr) : List Nat := s.map (·.c.toNat)

/-- lexicographic `<` on code points (= byte order of UTF-8, the order of `str`) -/
def ltCodes : List Nat → List Nat → Bool
  | [], [] => false
  | [], _ :: _ => true
  | _ :: _, [] => false
  | a :: as, b :: bs => a < b || (a == b && ltCodes as bs)

def strOf : V → Option TStr
  | .str s _ => some s
  | _ => Option.none

/-- sort key of a string: case-insensitive by default (`cmp_helper`) -/
def sortKey (cs : Bool) (v : V) : List Nat :=
  match v with
  | .str s _ => if cs then codes s else codes (mapChars lowerC s)
  | _ => []

/-- stable insertion sort by `sortKey` (`x` stood before everything in the list: it goes in front
    of the first element that is not smaller) -/
def insertBy (cs : Bool) (x : V) : List V → List V
  | [] => [x]
  | y :: ys => if ltCodes (sortKey cs y) (sortKey cs x) then y :: insertBy cs x ys else x :: y :: ys

def sortVs (cs : Bool) (xs : List V) : List V := xs.foldr (fun x acc => insertBy cs x acc) []

/-- `sort(case_sensitive=cs, reverse=rev)` on a list of strings -/
def sortF (cs rev : Bool) : Fn
  | [.seq xs] => if xs.all isStr then some (.seq (if rev then (sortVs cs xs.reverse).reverse else sortVs cs xs)) else Option.none
  | _ => Option.none

/-- the first minimal element (`Iterator::min` keeps the first of equal elements) -/
def minVs : List V → Option V
  | [] => Option.none
  | x :: xs => match minVs xs with
    | Option.none => some x
    | some m => if ltCodes (sortKey true m) (sortKey true x) then some m else some x

/-- the last maximal element (`Iterator::max` keeps the last of equal elements) -/
def maxVs : List V → Option V
  | [] => Option.none
  | x :: xs => match maxVs xs with
    | Option.none => some x
    | some m => if ltCodes (sortKey true m) (sortKey true x) then some x else some m

def minF : Fn
  | [.seq xs] => if xs.all isStr then some ((minVs xs).getD .undef) else Option.none
  | _ => Option.none
def maxF : Fn
  | [.seq xs] => if xs.all isStr then some ((maxVs xs).getD .undef) else Option.none
  | _ => Option.none

/-- `select` / `reject` without a test -/
def selectF (invert : Bool) : Fn
  | [.seq xs] => some (.seq (xs.filter fun x => truthy x != invert))
  | _ => Option.none

def chunks : Nat → Nat → List V → List (List V)
  | 0, _, _ => []
  | fuel + 1, n, xs => if xs.isEmpty then [] else xs.take n :: chunks fuel n (xs.drop n)

/-- `batch(n, fill_with?)` -/
def batchF (n : Nat) : Fn := fun args =>
  let go (xs : List V) (fill : Option V) : Option V :=
    if n = 0 then Option.none else
      let cs := chunks xs.length n xs
      let cs := match fill, cs.reverse with
        | some f, last :: rest => (((last ++ List.replicate (n - last.length) f) :: rest).reverse)
        | _, _ => cs
      some (.seq (cs.map .seq))
  match args with
  | [.seq xs] => go xs Option.none
  | [.seq xs, .undef] => go xs Option.none
  | [.seq xs, .none] => go xs Option.none
  | [.seq xs, f] => go xs (some f)
  | _ => Option.none

/-- `unique(case_sensitive=true)` on strings: first occurrences -/
def uniqGo : List (List Nat) → List V → List V
  | _, [] => []
  | seen, x :: xs => if seen.contains (sortKey true x) then uniqGo seen xs else x :: uniqGo (sortKey true x :: seen) xs

def uniqueF : Fn
  | [.seq xs] => if xs.all isStr then some (.seq (uniqGo [] xs)) else Option.none
  | _ => Option.none

/-- `attr(key)` with the key as argument -/
def attrArgF : Fn
  | [v, .str k _] => attrF (text k) [v]
  | _ => Option.none

/-- `dictsort` (keys of the model are sorted; ASCII lower-case keys compare the same without case) -/
def dictsortF : Fn := itemsF

/-- `trim(value, chars?)` -/
def trimF : Fn
  | [v] => preserveF (trimBy isWs) [v]
  | [v, .none] => preserveF (trimBy isWs) [v]
  | [v, .undef] => preserveF (trimBy isWs) [v]
  | [v, c] => preserveF (trimBy (fun x => contains (StrIn.ofV c).s x)) [v]
  | _ => Option.none

/-- `split(value, sep?, maxsplits?)`; `left` = number of splits still allowed -/
def splitF (left : Nat) : Fn
  | [v] => piecesF (splitWsGo []) [v]
  | [v, .none] => piecesF (splitWsGo []) [v]
  | [v, .undef] => piecesF (splitWsGo []) [v]
  | [v, sep] =>
    let sp := (StrIn.ofV sep).s
    if sp.isEmpty then Option.none else piecesF (splitGo sp left 0 []) [v]
  | _ => Option.none

/-! ### `minijinja-contrib` pycompat methods (`unknown_method_callback`): everything returns an
unmarked value except `capitalize` (the `capitalize` filter) and `split` (the `split` filter) -/

/-- `strip` / `lstrip` / `rstrip` (`side` 0 / 1 / 2) -/
def stripSide (side : Nat) (p : Char → Bool) (s : TStr) : TStr :=
  if side = 1 then s.dropWhile (fun ch => p ch.c)
  else if side = 2 then (s.reverse.dropWhile (fun ch => p ch.c)).reverse
  else trimBy p s

def strStripF (side : Nat) : Fn
  | [.str s _] => some (.str (stripSide side isWs s) false)
  | [.str s _, .none] => some (.str (stripSide side isWs s) false)
  | [.str s _, .str cs _] => some (.str (stripSide side (fun x => contains cs x) s) false)
  | _ => Option.none

def strMapF (g : TStr → TStr) : Fn
  | [.str s _] => some (.str (g s) false)
  | _ => Option.none

def strReplaceF : Fn
  | [.str s _, .str o _, .str n _] => some (.str (replaceAll s o n) false)
  | _ => Option.none

def strJoinF : Fn
  | [.str s _, v] => (iterItems v).map fun items => .str (joinPlain items s) false
  | _ => Option.none

def strSplitlinesF : Fn
  | [.str s _] => some (.seq ((linesOf s).map fun l => .str l false))
  | _ => Option.none

def dictValuesF : Fn
  | [.map kvs] => some (.seq (kvs.map (·.2)))
  | _ => Option.none

/-- an `Option<Value>` argument: undefined and none both mean "not given" -/
def optArg : V → V
  | .undef => .none
  | v => v

def dictGetF : Fn
  | [.map kvs, .str k _] => some ((kvs.lookup (text k)).getD .none)
  | [.map kvs, .str k _, d] => some ((kvs.lookup (text k)).getD (optArg d))
  | _ => Option.none

def headDisplay : List V → TStr
  | v :: _ => v.display
  | [] => []

/-- contrib `random`: one element of a sequence, or one character of a string — the character of a
    `Safe` string keeps the bit; `k` = the index the random generator picked -/
def randomF (k : Nat) : Fn
  | [.str s safe] => some (match s[k]? with | some c => .str [c] safe | Option.none => .undef)
  | [.seq xs] => some (xs[k]?.getD .undef)
  | _ => Option.none

/-- contrib `lipsum(…, html=b)`: text assembled from a constant word list and `<p>` tags, marked safe
    when `html=true`.  No argument flows into the text, so every character is engine text; `cps` =
    the code points the engine produced (the words are drawn at random) -/
def lipsumF (html : Bool) (cps : List Nat) : Fn :=
  fun _ => some (.str (ofTmpl (String.ofList (cps.map Char.ofNat))) html)

/-! ### names: the operators/filters the driver can run.  The flag says whether the construct
belongs to the safe-marking-free fragment of the property (`safe` and `tojson` do not). -/

def lookupBase (name : String) (m : Mode) (ps : List Nat) : Option (Fn × Bool) :=
  match name with
  | "concat" => some (concatF, true)
  | "add" => some (addF, true)
  | "repeat" => some (repeatF (ps.headD 0), true)
  | "slice" => some (sliceF (ps.headD 0) (ps.getD 1 0), true)
  | "elem" => some (elemF (ps.headD 0), true)
  | "chars" => some (charsF, true)
  | "list" => some (charsF, true)
  | "escape" => some (escapeF m, true)
  | "upper" => some (preserveF (mapChars upperC), true)
  | "lower" => some (preserveF (mapChars lowerC), true)
  | "capitalize" => some (preserveF capitalizeStr, true)
  | "title" => some (normalF (fun args => titleGo true (headDisplay args)), true)
  | "trim" => some (trimF, true)
  | "reverse" => some (reverseF, true)
  | "indent" => some (preserveF (fun s => indentStr s (ps.headD 4) (ps.getD 1 0 != 0) (ps.getD 2 0 != 0)), true)
  | "replace" => some (replaceF m, true)
  | "join" => some (joinF m, true)
  | "format" => some (formatF m, true)
  | "truncate" => some (truncateF m (ps.headD 255) (ps.getD 1 5) (ps.getD 2 0 != 0), true)
  | "split" => some (splitF (ps.headD 1000000), true)
  | "lines" => some (piecesF linesOf, true)
  | "first" => some (firstF, true)
  | "last" => some (lastF, true)
  | "default" => some (defaultF (ps.headD 0 != 0), true)
  | "string" => some (stringF, true)
  | "length" => some (lengthF, true)
  | "items" => some (itemsF, true)
  | "sort" => some (sortF (ps.headD 0 != 0) (ps.getD 1 0 != 0), true)
  | "min" => some (minF, true)
  | "max" => some (maxF, true)
  | "select" => some (selectF false, true)
  | "reject" => some (selectF true, true)
  | "batch" => some (batchF (ps.headD 1), true)
  | "unique" => some (uniqueF, true)
  | "attr" => some (attrArgF, true)
  | "dictsort" => some (dictsortF, true)
  | "str.upper" => some (strMapF (mapChars upperC), true)
  | "str.lower" => some (strMapF (mapChars lowerC), true)
  | "str.title" => some (strMapF (titleGo true), true)
  | "str.strip" => some (strStripF 0, true)
  | "str.lstrip" => some (strStripF 1, true)
  | "str.rstrip" => some (strStripF 2, true)
  | "str.replace" => some (strReplaceF, true)
  | "str.join" => some (strJoinF, true)
  | "str.splitlines" => some (strSplitlinesF, true)
  | "str.capitalize" => some (preserveF capitalizeStr, true)
  | "str.split" => some (splitF (ps.headD 1000000), true)
  | "dict.items" => some (itemsF, true)
  | "dict.keys" => some (charsF, true)
  | "dict.values" => some (dictValuesF, true)
  | "dict.get" => some (dictGetF, true)
  | "random" => some (randomF (ps.headD 0), true)
  | "lipsum" => some (lipsumF (ps.headD 0 != 0) (ps.drop 1), true)
  | "safe" => some (safeF, false)
  | "tojson" => some (tojsonF, false)
  | _ => Option.none

/-- `map.<filter>` = the `map` filter applied with a filter name -/
def lookupF (name : String) (m : Mode) (ps : List Nat) : Option (Fn × Bool) :=
  if name.startsWith "map." then
    (lookupBase (name.drop 4).toString m ps).map fun (g, ok) => (mapF g, ok)
  else lookupBase name m ps

/-! ### the class table: every registered filter and global function has a safety class -/

inductive Class where
  /-- exact model above, proved to preserve the invariant -/
  | modelled
  /-- returns arguments / parts / containers of them; everything it creates itself is unmarked -/
  | forward
  /-- returns an unmarked string, a number, a boolean … (no `Safe` leaf) -/
  | normal
  /-- applies another filter to every item -/
  | mapped
  /-- returns an argument, or a piece of a string argument that inherits its bit -/
  | pieces
  /-- every string leaf of the result, text and bit, is a string leaf (or map key) of an argument -/
  | select
  /-- explicit safe marking or documented to return markup: outside the fragment -/
  | markup
  /-- not compiled into the harness (cargo feature off) — class from reading only -/
  | unbuilt (c : String)
  deriving Repr, DecidableEq

def classOf : String → Option Class
  | "escape" | "e" | "upper" | "lower" | "capitalize" | "title" | "trim" | "reverse" | "indent"
  | "replace" | "join" | "format" | "truncate" | "split" | "lines" | "first" | "last"
  | "default" | "d" | "string" | "length" | "count" | "list" | "items"
  | "str.upper" | "str.lower" | "str.title" | "str.strip" | "str.lstrip" | "str.rstrip" | "str.replace"
  | "str.join" | "str.splitlines" | "str.capitalize" | "str.split"
  | "dict.items" | "dict.keys" | "dict.values" | "dict.get"
  | "attr" | "batch" | "sort" | "unique" | "min" | "max" | "select" | "reject" | "dictsort"
  | "random" | "lipsum" => some .modelled
  | "slice" | "selectattr" | "rejectattr" | "groupby" | "chain" | "zip" | "cycler" | "namespace" => some .select
  | "pluralize" | "joiner" | "range" | "dict" => some .forward
  | "abs" | "bool" | "float" | "int" | "round" | "sum" | "pprint" | "urlencode" | "striptags"
  | "filesizeformat" | "debug" | "wordcount" | "wordwrap" | "dateformat" | "datetimeformat" | "timeformat"
  | "now" | "randrange"
  | "str.islower" | "str.isupper" | "str.isspace" | "str.isdigit" | "str.isnumeric" | "str.isalnum"
  | "str.isalpha" | "str.isascii" | "str.count" | "str.find" | "str.rfind" | "str.format"
  | "str.startswith" | "str.endswith" | "list.count" => some .normal
  | "map" => some .mapped
  | "safe" | "tojson" => some .markup
  | _ => Option.none

/-- program points that construct a `Safe` string and where the model accounts for them -/
def modelledSafeSites : List (String × String) := [
  ("minijinja/src/value/mod.rs::from_safe_string::markx1", "the constructor itself"),
  ("minijinja/src/output.rs::end_capture::markx1", "Step.endCapture / capturedValue"),
  ("minijinja/src/vm/macro_object.rs::call::markx1", "Step.macroReturn / capturedValue"),
  ("minijinja/src/value/argtypes.rs::preserve_safety::markx1", "StrIn.preserve / preserveF"),
  ("minijinja/src/filters.rs::upper::preservex1", "preserveF (mapChars upperC)"),
  ("minijinja/src/filters.rs::lower::preservex1", "preserveF (mapChars lowerC)"),
  ("minijinja/src/filters.rs::capitalize::preservex1", "preserveF capitalizeStr (also reached from pycompat str.capitalize)"),
  ("minijinja/src/filters.rs::trim::preservex1", "trimF"),
  ("minijinja/src/filters.rs::strip_trailing_newline::preservex1", "indent (the call follows the nested fn): preserveF indentStr"),
  ("minijinja/src/filters.rs::safe::markx1", "safeF (outside the fragment)"),
  ("minijinja/src/filters.rs::escape::markx1", "escapeF"),
  ("minijinja/src/filters.rs::replace::markx1", "replaceF"),
  ("minijinja/src/filters.rs::reverse::markx1", "reverseF"),
  ("minijinja/src/filters.rs::join_safe::markx2", "joinF (both from_safe_string calls follow the nested fn join_safe)"),
  ("minijinja/src/filters.rs::split::markx1", "splitF / piecesF (also reached from pycompat str.split)"),
  ("minijinja/src/filters.rs::lines::markx1", "piecesF linesOf"),
  ("minijinja/src/filters.rs::last::markx1", "lastF"),
  ("minijinja/src/filters.rs::tojson::markx1", "tojsonF (outside the fragment)"),
  ("minijinja/src/filters.rs::format::markx1", "formatF"),
  ("minijinja-contrib/src/filters/mod.rs::truncate::markx1", "truncateF"),
  ("minijinja-contrib/src/filters/mod.rs::random::markx1", "randomF: one character of a safe string keeps the bit"),
  ("minijinja-contrib/src/globals.rs::lipsum::markx1", "lipsumF: constant words and <p> tags, no argument flows into the text")]

/-- program points that read the `Safe` bit and where the model accounts for them -/
def modelledReaderSites : List (String × String) := [
  ("minijinja/src/value/mod.rs::is_safe::readx1", "the accessor itself"),
  ("minijinja/src/utils.rs::write_escaped::readx1", "writeEscaped"),
  ("minijinja/src/value/argtypes.rs::from_value::readx1", "StrIn.ofV"),
  ("minijinja/src/tests.rs::is_safe::readx1", "the `safe`/`escaped` test: returns a boolean"),
  ("minijinja/src/filters.rs::escape::readx1", "escapeF"),
  ("minijinja/src/filters.rs::replace::readx3", "replaceF"),
  ("minijinja/src/filters.rs::reverse::readx1", "reverseF"),
  ("minijinja/src/filters.rs::join_safe::readx2", "joinF / joinSafe / isSafeV"),
  ("minijinja/src/filters.rs::split::readx1", "splitF / piecesF"),
  ("minijinja/src/filters.rs::lines::readx1", "piecesF linesOf"),
  ("minijinja/src/filters.rs::last::readx1", "lastF"),
  ("minijinja/src/filters.rs::format::readx2", "formatF"),
  ("minijinja-contrib/src/filters/mod.rs::truncate::readx4", "truncateF"),
  ("minijinja-contrib/src/filters/mod.rs::random::readx1", "randomF")]

/-! ### the complete table of registered callables (`Gen.c02Callables`, regenerated from
`defaults.rs`, contrib `lib.rs`, `pycompat.rs` with the signature and body facts of each) -/

/-- the callable can construct a `Safe` string: its body calls `preserve_safety`, constructs one
    (`from_safe_string` / `StringType::Safe`), or calls another registered implementation that does -/
def canProduceSafe (c : Gen.C02Callable) : Bool := c.preserve || c.mark || !c.via.isEmpty

/-- exact model (name in `lookupBase`) of every registered callable that can construct a `Safe` string -/
def producerModel (kind name : String) : Option String :=
  if kind == "test" then Option.none else
  match name with
  | "escape" | "e" => some "escape"
  | "safe" => some "safe"
  | "tojson" => some "tojson"
  | "upper" => some "upper"
  | "lower" => some "lower"
  | "capitalize" => some "capitalize"
  | "trim" => some "trim"
  | "indent" => some "indent"
  | "replace" => some "replace"
  | "reverse" => some "reverse"
  | "join" => some "join"
  | "split" => some "split"
  | "lines" => some "lines"
  | "last" => some "last"
  | "format" => some "format"
  | "truncate" => some "truncate"
  | "random" => some "random"
  | "lipsum" => some "lipsum"
  | "str.capitalize" => some "str.capitalize"
  | "str.split" => some "str.split"
  | _ => Option.none

/-- return types whose conversion into a `Value` cannot carry the `Safe` bit (`Value::from(String)`
    builds `StringType::Normal`: `Gen.c02FromStringIsNormal`) -/
def retScalar (r : String) : Bool :=
  ["String", "bool", "usize", "i64", "Result<String, Error>", "Result<usize, Error>", "Result<bool, Error>"].contains r

/-- return types that can hold an argument value unchanged -/
def retValue (r : String) : Bool :=
  ["Value", "Result<Value, Error>", "Result<Vec<Value>, Error>"].contains r

/-- program points that mark strings and are not the body of a registered callable: the primitives -/
def corePrimitiveSites : List (String × String) := [
  ("minijinja/src/value/mod.rs", "from_safe_string"), ("minijinja/src/value/argtypes.rs", "preserve_safety"),
  ("minijinja/src/output.rs", "end_capture"), ("minijinja/src/vm/macro_object.rs", "call")]

/-! ## the machine: registers, capture stack, output -/

structure St where
  /-- registers -/
  pool : Array V := #[]
  /-- open capture buffers, innermost first; every buffer holds its text **reversed** -/
  caps : List TStr := []
  /-- the rendered output so far, **reversed** (appending is then linear in what is appended) -/
  outR : TStr := []

/-- the rendered output -/
def St.out (st : St) : TStr := st.outR.reverse

def St.write (st : St) (s : TStr) : St :=
  match st.caps with
  | [] => { st with outR := s.reverse ++ st.outR }
  | b :: r => { st with caps := (s.reverse ++ b) :: r }

/-- append a register (the fields are taken apart first so that the array is updated in place) -/
def St.push : St → V → St
  | ⟨pool, caps, outR⟩, v => ⟨pool.push v, caps, outR⟩

theorem St.push_eq (st : St) (v : V) : st.push v = { st with pool := st.pool.push v } := by
  cases st; rfl

/-- `Output::end_capture(auto_escape)` / the tail of `Macro::call` -/
def capturedValue (m : Mode) (buf : TStr) : V := .str buf (m != .none)

inductive Step where
  /-- a string from the context or a string literal of an expression -/
  | data (s : String)
  | int (n : Int)
  | bool (b : Bool)
  | none
  | undef
  /-- list literal / context list -/
  | mkSeq (is : List Nat)
  /-- map literal -/
  | mkMap (kis : List (String × Nat))
  /-- a whole value handed in by the host (context) -/
  | value (v : V)
  /-- `EmitRaw`: template text -/
  | raw (s : String)
  /-- `Emit` in mode `m` -/
  | emit (m : Mode) (i : Nat)
  | beginCapture
  /-- `EndCapture`, `PopLoopFrame` of a recursive loop call, `super()` — mode in effect at the end -/
  | endCapture (m : Mode)
  /-- result of a macro / call block (`Macro::call`; body output collected since `beginCapture`) -/
  | macroReturn (m : Mode)
  /-- any operator or filter: `g` applied to registers -/
  | apply (g : Fn) (is : List Nat)

def St.args (st : St) (is : List Nat) : Option (List V) := is.mapM (fun i => st.pool[i]?)

/-- insertion into a map kept sorted by key; a repeated key replaces the value -/
def insertKV (k : String) (v : V) : List (String × V) → List (String × V)
  | [] => [(k, v)]
  | (k', v') :: rest =>
    if k < k' then (k, v) :: (k', v') :: rest
    else if k = k' then (k, v) :: rest
    else (k', v') :: insertKV k v rest

def St.kvArgs (st : St) (kis : List (String × Nat)) : Option (List (String × V)) :=
  kis.mapM (fun ki => (st.pool[ki.2]?).map fun v => (ki.1, v))

def Step.run (st : St) : Step → Option St
  | .data s => some (st.push (.str (ofData s) false))
  | .int n => some (st.push (.int n))
  | .bool b => some (st.push (.bool b))
  | .none => some (st.push .none)
  | .undef => some (st.push .undef)
  | .mkSeq is => (st.args is).map fun xs => st.push (.seq xs)
  | .mkMap kis => (st.kvArgs kis).map fun kvs => st.push (.map (kvs.foldl (fun acc kv => insertKV kv.1 kv.2 acc) []))
  | .value v => some (st.push v)
  | .raw s => some (st.write (ofTmpl s))
  | .emit m i => (st.pool[i]?).map fun v => st.write (writeEscaped m v)
  | .beginCapture => some { st with caps := [] :: st.caps }
  | .endCapture m =>
    match st.caps with
    | buf :: rest => some ({ st with caps := rest }.push (capturedValue m buf.reverse))
    | [] => Option.none
  | .macroReturn m =>
    match st.caps with
    | buf :: rest => some ({ st with caps := rest }.push (capturedValue m buf.reverse))
    | [] => Option.none
  | .apply g is =>
    match st.args is with
    | Option.none => Option.none
    | some xs => (g xs).map st.push

def run : List Step → St → Option St
  | [], st => some st
  | s :: rest, st =>
    match s.run st with
    | Option.none => Option.none
    | some st' => run rest st'

end MJ.Safe
