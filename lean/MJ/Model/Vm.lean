import MJ.Model.Compile
/-!
# Model of the VM for the instructions `MJ.Compile` emits (C03)

`vm/mod.rs: eval_impl` + `vm/context.rs` + `vm/loop_object.rs` + `vm/macro_object.rs` for the
instructions of the core fragment, lenient undefined behaviour, no auto-escaping: operand stack,
frame stack (locals, optional loop state, the closure a frame owns / reads), capture stack, program
counter, and the state-owned closures of macros (`Enclose` copies the current value of a free name
into the closure of the declaring frame, every later store into that frame is duplicated into it, a
macro's first frame reads it).  `step` is one instruction that is not a call; a call
(`CallFunction`) runs the macro's code in a fresh context (`callF` / `run`, mutually recursive on a
step budget; running out of steps is `Err.fuel`).

Value-level operations are those of `MJ.Eval` (the VM and the reference semantics share the value
model; what is independent is the control structure: jumps, frames, captures).
-/
namespace MJ.Vm
open MJ.Eval MJ.Compile

/-- `LoopState` + `Loop` + `AdjacentLoopItemIterWrapper` -/
structure LoopSt where
  withLoopVar : Bool
  len : Option Nat
  /-- number of `next()` calls so far -/
  calls : Nat
  iterated : Bool
  prev : Option Val
  cur : Option Val
  rest : List Val
  deriving Inhabited

structure Frame where
  locals : Scope := []
  loop : Option LoopSt := none
  /-- `Frame::closure`: the closure that receives a copy of every store into this frame (created by
  the first `Enclose` executed in the frame) -/
  closure : Option Nat := none
  /-- `Frame::closure_context`: the closure the first frame of a macro call reads -/
  closureCtx : Option Nat := none
  deriving Inhabited

structure VmState where
  pc : Nat := 0
  stack : List Val := []
  frames : List Frame := [{}]
  /-- capture buffers, innermost first; the last one is the output of the template -/
  outs : List String := [""]
  /-- `State::closures`: the closures of all macros declared so far -/
  closures : List Scope := []
  deriving Inhabited

def LoopSt.info (l : LoopSt) : LoopInfo :=
  { index0 := l.calls - 1, length := l.len, prev := l.prev, next := l.rest.head? }

/-- what the locals and the loop variable of one frame answer for a name -/
def frameLocal (f : Frame) (x : String) : Option Val :=
  match assocGet x f.locals with
  | some v => some v
  | none =>
    match f.loop with
    | some l => if l.withLoopVar && x == "loop" then some (loopVal l.info) else none
    | none => none

/-- what a frame answers: its locals, `loop`, then the closure it reads -/
def frameLookup (closures : List Scope) (f : Frame) (x : String) : Option Val :=
  match frameLocal f x with
  | some v => some v
  | none => (f.closureCtx.bind fun c => closures[c]?).bind (assocGet x)

/-- `Context::load` -/
def lookupFrames (ctx : Scope) (closures : List Scope) (x : String) : List Frame → Val
  | [] => (assocGet x ctx).getD .undef
  | f :: rest =>
    match frameLookup closures f x with
    | some v => v
    | none => lookupFrames ctx closures x rest

def storeLocal (x : String) (v : Val) : List Frame → List Frame
  | [] => []
  | f :: rest => { f with locals := assocSet x v f.locals } :: rest

/-- the closure the innermost frame owns -/
def topClosure : List Frame → Option Nat
  | [] => none
  | f :: _ => f.closure

/-- `Context::store` duplicates the value into the closure of the innermost frame -/
def storeClosure (x : String) (v : Val) (frames : List Frame) (closures : List Scope) : List Scope :=
  match topClosure frames with
  | some c => (match closures[c]? with
    | some m => closures.set c (assocSet x v m)
    | none => closures)
  | none => closures

/-- `Context::next_loop_item`: advance the innermost loop; its frame's locals are cleared -/
def nextLoopItem : List Frame → Option (Val × List Frame)
  | [] => none
  | f :: rest =>
    match f.loop with
    | some l =>
      match l.rest with
      | [] => none
      | x :: xs =>
        let l' : LoopSt := { l with calls := l.calls + 1, iterated := true, prev := l.cur, cur := some x, rest := xs }
        -- the locals are cleared and the frame gets a fresh closure: every iteration has its own macros
        some (x, { f with locals := [], loop := some l', closure := none } :: rest)
    | none =>
      match nextLoopItem rest with
      | some (x, rest') => some (x, f :: rest')
      | none => none

def currentLoop : List Frame → Option LoopSt
  | [] => none
  | f :: rest => match f.loop with
    | some l => some l
    | none => currentLoop rest

def appendOut (s : String) : List String → List String
  | [] => [s]
  | o :: rest => (o ++ s) :: rest

def popN (n : Nat) (stack : List Val) : Option (List Val × List Val) :=
  if n ≤ stack.length then some ((stack.take n).reverse, stack.drop n) else none

/-- the popped `k₀ v₀ k₁ v₁ …` of `BuildMap` as pairs -/
def pairUp : List Val → Option (List (Val × Val))
  | [] => some []
  | k :: v :: rest => (pairUp rest).map ((k, v) :: ·)
  | [_] => none

def buildMap (items : List Val) : Res (List (String × Val)) :=
  match pairUp items with
  | some ps => insertPairs ps []
  | none => .error .outOfFragment

/-- the loop body of `Macro::prepare_args`: the value of the parameter `x.1` (number `x.2`) -/
def prepareStep (pos : List Val) (kws : List (String × Val)) (x : String × Nat) (acc : Res (List Val)) :
    Res (List Val) :=
  match acc with
  | .error e => .error e
  | .ok vs => match pos[x.2]?, assocGet x.1 kws with
    | some _, some _ => .error .tooManyArgs
    | some a, none => .ok (a :: vs)
    | none, some k => .ok (k :: vs)
    | none, none => .ok (.undef :: vs)

/-- `Macro::prepare_args`: positional / keyword arguments against the argument names; the hidden
`caller` keyword is accepted by macros that reference it -/
def prepareArgs (argSpec : List String) (callerRef : Bool) (args : List Val) : Res (List Val × Option Val) :=
  let (pos, kw) : List Val × Option (List (String × Val)) := match args.getLast? with
    | some (.kwargs kvs) => (args.dropLast, some kvs)
    | _ => (args, none)
  if pos.length > argSpec.length then .error .tooManyArgs
  else
    let kws := kw.getD []
    let bound : Res (List Val) := (argSpec.zipIdx).foldr (prepareStep pos kws) (.ok [])
    match bound with
    | .error e => .error e
    | .ok vs =>
      if kws.any (fun p => !(argSpec.contains p.1) && !(callerRef && p.1 == "caller")) then .error .tooManyArgs
      else .ok (vs, if callerRef then some ((assocGet "caller" kws).getD .undef) else none)

/-- the argument names `BuildMacro` finds in the constant list of the declaration -/
def specNames (spec : List Val) : List String :=
  spec.filterMap fun v => match v with | .str x => some x | _ => none

/-- the closure id `GetClosure` pushed (`undefined` = the frame owns none) -/
def closureOf (cl : Val) : Option Nat :=
  match cl with
  | .int c => some c.toNat
  | _ => none

/-- `Instruction::Enclose`: the first enclosed name creates the closure of the innermost frame; a name
that is not in the closure yet gets its current value (`Context::enclose`) -/
def encloseStep (ctx : Scope) (x : String) (s : VmState) : Res VmState :=
  match s.frames with
  | [] => .error .outOfFragment
  | f :: rest =>
    let c := f.closure.getD s.closures.length
    let frames := { f with closure := some c } :: rest
    let closures := match f.closure with
      | some _ => s.closures
      | none => s.closures ++ [[]]
    match closures[c]? with
    | none => .error .outOfFragment
    | some m =>
      if (assocGet x m).isSome then .ok { s with pc := s.pc + 1, frames := frames, closures := closures }
      else .ok { s with pc := s.pc + 1, frames := frames,
                        closures := closures.set c (assocSet x (lookupFrames ctx closures x frames) m) }

def binArith (op : BinOp) (s : VmState) : Res VmState :=
  match s.stack with
  | b :: a :: rest => (arith op a b).map fun v => { s with stack := v :: rest, pc := s.pc + 1 }
  | _ => .error .outOfFragment

def binCmp (op : CmpOp) (s : VmState) : Res VmState :=
  match s.stack with
  | b :: a :: rest => (compareOp op a b).map fun v => { s with stack := .bool v :: rest, pc := s.pc + 1 }
  | _ => .error .outOfFragment

/-- one instruction.  A malformed stack (which well-formed code never produces) is
`Err.outOfFragment`. -/
def step (ctx : Scope) (i : Instr) (s : VmState) : Res VmState :=
  let nxt (s : VmState) : VmState := { s with pc := s.pc + 1 }
  match i with
  | .emitRaw t => .ok (nxt { s with outs := appendOut t s.outs })
  | .emit => match s.stack with
    | v :: rest => .ok (nxt { s with stack := rest, outs := appendOut (render v) s.outs })
    | _ => .error .outOfFragment
  | .storeLocal x => match s.stack with
    | v :: rest => .ok (nxt { s with stack := rest, frames := storeLocal x v s.frames,
                                     closures := storeClosure x v s.frames s.closures })
    | _ => .error .outOfFragment
  | .lookup x => .ok (nxt { s with stack := lookupFrames ctx s.closures x s.frames :: s.stack })
  | .getAttr n => match s.stack with
    | a :: rest => (getAttr a n).map fun v => nxt { s with stack := v :: rest }
    | _ => .error .outOfFragment
  | .getItem => match s.stack with
    | a :: b :: rest => (getItem b a).map fun v => nxt { s with stack := v :: rest }
    | _ => .error .outOfFragment
  | .loadConst v => .ok (nxt { s with stack := v :: s.stack })
  | .buildMap n => match popN (2 * n) s.stack with
    | some (items, rest) => (buildMap items).map fun m => nxt { s with stack := .map m :: rest }
    | none => .error .outOfFragment
  | .buildList (some n) => match popN n s.stack with
    | some (items, rest) => .ok (nxt { s with stack := .list items :: rest })
    | none => .error .outOfFragment
  | .buildList none => match s.stack with
    | .int n :: rest0 => match popN n.toNat rest0 with
      | some (items, rest) => .ok (nxt { s with stack := .list items :: rest })
      | none => .error .outOfFragment
    | _ => .error .outOfFragment
  | .unpackList n => match s.stack with
    | v :: rest =>
      let items : Res (List Val) := match v with
        | .list xs => .ok xs
        | .map kvs => .ok (kvs.map fun kv => Val.str kv.1)
        | _ => .error .cannotUnpack
      match items with
      | .ok xs => if xs.length = n then .ok (nxt { s with stack := xs ++ rest }) else .error .cannotUnpack
      | .error e => .error e
    | _ => .error .outOfFragment
  | .add => binArith .add s
  | .sub => binArith .sub s
  | .mul => binArith .mul s
  | .intDiv => binArith .floordiv s
  | .rem => binArith .rem s
  | .neg => match s.stack with
    | a :: rest => (negVal a).map fun v => nxt { s with stack := v :: rest }
    | _ => .error .outOfFragment
  | .eq => binCmp .eq s
  | .ne => binCmp .ne s
  | .gt => binCmp .gt s
  | .gte => binCmp .ge s
  | .lt => binCmp .lt s
  | .lte => binCmp .le s
  | .not => match s.stack with
    | a :: rest => .ok (nxt { s with stack := .bool (!truthy a) :: rest })
    | _ => .error .outOfFragment
  | .stringConcat => match s.stack with
    | a :: b :: rest => .ok (nxt { s with stack := .str (render b ++ render a) :: rest })
    | _ => .error .outOfFragment
  | .isIn => match s.stack with
    | a :: b :: rest => (contains a b).map fun r => nxt { s with stack := .bool r :: rest }
    | _ => .error .outOfFragment
  | .compareAndPreserve op => match s.stack with
    | b :: a :: rest => (compareOp op a b).map fun r => nxt { s with stack := .bool r :: b :: rest }
    | _ => .error .outOfFragment
  | .applyFilter name argc _ => match popN argc s.stack with
    | some (v :: args, rest) => (applyFilter name v args).map fun r => nxt { s with stack := r :: rest }
    | _ => .error .outOfFragment
  | .performTest name argc _ => match popN argc s.stack with
    | some (v :: args, rest) => (applyTest name v args).map fun r => nxt { s with stack := .bool r :: rest }
    | _ => .error .outOfFragment
  | .pushLoop flags => match s.stack with
    | a :: rest => (iterate a).map fun xs =>
        let l : LoopSt := { withLoopVar := flags % 2 == 1, len := if isSized a then some xs.length else none,
                            calls := 0, iterated := false, prev := none, cur := none, rest := xs }
        nxt { s with stack := rest, frames := { locals := [], loop := some l } :: s.frames }
    | _ => .error .outOfFragment
  | .pushWith => .ok (nxt { s with frames := {} :: s.frames })
  | .iterate target => match nextLoopItem s.frames with
    | some (x, frames) => .ok (nxt { s with stack := x :: s.stack, frames := frames })
    | none => .ok { s with pc := target }
  | .pushDidNotIterate => match currentLoop s.frames with
    | some l => .ok (nxt { s with stack := .bool (!l.iterated) :: s.stack })
    | none => .error .outOfFragment
  | .popFrame => .ok (nxt { s with frames := s.frames.tail })
  | .popLoopFrame => .ok (nxt { s with frames := s.frames.tail })
  | .jump t => .ok { s with pc := t }
  | .jumpIfFalse t => match s.stack with
    | a :: rest => .ok (if truthy a then nxt { s with stack := rest } else { s with stack := rest, pc := t })
    | _ => .error .outOfFragment
  | .jumpIfFalseOrPop t => match s.stack with
    | a :: rest => .ok (if truthy a then nxt { s with stack := rest } else { s with pc := t })
    | _ => .error .outOfFragment
  | .jumpIfTrueOrPop t => match s.stack with
    | a :: rest => .ok (if truthy a then { s with pc := t } else nxt { s with stack := rest })
    | _ => .error .outOfFragment
  | .beginCapture => .ok (nxt { s with outs := "" :: s.outs })
  -- the last buffer is the output of the template, not a capture
  | .endCapture => match s.outs with
    | o :: r :: rest => .ok (nxt { s with outs := r :: rest, stack := .str o :: s.stack })
    | _ => .error .outOfFragment
  | .dupTop => match s.stack with
    | a :: rest => .ok (nxt { s with stack := a :: a :: rest })
    | _ => .error .outOfFragment
  | .discardTop => match s.stack with
    | _ :: rest => .ok (nxt { s with stack := rest })
    | _ => .error .outOfFragment
  | .swap => match s.stack with
    | a :: b :: rest => .ok (nxt { s with stack := b :: a :: rest })
    | _ => .error .outOfFragment
  | .isUndefined => match s.stack with
    | a :: rest => .ok (nxt { s with stack := .bool (match a with | .undef => true | _ => false) :: rest })
    | _ => .error .outOfFragment
  | .enclose x => encloseStep ctx x s
  | .getClosure => .ok (nxt { s with stack := (match topClosure s.frames with | some c => .int c | none => .undef) :: s.stack })
  | .buildMacro name offset flags => match s.stack with
    | .list spec :: cl :: rest =>
      .ok (nxt { s with stack := .vmMacro name (specNames spec) offset (closureOf cl) (flags / 2 % 2 == 1) :: rest })
    | _ => .error .outOfFragment
  | .buildKwargs n => match popN (2 * n) s.stack with
    | some (items, rest) => match pairUp items with
      | some ps => (insertPairs ps []).map fun m => nxt { s with stack := .kwargs m :: rest }
      | none => .error .outOfFragment
    | none => .error .outOfFragment
  -- calls are not single steps: see `stepF` / `callF`
  | .callFunction _ _ => .error .outOfFragment
  | .callObject _ => .error .outOfFragment
  | .return_ => .error .outOfFragment

/-- the state in which the code of a macro starts (`Macro::call` + `eval_macro`): a fresh context —
base frame, then the frame that reads the macro's closure and holds `caller` —, the argument values
on the operand stack (last one on top), output captured into a string -/
def calleeState (offset : Nat) (closure : Option Nat) (caller : Option Val) (vals : List Val)
    (closures : List Scope) : VmState :=
  { pc := offset, stack := vals.reverse,
    frames := [{ closureCtx := closure, locals := match caller with | some c => [("caller", c)] | none => [] }, {}],
    outs := [""], closures := closures }

mutual

/-- one instruction, calls included -/
def stepF (ctx : Scope) (code : List Instr) : Nat → Instr → VmState → Res VmState
  | 0, _, _ => .error .fuel
  | fuel + 1, i, s =>
    match i with
    | .callFunction name argc => match popN argc s.stack with
      | some (args, rest) =>
        match callF ctx code fuel (lookupFrames ctx s.closures name s.frames) args s.closures with
        | .ok r => .ok { s with pc := s.pc + 1, stack := r.1 :: rest, closures := r.2 }
        | .error e => .error e
      | none => .error .outOfFragment
    | i => step ctx i s

/-- `Macro::call`: bind the arguments, run the macro's code until `Return`, the captured output is
the result; the closures created meanwhile stay -/
def callF (ctx : Scope) (code : List Instr) : Nat → Val → List Val → List Scope → Res (Val × List Scope)
  | 0, _, _, _ => .error .fuel
  | fuel + 1, f, args, closures =>
    match f with
    | .vmMacro _ spec offset closure callerRef =>
      match prepareArgs spec callerRef args with
      | .error e => .error e
      | .ok (vals, caller) =>
        match run ctx code fuel (calleeState offset closure caller vals closures) with
        | .ok s' => .ok (.str (s'.outs.getLast?.getD ""), s'.closures)
        | .error e => .error e
    | _ => .error .invalidOp

/-- run until the program counter leaves the code or reaches a `Return` -/
def run (ctx : Scope) (code : List Instr) : Nat → VmState → Res VmState
  | 0, _ => .error .fuel
  | fuel + 1, s =>
    match code[s.pc]? with
    | none => .ok s
    | some .return_ => .ok s
    | some i => match stepF ctx code fuel i s with
      | .ok s' => run ctx code fuel s'
      | .error e => .error e

end

/-! ## Discarding output

`Output::begin_capture(Discard)`: the top level of a child template after `{% extends %}` and a
module loaded with `{% from … import … %}` run with an output that throws away what is written to
it.  Only the *bottom* entry discards; a capture that is begun while the output discards (`{% set x %}
…{% endset %}`, a filter block) still buffers what is written into it (`beginCapture` pushes a
buffer whatever is below it), and `endCapture` returns the buffered text. -/

/-- forget what was written to the bottom entry of the output -/
def eraseBottom (s : VmState) : VmState :=
  { s with outs := match s.outs.reverse with
      | [] => []
      | _ :: r => ("" :: r).reverse }

/-- `run` with a discarding output -/
def runD (ctx : Scope) (code : List Instr) : Nat → VmState → Res VmState
  | 0, _ => .error .fuel
  | fuel + 1, s =>
    match code[s.pc]? with
    | none => .ok s
    | some .return_ => .ok s
    | some i => match stepF ctx code fuel i s with
      | .ok s' => runD ctx code fuel (eraseBottom s')
      | .error e => .error e

/-- the first `boundary` instructions run with a discarding output (child template / module), the
rest (layout / importing template) continues in the same frames with a fresh output -/
def renderCodeAfter (fuel : Nat) (ctx : Scope) (code : List Instr) (boundary : Nat) : Res String :=
  match runD ctx (code.take boundary) fuel {} with
  | .ok s1 =>
    match run ctx code fuel { s1 with pc := boundary, stack := [], outs := [""] } with
    | .ok s => .ok (s.outs.getLast?.getD "")
    | .error e => .error e
  | .error e => .error e

def renderCode (fuel : Nat) (ctx : Scope) (code : List Instr) : Res String :=
  match run ctx code fuel {} with
  | .ok s => .ok (s.outs.getLast?.getD "")
  | .error e => .error e

end MJ.Vm
