import MJ.Model.Undef
import MJ.Model.Slice
/-!
# Values of the C12 VM model and their mode-independent operations

A small value domain (undefined, silent undefined, none, bool, int, str, list, lazy iterable,
str-keyed map, keyword arguments, macro objects, the `loop` object) with the operations of
`value/mod.rs` / `value/ops.rs` that the modelled instructions need.  Hand transcription,
validated by the C12 correspondence stream (real instruction streams, outputs compared).
-/
namespace MJ.Undef

inductive V where
  | undef | silent | none
  | bool (b : Bool) | int (i : Int) | str (s : String)
  /-- a string marked safe (`StringType::Safe`: `|safe`, `|escape`, a capture / macro result under auto-escaping) -/
  | safe (s : String)
  | seq (xs : List V) | map (kvs : List (String × V))
  /-- a lazy iterable (`ValueKind::Iterable`): what slicing, concatenating or repeating a list gives -/
  | iter (xs : List V)
  /-- `Kwargs::wrap(map)`: the keyword arguments of a call -/
  | kwargs (kvs : List (String × V))
  /-- a macro object: name, parameter names, where its body starts, its closure, `caller` used -/
  | mac (name : String) (argSpec : List String) (code offset : Nat) (closure : Option Nat) (callerRef : Bool)
  /-- the `loop` object of the loop frame at this height of the frame stack -/
  | loopRef (level : Nat)
  /-- the module object of `{% import %}` / `{% from .. import %}` (`ExportLocals`): the top-level names of the
      imported template and what it printed (`undef` when the output was discarded) -/
  | module (kvs : List (String × V)) (captured : V)

instance : Inhabited V := ⟨.undef⟩

namespace V

def kind : V → UK
  | undef => .undef | silent => .silent | _ => .defined

def isUndefined (v : V) : Bool := v.kind.isUndefined

/-- `Value::is_true` -/
def isTrue : V → Bool
  | undef | silent | none => false
  | bool b => b
  | int i => i != 0
  | str s | safe s => !s.isEmpty
  | seq xs | iter xs => !xs.isEmpty
  | map kvs | kwargs kvs => !kvs.isEmpty
  | mac .. | loopRef _ | module .. => true

/-- rank of `ValueKind` in the derived `Ord` (see `MJ.Gen.valueKindOrder`) -/
def kindRank : V → Nat
  | undef | silent => 0 | none => 1 | bool _ => 2 | int _ => 3 | str _ | safe _ => 4 | seq _ => 6 | map _ => 7
  | iter _ => 6      -- `cmp_kind`: iterables share the slot of the sequences
  | kwargs _ => 7
  | mac .. | loopRef _ | module .. => 9

/-- `python_string_debug_fmt` (control characters are outside the model domain) -/
def reprStr (s : String) : String :=
  let cs := s.toList
  let dq := cs.contains '\'' && !cs.contains '"'
  let q := if dq then "\"" else "'"
  let esc (c : Char) : String :=
    if c == '\'' && !dq then "\\'" else if c == '\\' then "\\\\" else String.singleton c
  q ++ String.join (cs.map esc) ++ q

mutual
/-- `Debug`-style rendering used inside containers -/
def repr : V → String
  | undef | silent => "undefined"
  | none => "None"
  | bool true => "True"
  | bool false => "False"
  | int i => toString i
  | str s | safe s => reprStr s
  | seq xs => "[" ++ reprList xs ++ "]"
  | iter xs => "[" ++ reprList xs ++ "]"
  | map kvs => "{" ++ reprPairs kvs ++ "}"
  | kwargs kvs => "{" ++ reprPairs kvs ++ "}"
  | mac n .. => "<macro " ++ n ++ ">"
  | loopRef _ => "<loop>"
  | module .. => "<module>"
def reprList : List V → String
  | [] => ""
  | [x] => repr x
  | x :: y :: r => repr x ++ ", " ++ reprList (y :: r)
def reprPairs : List (String × V) → String
  | [] => ""
  | [(k, v)] => reprStr k ++ ": " ++ repr v
  | (k, v) :: y :: r => reprStr k ++ ": " ++ repr v ++ ", " ++ reprPairs (y :: r)
end

/-- `Display` (what `Emit` writes without auto-escaping, what `~` and `|string` produce) -/
def display : V → String
  | undef | silent => ""
  | str s | safe s => s
  | v => repr v

/-- the value without its safety mark (most operations do not look at it and return plain values) -/
def plain : V → V
  | safe s => str s
  | v => v

def asNum? : V → Option Int
  | bool b => some (if b then 1 else 0)
  | int i => some i
  | _ => Option.none

def mapGet (kvs : List (String × V)) (k : String) : Option V :=
  match kvs.find? (fun p => p.1 == k) with
  | some p => some p.2
  | Option.none => Option.none

/-- insert into a key-sorted association list (`BTreeMap::insert`) -/
def mapInsert (kvs : List (String × V)) (k : String) (v : V) : List (String × V) :=
  match kvs with
  | [] => [(k, v)]
  | (k', v') :: rest =>
    if k == k' then (k, v) :: rest
    else if k < k' then (k, v) :: (k', v') :: rest
    else (k', v') :: mapInsert rest k v

mutual
/-- `PartialEq for Value` on the model domain -/
def beq : V → V → Bool
  | none, none => true
  | undef, undef | undef, silent | silent, undef | silent, silent => true
  | str a, str b | safe a, safe b | safe a, str b | str a, safe b => a == b
  | bool a, bool b => a == b
  | int a, int b => a == b
  | bool a, int b => (if a then 1 else 0) == b
  | int a, bool b => a == (if b then 1 else 0)
  | seq a, seq b | seq a, iter b | iter a, seq b | iter a, iter b => beqList a b
  | map a, map b => beqPairs a b
  | _, _ => false
def beqList : List V → List V → Bool
  | [], [] => true
  | x :: xs, y :: ys => beq x y && beqList xs ys
  | _, _ => false
/-- both association lists are key-sorted without duplicates, so map equality is pointwise -/
def beqPairs : List (String × V) → List (String × V) → Bool
  | [], [] => true
  | (k, x) :: xs, (k', y) :: ys => k == k' && beq x y && beqPairs xs ys
  | _, _ => false
end

def cmpInt (a b : Int) : Ordering := if a < b then .lt else if a = b then .eq else .gt
def cmpStr (a b : String) : Ordering := if a < b then .lt else if a = b then .eq else .gt

mutual
/-- `Ord for Value` on the model domain (kind first, then within the kind) -/
def cmp : V → V → Ordering
  | a, b =>
    if kindRank a < kindRank b then .lt
    else if kindRank a > kindRank b then .gt
    else match a, b with
      | str x, str y | safe x, safe y | safe x, str y | str x, safe y => cmpStr x y
      | bool x, bool y => cmpInt (if x then 1 else 0) (if y then 1 else 0)
      | int x, int y => cmpInt x y
      | seq x, seq y | seq x, iter y | iter x, seq y | iter x, iter y => cmpList x y
      | map x, map y => cmpPairs x y
      | _, _ => .eq
def cmpList : List V → List V → Ordering
  | [], [] => .eq
  | [], _ :: _ => .lt
  | _ :: _, [] => .gt
  | x :: xs, y :: ys => match cmp x y with
    | .eq => cmpList xs ys
    | o => o
def cmpPairs : List (String × V) → List (String × V) → Ordering
  | [], [] => .eq
  | [], _ :: _ => .lt
  | _ :: _, [] => .gt
  | (k, x) :: xs, (k', y) :: ys => match cmpStr k k' with
    | .eq => match cmp x y with
      | .eq => cmpPairs xs ys
      | o => o
    | o => o
end

def chars (s : String) : List V := s.toList.map (fun c => str (String.singleton c))

/-- `get_attr_fast` -/
def getAttr (v : V) (name : String) : Option V :=
  match v with
  | map kvs => mapGet kvs name
  | module kvs _ => mapGet kvs name
  | _ => Option.none

/-- `get_item_opt`; outer `Except` = outside the model -/
def getItem (base key : V) : Except Err (Option V) :=
  match base.plain, key.plain with
  | map kvs, str k => .ok (mapGet kvs k)
  | map _, _ => .ok Option.none
  | seq xs, int i | iter xs, int i => .ok (MJ.Slice.index? xs i)
  | seq xs, bool b | iter xs, bool b => .ok (MJ.Slice.index? xs (if b then 1 else 0))     -- `as_i64` of a bool
  | seq _, _ | iter _, _ => .ok Option.none
  | str s, int i => .ok (MJ.Slice.index? (chars s) i)
  | str s, bool b => .ok (MJ.Slice.index? (chars s) (if b then 1 else 0))
  | str _, _ => .ok Option.none
  | _, _ => .ok Option.none

def isInfix (needle hay : List Char) : Bool :=
  match hay with
  | [] => needle.isEmpty
  | _ :: t => needle.isPrefixOf hay || isInfix needle t

/-- `ops::contains(container, value)` -/
def contains (container value : V) : Except Err Bool :=
  match container.plain with
  | undef | silent => .ok false
  | str s => .ok (isInfix (display value).toList s.toList)
  | map kvs => match value.plain with
    | str k => .ok (mapGet kvs k).isSome
    | _ => .ok false
  | seq xs | iter xs => .ok (xs.any (fun v => beq v value))
  | _ => .error .invalidOperation

/-- `Value::try_iter` (mode-independent part of iteration) -/
def iterItems : V → Except Err (List V)
  | undef | silent | none => .ok []
  | seq xs | iter xs => .ok xs
  | str s | safe s => .ok (chars s)
  | map kvs => .ok (kvs.map (fun p => str p.1))
  | _ => .error .invalidOperation

def bound? : V → Except Err (Option Int)
  | none => .ok Option.none
  | int i => .ok (some i)
  | bool b => .ok (some (if b then 1 else 0))
  | _ => .error .invalidOperation

def joinStrs : List V → String
  | [] => ""
  | v :: r => display v ++ joinStrs r

/-- `ops::slice` (sequence part from the C09 model) -/
def slice (a start stop step : V) : Except Err V :=
  match bound? start with
  | .error e => .error e
  | .ok st => match bound? stop with
    | .error e => .error e
    | .ok sp => match bound? step with
      | .error e => .error e
      | .ok sp' =>
        if sp' = some 0 then .error .invalidOperation else
        match a.plain with
        | undef | silent | none => .ok (seq [])
        | seq xs | iter xs => match MJ.Slice.slice xs st sp sp' with
          | .ok (.ok ys) => .ok (iter ys)
          | .ok .zeroStep => .error .invalidOperation
          | .panic => .error (.unsupported "slice panic")
        | str s => match MJ.Slice.slice (chars s) st sp sp' with
          | .ok (.ok ys) => .ok (str (joinStrs ys))
          | .ok .zeroStep => .error .invalidOperation
          | .panic => .error (.unsupported "slice panic")
        | _ => .error .invalidOperation

inductive ArOp | add | sub | mul
  deriving DecidableEq, Repr

def repeatList {α : Type} (xs : List α) : Nat → List α
  | 0 => []
  | n + 1 => xs ++ repeatList xs n

def arith (op : ArOp) (a b : V) : Except Err V :=
  match asNum? a, asNum? b with
  | some x, some y => .ok (int (match op with | .add => x + y | .sub => x - y | .mul => x * y))
  | _, _ =>
    match op, a.plain, b.plain with
    | .add, str x, str y => .ok (str (x ++ y))
    | .add, seq x, seq y | .add, seq x, iter y | .add, iter x, seq y | .add, iter x, iter y => .ok (iter (x ++ y))
    | .mul, str x, n | .mul, n, str x =>
        match asNum? n with
        | some k => if k < 0 then .error .invalidOperation else .ok (str (String.join (repeatList [x] k.toNat)))
        | Option.none => .error .invalidOperation
    | .mul, seq x, n | .mul, n, seq x | .mul, iter x, n | .mul, n, iter x =>
        match asNum? n with
        | some k => if k < 0 then .error .invalidOperation else .ok (iter (repeatList x k.toNat))
        | Option.none => .error .invalidOperation
    | _, _, _ => .error .invalidOperation

/-- `ops::neg` -/
def neg : V → Except Err V
  | int i => .ok (int (-i))
  | _ => .error .invalidOperation


/-- `HtmlEscape` (the escape table is regenerated from utils.rs: `MJ.Gen.htmlEscapeTable`) -/
def htmlEscape (s : String) : String :=
  String.join (s.toList.map (fun c =>
    match MJ.Gen.htmlEscapeTable.find? (fun p => p.1 == c) with
    | some p => p.2
    | Option.none => String.singleton c))

/-- what `write_escaped` writes for a value: a safe string as it is; without auto-escaping the `Display`
    text; with HTML auto-escaping strings and the text of containers escaped, undefined / none / booleans /
    numbers as they are (`write_with_html_escaping`) -/
def writeText (autoEscape : Bool) : V → String
  | safe s => s
  | v =>
    if autoEscape then
      match v with
      | str s => htmlEscape s
      | undef | silent | none | bool _ | int _ => display v
      | v => htmlEscape (display v)
    else display v

/-- `StringInput::preserve_safety` -/
def preserve (input : V) (s : String) : V :=
  match input with
  | safe _ => safe s
  | _ => str s

def isSafe : V → Bool
  | safe _ => true
  | _ => false

/-- objects whose rendering / comparison the model does not reproduce: an instruction that would
    look inside one is outside the modelled fragment -/
def isOpaque : V → Bool
  | mac .. | loopRef _ | kwargs _ | module .. => true
  | _ => false

/-- macro objects and the loop object (keyword arguments are ordinary arguments of a builtin) -/
def isObject : V → Bool
  | mac .. | loopRef _ | module .. => true
  | _ => false

end V

end MJ.Undef
