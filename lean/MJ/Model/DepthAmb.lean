import MJ.Model.DepthHop
/-!
# C11, session 4: what the charge of an edge may depend on, other entry points, other configurations

* `Amb` — everything of the interpreter's state that is NOT one of the two depth counters: the output
  (discarding / capture depth), the auto-escape setting, the undefined behaviour, the fuel.  `enterA`
  is the re-entry of `MJ.Depth.enter` computed from the REGENERATED cost expressions
  (`MJ.Gen.costSites`: the arguments of every `push_frame` / `incr_depth` call of the crate, term by
  term): a term is a constant, a frame, the caller's depth — or `opaque`, in which case its value is
  read from the ambient state.  `MJ.C11.edge_cost_state_independent` proves that `enterA` does not
  depend on the ambient state and is `enter`.
* `initEmpty` — the state of `Template::new_state()` / `Environment::empty_state()`: a context without
  any frame and no root activation; `State::render_block` / `State::call_macro` enter from there.
* `Nest` — renders started by Rust callbacks from inside a running render (`Template::render` in a
  function called by a template): each one is a root with a budget of its own.
* `setRecursionLimitCfg` — `Environment::set_recursion_limit` in both configurations of the `stacker`
  feature, and the red zone of `stacker::maybe_grow` around the interpreter loop.
-/
namespace MJ.Depth
open MJ.Gen

/-- the interpreter state outside the depth counters -/
structure Amb where
  /-- the innermost capture of the output discards (`Output::is_discarding`) -/
  discarding : Bool
  /-- depth of the capture stack of the output -/
  captureDepth : Nat
  /-- `state.auto_escape` (0 none, 1 html, 2 json, 3.. custom) -/
  autoEscape : Nat
  /-- `env.undefined_behavior()` (0 lenient, 1 chainable, 2 semi-strict, 3 strict) -/
  undefinedMode : Nat
  /-- remaining fuel, if fuel tracking is on -/
  fuel : Option Nat
  /-- the value of any other expression over the state: what an `opaque` term would read -/
  other : String → Nat

/-- one term of a cost expression as the extractor classifies it: (class, source text, value) -/
abbrev Term := String × String × Nat

def evalTerm (amb : Amb) (callerDepth : Nat) (t : Term) : Nat :=
  if t.1 = "const" ∨ t.1 = "frame" then t.2.2
  else if t.1 = "caller-depth" then callerDepth
  else amb.other t.2.1

def evalTerms (amb : Amb) (callerDepth : Nat) : List Term → Nat
  | [] => 0
  | t :: ts => evalTerm amb callerDepth t + evalTerms amb callerDepth ts

/-- a term whose value is fixed by the source text and the caller's depth alone -/
def termClosed (t : Term) : Bool := t.1 = "const" || t.1 = "frame" || t.1 = "caller-depth"

/-- the terms of all `op` calls of function `fn` in the regenerated table, in source order -/
def termsOf (fn op : String) : List Term :=
  (costSites.filter (fun r => r.2.2.1 = fn ∧ r.2.2.2.1 = op)).flatMap (·.2.2.2.2.1)

/-- the function of vm/mod.rs that performs the re-entry of each kind -/
def fnOf : Kind → String
  | .macroCall | .callerCall => "eval_macro"
  | .includeTpl => "perform_include"
  | .blockCall => "call_block"
  | .superCall => "perform_super"

def pushFrames (limit : Nat) : Nat → Ctx → Option Ctx
  | 0, c => some c
  | n + 1, c =>
    match c.pushFrame limit with
    | none => none
    | some c' => pushFrames limit n c'

/-- the context the charge is taken on: a fresh one with its base frame for a macro
    (`reset_with_frame`), the current one otherwise -/
def startCtx (s : St) : Kind → Ctx
  | .macroCall | .callerCall => ⟨0, 1⟩
  | _ => s.cur

/-- frames the new activation starts with -/
def baseFor (s : St) (frames : Nat) : Kind → Nat
  | .macroCall | .callerCall => 1 + frames
  | .includeTpl => s.cur.frames
  | _ => s.cur.frames + frames

def framesOf (amb : Amb) (s : St) (k : Kind) : Nat :=
  evalTerms amb s.cur.depth (termsOf (fnOf k) "push_frame")

def incrOf (amb : Amb) (s : St) (k : Kind) : Nat :=
  evalTerms amb s.cur.depth (termsOf (fnOf k) "incr_depth")

/-- a native re-entry with the charge taken from the regenerated cost expressions, evaluated in an
    ambient state: the checked frames first, then the checked `incr_depth` (if the function has
    one), as the code does -/
def enterA (amb : Amb) (s : St) (k : Kind) : Out :=
  match pushFrames s.limit (framesOf amb s k) (startCtx s k) with
  | none => .recursionError
  | some c1 =>
    if (termsOf (fnOf k) "incr_depth").isEmpty then
      .ok { s with cur := c1, acts := ⟨k, s.cur, baseFor s (framesOf amb s k) k⟩ :: s.acts }
    else
      match c1.incrDepth s.limit (incrOf amb s k) with
      | none => .recursionError
      | some c2 => .ok { s with cur := c2, acts := ⟨k, s.cur, baseFor s (framesOf amb s k) k⟩ :: s.acts }

/-- the names under which the code reads the ambient state: no condition around a charge may mention one -/
def ambientNames : List String :=
  ["out", "is_discarding", "capture_depth", "is_capturing", "capture", "auto_escape", "initial_auto_escape",
   "undefined_behavior", "strict_undefined", "fuel", "fuel_tracker"]

/-! ## the empty state -/

/-- `Template::new_state()` / `Environment::empty_state()`: `Context::new` (no frame) and no root
    activation — nothing runs until a block or macro is entered from Rust -/
def initEmpty (limit : Nat) : St := { limit := limit, cur := ⟨0, 0⟩, acts := [] }

/-! ## renders started from inside a render -/

/-- the renders on the native stack, innermost first: a Rust callback that calls `Template::render`
    (or `Expression::eval`, `Environment::render_str` …) creates a new `Context` with the limit of
    the environment it renders with: a new root -/
abbrev Nest := List St

inductive EvN where
  /-- a depth event of the innermost render -/
  | ev (e : Ev)
  /-- a callback starts a render with an environment whose limit is `limit` -/
  | fresh (limit : Nat)
  /-- the innermost render returns to the callback that started it -/
  | finish
  deriving Repr, DecidableEq

inductive OutN where
  | ok (n : Nest)
  | recursionError
  | panic
  | stuck
  deriving Repr, DecidableEq

def stepN : Nest → EvN → OutN
  | [], _ => .stuck
  | s :: rest, .ev e =>
    match step s e with
    | .ok s' => .ok (s' :: rest)
    | .recursionError => .recursionError
    | .panic => .panic
    | .stuck => .stuck
  | n, .fresh limit => .ok (init limit :: n)
  | _ :: rest, .finish => if rest.isEmpty then .stuck else .ok rest

def runN (n : Nest) : List EvN → OutN
  | [] => .ok n
  | e :: es =>
    match stepN n e with
    | .ok n' => runN n' es
    | o => o

/-- native interpreter activations of all renders on the stack -/
def nativeDepthN : Nest → Nat
  | [] => 0
  | s :: rest => nativeDepth s + nativeDepthN rest

/-- weighted nesting of all renders on the stack -/
def wsumN : Nest → Nat
  | [] => 0
  | s :: rest => wsum s.acts + wsumN rest

def stackBytesN (bytes : Kind → Nat) : Nest → Nat
  | [] => 0
  | s :: rest => stackBytes bytes s.acts + stackBytesN bytes rest

/-! ## the `stacker` configuration -/

/-- `Environment::set_recursion_limit` in both configurations -/
def setRecursionLimitCfg (stacker : Bool) (level : Nat) : Nat :=
  if stacker then (if stackerLimitExpr = "level" then level else 0) else setRecursionLimit level

/-- with `stacker`, `do_eval` runs the loop through `stacker::maybe_grow(red, segment, …)`: when less
    than `red` bytes are left a fresh segment of `segment` bytes is allocated.  A re-entry whose
    frames (the activation, the callbacks below it and the deepest leaf call) need at most `red`
    bytes never runs out of stack, whatever the nesting. -/
def stackerOK (hopBytes H leaf : Nat) (bytes : Kind → Nat) : Bool :=
  allKinds.all (fun k => decide (bytes k + hopBytes * H + leaf ≤ stackerRedZone)) &&
    decide (stackerRedZone ≤ stackerSegment)

/-- free stack at the entry of an activation under `stacker`: what was free before, or a fresh
    segment when that was less than the red zone -/
def stackerFreeAtEntry (free : Nat) : Nat :=
  if free < stackerRedZone then stackerSegment else free

/-! ## leaf calls -/

/-- the budget check with the deepest leaf call (builtin filter / test / function, value formatting,
    error construction) on top of the innermost activation -/
def budgetLeafOK (stack root hopBytes H leaf : Nat) (bytes : Kind → Nat) (P : Kind → Bool) : Bool :=
  decide (projected root hopBytes H bytes P + leaf < stack)

end MJ.Depth
