import MJ.Model.Serde
/-! `Serde<T>` as the type of a call argument (`impl ArgType for Serde<T>` in deserialize.rs), C16. -/
namespace MJ.Serde

/-- what the engine hands to `ArgType::from_value` for one parameter -/
inductive Arg where
  /-- no argument at this position -/
  | missing
  /-- the keyword-argument object -/
  | kwargs
  | value (v : V)

inductive ArgErr where
  | missingArgument | invalidOperation | cannotDeserialize | unmodelled
  deriving DecidableEq, Repr

/-- `<Serde<T> as ArgType>::from_value` for `T` of shape `s` -/
def argConv (s : Shape) : Arg → Except ArgErr D
  | .missing => .error .missingArgument
  | .kwargs => .error .invalidOperation
  | .value v =>
    match de s v with
    | .ok d => .ok d
    | .error .err => .error .cannotDeserialize
    | .error .unmodelled => .error .unmodelled

/-- `<Option<Serde<T>> as ArgType>::from_value`: no argument, `none` and undefined all mean "not given" -/
def argConvOpt (s : Shape) : Arg → Except ArgErr (Option D)
  | .missing => .ok none
  | .value .none => .ok none
  | .value .undefined => .ok none
  | a =>
    match argConv s a with
    | .ok d => .ok (some d)
    | .error e => .error e

end MJ.Serde
