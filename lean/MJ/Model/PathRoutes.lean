import MJ.Model.Path
/-!
# C17 — the engine's routes from a template name to the loader

`MJ/Model/Path.lean` models `safe_join`, the closure `path_loader` returns and the name-keyed
store (`LoaderStore::get` = `Env.get`).  This file models what sits in FRONT of the store:

* `Environment::get_template(name)`            — the store is asked for `name`;
* `State::get_template(name)`                  — the store is asked for
  `join_template_path(name, current template)`: the answer of the host's path-join callback (ANY
  function of the two strings) or `name` itself when none is installed;
* `{% include %}`, `{% import %}`, `{% from %}` — `perform_include` → `State::get_template`;
* `{% extends %}`                              — `load_blocks` → `join_template_path` →
  `Environment::get_template`;
* `{% include [a, b, …] %}`                    — the choices in order, a missing one is skipped,
  any other failure ends the statement.

The call sites and their ARGUMENTS are regenerated from the source (`C17_NAME_FLOW`,
`lib/tables/c17.py`) and compared with `modelledFlow` in `Props/C17.lean`.
Core Lean only (linked into `drive_c17`).
-/
namespace MJ.Path

/-- the host's path-join callback: any function of (name, name of the current template) -/
abbrev JoinCb := Str → Str → Str

/-- the ways the engine asks for a template by name -/
inductive Entry where
  /-- `Environment::get_template` called by the host -/
  | envGetTemplate
  /-- `State::get_template` called from a function, filter or test of the host -/
  | stateGetTemplate
  | includeStmt
  | importStmt
  | fromImportStmt
  | extendsStmt
  deriving DecidableEq, Repr

/-- does the name pass `join_template_path` on this route? -/
def Entry.joins : Entry → Bool
  | .envGetTemplate => false
  | _ => true

/-- an environment with a loader, a store and (maybe) a path-join callback -/
structure Engine where
  env : Env
  cb : Option JoinCb

/-- `Environment::new()` + `set_loader(path_loader(dir))` (+ `set_path_join_callback`) -/
def Engine.new (dir : Str) (cb : Option JoinCb) : Engine := ⟨⟨⟨dir⟩, []⟩, cb⟩

/-- the name the store is asked for -/
def Engine.storeName (g : Engine) (e : Entry) (name parent : Str) : Str :=
  if e.joins then joinTemplatePath g.cb name parent else name

/-- one template fetched over the route `e` -/
def Engine.fetch (g : Engine) (fs : Snapshot) (e : Entry) (name parent : Str) : LoadResult × Engine :=
  ((g.env.get fs (g.storeName e name parent)).1, { g with env := (g.env.get fs (g.storeName e name parent)).2 })

/-- `{% include [a, b, …] %}` (`perform_include` over a list of choices) -/
def Engine.includeList (g : Engine) (fs : Snapshot) (parent : Str) : List Str → LoadResult × Engine
  | [] => (.missing, g)
  | n :: rest =>
    match (g.fetch fs .includeStmt n parent).1 with
    | .missing => (g.fetch fs .includeStmt n parent).2.includeList fs parent rest
    | r => (r, (g.fetch fs .includeStmt n parent).2)

/-- a request of the host or of a template -/
inductive Req where
  | one (e : Entry) (name parent : Str)
  | choices (names : List Str) (parent : Str)

def Engine.serve (g : Engine) (fs : Snapshot) : Req → LoadResult × Engine
  | .one e n p => g.fetch fs e n p
  | .choices ns p => g.includeList fs p ns

/-- the names the store may be asked for while serving a request -/
def Engine.storeNames (g : Engine) : Req → List Str
  | .one e n p => [g.storeName e n p]
  | .choices ns p => ns.map fun n => g.storeName .includeStmt n p

/-- the names the LOADER CLOSURE is called with by one request to the store: none when the store
    has the name -/
def Env.loaderCalls (e : Env) (name : Str) : List Str :=
  match lookup name e.cache with
  | some _ => []
  | none => [name]

def Engine.listCalls (g : Engine) (fs : Snapshot) (parent : Str) : List Str → List Str
  | [] => []
  | n :: rest =>
    g.env.loaderCalls (g.storeName .includeStmt n parent) ++
      match (g.fetch fs .includeStmt n parent).1 with
      | .missing => (g.fetch fs .includeStmt n parent).2.listCalls fs parent rest
      | _ => []

/-- the names the loader closure is called with while a request is served, in order -/
def Engine.loaderCalls (g : Engine) (fs : Snapshot) : Req → List Str
  | .one e n p => g.env.loaderCalls (g.storeName e n p)
  | .choices ns p => g.listCalls fs p ns

/-- the paths handed to the file system while a request is served -/
def Engine.fsReads (g : Engine) (fs : Snapshot) (r : Req) : List Str :=
  (g.loaderCalls fs r).flatMap g.env.loader.reads

/-- a history of requests, the file system changing arbitrarily in between -/
def Engine.run (g : Engine) : List (Snapshot × Req) → List LoadResult
  | [] => []
  | (fs, r) :: rest => (g.serve fs r).1 :: Engine.run (g.serve fs r).2 rest

def Engine.after (g : Engine) : List (Snapshot × Req) → Engine
  | [] => g
  | (fs, r) :: rest => Engine.after (g.serve fs r).2 rest

/-- the callback from the documentation of `Environment::set_path_join_callback` (relative
    includes): the parent's directory, then the name's segments with `.` skipped and `..` popping -/
def docJoinStep (rv : List Str) (seg : Str) : List Str :=
  if seg = ['.'] then rv else if seg = dotdot then rv.dropLast else rv ++ [seg]

def docJoin (name parent : Str) : Str :=
  let segs := (splitOn '/' name).foldl docJoinStep (splitOn '/' parent).dropLast
  (segs.intersperse ['/']).flatten

end MJ.Path
