import MJ.Model.SubKinds
/-!
# Model of objects under `ops::slice` and `Value::get_item_opt` (C09), by `Enumerator` variant

`ops::slice` and `get_item_opt` never look at an object directly: they ask `repr()`,
`enumerator_len()` (= `enumerate().query_len()`), `try_iter()` (one arm per `Enumerator` variant)
and `get_value(key)`.  `Obj` is an object as those four questions see it; the arms of `try_iter` and
`query_len`, the length `get_item_opt` offers to `index` for `ObjectRepr::Seq` objects and the data
flow of the lazy object arm of `ops::slice` are the regenerated tables `MJ.Gen.c09TryIterArms`,
`c09QueryLenArms`, `c09GetItemSeqLen`, `c09SliceObjectFlow` (lib/tables/c09.py, item
`C09_ENUMERATOR_ARMS`, each with a shape check of the source text it summarises).

Not tuples (`is_tuple`): those are `Val.tuple` of `MJ.Sub` (collected eagerly, result a tuple).
-/
namespace MJ.Sub
open MJ Chk Slice

/-- an object of representation `Seq` or `Iterable` as `ops::slice` / `get_item_opt` see it -/
structure Obj (α : Type) where
  /-- `repr()` is `ObjectRepr::Seq` (else `ObjectRepr::Iterable`) -/
  isSeq : Bool
  /-- the `Enumerator` variant `enumerate()` returns -/
  variant : String
  /-- what the variant holds: the items of `Values` / `Iter` / `RevIter`, the names of `Str`, the
      pairs of `KeyValueIter` / `RevKeyValueIter` (as the values `Value::from((k, v))`) -/
  yields : List α
  /-- `l` of `Enumerator::Seq(l)` -/
  seqLen : Nat
  /-- `size_hint()` of the iterator the variant holds -/
  hint : Nat × Option Nat
  /-- `get_value(&Value::from(i))` is `gv[i]?`; every key that is not a position: `None` -/
  gv : List α
  deriving Repr

variable {α : Type}

/-- `try_iter()`: `none` = not iterable.  (`Enumerator::Seq(l)` asks `get_value` for the positions
    `0..l`; a position that is not answered would come out as an undefined item — the model covers
    objects that answer, i.e. yields the answered prefix.) -/
def Obj.tryIter (o : Obj α) : Option (List α) :=
  match MJ.Gen.c09TryIterArms.lookup o.variant with
  | some how =>
    if how = "none" then Option.none
    else if how = "empty" then some []
    else if how = "get_value-by-position" then some (o.gv.take o.seqLen)
    else if how = "iter" ∨ how = "keys-if-map-else-pairs" ∨ how = "names" ∨ how = "values" then some o.yields
    else Option.none
  | Option.none => Option.none

/-- `enumerator_len()` = `enumerate().query_len()` -/
def Obj.queryLen (o : Obj α) : Option Nat :=
  match MJ.Gen.c09QueryLenArms.lookup o.variant with
  | some how =>
    if how = "zero" then some 0
    else if how = "len" then some o.yields.length
    else if how = "announced" then some o.seqLen
    else if how = "exact-size-hint" then
      match o.hint with
      | (a, some b) => if a = b then some a else Option.none
      | (_, Option.none) => Option.none
    else Option.none
  | Option.none => Option.none

/-- `get_value(key)` of an object that answers by position -/
def Obj.getValue (o : Obj α) (key : Val α) : Option α :=
  match valUsize key with
  | some n => o.gv[n]?
  | Option.none => Option.none

/-- `dy.enumerator_len().or_else(|| dy.try_iter().map(|iter| iter.count()))` -/
def Obj.lenOrCount (o : Obj α) : Option Nat :=
  match o.queryLen with
  | some n => some n
  | Option.none => o.tryIter.map List.length

/-- the length the `ObjectRepr::Seq` arm of `get_item_opt` offers to `index` -/
def Obj.seqIndexLen (o : Obj α) : Option Nat :=
  if MJ.Gen.c09GetItemSeqLen = "len-or-count-on-demand" then o.lenOrCount else o.queryLen

/-- `Value::get_item_opt` on an object of representation `Seq` / `Iterable` -/
def objGetItem (o : Obj α) (key : Val α) : Option α :=
  if o.isSeq then
    if MJ.Gen.c09GetItemObject.lookup "Seq" = some "get_value(index-or-key)" then
      match indexOf key o.seqIndexLen with
      | some idx => o.gv[idx]?                              -- `get_value(&Value::from(idx))`
      | Option.none => o.getValue key                       -- `get_value(key)`
    else Option.none
  else
    if MJ.Gen.c09GetItemObject.lookup "Iterable" = some "get_value-then-nth(index,len-or-count-on-demand)" then
      match o.getValue key with
      | some x => some x
      | Option.none =>
        match indexOf key o.lenOrCount with
        | some idx =>
          match o.tryIter with
          | some xs => xs[idx]?                              -- `iter.nth(idx)`
          | Option.none => Option.none
        | Option.none => Option.none
    else Option.none

/-- unwrap the list-level slice (the zero step is rejected before) -/
def resItems (r : Chk (Res α)) : Chk (List α) :=
  match r with
  | .panic => .panic
  | .ok .zeroStep => .panic
  | .ok (.ok ys) => .ok ys

/-- one enumeration of the lazy result of `ops::slice` on a non-tuple object, `step ≠ 0`:
    forward with the announced length (`known_len`), or — length unknown — collected first when a
    bound is relative to the end and else with the `usize::MAX` stand-in; backward: collected;
    an object that cannot be iterated gives the empty iterator -/
def objSliceItems (o : Obj α) (start stop : Option Int) (step : Int) : Chk (List α) :=
  match o.tryIter with
  | Option.none => .ok []
  | some xs =>
    if step > 0 then
      match o.queryLen with
      | Option.none =>
        if (isNeg start || isNeg stop) = true then resItems (slice xs start stop (some step))
        else
          match offsetLen start stop MJ.Gen.c09UnsizedLen with
          | .panic => .panic
          | .ok (off, n) => .ok (stepBy (asUsize step) ((xs.drop off).take n))
      | some k =>
        match offsetLen start stop k with
        | .panic => .panic
        | .ok (off, n) => .ok (stepBy (asUsize step) ((xs.drop off).take n))
    else resItems (slice xs start stop (some step))

/-- `ops::slice` on a non-tuple object, the three parts given as values -/
def objSliceV (o : Obj α) (a b c : Val α) : Chk (Except Err (List α)) :=
  match optBound a with
  | .error e => .ok (.error e)
  | .ok start =>
  match optBound b with
  | .error e => .ok (.error e)
  | .ok stop =>
  match optBound c with
  | .error e => .ok (.error e)
  | .ok step0 =>
  let step : Int := step0.getD 1
  if step = 0 then .ok (.error zeroStepErr)
  else
    match objSliceItems o start stop step with
    | .panic => .panic
    | .ok ys => .ok (.ok ys)

/-- how the objects of the harness (`CE:<S|I>:<how>:<n>`) are built: (name, `Enumerator` variant,
    what the size hints of the iterator say) -/
def harnessHows : List (String × String × String) :=
  [("none", "NonEnumerable", "absent"), ("empty", "Empty", "exact"), ("seq", "Seq", "exact"), ("vals", "Values", "exact"),
   ("str", "Str", "exact"), ("iter", "Iter", "exact"), ("iterlo", "Iter", "upper+2"), ("iterlow", "Iter", "lower-only"),
   ("iternone", "Iter", "absent"), ("rev", "RevIter", "exact"), ("revlo", "RevIter", "upper+2"), ("revnone", "RevIter", "absent"),
   ("kv", "KeyValueIter", "exact"), ("kvnone", "KeyValueIter", "absent"), ("revkv", "RevKeyValueIter", "exact"),
   ("revkvnone", "RevKeyValueIter", "lower-only")]

/-- the size hints of an iterator over `n` items: exact, an upper bound that is too large, a lower
    bound only, none at all -/
def hintOf (kind : String) (n : Nat) : Nat × Option Nat :=
  if kind = "exact" then (n, some n)
  else if kind = "upper+2" then (0, some (n + 2))
  else if kind = "lower-only" then (min n 1, Option.none)
  else (0, Option.none)

/-- the object `CE:<S|I>:<how>:<n>` of the harness; `xs` are its items.  It answers `get_value` by
    position when it is a `Seq` object or enumerates by position. -/
def harnessObj (isSeq : Bool) (how : String) (xs : List α) : Option (Obj α) :=
  match harnessHows.lookup how with
  | some (variant, hk) =>
    some ⟨isSeq, variant, xs, xs.length, hintOf hk xs.length, if isSeq || how = "seq" then xs else []⟩
  | Option.none => Option.none

end MJ.Sub
