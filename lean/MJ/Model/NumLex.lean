import MJ.Model.Num
/-!
# Number literals: `Tokenizer::eat_number` (`minijinja/src/compiler/lexer.rs`)

Model over `List Char` of how the lexer reads a number that starts at the head of the input:
radix detection from the `0b`/`0o`/`0x` prefix (either case), the scanning state machine
(`RadixInteger`, `Integer`, `Fraction`, `Exponent`, `ExponentSign`) with the `.`-lookahead that
keeps `1.foo` an attribute access, `_` digit separators (stripped; not allowed at the end), float
detection, the `u64::from_str_radix` fast path and the `u128::from_str_radix` fallback.

* `u64/u128::from_str_radix` are modelled by their contract: the value of the digit string in that
  radix when the string is non-empty, every character is a digit of the radix and the value fits
  the type (`fromStrRadix` + range check); no sign character can reach them from the scanner.
* the leading `take_while(is_ascii_digit)` of the Rust code is an optimisation of the loop (both
  start states keep their state on a digit), it is not modelled separately.
* `lex_identifier(..) > 0` is modelled for ASCII (`_` or a letter starts an identifier).
* the float value itself (`str::parse::<f64>`) is not modelled: a float token carries its text;
  `floatOk` is the condition under which Rust's parser accepts what the scanner can produce
  (an exponent marker must be followed by at least one digit).
-/
namespace MJ.NumLex
open MJ.Num (NumRepr)

inductive St where
  | radixInteger | integer | fraction | exponent | exponentSign
  deriving DecidableEq, Repr

/-- `b'0'..=b'9'` -/
def isDigit (c : Char) : Bool :=
  c = '0' || c = '1' || c = '2' || c = '3' || c = '4' || c = '5' || c = '6' || c = '7' || c = '8' || c = '9'

/-- `b'a'..=b'f' | b'A'..=b'F'` -/
def isHexLetter (c : Char) : Bool :=
  c = 'a' || c = 'b' || c = 'c' || c = 'd' || c = 'e' || c = 'f' ||
  c = 'A' || c = 'B' || c = 'C' || c = 'D' || c = 'E' || c = 'F'

/-- first character test of `lex_identifier(rest) > 0` (ASCII) -/
def identStart (c : Char) : Bool := c = '_' || c.isAlpha

/-- the `.`-lookahead: `bytes[num_len+1]` is `e|E` and `bytes[num_len+2]` is a sign or digit -/
def isExpAfterDot : List Char → Bool
  | e :: s :: _ => (e = 'e' || e = 'E') && (s = '+' || s = '-' || isDigit s)
  | _ => false

def identAfterDot : List Char → Bool
  | a :: _ => identStart a
  | [] => false

/-- one iteration of the scanning loop: `match (c, state)`, arms in source order; `after` is the
    input following `c`; `none` is `break` -/
def step (radix : Nat) (st : St) (c : Char) (after : List Char) : Option St :=
  if c = '.' ∧ st = .integer then
    (if !isExpAfterDot after && identAfterDot after then none else some .fraction)
  else if (c = 'E' ∨ c = 'e') ∧ (st = .integer ∨ st = .fraction) then some .exponent
  else if (c = '+' ∨ c = '-') ∧ st = .exponent then some .exponentSign
  else if isDigit c = true ∧ st = .exponent then some .exponentSign
  else if isDigit c = true then some st
  else if isHexLetter c = true ∧ st = .radixInteger ∧ radix = 16 then some st
  else if c = '_' then some st
  else none

/-- the scanning loop: (consumed text, final state, remaining input) -/
def scan (radix : Nat) : St → List Char → List Char × St × List Char
  | st, [] => ([], st, [])
  | st, c :: cs =>
    match step radix st c cs with
    | none => ([], st, c :: cs)
    | some st' =>
      let r := scan radix st' cs
      (c :: r.1, r.2.1, r.2.2)

/-- radix from the two-byte prefix; the prefix is consumed for radix ≠ 10 -/
def detectRadix : List Char → Nat × List Char
  | '0' :: p :: rest =>
    if p = 'b' ∨ p = 'B' then (2, rest)
    else if p = 'o' ∨ p = 'O' then (8, rest)
    else if p = 'x' ∨ p = 'X' then (16, rest)
    else (10, '0' :: p :: rest)
  | cs => (10, cs)

/-- `char::to_digit(36)` restricted to what a radix ≤ 16 can accept (letters from `g` on have a
    value ≥ 16 and are rejected for every radix the lexer uses) -/
def digit36 (c : Char) : Option Nat :=
  if c = '0' then some 0 else if c = '1' then some 1 else if c = '2' then some 2
  else if c = '3' then some 3 else if c = '4' then some 4 else if c = '5' then some 5
  else if c = '6' then some 6 else if c = '7' then some 7 else if c = '8' then some 8
  else if c = '9' then some 9
  else if c = 'a' ∨ c = 'A' then some 10 else if c = 'b' ∨ c = 'B' then some 11
  else if c = 'c' ∨ c = 'C' then some 12 else if c = 'd' ∨ c = 'D' then some 13
  else if c = 'e' ∨ c = 'E' then some 14 else if c = 'f' ∨ c = 'F' then some 15
  else none

/-- `c.to_digit(radix)` -/
def digitVal (radix : Nat) (c : Char) : Option Nat :=
  match digit36 c with
  | some d => if d < radix then some d else none
  | none => none

/-- value of a digit string, most significant digit first; `none` on an invalid digit -/
def parseDigits (radix : Nat) : Nat → List Char → Option Nat
  | acc, [] => some acc
  | acc, c :: cs =>
    match digitVal radix c with
    | none => none
    | some d => parseDigits radix (acc * radix + d) cs

/-- `from_str_radix` without the width limit: an empty string is an error -/
def fromStrRadix (radix : Nat) (cs : List Char) : Option Nat :=
  match cs with
  | [] => none
  | _ => parseDigits radix 0 cs

inductive Tok where
  | int (n : Nat)            -- `Token::Int(u64)`
  | int128 (n : Nat)         -- `Token::Int128(Box<u128>)`
  | float (text : List Char) -- `Token::Float(text.parse())`
  | err                      -- syntax error
  deriving DecidableEq, Repr

/-- u64 fast path, then the u128 fallback, else "invalid integer (too large)" -/
def classify (v : Nat) : Tok :=
  if v < 18446744073709551616 then .int v
  else if v < 340282366920938463463374607431768211456 then .int128 v
  else .err

def intToken (radix : Nat) (num : List Char) : Tok :=
  match fromStrRadix radix num with
  | some v => classify v
  | none => .err

def stripUnderscores (cs : List Char) : List Char := cs.filter (fun c => c != '_')

/-- does the text end in an exponent marker without digits (`1e`, `1e+`)?  Everything else the
    scanner can produce in a float state is accepted by `f64::from_str` -/
def expDigits : List Char → Bool → Bool → Bool
  | [], seenE, digitsAfter => !seenE || digitsAfter
  | c :: cs, seenE, digitsAfter =>
    if c = 'e' ∨ c = 'E' then expDigits cs true false
    else if isDigit c then expDigits cs seenE (seenE || digitsAfter)
    else expDigits cs seenE digitsAfter

def floatOk (num : List Char) : Bool := expDigits num false false

/-- `eat_number`: the token and the remaining input -/
def eatNumber (src : List Char) : Tok × List Char :=
  let d := detectRadix src
  let radix := d.1
  let st0 := if radix = 10 then St.integer else St.radixInteger
  let r := scan radix st0 d.2
  let num := r.1
  let fin := r.2.1
  let rest := r.2.2
  if num.contains '_' ∧ num.getLast? = some '_' then (.err, rest)
  else
    let num' := stripUnderscores num
    if fin = .integer ∨ fin = .radixInteger then (intToken radix num', rest)
    else if floatOk num' then (.float num', rest)
    else (.err, rest)

/-- how the parser stores an integer token (`const_val!`): `Token::Int(u64)` becomes
    `ValueRepr::U64`, `Token::Int128` becomes `ValueRepr::U128` -/
def tokRepr : Tok → Option NumRepr
  | .int n => some (.u64 n)
  | .int128 n => some (.u128 n)
  | _ => none

/-- the representation a literal with value `v` is expected to get: the narrowest unsigned one -/
def reprOf (v : Nat) : NumRepr :=
  if v < 18446744073709551616 then .u64 v else .u128 v

end MJ.NumLex
