import MJ.Model.Fuel
/-!
# Nested-evaluation edges with the callee's trace as a parameter

An *edge* is a piece of template code that starts nested evaluations (`{% include %}`, `{% import %}`,
`{% from … import %}`, `{% extends %}` + `RenderParent`, `CallBlock`, `super()`, a macro call, a call
block, `State::render_block` / `call_macro` from Rust …).  Its executed trace consists of the edge's
OWN instructions (`frame`, in execution order) and, spliced in at the places where the nested
evaluations happen, the executed traces of the callees (`callees`, in execution order; the same
callee run `m` times is `List.replicate m trace`).  Nothing else is assumed about the callees: they
are arbitrary traces, in particular empty ones (an empty template), one `EmitRaw` (literal text
only), only instructions that cost nothing.
-/
namespace MJ.Fuel

/-- `Splice callees frame s`: the executed trace `s` is `frame` with the traces `callees` inserted
    (each somewhere, in order) -/
inductive Splice : List (List String) → List String → List String → Prop
  | nil : Splice [] [] []
  | own (i : String) {cs : List (List String)} {f s : List String} : Splice cs f s → Splice cs (i :: f) (i :: s)
  | callee (c : List String) {cs : List (List String)} {f s : List String} : Splice cs f s → Splice (c :: cs) f (c ++ s)

/-- what the callees consume when they are rendered on their own -/
def calleesTotal : List (List String) → Nat
  | [] => 0
  | c :: cs => total c + calleesTotal cs

/-- consumption of the edge predicted from the parts: the cost of its own instructions plus what
    every callee consumes on its own -/
def edgeTotal (frame : List String) (callees : List (List String)) : Nat := total frame + calleesTotal callees

def edgeThr (frame : List String) (callees : List (List String)) : Nat :=
  if edgeTotal frame callees = 0 then 0 else edgeTotal frame callees + 1

/-- outcome and levels `(status, consumed, remaining)` of the edge at budget `B`, predicted from the parts -/
def edgeRun (B : Nat) (frame : List String) (callees : List (List String)) : Status × Nat × Nat :=
  if edgeThr frame callees ≤ B then (.done, edgeTotal frame callees, B - edgeTotal frame callees) else (.outOfFuel, B, 0)

/-- an engine that does the work of a callee without charging it: the charged trace lacks the
    callee's instructions although they were executed -/
def unchargedRun (B : Nat) (frame : List String) : Result := runFuel B frame

end MJ.Fuel
