import MJ.Model.Chk
import MJ.Gen.Tables
/-!
# Integer arithmetic of the VM (`value/ops.rs`: add, sub, mul, rem, int_div, pow, neg; `filters::abs`)

The `Instruction::{Add,Sub,Mul,IntDiv,Rem,Pow,Neg}` arms of `vm/mod.rs::eval_impl` (and the constant
folder `ast::Expr::as_const`) call these functions.  Integers of every width are coerced to `i128`
(`ops::coerce`); the operation is the *checked* one and a missing result becomes an error value.  The
model transcribes each function with the Rust primitives it uses: `checked_*` return an `Option`,
the plain operators are `Chk` computations that *panic* when the exact result does not fit (build
with overflow checks).  Inputs are the integers a `Value` can hold: `i128::MIN ..= u128::MAX`.
-/
namespace MJ.IntOps
open MJ Chk

def i128Min : Int := -170141183460469231731687303715884105728
def i128Max : Int := 170141183460469231731687303715884105727
def u128Max : Int := 340282366920938463463374607431768211455
def i64Min : Int := -9223372036854775808
def i64Max : Int := 9223372036854775807
def u32Max : Int := 4294967295

/-- the integers a `Value` can hold (I64 / U64 / I128 / U128 representations) -/
def InValue (x : Int) : Prop := i128Min ≤ x ∧ x ≤ u128Max

def fits128 (x : Int) : Bool := decide (i128Min ≤ x) && decide (x ≤ i128Max)
def fits64 (x : Int) : Bool := decide (i64Min ≤ x) && decide (x ≤ i64Max)

/-- a plain `i128` operation: panics when the exact result does not fit -/
def i128 (x : Int) : Chk Int := if fits128 x then .ok x else .panic
/-- a `checked_*` operation on `i128` -/
def checked (x : Int) : Option Int := if fits128 x then some x else none

/-- `Result<Value, Error>` of an operation on integers -/
inductive R where
  | val (x : Int)
  | err
  deriving Repr, DecidableEq

/-- `ops::coerce` on two integer values: `i128::try_from` of both -/
def coerce (a b : Int) : Option (Int × Int) :=
  if a ≤ i128Max ∧ b ≤ i128Max then some (a, b) else none

/-- `a.checked_div_euclid(b)` (`/` on `Int` is Euclidean division) -/
def checkedDivEuclid (a b : Int) : Option Int := if b = 0 then none else checked (a / b)
/-- `a.checked_rem_euclid(b)`: `None` for `b == 0` and for the overflowing `MIN % -1` -/
def checkedRemEuclid (a b : Int) : Option Int :=
  if b = 0 then none else if a = i128Min ∧ b = -1 then none else some (a % b)
/-- `a.checked_pow(e)` for `e : u32`.  (`|a| ≥ 2` and `e ≥ 128` cannot fit: decided without computing
    the power, see `checkedPow_eq`) -/
def checkedPow (a : Int) (e : Nat) : Option Int :=
  if a.natAbs ≤ 1 then some (a ^ e) else if 128 ≤ e then none else checked (a ^ e)
/-- `u32::try_from(b)` -/
def toU32 (b : Int) : Option Nat := if 0 ≤ b ∧ b ≤ u32Max then some b.toNat else none

inductive Op where
  | add | sub | mul | rem | intDiv | pow
  deriving Repr, DecidableEq

/-- `ops::add` (integer arm), `ops::sub`, `ops::mul` (integer arm): `math_binop!` -/
def checkedBin (f : Int → Int → Int) (a b : Int) : Chk R :=
  match coerce a b with
  | none => pure .err                                   -- impossible_op
  | some (a, b) =>
    match checked (f a b) with
    | some v => pure (.val v)
    | none => pure .err                                 -- failed_op

/-- `ops::rem` -/
def remK (a b : Int) : Chk R :=
  match coerce a b with
  | none => pure .err
  | some (a, b) =>
    let rv := if b = -1 then some 0 else checkedRemEuclid a b
    match rv with
    | some v => pure (.val v)
    | none => pure .err

/-- `ops::int_div` -/
def intDivK (a b : Int) : Chk R :=
  match coerce a b with
  | none => pure .err
  | some (a, b) =>
    if b ≠ 0 then
      match checkedDivEuclid a b with
      | some v => pure (.val v)
      | none => pure .err
    else pure .err

/-- `ops::pow`; the fallback for unit bases uses the plain `a * a` and `b % 2` -/
def powK (a b : Int) : Chk R :=
  match coerce a b with
  | none => pure .err
  | some (a, b) =>
    match (toU32 b).bind (checkedPow a) with
    | some v => pure (.val v)
    | none =>
      if b > 0 ∧ (-1 ≤ a ∧ a ≤ 1) then do
        let m ← (if (2 : Int) = 0 then Chk.panic else i128 (b % 2))     -- `b % 2`
        if m = 0 then do
          let sq ← i128 (a * a)                                        -- `a * a`
          pure (.val sq)
        else pure (.val a)
      else pure .err

def binK : Op → Int → Int → Chk R
  | .add, a, b => checkedBin (· + ·) a b
  | .sub, a, b => checkedBin (· - ·) a b
  | .mul, a, b => checkedBin (· * ·) a b
  | .rem, a, b => remK a b
  | .intDiv, a, b => intDivK a b
  | .pow, a, b => powK a b

/-- `ops::neg` on an integer value: the `U128(2^127)` special case returns its operand, everything
    else is `i128::try_from` + `checked_mul(-1)` -/
def negK (a : Int) : Chk R :=
  if a = 170141183460469231731687303715884105728 then pure (.val a)
  else if a ≤ i128Max then
    match checked (a * -1) with
    | some v => pure (.val v)
    | none => pure .err
  else pure .err

/-- `filters::abs` on an integer value (representation chosen like `Value::from` / `int_as_value`:
    I64 when it fits, U64 / U128 for the other non-negative ones, I128 otherwise) -/
def absK (a : Int) : Chk R :=
  if fits64 a then
    match (if a = i64Min then none else some (Int.ofNat a.natAbs)) with      -- `x.checked_abs()` on i64
    | some v => pure (.val v)
    | none => do
      let w ← i128 (Int.ofNat a.natAbs)                                   -- `(x as i128).abs()`
      pure (.val w)
  else if 0 ≤ a then pure (.val a)                                       -- U64 / U128
  else
    match (if a = i128Min then none else some (Int.ofNat a.natAbs)) with     -- `checked_abs` on i128
    | some v => pure (.val v)
    | none => pure .err

/-! ## `CodeGenerator::compile_call_args`: the static argument count is a `u16`

`pending_args` starts at `extra_args` (0, or 1 for the receiver of a filter / test / method), grows by one
per positional argument and by one for the keyword map; `assert!(pending_args as u16 as usize ==
pending_args)` panics when it does not fit.  The parser refuses argument lists longer than
`Gen.parserMaxArgs` (regenerated from `parse_args`). -/

def callArgCountK (extra nPos : Nat) (hasKwargs : Bool) : Chk Nat :=
  let pending := extra + nPos + (if hasKwargs then 1 else 0)
  if pending % 65536 = pending then .ok pending else .panic

/-! ## `debug::render_debug_info`: the window of source lines around the error line

`idx = line.unwrap_or(1).saturating_sub(1)`, up to three lines before (`skip(idx.saturating_sub(3)).take(3.min(idx))`),
the line itself (`lines.get(idx)`), up to three lines after (`skip(idx + 1).take(3)`); every printed line
number is the plain sum `index + 1`. -/

/-- a plain `usize` addition -/
def usizeAdd (a b : Nat) : Chk Nat := if a + b < 18446744073709551616 then .ok (a + b) else .panic

/-- `index + 1` for every index of the list -/
def numberAll : List Nat → Chk (List Nat)
  | [] => .ok []
  | i :: is =>
    match usizeAdd i 1 with
    | .panic => .panic
    | .ok x =>
      match numberAll is with
      | .panic => .panic
      | .ok xs => .ok (x :: xs)

/-- the printed line numbers: before, the line, after (`n` = number of source lines) -/
def debugWindowK (line : Option Nat) (n : Nat) : Chk (List Nat × List Nat × List Nat) :=
  let idx := (line.getD 1) - 1
  let skip := idx - 3
  match numberAll (((List.range n).drop skip).take (min 3 idx)) with
  | .panic => .panic
  | .ok pre =>
    match numberAll (if idx < n then [idx] else []) with
    | .panic => .panic
    | .ok cur =>
      match usizeAdd idx 1 with
      | .panic => .panic
      | .ok after =>
        match numberAll (((List.range n).drop after).take 3) with
        | .panic => .panic
        | .ok post => .ok (pre, cur, post)

end MJ.IntOps
