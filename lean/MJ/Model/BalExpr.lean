import MJ.Model.BalGen
/-!
# The code of expressions with internal jumps (C05)

`minijinja/src/compiler/codegen.rs`: `compile_expr` emits jumps in four places — `compile_bin_op`
for `and` / `or` (`start_sc_bool` / `sc_bool` / `end_sc_bool`: `JumpIfFalseOrPop` / `JumpIfTrueOrPop`
to the end of the operator), the inline `a if c else b` (`start_if` / `start_else` / `end_if`),
`compile_compare` for chained comparisons (`CompareAndPreserve` + `JumpIfFalseOrPop` to a clean-up
`Swap; DiscardTop` behind a `Jump` over it) and the defaults of macro arguments
(`DupTop; IsUndefined; start_if; DiscardTop; default; end_if`, see `BalPatch`).  Everything else an
expression compiles to is straight-line for the balance machine.

`gen b e` is the code of `e` placed at pc `b`, jump targets as the back-patching leaves them.  The
statement model of `MJ/Model/BalGen.lean` holds expression code as `flat` blocks (any state-preserving
instructions, jumps anywhere inside the block); `MJ/Proofs/BalExpr.lean` proves that `gen 0 e` is one
for every expression tree.
-/
namespace MJ.BalExpr
open MJ.Bal

mutual
  inductive Expr where
    /-- `n` straight-line instructions (lookups, constants, operators on operands already compiled,
    filters, tests, calls that are not `loop(...)`) -/
    | leaf (n : Nat)
    /-- a call that may be `loop(x)` in its captured form -/
    | call
    /-- operands one after the other (binary operators, arguments, list / map literals …) -/
    | seq (a b : Expr)
    /-- `l and r` / `l or r` -/
    | scBool (and_ : Bool) (l r : Expr)
    /-- `t if c else e` (a missing else branch is `leaf 1`: the silent undefined) -/
    | ifExpr (c t e : Expr)
    /-- `first op₁ e₁ op₂ e₂ …` -/
    | compare (first : Expr) (ops : Ops)
  inductive Ops where
    | last (e : Expr)
    | more (e : Expr) (rest : Ops)
end

mutual
  def size : Expr → Nat
    | .leaf n => n
    | .call => 1
    | .seq a b => size a + size b
    | .scBool _ l r => size l + 1 + size r
    | .ifExpr c t e => size c + 1 + size t + 1 + size e
    | .compare f ops => size f + sizeOps ops + (if isChain ops then 3 else 0)
  /-- operands and comparison instructions, without the clean-up -/
  def sizeOps : Ops → Nat
    | .last e => size e + 1
    | .more e rest => size e + 2 + sizeOps rest
  def isChain : Ops → Bool
    | .last _ => false
    | .more _ _ => true
end

mutual
  def gen (b : Nat) : Expr → List Instr
    | .leaf n => List.replicate n .other
    | .call => [.callFunction]
    | .seq x y => gen b x ++ gen (b + size x) y
    | .scBool a l r =>
      gen b l ++ [if a then .jumpIfFalseOrPop (b + size l + 1 + size r) else .jumpIfTrueOrPop (b + size l + 1 + size r)]
        ++ gen (b + size l + 1) r
    | .ifExpr c t e =>
      gen b c ++ [.jumpIfFalse (b + size c + 1 + size t + 1)] ++ gen (b + size c + 1) t
        ++ [.jump (b + size c + 1 + size t + 1 + size e)] ++ gen (b + size c + 1 + size t + 1) e
    | .compare f ops =>
      -- `cleanup_start` = behind the operands and the `Jump` over the clean-up
      gen b f ++ genOps (b + size f) (b + size f + sizeOps ops + 1) ops
        ++ (if isChain ops then [.jump (b + size f + sizeOps ops + 3), .other, .other] else [])
  def genOps (b cleanup : Nat) : Ops → List Instr
    | .last e => gen b e ++ [.other]
    | .more e rest => gen b e ++ [.other, .jumpIfFalseOrPop cleanup] ++ genOps (b + size e + 2) cleanup rest
end

/-- the instruction is state-preserving and, if it jumps, jumps into `[lo, hi]` -/
def within (lo hi : Nat) : Instr → Bool
  | .other => true
  | .callFunction => true
  | .jump t => decide (lo ≤ t) && decide (t ≤ hi)
  | .jumpIfFalse t => decide (lo ≤ t) && decide (t ≤ hi)
  | .jumpIfFalseOrPop t => decide (lo ≤ t) && decide (t ≤ hi)
  | .jumpIfTrueOrPop t => decide (lo ≤ t) && decide (t ≤ hi)
  | _ => false

end MJ.BalExpr
