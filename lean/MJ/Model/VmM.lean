import MJ.Model.Vm
/-!
# The VM model extended by macros, calls and the live loop object (C03 stage 2)

`MJ.Vm` (the model the refinement theorem is about) covers the macro-free instructions.  This
module layers on top of it what `vm/mod.rs`, `vm/context.rs`, `vm/macro_object.rs` and
`vm/loop_object.rs` do for macros:

* `closures`: the state-owned closure maps; a frame may own one (`closure`: every store into the
  frame is duplicated into it, `Enclose` copies the current value of a free name into it) and a
  macro's first frame reads one (`closureCtx`);
* `BuildMacro` / `CallFunction` / `CallObject` / `Return` with `Macro::prepare_args` (positional,
  keyword, defaults through `IsUndefined`, the hidden `caller`);
* the loop object as a *live* reference (`Val.loopObj id`) whose `previtem` / `nextitem` go through
  the `AdjacentLoopItemIterWrapper` state machine (`prev`, `cur`, parked `next`, rest of the
  iterator): reading `nextitem` parks the next item, the following advance takes the parked item
  first.

It is compared with the engine and with the reference interpreter on every generated program
(`lib/props/c03.py`, stream `vmM`); no theorem is stated about it yet.
-/
namespace MJ.VmM
open MJ.Eval MJ.Compile

/-- `AdjacentLoopItemIterWrapper` + `Loop` -/
structure LoopM where
  id : Nat
  withLoopVar : Bool
  len : Option Nat
  /-- number of `next()` calls so far (the engine's `idx` is this minus one) -/
  calls : Nat
  iterated : Bool
  prevItem : Option Val
  curItem : Option Val
  /-- the look-ahead parked by a `nextitem` read -/
  parked : Option Val
  iter : List Val
  deriving Inhabited

structure FrameM where
  locals : Scope := []
  /-- index into `StateM.loops` -/
  loop : Option Nat := none
  closure : Option Nat := none
  closureCtx : Option Nat := none
  deriving Inhabited

structure StateM where
  pc : Nat := 0
  stack : List Val := []
  frames : List FrameM := [{}]
  outs : List String := [""]
  closures : List Scope := []
  /-- all loop objects created so far (they are shared, live objects: a macro or call block can hold a
  reference to the loop of its caller) -/
  loops : List LoopM := []
  deriving Inhabited

/-- `Context::load` -/
def lookupM (ctx : Scope) (closures : List Scope) (loops : List LoopM) (x : String) : List FrameM → Option Val
  | [] => assocGet x ctx
  | f :: rest =>
    match assocGet x f.locals with
    | some v => some v
    | none =>
      let isLoopVar := match f.loop.bind (fun id => loops[id]?) with
        | some l => l.withLoopVar && x == "loop"
        | none => false
      if isLoopVar then f.loop.map Val.loopObj
      else match (f.closureCtx.bind (fun c => closures[c]?)).bind (assocGet x) with
        | some v => some v
        | none => lookupM ctx closures loops x rest

/-- `Context::store`: into the top frame, and into its closure if it owns one -/
def storeM (x : String) (v : Val) (s : StateM) : StateM :=
  match s.frames with
  | [] => s
  | f :: rest =>
    let closures := match f.closure with
      | some c => (match s.closures[c]? with
        | some m => s.closures.set c (assocSet x v m)
        | none => s.closures)
      | none => s.closures
    { s with frames := { f with locals := assocSet x v f.locals } :: rest, closures := closures }

/-- `AdjacentLoopItemIterWrapper::next` -/
def LoopM.advance (l : LoopM) : Option Val × LoopM :=
  let (cur, iter) : Option Val × List Val := match l.parked with
    | some v => (some v, l.iter)
    | none => (l.iter.head?, l.iter.tail)
  (cur, { l with calls := l.calls + 1, prevItem := l.curItem, curItem := cur, parked := none, iter := iter,
                 iterated := l.iterated || cur.isSome })

/-- `AdjacentLoopItemIterWrapper::next_item`: peek, parking the item -/
def LoopM.peek (l : LoopM) : Val × LoopM :=
  match l.parked with
  | some v => (v, l)
  | none => match l.iter with
    | [] => (.undef, l)
    | x :: rest => (x, { l with parked := some x, iter := rest })

/-- `Context::next_loop_item` (the innermost loop frame advances; its locals and closure are reset) -/
def nextLoopItemM (loops : List LoopM) : List FrameM → Option (Option Val × List FrameM × List LoopM)
  | [] => none
  | f :: rest =>
    match f.loop.bind (fun id => loops[id]?) with
    | some l =>
      let (item, l') := l.advance
      match item with
      | some _ => some (item, { f with locals := [], closure := none } :: rest, loops.set l.id l')
      | none => some (none, f :: rest, loops.set l.id l')
    | none =>
      match nextLoopItemM loops rest with
      | some (x, rest', loops') => some (x, f :: rest', loops')
      | none => none

def currentLoopM (loops : List LoopM) : List FrameM → Option LoopM
  | [] => none
  | f :: rest => match f.loop.bind (fun id => loops[id]?) with
    | some l => some l
    | none => currentLoopM loops rest

/-- `Loop::get_value_by_str` on the live loop object -/
def loopAttrM (l : LoopM) (name : String) : Val × LoopM :=
  let idx := l.calls - 1
  match name with
  | "index" => (.int (idx + 1), l)
  | "index0" => (.int idx, l)
  | "length" => ((match l.len with | some n => .int n | none => .undef), l)
  | "revindex" => ((match l.len with | some n => .int (n - idx) | none => .undef), l)
  | "revindex0" => ((match l.len with | some n => .int (n - idx - 1) | none => .undef), l)
  | "first" => (.bool (idx == 0), l)
  | "last" => (.bool (match l.len with | some n => idx + 1 == n | none => false), l)
  | "depth" => (.int 1, l)
  | "depth0" => (.int 0, l)
  | "previtem" => (l.prevItem.getD .undef, l)
  | "nextitem" => l.peek
  | _ => (.undef, l)

def popN (n : Nat) (stack : List Val) : Option (List Val × List Val) :=
  if n ≤ stack.length then some ((stack.take n).reverse, stack.drop n) else none

def toCore (s : StateM) : MJ.Vm.VmState :=
  { pc := s.pc, stack := s.stack, frames := [{}], outs := s.outs }

mutual

/-- one instruction.  Instructions that neither look at variables nor at frames are delegated to
`MJ.Vm.step`. -/
def stepM : Nat → Scope → List Instr → Instr → StateM → Res StateM
  | 0, _, _, _, _ => .error .fuel
  | fuel + 1, ctx, code, i, s =>
    let nxt (s : StateM) : StateM := { s with pc := s.pc + 1 }
    match i with
    | .lookup x => .ok (nxt { s with stack := (lookupM ctx s.closures s.loops x s.frames).getD .undef :: s.stack })
    | .storeLocal x => match s.stack with
      | v :: rest => .ok (nxt (storeM x v { s with stack := rest }))
      | _ => .error .outOfFragment
    | .getAttr n => match s.stack with
      | .loopObj id :: rest => match s.loops[id]? with
        | some l =>
          let (v, l') := loopAttrM l n
          .ok (nxt { s with stack := v :: rest, loops := s.loops.set id l' })
        | none => .error .outOfFragment
      | .vmMacro .. :: _ => .error .outOfFragment
      | a :: rest => (getAttr a n).map fun v => nxt { s with stack := v :: rest }
      | _ => .error .outOfFragment
    | .pushLoop flags => match s.stack with
      | a :: rest => (iterate a).map fun xs =>
          let l : LoopM := { id := s.loops.length, withLoopVar := flags % 2 == 1,
                             len := if isSized a then some xs.length else none,
                             calls := 0, iterated := false, prevItem := none, curItem := none, parked := none, iter := xs }
          nxt { s with stack := rest, frames := { loop := some l.id } :: s.frames, loops := s.loops ++ [l] }
      | _ => .error .outOfFragment
    | .pushWith => .ok (nxt { s with frames := {} :: s.frames })
    | .iterate target => match nextLoopItemM s.loops s.frames with
      | some (some x, frames, loops) => .ok (nxt { s with stack := x :: s.stack, frames := frames, loops := loops })
      | some (none, frames, loops) => .ok { s with pc := target, frames := frames, loops := loops }
      | none => .ok { s with pc := target }
    | .pushDidNotIterate => match currentLoopM s.loops s.frames with
      | some l => .ok (nxt { s with stack := .bool (!l.iterated) :: s.stack })
      | none => .error .outOfFragment
    | .popFrame => .ok (nxt { s with frames := s.frames.tail })
    | .popLoopFrame => .ok (nxt { s with frames := s.frames.tail })
    | .isUndefined => match s.stack with
      | a :: rest => .ok (nxt { s with stack := .bool (match a with | .undef => true | _ => false) :: rest })
      | _ => .error .outOfFragment
    | .enclose x =>
      -- the first enclosed value creates the closure of the frame
      let s := match s.frames with
        | f :: rest => (match f.closure with
          | some _ => s
          | none => { s with frames := { f with closure := some s.closures.length } :: rest, closures := s.closures ++ [[]] })
        | [] => s
      match s.frames with
      | f :: _ => match f.closure with
        | some c => match s.closures[c]? with
          | some m =>
            if (assocGet x m).isSome then .ok (nxt s)
            else .ok (nxt { s with closures := s.closures.set c (assocSet x ((lookupM ctx s.closures s.loops x s.frames).getD .undef) m) })
          | none => .error .outOfFragment
        | none => .error .outOfFragment
      | [] => .error .outOfFragment
    | .getClosure => match s.frames with
      | f :: _ => .ok (nxt { s with stack := (match f.closure with | some c => .int c | none => .undef) :: s.stack })
      | [] => .error .outOfFragment
    | .buildMacro name offset flags => match s.stack with
      | .list spec :: cl :: rest =>
        let names := spec.filterMap fun v => match v with | .str x => some x | _ => none
        let closure := match cl with | .int c => some c.toNat | _ => none
        .ok (nxt { s with stack := .vmMacro name names offset closure (flags / 2 % 2 == 1) :: rest })
      | _ => .error .outOfFragment
    | .buildKwargs n => match popN (2 * n) s.stack with
      | some (items, rest) => match MJ.Vm.pairUp items with
        | some ps => (insertPairs ps []).map fun m => nxt { s with stack := .kwargs m :: rest }
        | none => .error .outOfFragment
      | none => .error .outOfFragment
    | .callFunction name argc => match popN argc s.stack with
      | some (args, rest) => match lookupM ctx s.closures s.loops name s.frames with
        | none => .error .unknownFunction
        | some f => (callM fuel ctx code f args s).map fun (v, closures, loops) =>
            nxt { s with stack := v :: rest, closures := closures, loops := loops }
      | none => .error .outOfFragment
    | .callObject argc => match popN argc s.stack with
      | some (f :: args, rest) => (callM fuel ctx code f args s).map fun (v, closures, loops) =>
          nxt { s with stack := v :: rest, closures := closures, loops := loops }
      | _ => .error .outOfFragment
    | .return_ => .error .outOfFragment
    | i =>
      -- everything else does not touch frames or variables
      (MJ.Vm.step ctx i (toCore s)).map fun c => { s with pc := c.pc, stack := c.stack, outs := c.outs }

/-- `Macro::call` + `eval_macro`: fresh context (base frame, then the frame that reads the closure),
the arguments on the operand stack, output captured into a string -/
def callM : Nat → Scope → List Instr → Val → List Val → StateM → Res (Val × List Scope × List LoopM)
  | 0, _, _, _, _, _ => .error .fuel
  | fuel + 1, ctx, code, f, args, s =>
    match f with
    | .vmMacro _ spec offset closure callerRef =>
      match MJ.Vm.prepareArgs spec callerRef args with
      | .error e => .error e
      | .ok (vals, caller) =>
        let frame : FrameM := { closureCtx := closure,
                                locals := match caller with | some c => [("caller", c)] | none => [] }
        let s0 : StateM := { pc := offset, stack := vals.reverse, frames := [frame, {}], outs := [""],
                             closures := s.closures, loops := s.loops }
        match runM fuel ctx code s0 with
        | .ok s' => .ok (.str (s'.outs.getLast?.getD ""), s'.closures, s'.loops)
        | .error e => .error e
    | _ => .error .invalidOp

/-- run until the program counter leaves the code or a `Return` is reached -/
def runM : Nat → Scope → List Instr → StateM → Res StateM
  | 0, _, _, _ => .error .fuel
  | fuel + 1, ctx, code, s =>
    match code[s.pc]? with
    | none => .ok s
    | some .return_ => .ok s
    | some i => match stepM fuel ctx code i s with
      | .ok s' => runM fuel ctx code s'
      | .error e => .error e

end

/-- `runM` with a discarding output (see `MJ.Vm.runD`): what is written to the bottom entry is
thrown away, captures above it (and the outputs of macro calls) buffer as usual -/
def runMD : Nat → Scope → List Instr → StateM → Res StateM
  | 0, _, _, _ => .error .fuel
  | fuel + 1, ctx, code, s =>
    match code[s.pc]? with
    | none => .ok s
    | some .return_ => .ok s
    | some i => match stepM fuel ctx code i s with
      | .ok s' => runMD fuel ctx code { s' with outs := (MJ.Vm.eraseBottom { outs := s'.outs }).outs }
      | .error e => .error e

/-- the first `boundary` instructions run with a discarding output (child template / module), the
rest (layout / importing template) continues in the same frames with a fresh output; the macros of
the first part stay callable -/
def renderCodeAfterM (fuel : Nat) (ctx : Scope) (code : List Instr) (boundary : Nat) : Res String :=
  match runMD fuel ctx (code.take boundary) {} with
  | .ok s1 =>
    match runM fuel ctx code { s1 with pc := boundary, stack := [], outs := [""] } with
    | .ok s => .ok (s.outs.getLast?.getD "")
    | .error e => .error e
  | .error e => .error e

def renderCodeM (fuel : Nat) (ctx : Scope) (code : List Instr) : Res String :=
  match runM fuel ctx code {} with
  | .ok s => .ok (s.outs.getLast?.getD "")
  | .error e => .error e

end MJ.VmM
