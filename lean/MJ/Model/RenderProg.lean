import MJ.Model.Store
import MJ.Model.Hidden
/-!
# A render as a program over the environment's value  (C15)

What the VM does when `get_template(n).render(ctx)` is called is NOT modelled instruction by
instruction here (that is C03's model).  C15 needs only WHAT A RENDER CAN DEPEND ON.  The claim —
the validated hypothesis `render_reads_only` of `MJ.C15.C15_main`, embodied in the TYPE `Renderer` —
is: a render is determined by

* the name and the context it is called with,
* the run-time configuration and the three registries of the environment,
* the answers to the template lookups it makes (`get_template`, `include`, `extends`, `import`:
  each answer is a compiled template = (name, source, load-time configuration of its load) —
  `compile_depends_only_on`, the other validated hypothesis, embodied in `Tmpl` — or an error),
  adaptively: which name it asks for next may depend on the earlier answers,
* what it can read of the thread-local / process-wide hidden state (`HiddenView`).

`Prog` is such an adaptive sequence of lookups ending in an output.  Everything else — that the
answers, the configuration, the registries and the hidden view are themselves functions of the
environment's CONTENTS and not of its history, the thread's history or the schedule — is proved.

No Mathlib import.
-/
namespace MJ.Render
open MJ.Store

inductive Prog (Out : Type) where
  | ret (o : Out)
  | lookup (n : Name) (k : Res → Prog Out)

/-- what a render (and a compile) can read of the hidden state of its thread and process -/
structure HiddenView where
  /-- `INTERNAL_SERIALIZATION` as seen by `impl Serialize for Value` outside any conversion -/
  serializing : Bool
  /-- everything a code generator ever found in a buffer the pools handed it -/
  leftovers : List Nat
  deriving DecidableEq

def HiddenView.clean : HiddenView := { serializing := false, leftovers := [] }

/-- `render_reads_only` as a type: the program a render runs is a function of these arguments only -/
structure Renderer (Ctx Out : Type) where
  prog : RtCfg → (Name → Option Nat) → (Name → Option Nat) → (Name → Option Nat) → HiddenView → Name → Ctx → Prog Out

/-- running a program against one environment value: every lookup is `LoaderStore::get` -/
def Prog.runOn {Out : Type} (c : LtCfg → Source → Bool) : Prog Out → EnvSpec → Out × EnvSpec
  | .ret o, v => (o, v)
  | .lookup n k, v => (k (v.step c (.store (.get n))).2).runOn c (v.step c (.store (.get n))).1

/-- … against environment `e` of a world (the real thing: two-tier store, shared registries) -/
def Prog.runAt {Out : Type} (c : LtCfg → Source → Bool) (e : Nat) : Prog Out → World → Out × World
  | .ret o, w => (o, w)
  | .lookup n k, w => (k (w.step c (.store e (.get n))).2).runAt c e (w.step c (.store e (.get n))).1

/-- the hidden state of one thread (serialisation flag, guards, handle registry) and its two code
    generator pools -/
structure ThreadHidden where
  conv : ThreadState
  pool : MJ.Hidden.Pool Nat

def ThreadHidden.view (h : ThreadHidden) : HiddenView :=
  { serializing := h.conv.serializing, leftovers := h.pool.handedOut.flatten }

/-- `get_template(name).render(ctx)` on environment `e` of world `w`, on a thread whose hidden state is `h` -/
def render {Ctx Out : Type} (c : LtCfg → Source → Bool) (R : Renderer Ctx Out) (w : World) (e : Nat)
    (h : ThreadHidden) (name : Name) (ctx : Ctx) : Option (Out × World) :=
  match w.flatView e with
  | none => none
  | some v => some ((R.prog v.rt v.filters v.tests v.globals h.view name ctx).runAt c e w)

/-- the same on a plain value -/
def renderSpec {Ctx Out : Type} (c : LtCfg → Source → Bool) (R : Renderer Ctx Out) (v : EnvSpec)
    (hv : HiddenView) (name : Name) (ctx : Ctx) : Out × EnvSpec :=
  (R.prog v.rt v.filters v.tests v.globals hv name ctx).runOn c v

end MJ.Render
