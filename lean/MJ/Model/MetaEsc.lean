import MJ.Model.MetaSet
/-!
# C18 — macro values that escape their scope, host callables, globals

`MJ/Model/MetaSet.lean` calls the macros of a template from a static table with the closure
frame `find_macro_closure` computes.  That is an over-approximation of *which* macro is called,
but it takes for granted what the engine has to do right at run time: a macro VALUE
(`vm/macro_object.rs: Macro { closure: Option<usize>, .. }`) only holds the index of a closure
object in `State::closures`; the object is created by the first `Enclose` executed in a frame,
shared by all macros declared in that frame, filled by `Enclose` (if the key is missing) and by
every later store into the frame (`Context::store` mirrors into `Frame::closure`), detached from
the frame at the start of every loop iteration (`next_loop_item`), taken away during an include
(`take_closure` / `reset_closure`), and read through `Frame::closure_context` of the frame
`eval_macro` pushes.  The value itself travels — namespace attributes, lists, maps, arguments,
`caller`, exports of an imported module, host objects — and is called when the declaring scope
is gone.  If a closure object lost a key in between (cleared in place, truncated, replaced), the
body's look-up falls through to the render context: a read the analysis rightly does not report.

## 1. the closure heap (`Heap`, `Ev`, `Heap.step`)

The engine's operations on closure objects and on the two closure fields of a frame, as an
abstract machine over key SETS (values are irrelevant for name resolution): every event is one
operation of `vm/context.rs` / `vm/mod.rs` (table `C18_CLOSURE_SITES`, regenerated from the
sources, theorem `MJ.C18.closure_sites_as_modelled`).  A macro value is `(declaration, closure
id)`; the `pool` holds every value built so far, wherever the template keeps it.

## 2. calls of escaped values (`readsE`)

A call request of the choice tree names a *history* — ANY sequence of heap events, i.e.
whatever the engine did with frames and closures before the call, in this template or in the
file that exported the value — and a value of the resulting pool.  The call runs the value's
body in `[closure frame, base frame]`, the closure frame resolving exactly the keys the closure
object has at that moment (`Heap.keys`), plus `caller` and the parameters as locals.

## 3. host callables and globals (`readsH`)

A host callable (function, filter, test, object method; `State::lookup` is public API) may ask
`Context::load` for any name while an expression is evaluated; it sees the frames of that
moment.  The names the host callables of an environment ask for are an explicit parameter
`hosts`; for name resolution a callable that asks for `n₁ … nₖ` behaves like the code
`{{ n₁ }}…{{ nₖ }}` entered in a fresh frame on top of the current ones (`hostBody`), and it
may call template values back (the requests of that code).  The environment's globals are
consulted after the context (`load`), so they never save a context look-up; they enter the
statement as the set the host names are taken from (`MJ.C18.reads_subset_undeclared_or_global`).
-/
namespace MJ.Meta

/-! ## 1. the closure heap -/

/-- a macro value: `Macro { closure, .. }` built by `BuildMacro` for a declaration -/
structure MVal where
  decl : MacroDecl
  closure : Option Nat

/-- the closure-relevant part of `vm/context.rs: Frame` -/
structure HFrame where
  /-- `locals` (keys) -/
  locals : List String := []
  /-- `closure`: the closure object that receives the stores into this frame -/
  closure : Option Nat := none
  /-- `closure_context`: the closure object `Context::load` reads for this frame -/
  closureCtx : Option Nat := none
  /-- `current_loop.is_some()` -/
  isLoop : Bool := false

/-- `State::closures` + the context stack(s) + every macro value built so far -/
structure Heap where
  /-- `(c, k)`: `closures[c].contains_key(k)` -/
  rel : List (Nat × String) := []
  /-- `closures.len()` -/
  next : Nat := 0
  /-- `state.ctx.stack`, top first; the root frame carries the render context -/
  stack : List HFrame := [{}]
  /-- the contexts of the callers of the macro calls that are running (`old_ctx`) -/
  saved : List (List HFrame) := []
  /-- `old_closure` of the includes that are running -/
  taken : List (Option Nat) := []
  /-- every macro value built so far (kept anywhere: locals, namespaces, lists, host objects) -/
  pool : List MVal := []

/-- the operations of the engine on closure objects and on the closure fields of frames -/
inductive Ev where
  /-- `push_frame(Frame::default())`: `PushWith`, block calls, `import` -/
  | pushFrame
  /-- `push_loop`: a frame with `current_loop`, no closure -/
  | pushLoop
  /-- `pop_frame` (`PopFrame`, `PopLoopFrame`, end of a block call) -/
  | popFrame
  /-- `Context::store(key, _)` (`StoreLocal`, `caller`): into the top frame's locals and, if the
  frame has a closure attached, into that closure object as well -/
  | store (k : String)
  /-- `compile_macro_expression`: `Enclose(n)` for every `n` of `find_macro_closure ∖ {caller}`
  (the first one creates and attaches a closure object when the frame has none; a key is
  inserted when missing), `GetClosure`, `BuildMacro` -/
  | declare (m : MacroDecl)
  /-- `next_loop_item` that yields an item: the innermost loop frame's locals are cleared and
  its closure is DETACHED (the object itself stays as it is) -/
  | iterate
  /-- `perform_include`: `take_closure()` … -/
  | includeEnter
  /-- … `reset_closure(old_closure)` -/
  | includeLeave
  /-- `eval_macro` of value number `v` of the pool: a fresh context `[closure frame with
  closure_context = the value's closure, base frame]`, `caller` stored as a local -/
  | enterMacro (v : Nat) (caller : Bool)
  /-- the macro call returns: the caller's context is swapped back -/
  | leaveMacro

def Heap.has (h : Heap) (c : Option Nat) (k : String) : Bool :=
  match c with
  | some c => h.rel.contains (c, k)
  | none => false

/-- the keys of closure object `c` -/
def Heap.keys (h : Heap) (c : Option Nat) : List String :=
  match c with
  | some c => (h.rel.filter (fun p => p.1 == c)).map Prod.snd
  | none => []

def Heap.topClosure (h : Heap) : Option Nat :=
  match h.stack with
  | f :: _ => f.closure
  | [] => none

/-- `closures[c].insert(k, _)` -/
def Heap.insert (h : Heap) (c : Nat) (k : String) : Heap :=
  { h with rel := (c, k) :: h.rel }

/-- `Context::store` -/
def Heap.store (h : Heap) (k : String) : Heap :=
  match h.stack with
  | [] => h
  | f :: fs =>
      let h1 := match f.closure with
        | some c => h.insert c k
        | none => h
      { h1 with stack := { f with locals := k :: f.locals } :: fs }

/-- `Instruction::Enclose(k)` + `Context::enclose` -/
def Heap.enclose (h : Heap) (k : String) : Heap :=
  match h.stack with
  | [] => h
  | f :: fs =>
      match f.closure with
      | some c => h.insert c k
      | none =>
          { h with rel := (h.next, k) :: h.rel, next := h.next + 1,
                   stack := { f with closure := some h.next } :: fs }

/-- `Enclose` per closure name, `GetClosure`, `BuildMacro` (no frame: Rust panics, no value) -/
def Heap.declare (h : Heap) (m : MacroDecl) : Heap :=
  match h.stack with
  | [] => h
  | _ :: _ =>
      let h1 := (closureNames m.args m.defaults m.body).foldl Heap.enclose h
      { h1 with pool := h1.pool ++ [⟨m, h1.topClosure⟩] }

/-- the innermost loop frame: locals cleared, closure detached -/
def detachLoop : List HFrame → List HFrame
  | [] => []
  | f :: fs =>
      if f.isLoop then { f with locals := [], closure := none } :: fs
      else f :: detachLoop fs

def Heap.step (h : Heap) : Ev → Heap
  | .pushFrame => { h with stack := {} :: h.stack }
  | .pushLoop => { h with stack := { isLoop := true } :: h.stack }
  | .popFrame => { h with stack := h.stack.tail }
  | .store k => h.store k
  | .declare m => h.declare m
  | .iterate => { h with stack := detachLoop h.stack }
  | .includeEnter =>
      match h.stack with
      | [] => h
      | f :: fs => { h with stack := { f with closure := none } :: fs, taken := f.closure :: h.taken }
  | .includeLeave =>
      match h.stack, h.taken with
      | f :: fs, c :: rest => { h with stack := { f with closure := c } :: fs, taken := rest }
      | _, _ => h
  | .enterMacro v caller =>
      match h.pool[v]? with
      | none => h
      | some mv =>
          let frame : HFrame := { closureCtx := mv.closure, locals := if caller then ["caller"] else [] }
          { h with stack := [frame, {}], saved := h.stack :: h.saved }
  | .leaveMacro =>
      match h.saved with
      | [] => h
      | s :: rest => { h with stack := s, saved := rest }

/-- the engine after a history of operations, started with the root frame only -/
def Heap.run (evs : List Ev) : Heap := evs.foldl Heap.step {}

/-! ### the broken variant (seeded change C18-7)

`next_loop_item` that CLEARS the closure object of the loop frame in place and keeps it
attached ("so that a long loop does not allocate one closure per iteration"). -/

def loopClosure : List HFrame → Option Nat
  | [] => none
  | f :: fs => if f.isLoop then f.closure else loopClosure fs

def clearLoop : List HFrame → List HFrame
  | [] => []
  | f :: fs => if f.isLoop then { f with locals := [] } :: fs else f :: clearLoop fs

def Heap.stepClearing (h : Heap) : Ev → Heap
  | .iterate =>
      match loopClosure h.stack with
      | some c => { h with rel := h.rel.filter (fun p => p.1 != c), stack := clearLoop h.stack }
      | none => { h with stack := clearLoop h.stack }
  | e => h.step e

def Heap.runClearing (evs : List Ev) : Heap := evs.foldl Heap.stepClearing {}

/-- every macro value can resolve the names its body captured -/
def Heap.complete (h : Heap) : Bool :=
  h.pool.all (fun v => (closureNames v.decl.args v.decl.defaults v.decl.body).all (h.has v.closure))

/-! ## 2. calls of escaped values -/

/-- what the engine did before a call, and which value is called -/
structure EscCall where
  history : List Ev := []
  value : Nat := 0

/-- the declaration that runs and the keys its closure object has at that moment -/
def EscCall.target (c : EscCall) : Option (MacroDecl × List String) :=
  match (Heap.run c.history).pool[c.value]? with
  | some mv => some (mv.decl, (Heap.run c.history).keys mv.closure)
  | none => none

/-- the frame a call of a value starts in: `caller` (iff the closure analysis saw it) and what
the closure object resolves -/
def escFrame (m : MacroDecl) (keys : List String) : Frame :=
  (if callerRef m.args m.defaults m.body then ["caller"] else []) ++ keys

/-- one call of a macro value whose closure object has the keys `keys` -/
def callMacroE (K : Reenter) (bt : BT) (m : MacroDecl) (keys : List String) (kid : List Ch) :
    List String :=
  (bindArgs (escFrame m keys) [[]] m.args.reverse m.defaults.reverse).2 ++
    (execList K [] bt (bindArgs (escFrame m keys) [[]] m.args.reverse m.defaults.reverse).1
      [[]] kid m.body).reads

/-- one request: the running recursive loops, the blocks (and host callables, see below), the
static macro table, then the escaped values: request `k` beyond the tables calls `W k` -/
def serveE (W : Nat → EscCall) (mt : List MacroDecl) (K : Reenter) (rc : RC) (bt : BT)
    (top : Frame) (below : List Frame) (r : Ch) : List String :=
  if r.n < rc.length + bt.length + mt.length then serveM mt K rc bt top below r
  else
    match (W (r.n - (rc.length + bt.length + mt.length))).target with
    | some (m, keys) => callMacroE K bt m keys r.sub0
    | none => []

def reenterE (W : Nat → EscCall) (mt : List MacroDecl) : Nat → Reenter
  | 0 => fun _ _ _ _ _ => []
  | d + 1 => fun rc bt top below reqs =>
      reqs.flatMap (serveE W mt (reenterE W mt d) rc bt top below)

/-- context keys a render of `t` asks for when any statement may call any macro value that any
history of the engine produced (`W`), besides everything `readsM` allows -/
def readsE (W : Nat → EscCall) (t : List Stmt) (cs : List Ch) (d : Nat) : List String :=
  (execList (reenterE W (macroDeclsL t) d) [] (blockBodiesL t) [] [] cs t).reads

/-! ## 3. host callables -/

/-- name resolution of a host callable that asks `State::lookup` for `names` -/
def hostBody (names : List String) : List Stmt := names.map (fun n => Stmt.emit (.var n))

/-- … with the host callables of the environment (`hosts`: the names each one may ask for) as
further request targets behind the blocks of the template -/
def readsH (hosts : List (List String)) (W : Nat → EscCall) (t : List Stmt) (cs : List Ch)
    (d : Nat) : List String :=
  (execList (reenterE W (macroDeclsL t) d) [] (blockBodiesL t ++ hosts.map hostBody) [] [] cs t).reads

/-! ## the closure sites of the engine (`C18_CLOSURE_SITES`)

Every place in `minijinja/src` that creates, reads, fills, detaches, clears or shares a closure
object or a closure field, and the machine operation it belongs to.  Format of the first three
columns: `lib/tables/c18.py: C18_CLOSURE_SITES`. -/

structure ClosureSite where
  file : String
  fn : String
  op : String
  /-- the event of the machine (or the read-only accessor) the site is part of -/
  ev : String

def closureSites : List ClosureSite := [
  ⟨"minijinja/src/vm/context.rs", "closure", "frame.closure:read", "GetClosure / Enclose (read)"⟩,
  ⟨"minijinja/src/vm/context.rs", "enclose", "frame.closure:read", "declare"⟩,
  ⟨"minijinja/src/vm/context.rs", "enclose", "map.contains_key", "declare"⟩,
  ⟨"minijinja/src/vm/context.rs", "enclose", "map.insert", "declare"⟩,
  ⟨"minijinja/src/vm/context.rs", "known_variables", "frame.closure_context:read", "read-only"⟩,
  ⟨"minijinja/src/vm/context.rs", "known_variables", "map.keys", "read-only"⟩,
  ⟨"minijinja/src/vm/context.rs", "known_variables", "vec.get", "read-only"⟩,
  ⟨"minijinja/src/vm/context.rs", "load", "frame.closure_context:read", "read-only (Heap.keys)"⟩,
  ⟨"minijinja/src/vm/context.rs", "load", "map.get", "read-only (Heap.keys)"⟩,
  ⟨"minijinja/src/vm/context.rs", "load", "vec.get", "read-only (Heap.keys)"⟩,
  ⟨"minijinja/src/vm/context.rs", "new", "frame.closure:=None", "pushFrame / pushLoop"⟩,
  ⟨"minijinja/src/vm/context.rs", "new", "frame.closure_context:=None", "pushFrame / pushLoop"⟩,
  ⟨"minijinja/src/vm/context.rs", "next_loop_item", "frame.closure=None", "iterate"⟩,
  ⟨"minijinja/src/vm/context.rs", "reset_closure", "frame.closure=closure", "includeLeave / declare"⟩,
  ⟨"minijinja/src/vm/context.rs", "store", "frame.closure:read", "store"⟩,
  ⟨"minijinja/src/vm/context.rs", "store", "map.insert", "store"⟩,
  ⟨"minijinja/src/vm/context.rs", "take_closure", "frame.closure.take", "includeEnter"⟩,
  ⟨"minijinja/src/vm/context.rs", "verif_frame_closures", "frame.closure:read", "read-only"⟩,
  ⟨"minijinja/src/vm/context.rs", "verif_frame_closures", "frame.closure_context:read", "read-only"⟩,
  ⟨"minijinja/src/vm/macro_object.rs", "call", "macro.closure:read", "enterMacro"⟩,
  ⟨"minijinja/src/vm/mod.rs", "build_macro", "macro.closure:=closure", "declare"⟩,
  ⟨"minijinja/src/vm/mod.rs", "eval_impl", "Closure::new", "declare"⟩,
  ⟨"minijinja/src/vm/mod.rs", "eval_impl", "vec.len", "declare"⟩,
  ⟨"minijinja/src/vm/mod.rs", "eval_impl", "vec.push", "declare"⟩,
  ⟨"minijinja/src/vm/mod.rs", "eval_macro", "frame.closure_context:=closure", "enterMacro"⟩,
  ⟨"minijinja/src/vm/mod.rs", "eval_macro", "vec.get", "read-only (verification hook: keys at the call)"⟩,
  ⟨"minijinja/src/vm/state.rs", "new", "vec:=default", "Heap.run (start)"⟩]

/-- the operations on closure OBJECTS the machine knows: creation, insertion, reads — nothing
that removes a key or an object -/
def closureObjectOps : List String :=
  ["Closure::new", "vec.push", "vec.len", "vec.get", "vec:=default", "map.insert", "map.contains_key",
   "map.get", "map.keys"]

/-- the operations on closure FIELDS (`Frame::closure`, `Frame::closure_context`,
`Macro::closure`): initialisers, reads, the detach of `next_loop_item`, take / reset around an
include, the closure id handed to a macro value and to the frame of its calls -/
def closureFieldOps : List String :=
  ["frame.closure:read", "frame.closure:=None", "frame.closure=None", "frame.closure=closure",
   "frame.closure.take", "frame.closure_context:read", "frame.closure_context:=None",
   "frame.closure_context:=closure", "macro.closure:=closure", "macro.closure:read"]

end MJ.Meta
