import MJ.Model.FuelMachine
/-!
# Fuel: the total cost table, who owns the tracker, and structured programs

* **A. total cost table** — `fuel_for_instruction` as it is compiled under each feature set, over
  the whole `Instruction` enum (variants and their `#[cfg]`s regenerated from
  `compiler/instructions.rs`, arms and their `#[cfg]`s from `vm/fuel.rs`).
* **B. tracker policies** — call trees whose nested activations say what they do with the
  caller's tracker (`share` it — what the code does —, run on a `fresh` one, or `restore` the
  caller's level afterwards); the render's accounting is that of the flattened trace exactly when
  every nested activation shares.
* **C. structured programs** — straight-line code, `for` loops whose trip counts (and failing
  instructions whose failing) depend on the data, written with the instruction shapes the compiler
  emits; the executed trace and the cost are functions of the context.
-/
namespace MJ.Fuel

/-! ## A. the total cost table -/

/-- the feature sets that change the `Instruction` enum -/
def featureSets : List (List String) := [[], ["macros"], ["multi_template"], ["macros", "multi_template"]]

/-- is an item with `#[cfg(feature = cfg)]` (or none: `""`) compiled under the feature set? -/
def cfgOn (fs : List String) (cfg : String) : Bool := cfg == "" || fs.contains cfg

/-- the `Instruction` enum as compiled under the feature set -/
def variantsUnder (fs : List String) : List String :=
  (MJ.Gen.instrVariants.filter fun v => cfgOn fs v.2).map (·.1)

/-- `fuel_for_instruction` as compiled under the feature set: the first compiled arm naming the
    variant, else the `_` arm -/
def costUnder (fs : List String) (name : String) : Nat :=
  match MJ.Gen.fuelCostArms.find? (fun a => a.1 == name && cfgOn fs a.2.1) with
  | some a => a.2.2
  | none => MJ.Gen.fuelCostDefault

/-- one row per variant of the enum as compiled under the feature set -/
def costTable (fs : List String) : List (String × Nat) :=
  (variantsUnder fs).map fun n => (n, costUnder fs n)

def allFeatures : List String := ["macros", "multi_template"]

/-! ## B. what a nested activation does with the caller's tracker -/

inductive Pol where
  /-- the nested activation gets the caller's `&mut State`: same tracker (what the code does) -/
  | share
  /-- the nested activation runs on a tracker of its own with budget `B`; the caller continues with
      its own tracker as it was (a second creation site) -/
  | fresh (B : Nat)
  /-- the nested activation charges the caller's tracker, but the level is put back afterwards -/
  | restore
  deriving Repr, DecidableEq

/-- call tree with a policy per nested activation -/
inductive PEvs where
  | nil
  | instr (name : String) (rest : PEvs)
  | call (name : String) (pol : Pol) (sub : PEvs) (rest : PEvs)
  deriving Repr

def PEvs.erase : PEvs → Evs
  | .nil => .nil
  | .instr n r => .instr n r.erase
  | .call n _ sub r => .call n sub.erase r.erase

def PEvs.allShare : PEvs → Bool
  | .nil => true
  | .instr _ r => r.allShare
  | .call _ pol sub r => pol == .share && sub.allShare && r.allShare

/-- fuel-limited run over a call tree with policies -/
def runTreeP (t : Tracker) : PEvs → Result
  | .nil => { executed := [], status := .done, tracker := t }
  | .instr n r =>
    match t.track (costOf n) with
    | .outOfFuel t' => { executed := [], status := .outOfFuel, tracker := t' }
    | .ok t' =>
      let x := runTreeP t' r
      { x with executed := n :: x.executed }
  | .call n pol sub r =>
    match t.track (costOf n) with
    | .outOfFuel t' => { executed := [], status := .outOfFuel, tracker := t' }
    | .ok t' =>
      let start := match pol with
        | .fresh B => Tracker.new B
        | _ => t'
      let a := runTreeP start sub
      match a.status with
      | .outOfFuel => { a with executed := n :: a.executed }
      | .done =>
        let cont := match pol with
          | .share => a.tracker
          | _ => t'
        let b := runTreeP cont r
        { executed := n :: (a.executed ++ b.executed), status := b.status, tracker := b.tracker }

/-! ## C. structured programs whose trace depends on the data -/

/-- what the program gets from its context, as far as control flow is concerned:
    * `count id path` — the number of items of the iterable of loop `id` when it is reached in the
      iteration `path` of the enclosing loops (outermost first),
    * `fails id path` — whether the fallible instruction `id` raises its error there,
    * `cond id path` — whether the conditional `id` takes its first branch there. -/
structure Ctx where
  count : Nat → List Nat → Nat
  fails : Nat → List Nat → Bool
  /-- `cond id path` — which way the conditional jump `id` goes in the iteration `path`: the test of
      an `{% if %}`, the filter of `{% for … if … %}` for the item, "the loop did not iterate" of
      `{% for %}…{% else %}` -/
  cond : Nat → List Nat → Bool := fun _ _ => true

/-- programs in the instruction shapes of the compiler -/
inductive P where
  | skip
  /-- an instruction that cannot fail here -/
  | instr (name : String)
  /-- an instruction that raises an error of its own when the data says so (`1 // x`, an unknown
      attribute in strict mode, …); the instruction is fetched and charged, then its dispatch fails -/
  | mayFail (name : String) (id : Nat)
  | seq (a b : P)
  /-- `{% for … %}`: `head` (… `PushLoop`) once, then per item `iter` (`Iterate`, store the target),
      the body, `back` (`Jump`), and `exit` (the `Iterate` that finds the end, …) once -/
  | loop (id : Nat) (head iter : List String) (body : P) (back exit : List String)
  /-- a conditional (the instructions of the test and the `JumpIfFalse` in front of it are ordinary
      instructions): `a` when the data says so — it ends with the `Jump` over `b` when there is an
      else part —, otherwise `b`.  `{% if %}`/`{% elif %}`/`{% else %}`, the else part of a `for`
      (taken when the loop did not iterate), the per-item test of a loop filter. -/
  | branch (id : Nat) (a b : P)
  deriving Repr

/-- concatenate the traces of consecutive parts up to and including the first one that failed -/
def chain : List (List String × Bool) → List String × Bool
  | [] => ([], true)
  | (t, false) :: _ => (t, false)
  | (t, true) :: rest => (t ++ (chain rest).1, (chain rest).2)

/-- the executed instruction trace of the unlimited run, and whether it ended normally
    (`false`: the last instruction of the trace raised the program's own error) -/
def exec (c : Ctx) : List Nat → P → List String × Bool
  | _, .skip => ([], true)
  | _, .instr n => ([n], true)
  | path, .mayFail n id => ([n], !c.fails id path)
  | path, .seq a b => chain [exec c path a, exec c path b]
  | path, .loop id head iter body back exit =>
    chain ((head, true) ::
      ((List.range (c.count id path)).map fun i =>
        chain [(iter, true), exec c (path ++ [i]) body, (back, true)]) ++ [(exit, true)])
  | path, .branch id a b => if c.cond id path then exec c path a else exec c path b

/-- the same on costs -/
def chainN : List (Nat × Bool) → Nat × Bool
  | [] => (0, true)
  | (k, false) :: _ => (k, false)
  | (k, true) :: rest => (k + (chainN rest).1, (chainN rest).2)

/-- THE COST AS A FUNCTION OF THE CONTEXT, computed on the program (no trace is built) -/
def cost (c : Ctx) : List Nat → P → Nat × Bool
  | _, .skip => (0, true)
  | _, .instr n => (costOf n, true)
  | path, .mayFail n id => (costOf n, !c.fails id path)
  | path, .seq a b => chainN [cost c path a, cost c path b]
  | path, .loop id head iter body back exit =>
    chainN ((total head, true) ::
      ((List.range (c.count id path)).map fun i =>
        chainN [(total iter, true), cost c (path ++ [i]) body, (total back, true)]) ++ [(total exit, true)])
  | path, .branch id a b => if c.cond id path then cost c path a else cost c path b

/-- a straight-line piece of code as a program -/
def afterP : List String → P
  | [] => .skip
  | i :: rest => .seq (.instr i) (afterP rest)

/-- how a render of the program ends -/
inductive Outcome where
  | ok
  /-- the program's own error (the one the unlimited run ends with) -/
  | ownError
  | outOfFuel
  deriving Repr, DecidableEq

/-- render of a structured program with `set_fuel(Some(B))` -/
def runProg (B : Nat) (c : Ctx) (p : P) : Outcome × Result :=
  let e := exec c [] p
  let r := runFuel B e.1
  (match r.status with
   | .outOfFuel => .outOfFuel
   | .done => if e.2 then .ok else .ownError, r)

/-- render without a budget -/
def runProgNoFuel (c : Ctx) (p : P) : Outcome × List String :=
  let e := exec c [] p
  (if e.2 then .ok else .ownError, e.1)

end MJ.Fuel
