import MJ.Gen.Tables
/-!
# C06 — the state of a VM activation across the switch to the parent template

`Executor::eval_impl` keeps, per activation, two caches indexed by the *local ids* that code
generation hands out per instruction stream (`get_local_id` in `compiler/codegen.rs`: the distinct
filter / test names of a stream in source order, macro bodies included, every block a stream of
its own).  `get_or_lookup_local` answers from a filled slot without looking at the name.  When the
activation reaches the end of an extending template it *re-targets* `state.instructions` to the
parent's stream and continues in the same activation: every piece of state that is indexed by the
ids of the old stream has to be reset there.  `MJ.Gen.c06ActivationLocals` (regenerated from the
source on every run) lists the locals of the activation, whether they are id-indexed and what the
end-of-instructions arm does with them; `MJ.Gen.c06StateAtParentSwitch` the fields of `State`.

The model: a stream is the list of its names (`s[i]?` = the name with local id `i`), a cache maps
slots to the name whose function was resolved, an activation processes events — `use i` (an
`ApplyFilter` / `PerformTest` with local id `i`) and `switch p` (end of instructions with a parent
stashed away).  The specification `runSpec` has no cache: a use resolves the name the *current*
stream gives the id.
-/
namespace MJ.BlocksAct

/-- an instruction stream, as far as local ids go: `s[i]?` is the name with local id `i` -/
abbrev Stream := List String

/-- slot ↦ the name whose function the slot holds -/
abbrev Cache := Nat → Option String

def Cache.empty : Cache := fun _ => none

def Cache.set (c : Cache) (i : Nat) (n : String) : Cache := fun j => if j = i then some n else c j

/-- `get_or_lookup_local`: a filled slot wins; otherwise the name is looked up and remembered -/
def useId (s : Stream) (c : Cache) (i : Nat) : Option String × Cache :=
  match c i with
  | some n => (some n, c)
  | none =>
    match s[i]? with
    | some n => (some n, c.set i n)
    | none => (none, c)

inductive Ev where
  | use (i : Nat)
  | switch (parent : Stream)
  deriving Repr

/-- the activation: `wipe c` says whether the end-of-instructions arm clears the cache `c` -/
def run (wipe : Cache → Bool) : Stream → Cache → List Ev → List (Option String)
  | _, _, [] => []
  | s, c, .use i :: rest => (useId s c i).1 :: run wipe s (useId s c i).2 rest
  | _, c, .switch p :: rest => run wipe p (if wipe c then Cache.empty else c) rest

/-- the specification: no cache, the current stream names the id -/
def runSpec : Stream → List Ev → List (Option String)
  | _, [] => []
  | s, .use i :: rest => s[i]? :: runSpec s rest
  | _, .switch p :: rest => runSpec p rest

/-- what the regenerated table says the switch does with a local of the activation -/
def treatment (name : String) : Option (Bool × String) :=
  (MJ.Gen.c06ActivationLocals.find? (·.1 == name)).map (·.2)

/-- the wipe policy a table row stands for: only an unconditional assignment at the top level of
    the arm (`reset`) is a wipe; `conditional` (assigned under some condition) and `carried` are
    not — the model takes the case in which the condition does not hold -/
def wipeOf (what : String) : Cache → Bool := fun _ => what == "reset"

/-- the id-indexed locals of the activation, per the table -/
def idIndexed : List (String × Bool × String) := MJ.Gen.c06ActivationLocals.filter (·.2.1)

/-- the policy "wipe only when slot 0 is filled" (ids are handed out in order …) -/
def wipeIfSlot0 : Cache → Bool := fun c => (c 0).isSome

/-- events of a whole render: besides uses and parent switches, `call s` starts a NEW activation
    on stream `s` (a block body, a `super()` definition, an included / imported template, a macro
    body: each is an `eval_impl` of its own, with empty caches) and `ret` ends the innermost one -/
inductive Ev2 where
  | use (i : Nat)
  | switch (parent : Stream)
  | call (s : Stream)
  | ret
  deriving Repr

/-- the activations of a render: the running one (`s`, `c`) and the suspended callers -/
def run2 (wipe : Cache → Bool) : Stream → Cache → List (Stream × Cache) → List Ev2 → List (Option String)
  | _, _, _, [] => []
  | s, c, stk, .use i :: rest => (useId s c i).1 :: run2 wipe s (useId s c i).2 stk rest
  | _, c, stk, .switch p :: rest => run2 wipe p (if wipe c then Cache.empty else c) stk rest
  | s, c, stk, .call s' :: rest => run2 wipe s' Cache.empty ((s, c) :: stk) rest
  | s, c, [], .ret :: rest => run2 wipe s c [] rest
  | _, _, (s0, c0) :: stk, .ret :: rest => run2 wipe s0 c0 stk rest

/-- the specification: the stream the innermost activation currently executes names the id -/
def runSpec2 : Stream → List Stream → List Ev2 → List (Option String)
  | _, _, [] => []
  | s, stk, .use i :: rest => s[i]? :: runSpec2 s stk rest
  | _, stk, .switch p :: rest => runSpec2 p stk rest
  | s, stk, .call s' :: rest => runSpec2 s' (s :: stk) rest
  | s, [], .ret :: rest => runSpec2 s [] rest
  | _, s0 :: stk, .ret :: rest => runSpec2 s0 stk rest

end MJ.BlocksAct
