import MJ.Gen.Tables
/-!
# Nesting accounting of the expression parser (C01, `ast_depth_bound`)

`minijinja/src/compiler/parser.rs` keeps two counters:

* `depth` — incremented for the duration of every call that passes `with_recursion_guard!`
  (`parse_expr`, `parse_primary`, `parse_stmt`, the recursive calls of the unary operators, of the
  `else` branch of a conditional expression and of nested assignment targets); the parse fails
  above `MAX_RECURSION`;
* `expr_nesting` — the longest chain of nodes *built by loops* (binary operators, `x if c`
  chains, attribute/subscript/call/slice postfix chains, filter and test chains) on any path
  through the expression parsed most recently.  A function with such a loop saves the counter and
  resets it on entry, bumps it (`nest_expr`, failing above `MAX_EXPR_NESTING`) for every node its
  loop wraps around the expression parsed so far, and leaves the larger of its own value and the
  saved one behind.

`P` is a parse derivation reduced to these two aspects; `sim` is the parser's accounting run on it;
`chainDepth`/`guardDepth` are the declarative quantities.  `MJ/Props/C01.lean` proves that `sim`
computes exactly `chainDepth` (so the limit is a limit on the longest loop-built chain on a path, not
on the number of operators of an expression) and bounds the depth of the produced AST.
Tied to the code by the `k nest` stream of the harness: derivations are unparsed to source text
(`harness/src/bin/c01.rs: nest_source`) and the real parser's verdict is compared with `sim`.
-/
namespace MJ.Nesting

/-- parse derivation of an expression (or, for `group`, also of a statement with its bodies) -/
inductive P where
  /-- a constant or a variable -/
  | leaf
  /-- a function with a chain loop: the operand parsed first, then one sub-derivation per loop
      iteration (right operand, call arguments, subscript, filter arguments; `leaf` if the iteration
      parses no sub-expression, e.g. `.attr`); every iteration wraps one more node (two for a negated
      test) around the expression so far -/
  | chain (left : P) (its : List P)
  /-- a node reached through the recursion guard that no loop wraps: a unary operator, a list / map /
      tuple literal, a parenthesised expression, a call-argument list, a statement with its bodies -/
  | group (items : List P)

mutual
  /-- the longest chain of loop-built nodes on any path -/
  def chainDepth : P → Nat
    | .leaf => 0
    | .chain l its => chainFold (chainDepth l) its
    | .group items => chainMax items
  def chainFold (d : Nat) : List P → Nat
    | [] => d
    | it :: its => chainFold (max d (chainDepth it) + 1) its
  def chainMax : List P → Nat
    | [] => 0
    | p :: ps => max (chainDepth p) (chainMax ps)
end

mutual
  /-- the deepest nesting of guarded calls -/
  def guardDepth : P → Nat
    | .leaf => 0
    | .chain l its => max (guardDepth l) (guardMax its)
    | .group items => guardMax items + 1
  def guardMax : List P → Nat
    | [] => 0
    | p :: ps => max (guardDepth p) (guardMax ps)
end

/-- upper bounds on the AST nodes a derivation step contributes to a path: a loop iteration wraps at
    most 2 nodes (`x is not t`: `Test` inside `UnaryOp`), a guarded level at most 3 that no loop built
    (a comparison `a not in b`: `BinOp` inside `UnaryOp`, plus the literal / unary operator) -/
def wrapNodes : Nat := 2
def groupNodes : Nat := 3

mutual
  /-- upper bound on the depth of the AST (nodes on the longest path) -/
  def astDepthUB : P → Nat
    | .leaf => 1
    | .chain l its => astFold (astDepthUB l) its
    | .group items => astMax items + groupNodes
  def astFold (d : Nat) : List P → Nat
    | [] => d
    | it :: its => astFold (max d (astDepthUB it) + wrapNodes) its
  def astMax : List P → Nat
    | [] => 0
    | p :: ps => max (astDepthUB p) (astMax ps)
end

inductive Fail where
  /-- "expression is nested too deeply" -/
  | chain
  /-- "template exceeds maximum recursion limits" -/
  | recursion
  deriving DecidableEq, Repr

instance : DecidableEq (Except Fail Nat) := fun a b =>
  match a, b with
  | .ok x, .ok y => if h : x = y then isTrue (by rw [h]) else isFalse (fun e => h (by cases e; rfl))
  | .error x, .error y => if h : x = y then isTrue (by rw [h]) else isFalse (fun e => h (by cases e; rfl))
  | .ok _, .error _ => isFalse (fun e => by cases e)
  | .error _, .ok _ => isFalse (fun e => by cases e)

/-- the limits, as parameters (instantiated with the constants regenerated from `parser.rs`) -/
structure Limits where
  maxRecursion : Nat
  maxNesting : Nat

def Limits.real : Limits := ⟨Gen.maxRecursionParser, Gen.maxExprNesting⟩

mutual
  /-- the parser's accounting: `depth` is the guard counter on entry, `hw` the value of
      `expr_nesting` on entry; the result is `expr_nesting` afterwards -/
  def sim (L : Limits) (depth : Nat) (hw : Nat) : P → Except Fail Nat
    | .leaf => .ok hw
    | .chain l its =>
      -- `let outer = mem::replace(&mut self.expr_nesting, 0)` … `self.expr_nesting.max(outer)`
      match sim L depth 0 l with
      | .error e => .error e
      | .ok d =>
        match simFold L depth d its with
        | .error e => .error e
        | .ok d' => .ok (max d' hw)
    | .group items =>
      -- `with_recursion_guard!`: `depth += 1; if depth > MAX_RECURSION { return Err }`
      if depth + 1 > L.maxRecursion then .error .recursion
      else simItems L (depth + 1) hw items
  /-- the loop of a chain function: parse the iteration's sub-expression, then `nest_expr()` -/
  def simFold (L : Limits) (depth : Nat) (d : Nat) : List P → Except Fail Nat
    | [] => .ok d
    | it :: its =>
      match sim L depth d it with
      | .error e => .error e
      | .ok d1 =>
        if d1 + 1 > L.maxNesting then .error .chain
        else simFold L depth (d1 + 1) its
  /-- the items of a guarded level, one after the other -/
  def simItems (L : Limits) (depth : Nat) (hw : Nat) : List P → Except Fail Nat
    | [] => .ok hw
    | p :: ps =>
      match sim L depth hw p with
      | .error e => .error e
      | .ok hw' => simItems L depth hw' ps
end

/-- parse of a top-level expression -/
def parse (L : Limits) (p : P) : Except Fail Nat := sim L 0 0 p

end MJ.Nesting
