import MJ.Model.ValueSer
/-!
# serde_json's `Serializer` on a stream of serializer calls (C16)

`wCall` is `serde_json::Serializer<W, F>` (ser.rs) driven by the calls `impl Serialize for Value`
makes (`MJ.ValueSer.Call`): `serialize_seq(len)` writes `begin_array`, and — the special case the
length contract matters for — closes the array at once when `len == Some(0)` (state `Empty`);
every element is preceded by `begin_array_value(state == First)`; `end()` writes `end_array` unless
the state is still `Empty`.  Maps likewise, keys through the `MapKeySerializer`.
The `PrettyFormatter` keeps `current_indent` / `has_value`; `current_indent -= 1` on 0 panics (debug
build).  The compact formatters are stateless.
-/
namespace MJ.JsonSer
open MJ.Serde MJ.Json MJ.ValueSer

inductive WR (α : Type) where
  | ok (a : α)
  /-- serde_json returns an error (map key without string form) -/
  | refuse
  /-- arithmetic underflow of `PrettyFormatter::current_indent` -/
  | panic
  deriving Inhabited

/-- `PrettyFormatter` state -/
structure PSt where
  indent : Nat
  hasValue : Bool
  deriving Inhabited

def beginC (s : PSt) : PSt := { indent := s.indent + 1, hasValue := false }

/-- `end_array` / `end_object` -/
def endC (st : Style) (close : Char) (s : PSt) : WR (List Char × PSt) :=
  match st with
  | .pretty n =>
    if s.indent = 0 then .panic
    else
      let i := s.indent - 1
      .ok ((if s.hasValue then '\n' :: indentOf n i else []) ++ [close], { indent := i, hasValue := s.hasValue })
  | _ => .ok ([close], { indent := s.indent - 1, hasValue := s.hasValue })

def endV (s : PSt) : PSt := { s with hasValue := true }

/-- `MapKeySerializer` -/
def keyOfCall : Call → JR (List Char)
  | .str s => .ok s
  | .int i => .ok (intDigits i)
  | .bool b => .ok (if b then ['t', 'r', 'u', 'e'] else ['f', 'a', 'l', 's', 'e'])
  | .f64 bits => if f64Finite bits then .ok (f64Text bits) else .refuse
  | _ => .refuse

def bytesText (st : Style) (s : PSt) : Bool → List Nat → List Char
  | _, [] => []
  | first, b :: bs => st.before (s.indent) first true ++ natDigits b ++ bytesText st s false bs

mutual
def wCall (st : Style) : Call → PSt → WR (List Char × PSt)
  | .unit, s => .ok (['n', 'u', 'l', 'l'], s)
  | .bool true, s => .ok (['t', 'r', 'u', 'e'], s)
  | .bool false, s => .ok (['f', 'a', 'l', 's', 'e'], s)
  | .int i, s => .ok (intDigits i, s)
  | .f64 bits, s => .ok (if f64Finite bits then f64Text bits else ['n', 'u', 'l', 'l'], s)
  | .str x, s => .ok (writeStr x, s)
  | .bytes [], s =>
    match endC st ']' (beginC s) with
    | .ok (e, s2) => .ok ('[' :: e, s2)
    | .refuse => .refuse
    | .panic => .panic
  | .bytes (b :: bs), s =>
    match endC st ']' (endV (beginC s)) with
    | .ok (e, s2) => .ok ('[' :: (bytesText st (beginC s) true (b :: bs) ++ e), s2)
    | .refuse => .refuse
    | .panic => .panic
  | .seq ann elems, s =>
    if ann = some 0 then
      -- `[` `]` at once, state `Empty`
      match endC st ']' (beginC s) with
      | .refuse => .refuse
      | .panic => .panic
      | .ok (e1, s1) =>
        match elems with
        | [] => .ok ('[' :: e1, s1)
        | _ :: _ =>
          match wElems st false elems s1 with
          | .refuse => .refuse
          | .panic => .panic
          | .ok (t, s2) =>
            match endC st ']' s2 with
            | .refuse => .refuse
            | .panic => .panic
            | .ok (e2, s3) => .ok ('[' :: (e1 ++ (t ++ e2)), s3)
    else
      match wElems st true elems (beginC s) with
      | .refuse => .refuse
      | .panic => .panic
      | .ok (t, s2) =>
        match endC st ']' s2 with
        | .refuse => .refuse
        | .panic => .panic
        | .ok (e, s3) => .ok ('[' :: (t ++ e), s3)
  | .map ann entries, s =>
    if ann = some 0 then
      match endC st '}' (beginC s) with
      | .refuse => .refuse
      | .panic => .panic
      | .ok (e1, s1) =>
        match entries with
        | [] => .ok ('{' :: e1, s1)
        | _ :: _ =>
          match wEntries st false entries s1 with
          | .refuse => .refuse
          | .panic => .panic
          | .ok (t, s2) =>
            match endC st '}' s2 with
            | .refuse => .refuse
            | .panic => .panic
            | .ok (e2, s3) => .ok ('{' :: (e1 ++ (t ++ e2)), s3)
    else
      match wEntries st true entries (beginC s) with
      | .refuse => .refuse
      | .panic => .panic
      | .ok (t, s2) =>
        match endC st '}' s2 with
        | .refuse => .refuse
        | .panic => .panic
        | .ok (e, s3) => .ok ('{' :: (t ++ e), s3)
def wElems (st : Style) : Bool → List Call → PSt → WR (List Char × PSt)
  | _, [], s => .ok ([], s)
  | first, c :: cs, s =>
    match wCall st c s with
    | .refuse => .refuse
    | .panic => .panic
    | .ok (t, s1) =>
      match wElems st false cs (endV s1) with
      | .refuse => .refuse
      | .panic => .panic
      | .ok (ts, s2) => .ok (st.before s.indent first true ++ (t ++ ts), s2)
def wEntries (st : Style) : Bool → List (Call × Call) → PSt → WR (List Char × PSt)
  | _, [], s => .ok ([], s)
  | first, (k, v) :: rest, s =>
    match keyOfCall k with
    | .refuse => .refuse
    | .unmodelled => .refuse
    | .ok key =>
      match wCall st v s with
      | .refuse => .refuse
      | .panic => .panic
      | .ok (t, s1) =>
        match wEntries st false rest (endV s1) with
        | .refuse => .refuse
        | .panic => .panic
        | .ok (ts, s2) => .ok (st.before s.indent first false ++ (writeStr key ++ (st.keySep ++ (t ++ ts))), s2)
end

/-- the whole text `serde_json::to_string` / `to_writer` with a formatter produces for a call tree -/
def writeCalls (st : Style) (c : Call) : WR (List Char) :=
  match wCall st c { indent := 0, hasValue := false } with
  | .ok (t, _) => .ok t
  | .refuse => .refuse
  | .panic => .panic

mutual
/-- the JSON image of a call tree (what a reader should get back) -/
def jOfCall : Call → JR J
  | .unit => .ok .null
  | .bool b => .ok (.bool b)
  | .int i => .ok (.num (intDigits i))
  | .f64 bits => if f64Finite bits then .ok (.num (f64Text bits)) else .ok .null
  | .str s => .ok (.str s)
  | .bytes b => .ok (.arr (b.map fun n => .num (natDigits n)))
  | .seq _ elems => match jOfCallList elems with
                    | .ok js => .ok (.arr js)
                    | .refuse => .refuse
                    | .unmodelled => .unmodelled
  | .map _ entries => match jOfCallPairs entries with
                      | .ok js => .ok (.obj js)
                      | .refuse => .refuse
                      | .unmodelled => .unmodelled
def jOfCallList : List Call → JR (List J)
  | [] => .ok []
  | x :: xs => JR.join2 (· :: ·) (jOfCall x) (jOfCallList xs)
def jOfCallPairs : List (Call × Call) → JR (List (List Char × J))
  | [] => .ok []
  | (k, v) :: rest => JR.join2 (· :: ·) (JR.join2 (·, ·) (keyOfCall k) (jOfCall v)) (jOfCallPairs rest)
end

end MJ.JsonSer
