import MJ.Model.UndefBuiltin
/-!
# Hand model of the VM (vm/mod.rs `eval_impl`) as a machine whose steps consult the mode only by asking

`stepC ops P i s : Comp St` is one instruction.  It is written as

* the **questions** the instruction arm of `eval_impl` puts to the undefined behaviour, in the
  order in which the arm calls the helpers (`guardQs`; the call list per arm is also extracted from
  the source, `MJ.Gen.undefVmSites`, and compared in `MJ.C12.vm_sites_as_modelled`), followed by
* the mode-independent rest (`exec`), on the value domain of `MJ/Model/UndefVal.lean`;

except for `Emit` (the answer of `Environment::format` decides whether the formatter is called),
calls of builtins (`callBuiltin`: conversion layer + body, both `Comp`s) and `MergeKwargs` (checks
and type errors interleaved).  Macro calls, `caller()`, includes of a named template run *inside*
the machine: a call pushes a return record and continues in the callee's instructions, so the
callee's questions are asked under the same mode.

`step m i s = (stepC … i s).run m`, so every step depends on the mode only through the helpers by
construction.  What the model does not cover is the distinguished error `unsupported` (the driver
skips the case; it is still judged by the oracle); mode-independent operations that are not
spelled out are the parameters `Ops`.

Tied to the code by the C12 correspondence: the driver runs this model on the *real* instruction
streams the compiler produced for the generated programs, under all four modes.
-/
namespace MJ.Undef

inductive CmpOp | eq | ne | lt | lte | gt | gte | in_ | notIn
  deriving DecidableEq, Repr

inductive Instr where
  | emitRaw (s : String) | emit
  | storeLocal (n : String) | lookup (n : String)
  | getAttr (n : String) | getItem | slice
  | loadConst (v : V)
  | buildList (n : Nat) | buildMap (n : Nat)
  | buildListDyn                   -- BuildList(None): the count is on the stack
  | buildKwargs (n : Nat) | mergeKwargs (n : Nat)
  | unpackList (n : Nat)
  | arith (op : V.ArOp) | neg
  | binop (name : String)          -- Div IntDiv Rem Pow
  | cmp (op : CmpOp)               -- Eq Ne Lt Lte Gt Gte (op_binop!) and In
  | cmpPreserve (op : CmpOp)       -- CompareAndPreserve
  | not | stringConcat
  | applyFilter (name : String) (argc : Nat)
  | performTest (name : String) (argc : Nat)
  | callFunction (name : String) (argc : Nat)
  | callMethod (name : String) (argc : Nat)
  | callObject (argc : Nat)
  | pushLoop (flags : Nat) | iterate (t : Nat) | pushDidNotIterate | popFrame | popLoopFrame | pushWith
  | jump (t : Nat) | jumpIfFalse (t : Nat) | jumpIfFalseOrPop (t : Nat) | jumpIfTrueOrPop (t : Nat)
  | beginCapture (discard : Bool := false) | endCapture | exportLocals
  | pushAutoEscape | popAutoEscape
  /-- `UnpackLists(n)`: the `*args` batches of a call are spread over the stack, followed by their total count -/
  | unpackLists (n : Nat)
  /-- a call instruction whose argument count is `None`: it is popped from the stack -/
  | callDyn (call : Instr)
  | dupTop | discardTop | swap
  | isUndefined | enclose (n : String) | getClosure
  | buildMacro (name : String) (offset : Nat) (flags : Nat) | ret
  | include_ (ignoreMissing : Bool)
  | callBlock (name : String)
  | loadBlocks | fastSuper
  | unsupported (name : String)

structure LoopSt where
  /-- all items of the iterable -/
  items : List V
  /-- number of `next()` calls so far (`Loop::idx` + 1) -/
  calls : Nat := 0
  /-- the iterator knew its length (lists, maps) -/
  lenKnown : Bool := true
  withVar : Bool := true
  lastChanged : Option (List V) := Option.none

/-- one level of the output: `some chunks` = the text so far (newest chunk first) of the render target or of a
    `CaptureMode::Capture`; `none` = the output is DISCARDING (`CaptureMode::Discard`: the top level of a child
    template after `{% extends %}`, a module loaded with `{% from .. import %}`; `Output::null()` of
    `Expression::eval`) -/
abbrev OutBuf := Option (List String)

structure Frame where
  locals : List (String × V) := []
  loop : Option LoopSt := Option.none
  /-- closure receiving the stores of this frame (`Frame::closure`) -/
  closure : Option Nat := Option.none
  /-- closure a macro body reads from (`Frame::closure_context`) -/
  closureCtx : Option Nat := Option.none

inductive RetKind | macroCall | includeCall | blockCall | superCall
  deriving DecidableEq, Repr

/-- what a nested evaluation returns to -/
structure Ret where
  kind : RetKind
  code : Nat
  pc : Nat
  stack : List V
  frames : List Frame := []
  outs : List OutBuf := []
  closure : Option Nat := Option.none
  /-- height of the frame stack to restore (`restore_stack_depth`) -/
  depth : Nat := 0
  /-- `State::current_block` to restore -/
  block : Option String := Option.none
  /-- `super()` as an expression: the output of the parent block is captured and pushed -/
  capture : Bool := false
  /-- `State::auto_escape` to restore (an included template runs with the setting its name implies) -/
  autoEscape : Bool := false

structure St where
  /-- which instruction list is running -/
  code : Nat := 0
  pc : Nat := 0
  stack : List V := []
  frames : List Frame := [{}]        -- innermost first; the last one is the base frame
  /-- the output: one buffer per open capture (innermost first), the last one is the render target; a write
      goes to the first one (`Output::target`) -/
  outs : List OutBuf := [some []]
  ctx : List (String × V) := []
  /-- `State::closures` -/
  closures : List (List (String × V)) := []
  /-- pending returns of macro calls / includes, innermost first -/
  calls : List Ret := []
  /-- 0 = default formatter; otherwise `Environment::set_formatter` was used and `Emit` goes through
      `Environment::format`: 1 = a formatter delegating to `escape_formatter`, 2 = one that makes
      every value visible (undefined → `U`, none → `N`), 3 = a delegating one counting its calls -/
  formatter : Nat := 0
  /-- number of times the custom formatter was invoked -/
  fmtCalls : Nat := 0
  /-- `State::auto_escape`: HTML auto-escaping on (the JSON and custom formats are outside the model) -/
  autoEscape : Bool := false
  /-- the `auto_escape_stack` of `{% autoescape %}` blocks -/
  aeStack : List Bool := []
  /-- `State::blocks`: per block name the instruction lists (the template's own first, then those of
      the templates it extends) and the depth `super()` has reached; `none` = not initialised yet
      (the blocks of the template itself, `Prog.blocks`) -/
  blockStacks : Option (List (String × List Nat × Nat)) := Option.none
  /-- `State::current_block` -/
  curBlock : Option String := Option.none
  /-- the instructions of the parent template stashed by `LoadBlocks` (`parent_instructions`) -/
  parent : Option Nat := Option.none

/-- the instruction lists of a render: `codes[0]` is the template, the others are templates it
    can include by name -/
structure Prog where
  codes : Array (Array Instr)
  templates : List (String × Nat) := []
  /-- the blocks of the template itself: name → instruction list -/
  blocks : List (String × Nat) := []
  /-- the blocks of the templates it can extend: template name → (block name → instruction list) -/
  parentBlocks : List (String × List (String × Nat)) := []

def globalFunctions : List String := ["range", "dict", "debug", "namespace"]

namespace St
def listGet (kvs : List (String × V)) (n : String) : Option V := V.mapGet kvs n

/-- `Context::load`, frame by frame from the innermost: locals, the `loop` variable, the closure
    a macro body reads from -/
def lookupFrames (closures : List (List (String × V))) : List Frame → Nat → String → Option V
  | [], _, _ => Option.none
  | f :: r, height, n =>
    match listGet f.locals n with
    | some v => some v
    | Option.none =>
      match (if n == "loop" then f.loop else Option.none) with
      | some l => if l.withVar then some (.loopRef height) else lookupFrames closures r (height - 1) n
      | Option.none =>
        match f.closureCtx.bind (fun id => closures[id]?.bind (fun c => listGet c n)) with
        | some v => some v
        | Option.none => lookupFrames closures r (height - 1) n

/-- `State::lookup` apart from the globals of the environment -/
def lookup? (s : St) (n : String) : Option V :=
  match lookupFrames s.closures s.frames s.frames.length n with
  | some v => some v
  | Option.none => listGet s.ctx n

/-- `Output::write_str`: into the innermost buffer; nothing happens when that one is discarding -/
def write (s : St) (chunk : String) : St :=
  match s.outs with
  | some o :: r => { s with outs := some (chunk :: o) :: r }
  | Option.none :: _ => s
  | [] => { s with outs := [some [chunk]] }

/-- `Output::is_discarding` -/
def isDiscarding (s : St) : Bool :=
  match s.outs with
  | Option.none :: _ => true
  | _ => false

def output (s : St) : String :=
  match s.outs.getLast? with
  | some (some o) => String.join o.reverse
  | _ => ""

/-- what the harness observes: the output, plus the call count for the counting formatter -/
def observed (s : St) : String :=
  if s.formatter = 3 then s.output ++ "#" ++ toString s.fmtCalls else s.output

def next (s : St) : St := { s with pc := s.pc + 1 }

/-- `Output::end_capture` / the result of a macro call: a safe string when auto-escaping is on -/
def captured (s : St) (text : String) : V := if s.autoEscape then .safe text else .str text

/-- the loop state the `loop` object of height `h` refers to -/
def loopAt (s : St) (h : Nat) : Option LoopSt :=
  (s.frames[s.frames.length - h]?).bind (fun f => f.loop)

def setLoopAt (s : St) (h : Nat) (l : LoopSt) : St :=
  { s with frames := s.frames.modify (s.frames.length - h) (fun f => { f with loop := some l }) }
end St

/-- arguments of a call: the top `argc` stack entries, first argument deepest -/
def callArgs (stack : List V) (argc : Nat) : Option (List V × List V) :=
  if argc ≤ stack.length then some ((stack.take argc).reverse, stack.drop argc) else Option.none

def popN (n : Nat) (st : List V) : Option (List V × List V) := callArgs st n

def cmpQs (op : CmpOp) (lhs rhs : V) : List HQ :=
  match op with
  | .in_ | .notIn => [.assertIterable rhs.kind, .assertNotUndef lhs.kind]
  | _ => [.assertNotUndef lhs.kind, .assertNotUndef rhs.kind]

def cmpExec (op : CmpOp) (lhs rhs : V) : Except Err Bool :=
  match op with
  | .eq => .ok (V.beq lhs rhs)
  | .ne => .ok (!V.beq lhs rhs)
  | .lt => .ok (V.cmp lhs rhs == .lt)
  | .lte => .ok (V.cmp lhs rhs != .gt)
  | .gt => .ok (V.cmp lhs rhs == .gt)
  | .gte => .ok (V.cmp lhs rhs != .lt)
  | .in_ => V.contains rhs lhs
  | .notIn => match V.contains rhs lhs with
    | .ok b => .ok (!b)
    | .error e => .error e

/-- attributes of the `loop` object (`Loop::get_value_by_str`) -/
def loopAttr (l : LoopSt) (n : String) : Except Err (Option V) :=
  if l.calls = 0 then .ok (some .undef) else
  let idx := l.calls - 1
  let len := l.items.length
  let needLen (v : V) : Except Err (Option V) :=
    if l.lenKnown then .ok (some v) else .error (.unsupported "loop over an iterator of unknown length")
  match n with
  | "index" => .ok (some (.int (idx + 1)))
  | "index0" => .ok (some (.int idx))
  | "first" => .ok (some (.bool (idx == 0)))
  | "length" => needLen (.int len)
  | "revindex" => needLen (.int (len - idx))
  | "revindex0" => needLen (.int (len - idx - 1))
  | "last" => needLen (.bool (len == 0 || idx == len - 1))
  | "depth" => .ok (some (.int 1))
  | "depth0" => .ok (some (.int 0))
  | "previtem" => .ok (some (if idx = 0 then .undef else (l.items[idx - 1]?).getD .undef))
  | "nextitem" => .ok (some ((l.items[idx + 1]?).getD .undef))
  | _ => .ok Option.none

/-- **the questions an instruction puts to the undefined behaviour** (operands named as in
    `eval_impl`), for the instructions that ask a fixed list and then run mode-independently.
    A stack that is too short is left to `exec` to report. -/
def guardQs (i : Instr) (s : St) : List HQ :=
  match i, s.stack with
  | .getAttr n, a :: _ =>
      match a with
      | .loopRef h =>
          match (s.loopAt h).map (fun l => loopAttr l n) with
          | some (.ok Option.none) => [.handleUndefined false]
          | _ => []
      | a => match V.getAttr a n with
        | some _ => []
        | Option.none => [.handleUndefined a.isUndefined]
  | .getItem, a :: b :: _ =>                       -- a = key (popped first), b = base
      match V.getItem b a with
      | .ok Option.none => [.handleUndefined b.isUndefined]
      | _ => []
  | .slice, _ :: _ :: _ :: a :: _ => [.slice a.kind]
  | .cmp .in_, a :: b :: _ =>                      -- `In`: a = container (popped first), b = value
      [.assertIterable a.kind, .assertNotUndef b.kind]
  | .cmp op, b :: a :: _ => cmpQs op a b           -- op_binop!: b popped first
  | .cmpPreserve op, b :: a :: _ => cmpQs op a b
  | .not, a :: _ => [.isTrue a.kind]
  | .stringConcat, a :: b :: _ => [.assertNotUndef b.kind, .assertNotUndef a.kind]
  | .jumpIfFalse _, a :: _ => [.isTrue a.kind]
  | .jumpIfFalseOrPop _, a :: _ => [.isTrue a.kind]
  | .jumpIfTrueOrPop _, a :: _ => [.isTrue a.kind]
  | .pushLoop _, a :: _ => [.tryIter a.kind]
  | _, _ => []

/-- `BuildMap` / `BuildKwargs`: pairs are inserted in source order (a later duplicate key wins) -/
def buildMapFrom (acc : List (String × V)) : List V → Option (List (String × V))
  | [] => some acc
  | .str k :: v :: r => buildMapFrom (V.mapInsert acc k v) r
  | _ => Option.none

/-- how many of the topmost operands the instruction looks inside (macro objects, the loop object
    and keyword arguments are only passed around by the model) -/
def inspects : Instr → Nat
  | .emit | .neg | .not | .jumpIfFalse _ | .jumpIfFalseOrPop _ | .jumpIfTrueOrPop _ | .pushLoop _ | .unpackList _ | .pushAutoEscape => 1
  | .getItem | .arith _ | .binop _ | .cmp _ | .cmpPreserve _ | .stringConcat => 2
  | .slice => 4
  | .buildList n => n
  | .buildMap n => 2 * n
  | _ => 0

/-- `Macro::prepare_args` -/
def macroArgs (spec : List String) (callerRef : Bool) (args : List V) : Except Err (List V × Option V) :=
  let (pos, kw) : List V × List (String × V) :=
    match args.getLast? with
    | some (.kwargs kvs) => (args.dropLast, kvs)
    | _ => (args, [])
  if pos.length > spec.length then .error (.other "TooManyArguments") else
  let rec bind : List String → Nat → List V → List String → Except Err (List V × List String)
    | [], _, acc, used => .ok (acc.reverse, used)
    | n :: r, idx, acc, used =>
      match pos[idx]?, V.mapGet kw n with
      | some _, some _ => .error (.other "TooManyArguments")
      | some a, Option.none => bind r (idx + 1) (a :: acc) used
      | Option.none, some k => bind r (idx + 1) (k :: acc) (n :: used)
      | Option.none, Option.none => bind r (idx + 1) (.undef :: acc) used
  match bind spec 0 [] [] with
  | .error e => .error e
  | .ok (vals, used) =>
    let used := if callerRef then "caller" :: used else used
    if kw.any (fun p => !used.contains p.1) then .error (.other "TooManyArguments")
    else .ok (vals, if callerRef then some ((V.mapGet kw "caller").getD .undef) else Option.none)

/-- `Macro::call` → `eval_macro`: a fresh context (base frame + closure frame), the arguments as
    the initial stack, an output of its own; the `Return` instruction comes back -/
def enterMacro (s : St) (rest : List V) (code offset : Nat) (closure : Option Nat) (vals : List V)
    (caller : Option V) : St :=
  { s with
    calls := { kind := .macroCall, code := s.code, pc := s.pc + 1, stack := rest, frames := s.frames, outs := s.outs } :: s.calls
    code := code, pc := offset
    stack := vals.reverse
    frames := [{ closureCtx := closure, locals := match caller with | some c => [("caller", c)] | Option.none => [] }, {}]
    outs := [some []] }

/-- calling the value `f` with `args` (`Value::call`) -/
def callValue (ops : Ops) (s : St) (rest : List V) (f : V) (args : List V) : Except Err St :=
  match f with
  | .mac _ spec code offset closure callerRef =>
      match macroArgs spec callerRef args with
      | .error e => .error e
      | .ok (vals, caller) => .ok (enterMacro s rest code offset closure vals caller)
  | .loopRef _ => .error (.unsupported "loop recursion")
  | .kwargs _ => .error (.unsupported "call of keyword arguments")
  | .module .. => .error .invalidOperation
  | f => match ops.callValue f args with
    | .error e => .error e
    | .ok v => .ok { s with stack := v :: rest }.next

/-- methods of the `loop` object -/
def loopMethod (s : St) (rest : List V) (h : Nat) (name : String) (args : List V) : Except Err St :=
  match s.loopAt h with
  | Option.none => .error (.unsupported "loop object outside its loop")
  | some l =>
    if args.any V.isOpaque then .error (.unsupported "opaque argument") else
    if name == "cycle" then
      match args with
      | [] => .error (.other "MissingArgument")
      | _ => .ok { s with stack := ((args[(l.calls - 1) % args.length]?).getD .undef) :: rest }.next
    else if name == "changed" then
      let same := match l.lastChanged with
        | some old => V.beqList old args
        | Option.none => false
      if same then .ok { s with stack := .bool false :: rest }.next
      else .ok { (s.setLoopAt h { l with lastChanged := some args }) with stack := .bool true :: rest }.next
    else .error (.other "UnknownMethod")

/-- `perform_super`: the next instruction list of the current block's stack, in a fresh frame -/
def enterSuper (P : Prog) (s : St) (capture : Bool) (rest : List V) : Except Err St :=
  match s.curBlock with
  | Option.none => .error .invalidOperation
  | some name =>
    let stacks := s.blockStacks.getD (P.blocks.map (fun p => (p.1, [p.2], 0)))
    match stacks.find? (fun p => p.1 == name) with
    | some (_, codes, depth) =>
      match codes[depth + 1]? with
      | some code =>
        .ok { s with
          calls := { kind := .superCall, code := s.code, pc := s.pc + 1, stack := rest, depth := s.frames.length,
                     block := s.curBlock, capture := capture } :: s.calls
          code := code, pc := 0, stack := [], frames := {} :: s.frames
          outs := if capture then some [] :: s.outs else s.outs
          blockStacks := some (stacks.map (fun p => if p.1 == name then (p.1, p.2.1, depth + 1) else p)) }
      | Option.none => .error .invalidOperation
    | Option.none => .error .invalidOperation

/-- `default_auto_escape_callback`: what the name of a template implies (`none` = a format outside the model) -/
def initialAutoEscape (name : String) : Option Bool :=
  let ends (ext : String) : Bool := ext.toList.isSuffixOf name.toList
  if ends ".html" || ends ".htm" || ends ".xml" then some true
  else if ends ".json" || ends ".json5" || ends ".js" || ends ".yaml" || ends ".yml" || ends ".j2" || ends ".jinja"
       || ends ".jinja2" then Option.none
  else some false

/-- the mode-independent rest of every instruction -/
def exec (ops : Ops) (P : Prog) (i : Instr) (s : St) : Except Err St :=
  match i, s.stack with
  | .emitRaw t, _ => .ok (s.write t).next
  | .storeLocal n, v :: r =>
      match s.frames with
      | f :: fr =>
        let closures := match f.closure with
          | some id => s.closures.modify id (fun c => (n, v) :: c.filter (fun p => p.1 != n))
          | Option.none => s.closures
        .ok { s with stack := r, closures := closures,
                     frames := { f with locals := (n, v) :: f.locals.filter (fun p => p.1 != n) } :: fr }.next
      | [] => .error .stack
  | .lookup n, st =>
      match s.lookup? n with
      | some v => .ok { s with stack := v :: st }.next
      | Option.none =>
        if globalFunctions.contains n then .error (.unsupported "a global function as a value")
        else .ok { s with stack := .undef :: st }.next
  | .getAttr n, a :: r =>
      match a with
      | .loopRef h => match s.loopAt h with
        | Option.none => .error (.unsupported "loop object outside its loop")
        | some l => match loopAttr l n with
          | .error e => .error e
          | .ok x => .ok { s with stack := (x.getD .undef) :: r }.next
      | .mac .. | .kwargs _ => .error (.unsupported "attribute of a macro")
      | a => .ok { s with stack := ((V.getAttr a n).getD .undef) :: r }.next      -- also the names a module exports
  | .getItem, a :: b :: r =>
      match V.getItem b a with
      | .error e => .error e
      | .ok x => .ok { s with stack := (x.getD .undef) :: r }.next
  | .slice, step :: stop :: b :: a :: r =>
      match V.slice a b stop step with
      | .error e => .error e
      | .ok v => .ok { s with stack := v :: r }.next
  | .loadConst v, st => .ok { s with stack := v :: st }.next
  | .buildList n, st =>
      match popN n st with
      | some (xs, r) => .ok { s with stack := .seq xs :: r }.next
      | Option.none => .error .stack
  | .buildListDyn, .int n :: st =>
      match popN n.toNat st with
      | some (xs, r) => if xs.any V.isOpaque then .error (.unsupported "opaque operand") else .ok { s with stack := .seq xs :: r }.next
      | Option.none => .error .stack
  | .buildMap n, st =>
      match popN (2 * n) st with
      | some (xs, r) => match buildMapFrom [] xs with
        | some kvs => .ok { s with stack := .map kvs :: r }.next
        | Option.none => .error (.unsupported "non-string map key")
      | Option.none => .error .stack
  | .buildKwargs n, st =>
      match popN (2 * n) st with
      | some (xs, r) => match buildMapFrom [] xs with
        | some kvs => .ok { s with stack := .kwargs kvs :: r }.next
        | Option.none => .error (.unsupported "non-string kwargs key")
      | Option.none => .error .stack
  | .unpackList n, v :: r =>
      match v with
      | .seq xs | .iter xs =>
          if xs.length = n then .ok { s with stack := xs ++ r }.next else .error (.other "CannotUnpack")
      | .map kvs => if kvs.length = n then .ok { s with stack := kvs.map (fun (p : String × V) => V.str p.1) ++ r }.next
                    else .error (.other "CannotUnpack")
      | _ => .error (.other "CannotUnpack")
  | .arith op, b :: a :: r =>
      match V.arith op a b with
      | .error e => .error e
      | .ok v => .ok { s with stack := v :: r }.next
  | .binop name, b :: a :: r =>
      match ops.binop name a b with
      | .error e => .error e
      | .ok v => .ok { s with stack := v :: r }.next
  | .neg, a :: r =>
      match V.neg a with
      | .error e => .error e
      | .ok v => .ok { s with stack := v :: r }.next
  | .cmp .in_, a :: b :: r =>
      match V.contains a b with
      | .error e => .error e
      | .ok x => .ok { s with stack := .bool x :: r }.next
  | .cmp op, b :: a :: r =>
      match cmpExec op a b with
      | .error e => .error e
      | .ok x => .ok { s with stack := .bool x :: r }.next
  | .cmpPreserve op, b :: a :: r =>
      match cmpExec op a b with
      | .error e => .error e
      | .ok x => .ok { s with stack := .bool x :: b :: r }.next
  | .not, a :: r => .ok { s with stack := .bool (!a.isTrue) :: r }.next
  | .stringConcat, a :: b :: r => .ok { s with stack := .str (V.display b ++ V.display a) :: r }.next
  | .pushLoop flags, a :: r =>
      if flags / 2 % 2 = 1 then .error (.unsupported "recursive loop") else
      match V.iterItems a with
      | .error e => .error e
      | .ok xs =>
        let lenKnown := match a with | .str _ => false | _ => true
        .ok { s with stack := r,
                     frames := { loop := some { items := xs, withVar := flags % 2 = 1, lenKnown := lenKnown } } :: s.frames }.next
  | .iterate t, st =>
      match s.frames with
      | f :: fr => match f.loop with
        | some l =>
          match l.items[l.calls]? with
          | some x =>        -- `next_loop_item` clears the locals and the closure: every iteration is a scope of its own
              .ok { s with stack := x :: st, frames := { loop := some { l with calls := l.calls + 1 }, closureCtx := f.closureCtx } :: fr }.next
          | Option.none => .ok { s with pc := t, frames := { f with loop := some { l with calls := l.calls + 1 } } :: fr }
        | Option.none => .error .stack
      | [] => .error .stack
  | .pushDidNotIterate, st =>
      match s.frames with
      | f :: _ => match f.loop with
        | some l => .ok { s with stack := .bool (l.items.isEmpty) :: st }.next
        | Option.none => .error .stack
      | [] => .error .stack
  | .popFrame, _ | .popLoopFrame, _ =>
      match s.frames with
      | _ :: f' :: fr => .ok { s with frames := f' :: fr }.next
      | _ => .error .stack
  | .pushWith, _ => .ok { s with frames := {} :: s.frames }.next
  | .jump t, _ => .ok { s with pc := t }
  | .jumpIfFalse t, a :: r => .ok (if a.isTrue then { s with stack := r }.next else { s with stack := r, pc := t })
  | .jumpIfFalseOrPop t, a :: r => .ok (if a.isTrue then { s with stack := r }.next else { s with pc := t })
  | .jumpIfTrueOrPop t, a :: r => .ok (if a.isTrue then { s with pc := t } else { s with stack := r }.next)
  | .beginCapture discard, _ => .ok { s with outs := (if discard then Option.none else some []) :: s.outs }.next
  | .endCapture, st =>
      -- `Output::end_capture`: the captured text, or UNDEFINED when the capture was a discarding one
      match s.outs with
      | some o :: o' :: r => .ok { s with outs := o' :: r, stack := s.captured (String.join o.reverse) :: st }.next
      | Option.none :: o' :: r => .ok { s with outs := o' :: r, stack := .undef :: st }.next
      | _ => .error .stack
  | .exportLocals, captured :: r =>
      -- `ExportLocals`: the locals of the current frame and what the imported template printed
      match s.frames with
      | f :: _ => .ok { s with stack := .module f.locals captured :: r }.next
      | [] => .error .stack
  | .pushAutoEscape, a :: r =>
      -- `derive_auto_escape`: "html" / true switch HTML escaping on, "none" / anything that is not a string and not
      -- equal to true switches it off
      let set (b : Bool) : Except Err St :=
        .ok { s with stack := r, aeStack := s.autoEscape :: s.aeStack, autoEscape := b }.next
      match a.plain with
      | .str "html" => set true
      | .str "none" => set false
      | .str "json" => .error (.unsupported "json auto-escaping")
      | .str _ => .error .invalidOperation
      | a => set (V.beq a (.bool true))
  | .popAutoEscape, _ =>
      match s.aeStack with
      | b :: rest => .ok { s with autoEscape := b, aeStack := rest }.next
      | [] => .error .stack
  | .dupTop, a :: r => .ok { s with stack := a :: a :: r }.next
  | .discardTop, _ :: r => .ok { s with stack := r }.next
  | .swap, a :: b :: r => .ok { s with stack := b :: a :: r }.next
  | .isUndefined, a :: r => .ok { s with stack := .bool a.isUndefined :: r }.next
  | .enclose n, _ =>
      match s.frames with
      | f :: fr =>
        let (id, closures) := match f.closure with
          | some id => (id, s.closures)
          | Option.none => (s.closures.length, s.closures ++ [[]])
        let has := ((closures[id]?).getD []).any (fun (p : String × V) => p.1 == n)
        -- a global function of the environment stays reachable through the globals (the model has no
        -- value for it)
        let closures := if has || ((s.lookup? n).isNone && globalFunctions.contains n) then closures
          else closures.modify id (fun c => (n, (s.lookup? n).getD .undef) :: c)
        .ok { s with closures := closures, frames := { f with closure := some id } :: fr }.next
      | [] => .error .stack
  | .getClosure, st =>
      match s.frames with
      | f :: _ => .ok { s with stack := (match f.closure with | some id => V.int id | Option.none => .undef) :: st }.next
      | [] => .error .stack
  | .buildMacro name offset flags, .seq spec :: c :: r =>
      let names := spec.filterMap (fun v => match v with | .str n => some n | _ => Option.none)
      if names.length != spec.length then .error (.unsupported "macro parameter that is not a name") else
      let closure := match c with | .int id => some id.toNat | _ => Option.none
      .ok { s with stack := .mac name names s.code offset closure (flags / 2 % 2 = 1) :: r }.next
  | .ret, _ =>
      match s.calls with
      | ret :: calls =>
        if ret.kind = .macroCall then
          .ok { s with calls := calls, code := ret.code, pc := ret.pc, frames := ret.frames, outs := ret.outs,
                       stack := s.captured s.output :: ret.stack }
        else .error .stack
      | [] => .error (.unsupported "Return outside a macro")
  | .callFunction name argc, st =>
      match callArgs st argc with
      | Option.none => .error .stack
      | some (args, r) =>
        if name == "super" then (if args.isEmpty then enterSuper P s true r else .error .invalidOperation) else
        match s.lookup? name with
        | some f => callValue ops s r f args
        | Option.none => .error (.other "UnknownFunction")     -- globals are handled in `stepC`
  | .callObject argc, st =>
      match callArgs st argc with
      | some (f :: args, r) => callValue ops s r f args
      | _ => .error .stack
  | .callMethod name argc, st =>
      match callArgs st argc with
      | some (recv :: args, r) =>
        match recv with
        | .loopRef h => loopMethod s r h name args
        | .mac .. | .kwargs _ => .error (.unsupported "method of a macro")
        | .module kvs _ => match V.mapGet kvs name with       -- `Object::call_method`: the exported value is called
          | some f => callValue ops s r f args
          | Option.none => .error (.other "UnknownMethod")
        | .map kvs => match V.mapGet kvs name with
          | some (.mac ..) => .error (.unsupported "macro stored in a map")
          | some _ => .error .invalidOperation
          | Option.none => match ops.method name recv args with
            | .error e => .error e
            | .ok v => .ok { s with stack := v :: r }.next
        | recv => match ops.method name recv args with
          | .error e => .error e
          | .ok v => .ok { s with stack := v :: r }.next
      | _ => .error .stack
  | .include_ ignoreMissing, name :: r =>
      match name with
      | .str n =>
        match P.templates.find? (fun p => p.1 == n) with
        | some (_, code) =>
          match s.frames, initialAutoEscape n with
          | _, Option.none => .error (.unsupported "auto-escape format of the included template")
          | f :: fr, some ae =>
            .ok { s with
              calls := { kind := .includeCall, code := s.code, pc := s.pc + 1, stack := r, closure := f.closure,
                         depth := s.frames.length, autoEscape := s.autoEscape } :: s.calls
              code := code, pc := 0, stack := [], autoEscape := ae
              frames := { f with closure := Option.none } :: fr }
          | [], _ => .error .stack
        | Option.none =>
          if ignoreMissing then .ok { s with stack := r }.next else .error (.other "TemplateNotFound")
      | .seq _ | .iter _ => .error (.unsupported "include of a list of names")
      | _ => .error .invalidOperation
  | .callBlock name, st =>
      -- `call_block`: the instructions at the current depth of the block's stack, in a fresh frame;
      -- skipped while the template is only collecting blocks for its parent
      if s.calls.any (fun r => r.kind = .includeCall) then .error (.unsupported "block of an included template") else
      if s.parent.isSome || s.isDiscarding then .ok s.next else
      let stacks := s.blockStacks.getD (P.blocks.map (fun p => (p.1, [p.2], 0)))
      match stacks.find? (fun p => p.1 == name) with
      | some (_, codes, depth) =>
        match codes[depth]? with
        | some code =>
          .ok { s with
            calls := { kind := .blockCall, code := s.code, pc := s.pc + 1, stack := st, depth := s.frames.length,
                       block := s.curBlock } :: s.calls
            code := code, pc := 0, stack := [], frames := {} :: s.frames, curBlock := some name, blockStacks := some stacks }
        | Option.none => .error .stack
      | Option.none => .error (.other "UnknownBlock")
  | .loadBlocks, name :: r =>
      -- `{% extends %}`: the parent's blocks go below the ones already known, the parent's own
      -- instructions run when this template's are finished, the output until then is discarded
      if s.calls.any (fun c => c.kind = .includeCall) then .error (.unsupported "extends in an included template") else
      match name with
      | .str n =>
        if s.parent.isSome then .error .invalidOperation else
        match P.templates.find? (fun p => p.1 == n), P.parentBlocks.find? (fun p => p.1 == n) with
        | some (_, code), pb =>
          let stacks := s.blockStacks.getD (P.blocks.map (fun p => (p.1, [p.2], 0)))
          let add := (pb.map (fun p => p.2)).getD []
          let stacks' := add.foldl (fun acc (b : String × Nat) =>
            if acc.any (fun p => p.1 == b.1) then acc.map (fun p => if p.1 == b.1 then (p.1, p.2.1 ++ [b.2], p.2.2) else p)
            else acc ++ [(b.1, [b.2], 0)]) stacks
          .ok { s with stack := r, blockStacks := some stacks', parent := some code, outs := Option.none :: s.outs }.next
        | Option.none, _ => .error (.other "TemplateNotFound")
      | _ => .error .invalidOperation
  | .fastSuper, _ => enterSuper P s false s.stack
  | .unsupported n, _ => .error (.unsupported ("instruction " ++ n))
  | _, _ => .error .stack

/-- what the harness' custom formatters write for a value -/
def fmtDisplay (formatter : Nat) (autoEscape : Bool) (v : V) : String :=
  if formatter = 2 then
    match v with
    | .undef | .silent => "U"
    | .none => "N"
    | v => V.writeText autoEscape v
  else V.writeText autoEscape v

/-- the value `v` is written: by `write_escaped` (default formatter) or by the custom formatter -/
def St.emitVia (s : St) (r : List V) (v : V) : St :=
  if s.formatter = 0 then ({ s with stack := r }.write (V.writeText s.autoEscape v)).next
  else ({ s with stack := r, fmtCalls := s.fmtCalls + 1 }.write (fmtDisplay s.formatter s.autoEscape v)).next

/-- `Instruction::Emit`: the default formatter tests `strict_undefined` inline, a custom one goes
    through `Environment::format`, which fails, hands the value to the formatter, or (no such row
    in the pinned source) returns without calling it -/
def emitC (s : St) : Comp St :=
  match s.stack with
  | v :: r =>
    if s.formatter = 0 then .ask (.emit v.kind) id (fun _ => .pure (s.emitVia r v))
    else .ask (.envFormat v.kind) id (fun called => .pure (if called then s.emitVia r v else { s with stack := r }.next))
  | [] => .fail .stack

/-! ### the Emit arm as extracted from the source

`MJ.Gen.undefVmEmitShape` is the control-flow tree of the `Instruction::Emit` arm of `eval_impl`,
regenerated on every run.  `emitArmOk` is the syntactic requirement on it (the undefined check
dominates every write and every exit of the arm; the only condition on the way is the choice of the
formatter — in particular not where the output goes), `emitShapeC` interprets the tree as a
computation over the model state.  `MJ.C12.emit_arm_is_model` proves that the interpretation of the
*current* tree is `emitC`, so the hand model of Emit is the arm the source has now. -/

open MJ.Gen (ArmShape)

/-- every path through the (rest of the) arm: `k` is what is required where it falls through, the
    `Bool` says whether the undefined check has been passed on the way -/
def armOk : ArmShape → (Bool → Bool) → Bool → Bool
  | .done, k, c => k c
  | .act kind next, k, c =>
      if kind = "pop" then armOk next k c
      else if kind = "env_format" then armOk next k true          -- `Environment::format` checks first (its rows)
      else if kind = "write_escaped" then c && armOk next k c     -- nothing may be written unchecked
      else if kind = "bail_undefined" then true                   -- leaves with the error
      else false                                                  -- `return` / `continue` / an unknown statement
  | .ite cond t e next, k, c =>
      if cond = "strict_undefined_default" then
        -- the inline test: `if strict_undefined && Undefined(Default) { bail }`, nothing else in it
        t == .act "bail_undefined" .done && e == .done && armOk next k true
      else if cond = "default_formatter" then
        armOk t (fun c' => armOk next k c') c && armOk e (fun c' => armOk next k c') c
      else false                                                  -- any other condition (e.g. on the output) in front of the check

/-- the undefined check dominates every write and the end of the arm -/
def emitArmOk (sh : ArmShape) : Bool := armOk sh (fun c => c) false

/-- the conditions an arm may branch on, as the model state sees them -/
def armCond (cond : String) (s : St) : Option Bool :=
  if cond = "default_formatter" then some (s.formatter = 0)
  else if cond = "out_discarding" then some s.isDiscarding
  else if cond = "not_out_discarding" then some (!s.isDiscarding)
  else Option.none

/-- the arm as a computation: the popped value is threaded through, `k` finishes the instruction -/
def armC : ArmShape → (Option V → St → Comp St) → Option V → St → Comp St
  | .done, k, v, s => k v s
  | .act kind next, k, v, s =>
      if kind = "pop" then
        match s.stack with
        | x :: r => armC next k (some x) { s with stack := r }
        | [] => .fail .stack
      else if kind = "write_escaped" then
        match v with
        | some x => armC next k v (s.write (V.writeText s.autoEscape x))
        | Option.none => .fail .stack
      else if kind = "env_format" then
        match v with
        | some x => .ask (.envFormat x.kind) id (fun called =>
            armC next k v (if called then { s with fmtCalls := s.fmtCalls + 1 }.write (fmtDisplay s.formatter s.autoEscape x) else s))
        | Option.none => .fail .stack
      else if kind = "bail_undefined" then .fail .undefinedError
      else .fail (.unsupported ("statement of the Emit arm: " ++ kind))
  | .ite cond t e next, k, v, s =>
      if cond = "strict_undefined_default" && t == .act "bail_undefined" .done && e == .done then
        match v with
        | some x => .ask (.emit x.kind) id (fun _ => armC next k v s)
        | Option.none => .fail .stack
      else
        match armCond cond s with
        | some true => armC t (fun v' s' => armC next k v' s') v s
        | some false => armC e (fun v' s' => armC next k v' s') v s
        | Option.none => .fail (.unsupported ("condition of the Emit arm: " ++ cond))

/-- `Instruction::Emit` as the source has it now; the loop of `eval_impl` then advances `pc` -/
def emitShapeC (sh : ArmShape) (s : St) : Comp St := armC sh (fun _ s' => .pure s'.next) Option.none s

/-- `merge_kwargs`: every source must pass `assert_iterable` and be a map, in order -/
def mergeKwargsC (acc : List (String × V)) : List V → Comp (List (String × V))
  | [] => .pure acc
  | v :: r => .ask (.assertIterable v.kind) id (fun _ =>
      match v with
      | .map kvs | .kwargs kvs => mergeKwargsC (kvs.foldl (fun a p => V.mapInsert a p.1 p.2) acc) r
      | _ => .fail .invalidOperation)

/-- `join_safe`: an item that is a safe string goes in as it is, any other one is formatted with `State::format`
    = `Environment::format` — the question `envFormat` (an undefined item fails under Strict / SemiStrict), then
    the formatter; the second component counts the calls of a custom formatter -/
def joinSafeC (formatter : Nat) (sep : String) : List V → Bool → Comp (String × Nat)
  | [], _ => .pure ("", 0)
  | x :: r, first =>
    let pre := if first then "" else sep
    match x with
    | .safe t => Comp.bind (joinSafeC formatter sep r false) (fun p => .pure (pre ++ t ++ p.1, p.2))
    | x => .ask (.envFormat x.kind) id (fun called =>
        Comp.bind (joinSafeC formatter sep r false) (fun p =>
          .pure (pre ++ (if called then fmtDisplay formatter true x else "") ++ p.1,
                 p.2 + (if called && formatter != 0 then 1 else 0))))

/-- `Option<StringInput>`: an undefined or none joiner is no joiner -/
def normJoiner : Option V → Option V
  | some .undef | some .silent | some .none => Option.none
  | j => j

/-- the three ways of filters.rs `join` while HTML auto-escaping is on: a safe joiner, a plain joiner (escaped:
    `StringInput::format`) with at least one safe item, `join_plain` -/
def joinAeItems (formatter : Nat) (joiner : Option V) (xs : List V) : Comp (V × Nat) :=
  if (joiner.map V.isSafe).getD false then
    Comp.bind (joinSafeC formatter ((joiner.map V.display).getD "") xs true) (fun p => .pure (.safe p.1, p.2))
  else if xs.any V.isSafe then
    Comp.bind (joinSafeC formatter (V.htmlEscape ((joiner.map V.display).getD "")) xs true) (fun p => .pure (.safe p.1, p.2))
  else .pure (.str (joinWith ((joiner.map V.display).getD "") xs), 0)

/-- filters.rs `join` while HTML auto-escaping is on (after the conversion layer) -/
def joinAeC (formatter : Nat) (v : V) (joiner : Option V) : Comp (V × Nat) :=
  match V.iterItems v with
  | .error _ => .fail .invalidOperation
  | .ok xs => joinAeItems formatter (normJoiner joiner) xs

/-- a builtin filter / test / global function applied to `args`; `post` turns the result into
    what is pushed (`PerformTest` pushes its truth value) -/
def builtinStep (ops : Ops) (s : St) (kind name : String) (argc : Nat) (post : V → V) (unknown : String) : Comp St :=
  match callArgs s.stack argc with
  | Option.none => .fail .stack
  | some (args, r) =>
    if s.autoEscape && kind == "filter" && name == "join" then
      -- the one builtin whose body reads `state.auto_escape()`
      if args.any V.isObject then .fail (.unsupported "opaque argument") else
      match sigOf kind name, args with
      | some (sig, _), [v] | some (sig, _), [v, _] =>
        Comp.bind (convCall ops sig args) (fun _ => Comp.bind (joinAeC s.formatter v args[1]?) (fun p =>
          .pure { s with stack := post p.1 :: r, fmtCalls := s.fmtCalls + p.2 }.next))
      | some _, _ => .fail (.other "TooManyArguments or MissingArgument")
      | Option.none, _ => .fail (.unsupported "no signature for join")
    else
    match callBuiltin ops kind name args with
    | Option.none =>      -- not a registered builtin: a filter / test the embedding application added
      let _ := unknown
      .fail (.unsupported (kind ++ " " ++ name ++ " is not a builtin"))
    | some c => Comp.bind c (fun v => .pure { s with stack := post v :: r }.next)

/-- the call instruction with the argument count filled in -/
def Instr.withArgc : Instr → Nat → Instr
  | .callFunction n _, k => .callFunction n k
  | .callMethod n _, k => .callMethod n k
  | .callObject _, k => .callObject k
  | .applyFilter n _, k => .applyFilter n k
  | .performTest n _, k => .performTest n k
  | i, _ => i

/-- `UnpackLists`: every batch is iterated (after the `fix:` commit through `UndefinedBehavior::try_iter`, like the
    `**kwargs` batches in `merge_kwargs`: spreading an undefined fails under Strict / SemiStrict), first batch
    deepest -/
def unpackListsC : List V → Comp (List V)
  | [] => .pure []
  | v :: r =>
    if v.isOpaque then .fail (.unsupported "opaque operand") else
    .ask (.tryIter v.kind) id (fun _ =>
      match V.iterItems v with
      | .error e => .fail e
      | .ok xs => Comp.bind (unpackListsC r) (fun ys => .pure (xs ++ ys)))

/-- one instruction of `eval_impl` whose argument count (if it is a call) is known -/
def stepC1 (ops : Ops) (P : Prog) (i : Instr) (s : St) : Comp St :=
  if (s.stack.take (inspects i)).any V.isOpaque then .fail (.unsupported "opaque operand") else
  match i with
  | .emit => emitC s
  | .unpackLists n =>
      match popN n s.stack with
      | Option.none => .fail .stack
      | some (batches, r) =>
        Comp.bind (unpackListsC batches) (fun items =>
          .pure { s with stack := .int items.length :: (items.reverse ++ r) }.next)
  | .callDyn _ => .fail .stack        -- resolved in `stepC`
  | .applyFilter name argc => builtinStep ops s "filter" name argc id "UnknownFilter"
  | .performTest name argc => builtinStep ops s "test" name argc (fun v => .bool v.isTrue) "UnknownTest"
  | .mergeKwargs n =>
      match popN n s.stack with
      | Option.none => .fail .stack
      | some (vs, r) => Comp.bind (mergeKwargsC [] vs) (fun kvs => .pure { s with stack := .kwargs kvs :: r }.next)
  | .callFunction name argc =>
      -- `state.lookup(name)`: the context first, then the globals of the environment
      if (s.lookup? name).isNone && globalFunctions.contains name then
        builtinStep ops s "function" name argc id "UnknownFunction"
      else Comp.ofExcept (exec ops P i s)
  | i => Comp.bind (Comp.chks (guardQs i s)) (fun _ => Comp.ofExcept (exec ops P i s))

/-- **one instruction of `eval_impl`**: a call with the argument count `None` pops the count first
    (`get_call_args`) -/
def stepC (ops : Ops) (P : Prog) (i : Instr) (s : St) : Comp St :=
  match i with
  | .callDyn call =>
      match s.stack with
      | .int k :: r => stepC1 ops P (call.withArgc k.toNat) { s with stack := r }
      | _ => .fail .stack
  | i => stepC1 ops P i s

/-- an error inside an included template is reported as `BadInclude` (`perform_include`) -/
def wrapErr (s : St) (e : Err) : Err :=
  if s.calls.any (fun r => r.kind = .includeCall || r.kind = .superCall) then
    match e with
    | .unsupported w => .unsupported w
    | .outOfFuel => .outOfFuel
    | _ => .other "BadInclude or EvalBlock"
  else e

/-- the end of an included template or of a block: back to where it was entered, with the frame
    stack cut back to its height at entry (`with_execution_state` / `restore_stack_depth`) -/
def returnFromInclude (s : St) : Comp St :=
  match s.calls with
  | ret :: calls =>
    let frames := s.frames.drop (s.frames.length - ret.depth)
    if ret.kind = .includeCall then
      match frames with
      | f :: fr => .pure { s with calls := calls, code := ret.code, pc := ret.pc, stack := ret.stack,
                                  frames := { f with closure := ret.closure } :: fr, autoEscape := ret.autoEscape }
      | [] => .fail .stack
    else if ret.kind = .blockCall then
      .pure { s with calls := calls, code := ret.code, pc := ret.pc, stack := ret.stack, frames := frames, curBlock := ret.block }
    else if ret.kind = .superCall then
      let stacks := (s.blockStacks.getD []).map (fun p => if some p.1 == s.curBlock then (p.1, p.2.1, p.2.2 - 1) else p)
      if ret.capture then
        match s.outs with
        | some o :: outs =>
          .pure { s with calls := calls, code := ret.code, pc := ret.pc, frames := frames, curBlock := ret.block,
                         blockStacks := some stacks, outs := outs, stack := s.captured (String.join o.reverse) :: ret.stack }
        | _ => .fail .stack
      else
        .pure { s with calls := calls, code := ret.code, pc := ret.pc, frames := frames, curBlock := ret.block,
                       blockStacks := some stacks, stack := ret.stack }
    else .fail .stack
  | [] => .fail .stack

/-- the template's own instructions are finished and `LoadBlocks` stashed a parent: the discarded
    output is dropped and the parent's instructions run -/
def switchToParent (s : St) (code : Nat) : Comp St :=
  match s.outs with
  | _ :: outs => .pure { s with code := code, pc := 0, parent := Option.none, outs := outs }
  | [] => .fail .stack

/-- the step to take in state `s` (as a `Comp`: it does not see the mode), `none` = finished -/
def nextC (ops : Ops) (P : Prog) (s : St) : Option (Comp St) :=
  match (P.codes[s.code]?).bind (fun c => c[s.pc]?) with
  | some i => some ((stepC ops P i s).mapErr (wrapErr s))
  | Option.none =>
    if s.calls.isEmpty then (s.parent.map (switchToParent s)) else some (returnFromInclude s)

/-- one instruction under mode `m` -/
def step (ops : Ops) (P : Prog) (m : Mode) (i : Instr) (s : St) : Except Err St := (stepC ops P i s).run m

/-- the VM as an instance of the abstract machine -/
def vm (ops : Ops) (P : Prog) : Machine St Err where
  next s := (nextC ops P s).map (fun c => fun m _ => c.run m)
  timeout := .outOfFuel

def runVm (ops : Ops) (P : Prog) (m : Mode) (fuel : Nat) (s : St) : Except Err St := (vm ops P).run m fuel s

/-- a single template without includes -/
def Prog.single (code : Array Instr) : Prog := { codes := #[code] }

end MJ.Undef

namespace MJ.Undef

/-- the model gives the instruction a semantics (concretely, or through the parameters `Ops`):
    it is not one of the instructions the serialiser marks as outside the model, a loop is not
    recursive, and a filter / test is a registered builtin whose extracted signature consists of
    argument types the extracted `ArgType` table knows -/
def Instr.inFragment : Instr → Bool
  | .unsupported _ => false
  | .applyFilter n _ => sigKnown "filter" n
  | .performTest n _ => sigKnown "test" n
  | .pushLoop flags => flags / 2 % 2 = 0
  | _ => true

/-- decidable check on a real compiled instruction stream (evaluated by the driver per program) -/
def Prog.inFragment (P : Prog) : Bool := P.codes.toList.all (fun c => c.toList.all Instr.inFragment)

end MJ.Undef
