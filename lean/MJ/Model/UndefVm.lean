import MJ.Model.Undef
import MJ.Model.Slice
/-!
# Hand model of the VM sites that consult the undefined behaviour (vm/mod.rs `eval_impl`)

`step m i s = modeGuard m i s >>= fun _ => exec i s` (`Emit` apart: `stepEmit`):

* `modeGuard` is the **only** place where the mode is consulted; it is a sequence of calls to the
  table-interpreted helpers of `MJ.Undef` on the kinds of the operands, in the order in which
  the instruction arm of `eval_impl` calls them (the call list per arm is also extracted from
  the source, `MJ.Gen.undefVmSites`, and compared in `MJ.C12.vm_sites_as_modelled`);
* `exec` is the mode-independent rest of the instruction on a small value domain (undefined,
  silent undefined, none, bool, int, str, list, str-keyed map).  Whatever the model does not
  cover is the distinguished error `unsupported` (the driver then skips the case; it is still
  judged by the oracle).

Tied to the code by the C12 correspondence: the driver runs this model on the *real* instruction
streams the compiler produced for the generated programs, under all four modes.
-/
namespace MJ.Undef

inductive V where
  | undef | silent | none
  | bool (b : Bool) | int (i : Int) | str (s : String)
  | seq (xs : List V) | map (kvs : List (String × V))
  /-- a lazy iterable (`ValueKind::Iterable`): what slicing, concatenating or repeating a list gives -/
  | iter (xs : List V)

instance : Inhabited V := ⟨.undef⟩

namespace V

def kind : V → UK
  | undef => .undef | silent => .silent | _ => .defined

def isUndefined (v : V) : Bool := v.kind.isUndefined

/-- `Value::is_true` -/
def isTrue : V → Bool
  | undef | silent | none => false
  | bool b => b
  | int i => i != 0
  | str s => !s.isEmpty
  | seq xs | iter xs => !xs.isEmpty
  | map kvs => !kvs.isEmpty

/-- rank of `ValueKind` in the derived `Ord` (see `MJ.Gen.valueKindOrder`) -/
def kindRank : V → Nat
  | undef | silent => 0 | none => 1 | bool _ => 2 | int _ => 3 | str _ => 4 | seq _ => 6 | map _ => 7
  | iter _ => 6      -- `cmp_kind`: iterables share the slot of the sequences

/-- `python_string_debug_fmt` (control characters are outside the model domain) -/
def reprStr (s : String) : String :=
  let cs := s.toList
  let dq := cs.contains '\'' && !cs.contains '"'
  let q := if dq then "\"" else "'"
  let esc (c : Char) : String :=
    if c == '\'' && !dq then "\\'" else if c == '\\' then "\\\\" else String.singleton c
  q ++ String.join (cs.map esc) ++ q

mutual
/-- `Debug`-style rendering used inside containers -/
def repr : V → String
  | undef | silent => "undefined"
  | none => "None"
  | bool true => "True"
  | bool false => "False"
  | int i => toString i
  | str s => reprStr s
  | seq xs => "[" ++ reprList xs ++ "]"
  | iter xs => "[" ++ reprList xs ++ "]"
  | map kvs => "{" ++ reprPairs kvs ++ "}"
def reprList : List V → String
  | [] => ""
  | [x] => repr x
  | x :: y :: r => repr x ++ ", " ++ reprList (y :: r)
def reprPairs : List (String × V) → String
  | [] => ""
  | [(k, v)] => reprStr k ++ ": " ++ repr v
  | (k, v) :: y :: r => reprStr k ++ ": " ++ repr v ++ ", " ++ reprPairs (y :: r)
end

/-- `Display` (what `Emit` writes without auto-escaping, what `~` and `|string` produce) -/
def display : V → String
  | undef | silent => ""
  | str s => s
  | v => repr v

def asNum? : V → Option Int
  | bool b => some (if b then 1 else 0)
  | int i => some i
  | _ => Option.none

def mapGet (kvs : List (String × V)) (k : String) : Option V :=
  match kvs.find? (fun p => p.1 == k) with
  | some p => some p.2
  | Option.none => Option.none

/-- insert into a key-sorted association list (`BTreeMap::insert`) -/
def mapInsert (kvs : List (String × V)) (k : String) (v : V) : List (String × V) :=
  match kvs with
  | [] => [(k, v)]
  | (k', v') :: rest =>
    if k == k' then (k, v) :: rest
    else if k < k' then (k, v) :: (k', v') :: rest
    else (k', v') :: mapInsert rest k v

mutual
/-- `PartialEq for Value` on the model domain -/
def beq : V → V → Bool
  | none, none => true
  | undef, undef | undef, silent | silent, undef | silent, silent => true
  | str a, str b => a == b
  | bool a, bool b => a == b
  | int a, int b => a == b
  | bool a, int b => (if a then 1 else 0) == b
  | int a, bool b => a == (if b then 1 else 0)
  | seq a, seq b | seq a, iter b | iter a, seq b | iter a, iter b => beqList a b
  | map a, map b => beqPairs a b
  | _, _ => false
def beqList : List V → List V → Bool
  | [], [] => true
  | x :: xs, y :: ys => beq x y && beqList xs ys
  | _, _ => false
/-- both association lists are key-sorted without duplicates, so map equality is pointwise -/
def beqPairs : List (String × V) → List (String × V) → Bool
  | [], [] => true
  | (k, x) :: xs, (k', y) :: ys => k == k' && beq x y && beqPairs xs ys
  | _, _ => false
end

def cmpInt (a b : Int) : Ordering := if a < b then .lt else if a = b then .eq else .gt
def cmpStr (a b : String) : Ordering := if a < b then .lt else if a = b then .eq else .gt

mutual
/-- `Ord for Value` on the model domain (kind first, then within the kind) -/
def cmp : V → V → Ordering
  | a, b =>
    if kindRank a < kindRank b then .lt
    else if kindRank a > kindRank b then .gt
    else match a, b with
      | str x, str y => cmpStr x y
      | bool x, bool y => cmpInt (if x then 1 else 0) (if y then 1 else 0)
      | int x, int y => cmpInt x y
      | seq x, seq y | seq x, iter y | iter x, seq y | iter x, iter y => cmpList x y
      | map x, map y => cmpPairs x y
      | _, _ => .eq
def cmpList : List V → List V → Ordering
  | [], [] => .eq
  | [], _ :: _ => .lt
  | _ :: _, [] => .gt
  | x :: xs, y :: ys => match cmp x y with
    | .eq => cmpList xs ys
    | o => o
def cmpPairs : List (String × V) → List (String × V) → Ordering
  | [], [] => .eq
  | [], _ :: _ => .lt
  | _ :: _, [] => .gt
  | (k, x) :: xs, (k', y) :: ys => match cmpStr k k' with
    | .eq => match cmp x y with
      | .eq => cmpPairs xs ys
      | o => o
    | o => o
end

def chars (s : String) : List V := s.toList.map (fun c => str (String.singleton c))

/-- `get_attr_fast` -/
def getAttr (v : V) (name : String) : Option V :=
  match v with
  | map kvs => mapGet kvs name
  | _ => Option.none

/-- `get_item_opt`; outer `Except` = outside the model -/
def getItem (base key : V) : Except Err (Option V) :=
  match base, key with
  | map kvs, str k => .ok (mapGet kvs k)
  | map _, _ => .ok Option.none
  | seq xs, int i | iter xs, int i => .ok (MJ.Slice.index? xs i)
  | seq xs, bool b | iter xs, bool b => .ok (MJ.Slice.index? xs (if b then 1 else 0))     -- `as_i64` of a bool
  | seq _, _ | iter _, _ => .ok Option.none
  | str s, int i => .ok (MJ.Slice.index? (chars s) i)
  | str s, bool b => .ok (MJ.Slice.index? (chars s) (if b then 1 else 0))
  | str _, _ => .ok Option.none
  | _, _ => .ok Option.none

def isInfix (needle hay : List Char) : Bool :=
  match hay with
  | [] => needle.isEmpty
  | _ :: t => needle.isPrefixOf hay || isInfix needle t

/-- `ops::contains(container, value)` -/
def contains (container value : V) : Except Err Bool :=
  match container with
  | undef | silent => .ok false
  | str s => .ok (isInfix (display value).toList s.toList)
  | map kvs => match value with
    | str k => .ok (mapGet kvs k).isSome
    | _ => .ok false
  | seq xs | iter xs => .ok (xs.any (fun v => beq v value))
  | _ => .error .invalidOperation

/-- `Value::try_iter` (mode-independent part of iteration) -/
def iterItems : V → Except Err (List V)
  | undef | silent | none => .ok []
  | seq xs | iter xs => .ok xs
  | str s => .ok (chars s)
  | map kvs => .ok (kvs.map (fun p => str p.1))
  | _ => .error .invalidOperation

def bound? : V → Except Err (Option Int)
  | none => .ok Option.none
  | int i => .ok (some i)
  | bool b => .ok (some (if b then 1 else 0))
  | _ => .error .invalidOperation

def joinStrs : List V → String
  | [] => ""
  | v :: r => display v ++ joinStrs r

/-- `ops::slice` (sequence part from the C09 model) -/
def slice (a start stop step : V) : Except Err V :=
  match bound? start with
  | .error e => .error e
  | .ok st => match bound? stop with
    | .error e => .error e
    | .ok sp => match bound? step with
      | .error e => .error e
      | .ok sp' =>
        if sp' = some 0 then .error .invalidOperation else
        match a with
        | undef | silent | none => .ok (seq [])
        | seq xs | iter xs => match MJ.Slice.slice xs st sp sp' with
          | .ok (.ok ys) => .ok (iter ys)
          | .ok .zeroStep => .error .invalidOperation
          | .panic => .error (.unsupported "slice panic")
        | str s => match MJ.Slice.slice (chars s) st sp sp' with
          | .ok (.ok ys) => .ok (str (joinStrs ys))
          | .ok .zeroStep => .error .invalidOperation
          | .panic => .error (.unsupported "slice panic")
        | _ => .error .invalidOperation

inductive ArOp | add | sub | mul
  deriving DecidableEq, Repr

def repeatList {α : Type} (xs : List α) : Nat → List α
  | 0 => []
  | n + 1 => xs ++ repeatList xs n

def arith (op : ArOp) (a b : V) : Except Err V :=
  match asNum? a, asNum? b with
  | some x, some y => .ok (int (match op with | .add => x + y | .sub => x - y | .mul => x * y))
  | _, _ =>
    match op, a, b with
    | .add, str x, str y => .ok (str (x ++ y))
    | .add, seq x, seq y | .add, seq x, iter y | .add, iter x, seq y | .add, iter x, iter y => .ok (iter (x ++ y))
    | .mul, str x, n | .mul, n, str x =>
        match asNum? n with
        | some k => if k < 0 then .error .invalidOperation else .ok (str (String.join (repeatList [x] k.toNat)))
        | Option.none => .error .invalidOperation
    | .mul, seq x, n | .mul, n, seq x | .mul, iter x, n | .mul, n, iter x =>
        match asNum? n with
        | some k => if k < 0 then .error .invalidOperation else .ok (iter (repeatList x k.toNat))
        | Option.none => .error .invalidOperation
    | _, _, _ => .error .invalidOperation

/-- `ops::neg` -/
def neg : V → Except Err V
  | int i => .ok (int (-i))
  | _ => .error .invalidOperation

end V

inductive CmpOp | eq | ne | lt | lte | gt | gte | in_ | notIn
  deriving DecidableEq, Repr

inductive Instr where
  | emitRaw (s : String) | emit
  | storeLocal (n : String) | lookup (n : String)
  | getAttr (n : String) | getItem | slice
  | loadConst (v : V)
  | buildList (n : Nat) | buildMap (n : Nat)
  | arith (op : V.ArOp) | neg
  | buildListDyn                   -- BuildList(None): the count is on the stack
  | cmp (op : CmpOp)               -- Eq Ne Lt Lte Gt Gte (op_binop!) and In
  | cmpPreserve (op : CmpOp)       -- CompareAndPreserve
  | not | stringConcat
  | applyFilter (name : String) (argc : Nat)
  | performTest (name : String) (argc : Nat)
  | pushLoop | iterate (t : Nat) | pushDidNotIterate | popFrame | popLoopFrame | pushWith
  | jump (t : Nat) | jumpIfFalse (t : Nat) | jumpIfFalseOrPop (t : Nat) | jumpIfTrueOrPop (t : Nat)
  | beginCapture | endCapture
  | dupTop | discardTop | swap
  | unsupported (name : String)

structure Frame where
  locals : List (String × V) := []
  /-- remaining items and the number of `next()` calls so far, for a loop frame -/
  loop : Option (List V × Nat) := Option.none

structure St where
  pc : Nat := 0
  stack : List V := []
  frames : List Frame := [{}]        -- innermost first; the last one is the base frame
  /-- output chunks, newest first; one list per open capture (innermost first) -/
  outs : List (List String) := [[]]
  ctx : List (String × V) := []
  /-- 0 = default formatter; otherwise `Environment::set_formatter` was used and `Emit` goes through
      `Environment::format`: 1 = a formatter delegating to `escape_formatter`, 2 = one that makes
      every value visible (undefined → `U`, none → `N`), 3 = a delegating one counting its calls -/
  formatter : Nat := 0
  /-- number of times the custom formatter was invoked -/
  fmtCalls : Nat := 0

namespace St
def lookupFrames : List Frame → String → Option V
  | [], _ => Option.none
  | f :: r, n => match V.mapGet f.locals n with
    | some v => some v
    | Option.none => lookupFrames r n

/-- `State::lookup` for names that are neither `loop` nor a global of the environment
    (the generator does not use those) -/
def lookup (s : St) (n : String) : V :=
  match lookupFrames s.frames n with
  | some v => v
  | Option.none => (V.mapGet s.ctx n).getD .undef

def write (s : St) (chunk : String) : St :=
  match s.outs with
  | o :: r => { s with outs := (chunk :: o) :: r }
  | [] => { s with outs := [[chunk]] }

def output (s : St) : String :=
  match s.outs.getLast? with
  | some o => String.join o.reverse
  | Option.none => ""

/-- what the harness observes: the output, plus the call count for the counting formatter -/
def observed (s : St) : String :=
  if s.formatter = 3 then s.output ++ "#" ++ toString s.fmtCalls else s.output

def next (s : St) : St := { s with pc := s.pc + 1 }
end St

/-- arguments of a filter/test call: the top `argc` stack entries, first argument deepest -/
def callArgs (stack : List V) (argc : Nat) : Option (List V × List V) :=
  if argc ≤ stack.length then some ((stack.take argc).reverse, stack.drop argc) else Option.none

def seqChks : List (Except Err Unit) → Except Err Unit
  | [] => .ok ()
  | .ok _ :: r => seqChks r
  | .error e :: _ => .error e

/-- `.map_err(|err| Error::new(InvalidOperation, …).with_source(err))` -/
def mapInvalid : Except Err Unit → Except Err Unit
  | .ok u => .ok u
  | .error _ => .error .invalidOperation

def minBy (xs : List V) (gt : Bool) : V :=
  match xs with
  | [] => .undef
  | x :: r => r.foldl (fun a y => if (V.cmp y a == (if gt then .gt else .lt)) then y else a) x

def sumInts : List V → Int → Except Err V
  | [], acc => .ok (.int acc)
  | .undef :: r, acc | .silent :: r, acc => sumInts r acc
  | .int i :: r, acc => sumInts r (acc + i)
  | .bool _ :: _, _ => .error (.unsupported "sum of bool")
  | _ :: _, _ => .error .invalidOperation

def joinWith (sep : String) : List V → String
  | [] => ""
  | [x] => V.display x
  | x :: y :: r => V.display x ++ sep ++ joinWith sep (y :: r)

/-- mode-dependent part of the modelled builtin filters -/
def filterGuard (m : Mode) (name : String) (args : List V) : Except Err Unit :=
  match name, args with
  | "default", [_, _, lax] | "d", [_, _, lax] => isTrueChk m lax.kind
  | "int", [v] | "float", [v] =>
      match v with
      | .undef | .silent | .none => assertNotUndef m v.kind
      | _ => .ok ()
  | "string", [v] => assertNotUndef m v.kind
  | "bool", [v] => isTrueChk m v.kind
  | "list", [v] | "min", [v] | "max", [v] => mapInvalid (tryIterChk m v.kind)
  | "sum", [v] => tryIterChk m v.kind
  | "trim", [v] => assertNotUndef m v.kind                          -- `StringInput` argument conversion
  | "upper", [v] | "lower", [v] => assertNotUndef m v.kind       -- `Cow<str>` argument conversion
  | "attr", [v, _] =>                                               -- after the `fix:` commit
      match V.getItem v (args.getD 1 .undef) with
      | .ok Option.none => handleUndefined m v.isUndefined
      | _ => .ok ()
  | _, _ => .ok ()

def asciiUpper (s : String) : String := String.ofList (s.toList.map Char.toUpper)
def asciiLower (s : String) : String := String.ofList (s.toList.map Char.toLower)

/-- `value_to_string_cow` -/
def toStringCow (v : V) : String := V.display v

def filterExec (name : String) (args : List V) : Except Err V :=
  match name, args with
  | "default", [v] | "d", [v] => .ok (if v.isUndefined then .str "" else v)
  | "default", [v, o] | "d", [v, o] => .ok (if v.isUndefined then o else v)
  | "default", [v, o, lax] | "d", [v, o, lax] =>
      .ok (if v.isUndefined || (lax.isTrue && !v.isTrue) then o else v)
  | "int", [v] =>
      match v with
      | .undef | .silent | .none => .ok (.int 0)
      | .bool b => .ok (.int (if b then 1 else 0))
      | .int i => .ok (.int i)
      | .str s => match s.toInt? with
        | some i => .ok (.int i)
        | Option.none => .error (.unsupported "int of non-integer string")
      | _ => .error .invalidOperation
  | "string", [v] => .ok (match v with | .str s => .str s | v => .str (V.display v))
  | "bool", [v] => .ok (.bool v.isTrue)
  | "list", [v] => match V.iterItems v with
      | .ok xs => .ok (.seq xs)
      | .error _ => .error .invalidOperation
  | "min", [v] => match V.iterItems v with
      | .ok xs => .ok (minBy xs false)
      | .error _ => .error .invalidOperation
  | "max", [v] => match V.iterItems v with
      | .ok xs => .ok (minBy xs true)
      | .error _ => .error .invalidOperation
  | "sum", [v] => match V.iterItems v with
      | .ok xs => sumInts xs 0
      | .error e => .error e
  | "first", [v] => match v with
      | .str s => .ok ((V.chars s).head?.getD .undef)
      | .seq xs | .iter xs => .ok (xs.head?.getD .undef)
      | .map kvs => .ok ((kvs.head?.map (fun p => V.str p.1)).getD .undef)
      | _ => .error .invalidOperation
  | "last", [v] => match v with
      | .str s => .ok ((V.chars s).getLast?.getD .undef)
      | .seq xs | .iter xs => .ok (xs.getLast?.getD .undef)
      | _ => .error .invalidOperation
  | "join", [v] => match v with
      | .undef | .silent | .none | .seq _ | .iter _ | .str _ | .map _ => match V.iterItems v with
        | .ok xs => .ok (.str (joinWith "" xs))
        | .error _ => .error .invalidOperation
      | _ => .error .invalidOperation
  | "join", [v, sep] => match V.iterItems v with
      | .ok xs => .ok (.str (joinWith (match sep with | .undef | .silent | .none => "" | x => toStringCow x) xs))
      | .error _ => .error .invalidOperation
  | "trim", [v] => .ok (.str (toStringCow v).trimAscii.toString)
  | "upper", [v] => .ok (.str (asciiUpper (toStringCow v)))
  | "lower", [v] => .ok (.str (asciiLower (toStringCow v)))
  | "length", [v] | "count", [v] =>
      match v with
      | .str s => .ok (.int s.length)
      | .seq xs | .iter xs => .ok (.int xs.length)
      | .map kvs => .ok (.int kvs.length)
      | _ => .error .invalidOperation
  | "attr", [v, k] =>
      match V.getItem v k with
      | .error e => .error e
      | .ok (some x) => .ok x
      | .ok Option.none => .ok .undef
  | n, _ => .error (.unsupported ("filter " ++ n))

def testGuard (m : Mode) (name : String) (args : List V) : Except Err Unit :=
  match name, args with
  | "in", [_, o] => assertIterable m o.kind
  | _, _ => .ok ()

def testExec (name : String) (args : List V) : Except Err Bool :=
  match name, args with
  | "defined", [v] => .ok (!v.isUndefined)
  | "undefined", [v] => .ok v.isUndefined
  | "none", [v] => .ok (match v with | .none => true | _ => false)
  | "true", [v] => .ok (match v with | .bool true => true | _ => false)
  | "false", [v] => .ok (match v with | .bool false => true | _ => false)
  | "eq", [a, b] | "equalto", [a, b] | "==", [a, b] => .ok (V.beq a b)
  | "ne", [a, b] | "!=", [a, b] => .ok (!V.beq a b)
  | "lt", [a, b] | "lessthan", [a, b] | "<", [a, b] => .ok (V.cmp a b == .lt)
  | "le", [a, b] | "<=", [a, b] => .ok (V.cmp a b != .gt)
  | "gt", [a, b] | "greaterthan", [a, b] | ">", [a, b] => .ok (V.cmp a b == .gt)
  | "ge", [a, b] | ">=", [a, b] => .ok (V.cmp a b != .lt)
  | "in", [v, o] => .ok (match V.contains o v with | .ok b => b | .error _ => false)
  | "string", [v] => .ok (match v with | .str _ => true | _ => false)
  | "number", [v] | "integer", [v] | "int", [v] => .ok (match v with | .int _ => true | _ => false)
  | "boolean", [v] => .ok (match v with | .bool _ => true | _ => false)
  | "sequence", [v] => .ok (match v with | .seq _ => true | _ => false)
  | "mapping", [v] => .ok (match v with | .map _ => true | _ => false)
  | n, _ => .error (.unsupported ("test " ++ n))

def cmpGuard (m : Mode) (op : CmpOp) (lhs rhs : V) : Except Err Unit :=
  match op with
  | .in_ | .notIn => seqChks [assertIterable m rhs.kind, assertNotUndef m lhs.kind]
  | _ => seqChks [assertNotUndef m lhs.kind, assertNotUndef m rhs.kind]

def cmpExec (op : CmpOp) (lhs rhs : V) : Except Err Bool :=
  match op with
  | .eq => .ok (V.beq lhs rhs)
  | .ne => .ok (!V.beq lhs rhs)
  | .lt => .ok (V.cmp lhs rhs == .lt)
  | .lte => .ok (V.cmp lhs rhs != .gt)
  | .gt => .ok (V.cmp lhs rhs == .gt)
  | .gte => .ok (V.cmp lhs rhs != .lt)
  | .in_ => V.contains rhs lhs
  | .notIn => match V.contains rhs lhs with
    | .ok b => .ok (!b)
    | .error e => .error e

/-- **the mode-dependent part of every instruction** (operands named as in `eval_impl`).
    A stack that is too short is left to `exec` to report. -/
def modeGuard (m : Mode) (i : Instr) (s : St) : Except Err Unit :=
  match i, s.stack with
  | .getAttr n, a :: _ =>
      match V.getAttr a n with
      | some _ => .ok ()
      | Option.none => handleUndefined m a.isUndefined
  | .getItem, a :: b :: _ =>                       -- a = key (popped first), b = base
      match V.getItem b a with
      | .ok Option.none => handleUndefined m b.isUndefined
      | _ => .ok ()
  | .slice, _ :: _ :: _ :: a :: _ => sliceChk m a.kind
  | .cmp .in_, a :: b :: _ =>                      -- `In`: a = container (popped first), b = value
      seqChks [assertIterable m a.kind, assertNotUndef m b.kind]
  | .cmp op, b :: a :: _ => cmpGuard m op a b      -- op_binop!: b popped first
  | .cmpPreserve op, b :: a :: _ => cmpGuard m op a b
  | .not, a :: _ => isTrueChk m a.kind
  | .stringConcat, a :: b :: _ => seqChks [assertNotUndef m b.kind, assertNotUndef m a.kind]
  | .jumpIfFalse _, a :: _ => isTrueChk m a.kind
  | .jumpIfFalseOrPop _, a :: _ => isTrueChk m a.kind
  | .jumpIfTrueOrPop _, a :: _ => isTrueChk m a.kind
  | .pushLoop, a :: _ => tryIterChk m a.kind
  | .applyFilter name argc, st =>
      match callArgs st argc with
      | some (args, _) => filterGuard m name args
      | Option.none => .ok ()
  | .performTest name argc, st =>
      match callArgs st argc with
      | some (args, _) => testGuard m name args
      | Option.none => .ok ()
  | _, _ => .ok ()

def popN (n : Nat) (st : List V) : Option (List V × List V) := callArgs st n

/-- `BuildMap`: pairs are inserted in source order (a later duplicate key wins) -/
def buildMapFrom (acc : List (String × V)) : List V → Option (List (String × V))
  | [] => some acc
  | .str k :: v :: r => buildMapFrom (V.mapInsert acc k v) r
  | _ => Option.none

/-- the mode-independent rest of every instruction -/
def exec (i : Instr) (s : St) : Except Err St :=
  match i, s.stack with
  | .emitRaw t, _ => .ok (s.write t).next
  | .storeLocal n, v :: r =>
      match s.frames with
      | f :: fr => .ok { s with stack := r, frames := { f with locals := (n, v) :: f.locals.filter (fun p => p.1 != n) } :: fr }.next
      | [] => .error .stack
  | .lookup n, st => .ok { s with stack := s.lookup n :: st }.next
  | .getAttr n, a :: r => .ok { s with stack := ((V.getAttr a n).getD .undef) :: r }.next
  | .getItem, a :: b :: r =>
      match V.getItem b a with
      | .error e => .error e
      | .ok x => .ok { s with stack := (x.getD .undef) :: r }.next
  | .slice, step :: stop :: b :: a :: r =>
      match V.slice a b stop step with
      | .error e => .error e
      | .ok v => .ok { s with stack := v :: r }.next
  | .loadConst v, st => .ok { s with stack := v :: st }.next
  | .buildList n, st =>
      match popN n st with
      | some (xs, r) => .ok { s with stack := .seq xs :: r }.next
      | Option.none => .error .stack
  | .buildMap n, st =>
      match popN (2 * n) st with
      | some (xs, r) => match buildMapFrom [] xs with
        | some kvs => .ok { s with stack := .map kvs :: r }.next
        | Option.none => .error (.unsupported "non-string map key")
      | Option.none => .error .stack
  | .neg, a :: r =>
      match V.neg a with
      | .error e => .error e
      | .ok v => .ok { s with stack := v :: r }.next
  | .buildListDyn, .int n :: st =>
      match popN n.toNat st with
      | some (xs, r) => .ok { s with stack := .seq xs :: r }.next
      | Option.none => .error .stack
  | .arith op, b :: a :: r =>
      match V.arith op a b with
      | .error e => .error e
      | .ok v => .ok { s with stack := v :: r }.next
  | .cmp .in_, a :: b :: r =>
      match V.contains a b with
      | .error e => .error e
      | .ok x => .ok { s with stack := .bool x :: r }.next
  | .cmp op, b :: a :: r =>
      match cmpExec op a b with
      | .error e => .error e
      | .ok x => .ok { s with stack := .bool x :: r }.next
  | .cmpPreserve op, b :: a :: r =>
      match cmpExec op a b with
      | .error e => .error e
      | .ok x => .ok { s with stack := .bool x :: b :: r }.next
  | .not, a :: r => .ok { s with stack := .bool (!a.isTrue) :: r }.next
  | .stringConcat, a :: b :: r => .ok { s with stack := .str (V.display b ++ V.display a) :: r }.next
  | .applyFilter name argc, st =>
      match callArgs st argc with
      | some (args, r) => match filterExec name args with
        | .error e => .error e
        | .ok v => .ok { s with stack := v :: r }.next
      | Option.none => .error .stack
  | .performTest name argc, st =>
      match callArgs st argc with
      | some (args, r) => match testExec name args with
        | .error e => .error e
        | .ok v => .ok { s with stack := .bool v :: r }.next
      | Option.none => .error .stack
  | .pushLoop, a :: r =>
      match V.iterItems a with
      | .error e => .error e
      | .ok xs => .ok { s with stack := r, frames := { loop := some (xs, 0) } :: s.frames }.next
  | .iterate t, st =>
      match s.frames with
      | f :: fr => match f.loop with
        | some (x :: xs, n) =>       -- `next_loop_item` clears the locals: every iteration is a scope of its own
            .ok { s with stack := x :: st, frames := { locals := [], loop := some (xs, n + 1) } :: fr }.next
        | some ([], n) => .ok { s with pc := t, frames := { f with loop := some ([], n + 1) } :: fr }
        | Option.none => .error .stack
      | [] => .error .stack
  | .pushDidNotIterate, st =>
      match s.frames with
      | f :: _ => match f.loop with
        | some (_, n) => .ok { s with stack := .bool (n ≤ 1) :: st }.next
        | Option.none => .error .stack
      | [] => .error .stack
  | .popFrame, _ | .popLoopFrame, _ =>
      match s.frames with
      | _ :: f' :: fr => .ok { s with frames := f' :: fr }.next
      | _ => .error .stack
  | .pushWith, _ => .ok { s with frames := {} :: s.frames }.next
  | .jump t, _ => .ok { s with pc := t }
  | .jumpIfFalse t, a :: r => .ok (if a.isTrue then { s with stack := r }.next else { s with stack := r, pc := t })
  | .jumpIfFalseOrPop t, a :: r => .ok (if a.isTrue then { s with stack := r }.next else { s with pc := t })
  | .jumpIfTrueOrPop t, a :: r => .ok (if a.isTrue then { s with pc := t } else { s with stack := r }.next)
  | .beginCapture, _ => .ok { s with outs := [] :: s.outs }.next
  | .endCapture, st =>
      match s.outs with
      | o :: o' :: r => .ok { s with outs := o' :: r, stack := .str (String.join o.reverse) :: st }.next
      | _ => .error .stack
  | .dupTop, a :: r => .ok { s with stack := a :: a :: r }.next
  | .discardTop, _ :: r => .ok { s with stack := r }.next
  | .swap, a :: b :: r => .ok { s with stack := b :: a :: r }.next
  | .unsupported n, _ => .error (.unsupported ("instruction " ++ n))
  | _, _ => .error .stack

/-- what the harness' custom formatters write for a value -/
def fmtDisplay (formatter : Nat) (v : V) : String :=
  if formatter = 2 then
    match v with
    | .undef | .silent => "U"
    | .none => "N"
    | v => V.display v
  else V.display v

/-- the value `v` is written: by `write_escaped` (default formatter) or by the custom formatter -/
def St.emitVia (s : St) (r : List V) (v : V) : St :=
  if s.formatter = 0 then ({ s with stack := r }.write (V.display v)).next
  else ({ s with stack := r, fmtCalls := s.fmtCalls + 1 }.write (fmtDisplay s.formatter v)).next

/-- `Instruction::Emit`: the default formatter tests `strict_undefined` inline, a custom one goes
    through `Environment::format`, which fails, hands the value to the formatter, or (no such row
    in the pinned source) returns without calling it -/
def stepEmit (m : Mode) (s : St) : Except Err St :=
  match s.stack with
  | v :: r =>
    if s.formatter = 0 then
      match emitChk m v.kind with
      | .error e => .error e
      | .ok _ => .ok (s.emitVia r v)
    else
      match envFormat m v.kind with
      | .error e => .error e
      | .ok true => .ok (s.emitVia r v)
      | .ok false => .ok { s with stack := r }.next
  | [] => .error .stack

/-- one instruction of `eval_impl` -/
def step (m : Mode) (i : Instr) (s : St) : Except Err St :=
  match i with
  | .emit => stepEmit m s
  | i => match modeGuard m i s with
    | .error e => .error e
    | .ok _ => exec i s

/-- the VM as an instance of the abstract machine: the instruction is fetched by `pc` -/
def vm (code : Array Instr) : Machine St Err where
  next s := match code[s.pc]? with
    | some i => some (fun m s => step m i s)
    | Option.none => Option.none
  timeout := .outOfFuel

def runVm (code : Array Instr) (m : Mode) (fuel : Nat) (s : St) : Except Err St := (vm code).run m fuel s

end MJ.Undef
