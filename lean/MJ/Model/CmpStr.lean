import MJ.Model.Cmp
import MJ.Gen.Tables
/-!
# Strings and what holds them (C07)

`ValueRepr` has two string representations (`SmallStr`: a zero-padded inline buffer of `SMALL_STR_CAP` bytes with a
length; `String(Arc<str>, StringType)`: heap, normal or safe).  The model's `V.str` is the TEXT (a byte list); this
file transcribes the arms of `impl Ord` / `impl PartialEq` that two strings of any representation reach, so that
`MJ.C07.string_cmp_independent_of_repr` can say they all are the byte-wise order of the texts.
-/
namespace MJ.CmpStr
open MJ MJ.Val MJ.Cmp

/-- the representations of a string value: `ValueRepr::SmallStr` (a 22-byte buffer, zero padded, with its
    length) and `ValueRepr::String(Arc<str>, StringType)` (heap; normal or safe) -/
inductive StrRepr where
  | inline (buf : List Nat) (len : Nat)
  | heap (bytes : List Nat) (safe : Bool)
  deriving Repr, DecidableEq

/-- `as_str()`: the text, whatever holds it (`SmallStr::as_str` slices the buffer to its length) -/
def StrRepr.bytes : StrRepr → List Nat
  | .inline buf len => buf.take len
  | .heap b _ => b

/-- `SmallStr::try_new`: texts of at most 22 bytes, copied into the zeroed buffer -/
def mkInline (s : List Nat) : Option StrRepr :=
  if s.length ≤ MJ.Gen.smallStrCap then some (.inline (s ++ List.replicate (MJ.Gen.smallStrCap - s.length) 0) s.length) else none

/-- the arms of `impl Ord for Value` that two strings can reach: SmallStr/SmallStr `a.as_str().cmp(b.as_str())`,
    String/String `a.cmp(b)`, mixed pairs through `coerce` → `Str(a, b)` → `a.cmp(b)` -/
def cmpStrRepr (a b : StrRepr) : Ordering :=
  match a, b with
  | .inline b1 l1, .inline b2 l2 => cmpBytes (b1.take l1) (b2.take l2)
  | .heap x _, .heap y _ => cmpBytes x y
  | .inline b1 l1, .heap y _ => cmpBytes (b1.take l1) y
  | .heap x _, .inline b2 l2 => cmpBytes x (b2.take l2)

/-- the same arms of `impl PartialEq` -/
def eqStrRepr (a b : StrRepr) : Bool :=
  match a, b with
  | .inline b1 l1, .inline b2 l2 => b1.take l1 == b2.take l2
  | .heap x _, .heap y _ => x == y
  | .inline b1 l1, .heap y _ => b1.take l1 == y
  | .heap x _, .inline b2 l2 => x == b2.take l2

/-- comparing the zero-padded buffers instead (no slicing): NOT the string order -/
def cmpPadded (a b : StrRepr) : Ordering :=
  match a, b with
  | .inline b1 _, .inline b2 _ => cmpBytes b1 b2
  | a, b => cmpStrRepr a b

/-- byte-wise lexicographic order, a proper prefix first (`<[u8]>::cmp`) -/
def lexBytes : List Nat → List Nat → Ordering
  | [], [] => .eq
  | [], _ :: _ => .lt
  | _ :: _, [] => .gt
  | a :: as, b :: bs => (compare a b).then (lexBytes as bs)

end MJ.CmpStr
