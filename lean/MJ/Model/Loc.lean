import MJ.Model.Chk
/-!
# Location bookkeeping (C14)

Executable model of the pieces of minijinja that decide which template line / byte range an error
reports:

* `compiler/lexer.rs`: `Tokenizer::new` (removal of one trailing newline), `advance` (the `u16`
  line/column counters saturate, the `usize` offset is a checked addition, slicing the rest of the
  source off a character boundary panics), `loc`, `span` (`current_offset as u32` truncates),
  `syntax_error` (widens the empty span by the next character — this is the code *after* the C14
  fix: the column saturates, the offset grows by the UTF-8 length of the next character and not at
  all at the end of the input);
* `compiler/parser.rs`: `TokenStream::expand_span`;
* `compiler/instructions.rs`: `add`, `add_line_record`, `add_with_line`, `add_with_span`,
  `get_line`, `get_span` with the run-length side tables (feature `debug` on);
* `vm/mod.rs`: `process_err` (which of span / line is attached);
* `debug.rs`: the arithmetic of `render_debug_info` (caret column and width, the window of source
  lines that is printed).

A source text is a `List Char` (Rust `char` = Unicode scalar value = Lean `Char`); byte offsets
are recovered through `Char.utf8Size`.  Rust panics are `Chk.panic`.
-/
namespace MJ.Loc
open MJ

/-! ## machine integers -/

/-- `u16::saturating_add(1)` -/
def satInc (x : Nat) : Nat := if x < 65535 then x + 1 else 65535

/-- the truncating cast `x as u32` -/
def asU32 (x : Nat) : Nat := x % 4294967296

/-- a value of Rust type `u32` produced by a checked operation -/
def u32 (x : Nat) : Chk Nat := if x < 4294967296 then .ok x else .panic

/-- a value of Rust type `usize` (64 bit) produced by a checked operation on unsigned operands -/
def usize (x : Nat) : Chk Nat := if x < 18446744073709551616 then .ok x else .panic

/-- `str::len` of the text: number of UTF-8 bytes -/
def utf8Len : List Char → Nat
  | [] => 0
  | c :: cs => c.utf8Size + utf8Len cs

/-! ## lexer position state -/

/-- the position fields of `Tokenizer`; `rest` is `self.source[self.current_offset..]` -/
structure Tok where
  rest : List Char
  line : Nat      -- u16
  col : Nat       -- u16
  offset : Nat    -- usize
  deriving Repr, DecidableEq

def stripLast (c : Char) (cs : List Char) : List Char :=
  if cs.getLast? = some c then cs.dropLast else cs

/-- the source the tokenizer works on: unless `keep_trailing_newline`, one trailing `\n` and then
    one trailing `\r` are removed (`Tokenizer::new`) -/
def tokSource (keepTrailingNewline : Bool) (src : List Char) : List Char :=
  if keepTrailingNewline then src else stripLast '\r' (stripLast '\n' src)

def Tok.new (src : List Char) : Tok := ⟨src, 1, 0, 0⟩

/-- one iteration of the loop in `advance` -/
def stepChar (lc : Nat × Nat) (c : Char) : Nat × Nat :=
  if c = '\n' then (satInc lc.1, 0) else (lc.1, satInc lc.2)

/-- `&self.rest()[..bytes]` followed by the loop over its characters, fused: walks over the
    characters that make up the next `bytes` bytes.  `none` = the slice panics (`bytes` is past the
    end or inside a multi-byte character). -/
def advanceGo : List Char → Nat → Nat × Nat → Option (List Char × (Nat × Nat))
  | cs, 0, lc => some (cs, lc)
  | [], _ + 1, _ => none
  | c :: cs, n + 1, lc =>
    if c.utf8Size ≤ n + 1 then advanceGo cs (n + 1 - c.utf8Size) (stepChar lc c) else none

/-- `Tokenizer::advance` -/
def Tok.advance (t : Tok) (bytes : Nat) : Chk Tok :=
  match advanceGo t.rest bytes (t.line, t.col) with
  | none => .panic
  | some (rest, lc) =>
    match usize (t.offset + bytes) with
    | .panic => .panic
    | .ok off => .ok ⟨rest, lc.1, lc.2, off⟩

/-- `(u16, u16, u32)` as returned by `loc` -/
structure Loc where
  line : Nat
  col : Nat
  offset : Nat
  deriving Repr, DecidableEq

/-- `tokens::Span` -/
structure Span where
  startLine : Nat
  startCol : Nat
  startOffset : Nat
  endLine : Nat
  endCol : Nat
  endOffset : Nat
  deriving Repr, DecidableEq

/-- `Span::default()` -/
def Span.default : Span := ⟨0, 0, 0, 0, 0, 0⟩

def Tok.loc (t : Tok) : Loc := ⟨t.line, t.col, asU32 t.offset⟩

def Tok.span (t : Tok) (s : Loc) : Span :=
  ⟨s.line, s.col, s.offset, t.line, t.col, asU32 t.offset⟩

/-- byte length of the character the tokenizer looks at (`0` at the end of the input) -/
def nextCharLen : List Char → Nat
  | [] => 0
  | c :: _ => c.utf8Size

/-- the span attached by `Tokenizer::syntax_error` -/
def Tok.syntaxError (t : Tok) : Chk Span :=
  let sp := t.span t.loc
  if sp.startCol = sp.endCol then
    match u32 (sp.endOffset + asU32 (nextCharLen t.rest)) with
    | .panic => .panic
    | .ok e => .ok { sp with endCol := satInc sp.endCol, endOffset := e }
  else .ok sp

/-! ## the tokenizer as a client of the position state

Every rule of the tokenizer moves through the source with `advance`, remembers positions with
`loc` and produces spans with `span` / `syntax_error`.  A *script* is any such sequence; the
theorems quantify over all scripts, so they hold for whatever the tokenizer's rules decide to do. -/
inductive Op where
  | adv (bytes : Nat)   -- `self.advance(bytes)`
  | mark                -- `let old_loc = self.loc()`
  | emit                -- a token with `self.span(old_loc)`
  | err                 -- `return Err(self.syntax_error(..))`
  deriving Repr, DecidableEq

def run : Tok → Loc → List Op → Chk (List Span)
  | _, _, [] => .ok []
  | t, m, .adv n :: ops =>
    match t.advance n with
    | .panic => .panic
    | .ok t' => run t' m ops
  | t, _, .mark :: ops => run t t.loc ops
  | t, m, .emit :: ops =>
    match run t m ops with
    | .panic => .panic
    | .ok ss => .ok (t.span m :: ss)
  | t, _, .err :: _ =>
    match t.syntaxError with
    | .panic => .panic
    | .ok s => .ok [s]

/-! ## parser -/

/-- `TokenStream::expand_span(span)` with `last = self.last_span` -/
def expandSpan (span last : Span) : Span :=
  { span with endLine := last.endLine, endCol := last.endCol, endOffset := last.endOffset }

/-! ## instruction side tables -/

structure LineInfo where
  first : Nat   -- first_instruction: u32
  line : Nat    -- u16
  deriving Repr, DecidableEq

structure SpanInfo where
  first : Nat
  span : Span
  deriving Repr, DecidableEq

/-- `Instructions`, reduced to what the location lookups depend on -/
structure Instrs where
  len : Nat
  lineInfos : List LineInfo
  spanInfos : List SpanInfo
  deriving Repr, DecidableEq

def Instrs.empty : Instrs := ⟨0, [], []⟩

/-- `Instructions::add`: returns the index `rv as u32` -/
def Instrs.add (s : Instrs) : Instrs × Nat := ({ s with len := s.len + 1 }, asU32 s.len)

def Instrs.addLineRecord (s : Instrs) (instr line : Nat) : Instrs :=
  let same := match s.lineInfos.getLast? with
    | some l => l.line == line
    | none => false
  if same then s else { s with lineInfos := s.lineInfos ++ [⟨instr, line⟩] }

def Instrs.addWithLine (s : Instrs) (line : Nat) : Instrs × Nat :=
  let (s, rv) := s.add
  let s := s.addLineRecord rv line
  let clear := match s.spanInfos.getLast? with
    | some x => x.span != Span.default
    | none => false
  (if clear then { s with spanInfos := s.spanInfos ++ [⟨rv, Span.default⟩] } else s, rv)

def Instrs.addWithSpan (s : Instrs) (span : Span) : Instrs × Nat :=
  let (s, rv) := s.add
  let same := match s.spanInfos.getLast? with
    | some x => x.span == span
    | none => false
  let s := if same then s else { s with spanInfos := s.spanInfos ++ [⟨rv, span⟩] }
  (s.addLineRecord rv span.startLine, rv)

/-- The contract of `slice::binary_search_by_key` on a slice that is sorted by the key: `ok i` with
    `keys[i] = target`, or `error i` where `i` is the insertion point (number of smaller keys).
    That the tables *are* strictly sorted is proved (`tables_sorted`). -/
def binarySearch (keys : List Nat) (target : Nat) : Except Nat Nat :=
  let i := (keys.takeWhile (· < target)).length
  if keys[i]? = some target then .ok i else .error i

/-- the shared body of `get_line` / `get_span`: the run that contains instruction `idx`
    (`Ok(i) => &tbl[i]`, `Err(0) => return None`, `Err(i) => &tbl[i - 1]`) -/
def lookupRun {α : Type} (first : α → Nat) (tbl : List α) (idx : Nat) : Chk (Option α) :=
  match binarySearch (tbl.map first) idx with
  | .ok i => match Chk.index tbl i with
    | .panic => .panic
    | .ok l => .ok (some l)
  | .error 0 => .ok none
  | .error (i + 1) => match Chk.index tbl i with
    | .panic => .panic
    | .ok l => .ok (some l)

/-- `Instructions::get_line` -/
def Instrs.getLine (s : Instrs) (idx : Nat) : Chk (Option Nat) :=
  match lookupRun LineInfo.first s.lineInfos idx with
  | .panic => .panic
  | .ok none => .ok none
  | .ok (some l) => .ok (some l.line)

/-- `(loc.span != Span::default()).then_some(loc.span)` -/
def Span.nonDefault (sp : Span) : Option Span := if sp != Span.default then some sp else none

/-- `Instructions::get_span` -/
def Instrs.getSpan (s : Instrs) (idx : Nat) : Chk (Option Span) :=
  match lookupRun SpanInfo.first s.spanInfos idx with
  | .panic => .panic
  | .ok none => .ok none
  | .ok (some l) => .ok l.span.nonDefault

/-- the three ways an instruction gets appended -/
inductive Add where
  | plain                  -- `Instructions::add`
  | withLine (line : Nat)  -- `add_with_line`
  | withSpan (span : Span) -- `add_with_span`
  deriving Repr, DecidableEq

def Instrs.apply (s : Instrs) : Add → Instrs
  | .plain => s.add.1
  | .withLine l => (s.addWithLine l).1
  | .withSpan sp => (s.addWithSpan sp).1

def addAll (ops : List Add) : Instrs := ops.foldl Instrs.apply Instrs.empty

/-- what `process_err` attaches to an error that has no line yet: the span (and its start line)
    if the instruction has one, else the line, else nothing -/
inductive Attached where
  | span (s : Span)
  | line (l : Nat)
  | nothing
  deriving Repr, DecidableEq

def processErr (s : Instrs) (pc : Nat) : Chk Attached :=
  match s.getSpan pc with
  | .panic => .panic
  | .ok (some sp) => .ok (.span sp)
  | .ok none =>
    match s.getLine pc with
    | .panic => .panic
    | .ok (some l) => .ok (.line l)
    | .ok none => .ok .nothing

/-- `Error::line()` after `set_filename_and_span` / `set_filename_and_line`: `lineno > 0` -/
def Attached.lineno : Attached → Option Nat
  | .span s => if s.startLine > 0 then some s.startLine else none
  | .line l => if l > 0 then some l else none
  | .nothing => none

/-! ## code generator bookkeeping

`CodeGenerator::{set_line, set_line_from_span, push_span, pop_span, add, add_with_span}`: the
current line, the stack of spans (head = top) and the instructions written so far.  The compiler
is any script of these calls. -/
structure Cg where
  currentLine : Nat        -- u16, `0` initially
  spanStack : List Span
  instrs : Instrs
  deriving Repr, DecidableEq

def Cg.new : Cg := ⟨0, [], Instrs.empty⟩

inductive CgOp where
  | setLine (line : Nat)        -- `set_line`, `set_line_from_span(span)` with `span.start_line`
  | pushSpan (span : Span)      -- pushes and sets the line from the span
  | popSpan                     -- only pops
  | add                         -- `add(instr)`: location from the current line / innermost span
  | addWithSpan (span : Span)   -- `add_with_span(instr, span)`
  deriving Repr, DecidableEq

/-- `CodeGenerator::add`: the innermost span if it starts on the current line, else the line -/
def Cg.add (c : Cg) : Cg :=
  match c.spanStack with
  | sp :: _ =>
    if sp.startLine = c.currentLine then { c with instrs := (c.instrs.addWithSpan sp).1 }
    else { c with instrs := (c.instrs.addWithLine c.currentLine).1 }
  | [] => { c with instrs := (c.instrs.addWithLine c.currentLine).1 }

def Cg.step (c : Cg) : CgOp → Cg
  | .setLine l => { c with currentLine := l }
  | .pushSpan sp => { c with spanStack := sp :: c.spanStack, currentLine := sp.startLine }
  | .popSpan => { c with spanStack := c.spanStack.tail }
  | .add => c.add
  | .addWithSpan sp => { c with instrs := (c.instrs.addWithSpan sp).1 }

def cgRun (ops : List CgOp) (c : Cg) : Cg := ops.foldl Cg.step c

/-! ## render_debug_info -/

/-- the `i ^^^` line: printed when the span is on one line; `(spaces, carets)`.
    `(end_col as usize).saturating_sub(start_col as usize)` -/
def caret (sp : Span) : Option (Nat × Nat) :=
  if sp.startLine = sp.endLine then some (sp.startCol, sp.endCol - sp.startCol) else none

/-- the source-line window: `(pre, current, post)` as lists of 0-based line indexes with the
    lines; `line = self.line()`.  `idx + 1` is a checked `usize` addition. -/
def window {α : Type} (lines : List α) (line : Option Nat) :
    Chk (List (Nat × α) × Option (Nat × α) × List (Nat × α)) :=
  let en := (List.range lines.length).zip lines
  let idx := (line.getD 1) - 1
  let skip := idx - 3
  let pre := (en.drop skip).take (min 3 idx)
  match usize (idx + 1) with
  | .panic => .panic
  | .ok idx1 => .ok (pre, en[idx]?, (en.drop idx1).take 3)

/-- `str::lines`: split at `\n`, a trailing empty piece is dropped (a trailing `\r` of each line
    is removed as well, which does not change the number of lines) -/
def splitLines : List Char → List (List Char) → List Char → List (List Char)
  | [], acc, cur => if cur.isEmpty then acc.reverse else (cur.reverse :: acc).reverse
  | c :: cs, acc, cur =>
    if c = '\n' then splitLines cs (cur.reverse :: acc) [] else splitLines cs acc (c :: cur)

def strLines (src : List Char) : List (List Char) := splitLines src [] []

end MJ.Loc
