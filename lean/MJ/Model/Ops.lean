/-!
# The operand stack of one activation of `eval_impl`, with the bookkeeping of loop recursion (C05)

`minijinja/src/vm/mod.rs: eval_impl`, abstracted to what matters for "no path makes the engine
discard an operand that the same construct did not create":

* the operand stack is its height `h` (`stack.len()`); every instruction has its effect on it;
* `frames`: the frames pushed by the activation (`PushWith` / `PushLoop`), a loop frame with
  `recTarget` = `Loop::recurse_jump_target` and `ret` = `LoopState::current_recursion_jump`;
* `next` = the local `next_loop_recursion_jump` (set by `recurse_loop!`, taken by the next `PushLoop`);
* `bases` = the local `loop_recursion_bases`: `PushLoop` pushes `stack.len()` (after popping the
  iterable) when it was reached through `loop(...)`, the `PopLoopFrame` that finds a
  `current_recursion_jump` pops one and truncates the operand stack to it, then pushes the captured
  output for the `CallFunction` form;
* ghost fields, not in the engine: `gbase` (the base a loop frame's own `PushLoop` recorded), `gh`
  (operand height when a frame / capture / auto-escape entry was pushed).  The property theorems say
  that the engine's `bases` always is the list of the `gbase`s of the live loop frames, i.e. push and
  pop of `loop_recursion_bases` are paired with the loop frames.

The machine is faithful where the engine is silent: `PopFrame` pops whatever frame is on top (the
engine does), so the pairing theorem needs the frame discipline that `MJ.Bal.checkCert_sound` gives
(`Disciplined`).  An instruction that would panic (pop of an empty stack, `unwrap` of a missing loop)
or that fails has no successor: the run ends there, and the theorems speak about every reachable
state.

`step` is parametrised by `cond`, the condition under which `PushLoop` records a base: the engine's is
`recursion_jump.is_some()` (`condReal`); `condCapturedOnly` is the variant that only records for the
captured form, used to show that the model tells the two apart.

`replay` runs the machine along a trace of `(pc, height)` pairs observed on the real engine (hook
`verif_hooks::opstack`) and reports the first observed transition the machine does not have.
-/
namespace MJ.Ops

inductive Instr where
  /-- straight-line: pops `pops` values, then pushes `pushes` -/
  | eff (pops pushes : Nat)
  /-- pops a count `k` that was pushed at run time and `k` more values, pushes one
  (`BuildList(None)`, `BuildTuple(None)`, filters / tests / methods / objects called with `*args`) -/
  | dyn
  /-- `UnpackLists(n)`: pops `n` lists, pushes their items and the number of items -/
  | unpack (n : Nat)
  /-- `CallFunction(_, Some n)`; with one argument the callee may be a live loop object -/
  | call (n : Nat)
  /-- `CallFunction(_, None)` -/
  | callDyn
  | pushWith
  | popFrame
  | pushLoop (withVar recursive : Bool)
  | iterate (t : Nat)
  | pushDidNotIterate
  | popLoopFrame
  | beginCapture
  | endCapture
  | pushAutoEscape
  | popAutoEscape
  | jump (t : Nat)
  | jumpIfFalse (t : Nat)
  | jumpIfFalseOrPop (t : Nat)
  | jumpIfTrueOrPop (t : Nat)
  | fastRecurse
  | ret
  /-- `BuildMacro(_, offset, _)`: pops the argument names and the closure id, pushes the macro -/
  | buildMacro (offset : Nat)
  /-- `ExportLocals`: replaces the captured output of an imported template by the module object; the
  `with` frame of the `import` statement closes one above where it opened -/
  | exportLocals
  deriving DecidableEq, Repr, Inhabited

abbrev Code := Array Instr

structure Loop where
  withVar : Bool
  /-- `Loop::recurse_jump_target`: the pc of the loop's own `PushLoop` when the loop is recursive -/
  recTarget : Option Nat
  /-- `LoopState::current_recursion_jump`: where to continue when the loop ends, and whether the
  output of the level was captured -/
  ret : Option (Nat × Bool)
  /-- ghost: the base the `PushLoop` of this frame pushed onto `loop_recursion_bases` -/
  gbase : Option Nat
  /-- ghost: operand height after `PushLoop` popped the iterable -/
  gh : Nat
  deriving DecidableEq, Repr

inductive Frame where
  | withF (gh : Nat)
  | loopF (l : Loop)
  deriving DecidableEq, Repr

structure State where
  pc : Nat
  /-- `stack.len()` -/
  h : Nat
  frames : List Frame
  /-- captures begun by the activation, with the operand height at `BeginCapture` (`none`: the
  capture of a `loop(...)` call) -/
  caps : List (Option Nat)
  /-- `auto_escape_stack`, with the operand height after `PushAutoEscape` popped its argument -/
  escs : List Nat
  /-- `loop_recursion_bases` -/
  bases : List Nat
  /-- `next_loop_recursion_jump` -/
  next : Option (Nat × Bool)
  deriving DecidableEq, Repr

def init (e h : Nat) : State :=
  { pc := e, h := h, frames := [], caps := [], escs := [], bases := [], next := none }

/-- the condition under which `PushLoop` records the operand height -/
abbrev Cond := Option (Nat × Bool) → Bool

/-- the engine: `if recursion_jump.is_some() { loop_recursion_bases.push(stack.len()) }` -/
def condReal : Cond := fun nx => nx.isSome

/-- a variant: only the captured form (`loop(x)` inside an expression) records a base -/
def condCapturedOnly : Cond := fun nx => match nx with
  | some (_, true) => true
  | _ => false

/-- recursion targets of the loops that are live in the activation (`is_active_loop`) -/
def liveTargets : List Frame → List Nat
  | [] => []
  | .withF _ :: fs => liveTargets fs
  | .loopF l :: fs => match l.recTarget with
    | some t => t :: liveTargets fs
    | none => liveTargets fs

/-- `Context::current_loop` -/
def innermostLoop : List Frame → Option Loop
  | [] => none
  | .withF _ :: fs => innermostLoop fs
  | .loopF l :: _ => some l

/-- `recurse_loop!(capture, loop)`: remember the return address, begin the capture, jump -/
def recurse (s : State) (h t : Nat) (capture : Bool) : State :=
  { s with pc := t, h := h, next := some (s.pc + 1, capture),
           caps := if capture then none :: s.caps else s.caps }

/-- the `PushLoop` arm -/
def doPushLoop (cond : Cond) (s : State) (v r : Bool) : List State :=
  if s.h = 0 then [] else
    let h1 := s.h - 1
    let rec_ := cond s.next
    [{ s with pc := s.pc + 1, h := h1, next := none,
              bases := if rec_ then h1 :: s.bases else s.bases,
              frames := .loopF { withVar := v, recTarget := if r then some s.pc else none, ret := s.next,
                                 gbase := if rec_ then some h1 else none, gh := h1 } :: s.frames }]

/-- `stack.truncate(base)` for the popped base, if there is one -/
def truncated (h : Nat) : List Nat → Nat × List Nat
  | [] => (h, [])
  | b :: bs => (min h b, bs)

/-- the `PopLoopFrame` arm -/
def doPopLoopFrame (s : State) : List State :=
  match s.frames with
  | .loopF l :: fs =>
    match l.ret with
    | none => [{ s with pc := s.pc + 1, frames := fs }]
    | some (t, cap) =>
      let tb := truncated s.h s.bases
      [{ s with pc := t, h := if cap then tb.1 + 1 else tb.1, frames := fs, bases := tb.2,
                caps := if cap then s.caps.tail else s.caps }]
  | _ => []

/-- one instruction; `k` resolves the counts that are only known at run time -/
def step (cond : Cond) (code : Code) (s : State) (k : Nat) : List State :=
  match code[s.pc]? with
  | none => []
  | some i =>
    match i with
    | .eff a b => if a ≤ s.h then [{ s with pc := s.pc + 1, h := s.h - a + b }] else []
    | .dyn => if k + 1 ≤ s.h then [{ s with pc := s.pc + 1, h := s.h - k }] else []
    | .unpack n => if n ≤ s.h then [{ s with pc := s.pc + 1, h := s.h - n + k + 1 }] else []
    | .call n =>
      if n ≤ s.h then
        { s with pc := s.pc + 1, h := s.h - n + 1 } ::
          (if n = 1 then (liveTargets s.frames).map (fun t => recurse s s.h t true) else [])
      else []
    | .callDyn =>
      (if k + 1 ≤ s.h then [{ s with pc := s.pc + 1, h := s.h - k }] else []) ++
      (if 2 ≤ s.h then (liveTargets s.frames).map (fun t => recurse s (s.h - 1) t true) else [])
    | .pushWith => [{ s with pc := s.pc + 1, frames := .withF s.h :: s.frames }]
    | .popFrame =>
      match s.frames with
      | _ :: fs => [{ s with pc := s.pc + 1, frames := fs }]
      | [] => []
    | .pushLoop v r => doPushLoop cond s v r
    | .iterate t =>
      match innermostLoop s.frames with
      | some _ => [{ s with pc := s.pc + 1, h := s.h + 1 }, { s with pc := t }]
      | none => [{ s with pc := t }]
    | .pushDidNotIterate =>
      match innermostLoop s.frames with
      | some _ => [{ s with pc := s.pc + 1, h := s.h + 1 }]
      | none => []
    | .popLoopFrame => doPopLoopFrame s
    | .beginCapture => [{ s with pc := s.pc + 1, caps := some s.h :: s.caps }]
    | .endCapture =>
      match s.caps with
      | _ :: cs => [{ s with pc := s.pc + 1, h := s.h + 1, caps := cs }]
      | [] => [{ s with pc := s.pc + 1, h := s.h + 1 }]
    | .pushAutoEscape =>
      if 1 ≤ s.h then [{ s with pc := s.pc + 1, h := s.h - 1, escs := (s.h - 1) :: s.escs }] else []
    | .popAutoEscape =>
      match s.escs with
      | _ :: es => [{ s with pc := s.pc + 1, escs := es }]
      | [] => []
    | .jump t => [{ s with pc := t }]
    | .jumpIfFalse t => if 1 ≤ s.h then [{ s with pc := s.pc + 1, h := s.h - 1 }, { s with pc := t, h := s.h - 1 }] else []
    | .jumpIfFalseOrPop t => if 1 ≤ s.h then [{ s with pc := s.pc + 1, h := s.h - 1 }, { s with pc := t }] else []
    | .jumpIfTrueOrPop t => if 1 ≤ s.h then [{ s with pc := s.pc + 1, h := s.h - 1 }, { s with pc := t }] else []
    | .fastRecurse =>
      match innermostLoop s.frames with
      | some l => match l.recTarget with
        | some t => [recurse s s.h t false]
        | none => []
      | none => []
    | .ret => []
    | .buildMacro _ => if 2 ≤ s.h then [{ s with pc := s.pc + 1, h := s.h - 1 }] else []
    | .exportLocals => if 1 ≤ s.h then [{ s with pc := s.pc + 1 }] else []

/-- reachability -/
inductive Reach (cond : Cond) (code : Code) : State → State → Prop where
  | refl (s : State) : Reach cond code s s
  | tail {s m t : State} (k : Nat) : Reach cond code s m → t ∈ step cond code m k → Reach cond code s t

/-- the bases the live loop frames recorded, innermost first -/
def basesOf : List Frame → List Nat
  | [] => []
  | .withF _ :: fs => basesOf fs
  | .loopF l :: fs => match l.gbase with
    | some b => b :: basesOf fs
    | none => basesOf fs

/-- a loop frame carries a base exactly when it was entered through `loop(...)` -/
def framesOk : List Frame → Bool
  | [] => true
  | .withF _ :: fs => framesOk fs
  | .loopF l :: fs => (l.gbase.isSome == l.ret.isSome) && framesOk fs

/-! ## Running along an observed trace -/

/-- the count `k` that explains the observed height `h'` after the instruction at `s.pc` -/
def guessK (code : Code) (s : State) (h' : Nat) : Nat :=
  match code[s.pc]? with
  | some (.unpack n) => h' - (s.h - n) - 1
  | _ => s.h - h'

/-- what a scoped construct must find when it closes: the operand height it was opened at -/
def closesAt (code : Code) (s : State) : Option (String × Nat × Nat) :=
  match code[s.pc]? with
  | some .popFrame =>
    match s.frames with
    | .withF g :: _ =>
      -- the frame of an `import` statement holds the module it produced
      let made := if code[s.pc - 1]? = some .exportLocals ∧ 0 < s.pc then 1 else 0
      if s.h = g + made then none else some ("with", g + made, s.h)
    | _ => none
  | some .endCapture =>
    match s.caps with
    | some g :: _ => if s.h = g then none else some ("capture", g, s.h)
    | _ => none
  | some .popAutoEscape =>
    match s.escs with
    | g :: _ => if s.h = g then none else some ("autoescape", g, s.h)
    | _ => none
  | some .popLoopFrame =>
    match s.frames with
    | .loopF l :: _ =>
      -- the loop the compiler uses to filter the items of `for … if …` leaves the accepted items
      -- behind on purpose; it has no loop variable
      if !l.withVar then none
      else
        let flag := if code[s.pc - 1]? = some .pushDidNotIterate ∧ 0 < s.pc then 1 else 0
        if s.h = l.gh + flag then none else some ("loop", l.gh + flag, s.h)
    | _ => none
  | _ => none

/-- a level of `loop(...)` that ends must not have consumed operands of its caller -/
def returnsAbove (code : Code) (s : State) : Option (Nat × Nat) :=
  match code[s.pc]? with
  | some .popLoopFrame =>
    match s.frames, s.bases with
    | .loopF l :: _, b :: _ => if l.ret.isSome ∧ s.h < b then some (b, s.h) else none
    | _, _ => none
  | _ => none

inductive Verdict where
  | ok (steps recursions : Nat)
  /-- the machine has no transition to the observed `(pc, h)` -/
  | deviates (index : Nat) (s : State) (pc h : Nat)
  /-- a scoped construct closes at another operand height than it was opened at -/
  | notRestored (index : Nat) (what : String) (opened found pc : Nat)
  /-- a recursion level ends below its base -/
  | below (index : Nat) (base found pc : Nat)
  deriving Repr

def replayFrom (cond : Cond) (code : Code) : Nat → State → List (Nat × Nat) → Nat → Verdict
  | i, s, [], r =>
    match closesAt code s, returnsAbove code s with
    | some (w, g, f), _ => .notRestored i w g f s.pc
    | none, some (b, f) => .below i b f s.pc
    | none, none => .ok i r
  | i, s, (pc', h') :: rest, r =>
    match closesAt code s, returnsAbove code s with
    | some (w, g, f), _ => .notRestored i w g f s.pc
    | none, some (b, f) => .below i b f s.pc
    | none, none =>
      match (step cond code s (guessK code s h')).find? (fun t => t.pc = pc' ∧ t.h = h') with
      | some t => replayFrom cond code (i + 1) t rest (if t.next.isSome then r + 1 else r)
      | none => .deviates i s pc' h'

/-- replay of one activation: the first event fixes the entry state -/
def replay (cond : Cond) (code : Code) : List (Nat × Nat) → Verdict
  | [] => .ok 0 0
  | (pc, h) :: rest => replayFrom cond code 0 (init pc h) rest 0

end MJ.Ops
