/-!
# IEEE-754 binary64 values as bit patterns (what `f64::to_bits` returns)

Only what the comparison / equality / hash code of `minijinja/src/value` needs: `==`, `<`, `>=`,
`total_cmp`, `is_finite`, `trunc`, the saturating casts `f64 as i64 / u64 / i128 / u128` and the
round-to-nearest-even casts `<int> as f64`.  Everything is computed exactly on integers: a finite
float `x` is represented by the integer `x · 2^1074` (`key`).
-/
namespace MJ.F64

def P52 : Nat := 4503599627370496
def P63 : Nat := 9223372036854775808
def P64 : Nat := 18446744073709551616
/-- magnitude bits of ±infinity (`0x7ff0000000000000`) -/
def infMag : Nat := 9218868437227405312

/-- sign bit -/
def sign (b : Nat) : Bool := decide (P63 ≤ b % P64)
/-- the low 63 bits: exponent and mantissa -/
def mag (b : Nat) : Nat := b % P63
def expo (b : Nat) : Nat := mag b / P52
def mant (b : Nat) : Nat := mag b % P52

def isNaN (b : Nat) : Bool := decide (infMag < mag b)
def isFinite (b : Nat) : Bool := decide (mag b < infMag)

/-- `|x| · 2^1074` for a finite float; continued monotonically through infinity and the NaNs -/
def scaledOfMag (m : Nat) : Nat :=
  if m / P52 = 0 then m % P52 else (P52 + m % P52) * 2 ^ (m / P52 - 1)

def scaled (b : Nat) : Nat := scaledOfMag (mag b)

/-- the exact value times `2^1074` (finite floats); `-0.0` and `0.0` both give `0` -/
def key (b : Nat) : Int := if sign b then -(scaled b : Int) else (scaled b : Int)

/-- `2^1074` -/
def scale : Nat := 2 ^ 1074

/-- IEEE `==` -/
def feq (a b : Nat) : Bool := !isNaN a && !isNaN b && decide (key a = key b)
/-- IEEE `<` -/
def flt (a b : Nat) : Bool := !isNaN a && !isNaN b && decide (key a < key b)
/-- IEEE `>=` -/
def fge (a b : Nat) : Bool := !isNaN a && !isNaN b && decide (key b ≤ key a)

/-- the integer `f64::total_cmp` compares: `bits as i64` with the low 63 bits flipped when negative -/
def totalKey (b : Nat) : Int := if sign b then -(mag b : Int) - 1 else (mag b : Int)

def totalCmp (a b : Nat) : Ordering := compare (totalKey a) (totalKey b)

/-- `value/mod.rs: cmp_f64` -/
def cmpF64 (a b : Nat) : Ordering := if feq a b then .eq else totalCmp a b

/-- `x.trunc()` of a finite float, as an integer -/
def truncInt (b : Nat) : Int :=
  if sign b then -((scaled b / scale : Nat) : Int) else ((scaled b / scale : Nat) : Int)

/-- the saturating cast `x as <int type with range lo..=hi>` (NaN gives 0) -/
def castInt (lo hi : Int) (b : Nat) : Int :=
  if isNaN b then 0
  else if !isFinite b then (if sign b then lo else hi)
  else
    let t := truncInt b
    if t < lo then lo else if hi < t then hi else t

/-- `left.partial_cmp(&left.trunc()).unwrap()` for a finite `left` -/
def cmpWithTrunc (b : Nat) : Ordering := compare (key b) (truncInt b * (scale : Int))

/-- `n as f64` for a natural number below `2^1024`: round to nearest, ties to even -/
def ofNat (n : Nat) : Nat :=
  if n = 0 then 0
  else
    let l := Nat.log2 n
    if l ≤ 52 then (l + 1023) * P52 + (n * 2 ^ (52 - l) - P52)
    else
      let k := l - 52
      let q := n / 2 ^ k
      let r := n % 2 ^ k
      let half := 2 ^ (k - 1)
      let q' := if half < r ∨ (r = half ∧ q % 2 = 1) then q + 1 else q
      (l + 1023) * P52 + (q' - P52)

/-- `n as f64` for an integer -/
def ofInt (n : Int) : Nat := if n < 0 then P63 + ofNat n.natAbs else ofNat n.natAbs

end MJ.F64
