import MJ.Model.Serde
import MJ.Gen.Tables
/-!
# JSON text of a value (C16)

* `jsonOf`   — the JSON image of a value as `impl Serialize for Value` presents it to serde_json
               (keys by string form, non-finite floats and undefined `null`, bytes as numbers)
* `writeJ`   — serde_json's writer with the three formatters the engine uses
               (`CompactFormatter` for auto-escaping, `JinjaJsonFormatter`, `PrettyFormatter`)
* `escChar`  — serde_json's `format_escaped_str_contents`, driven by the `ESCAPE` table extracted
               from the locked serde_json sources (`MJ.Gen.jsonEscapeTable`)
* `htmlSafe` — the post-processing of `filters::tojson` (`MJ.Gen.tojsonReplacements`)
* `parseJ`   — an independent strict JSON reader

Strings are `List Char`.  serde_json escapes bytes; every byte it escapes is ASCII and all bytes of
a multi-byte UTF-8 sequence are ≥ 0x80, where the table is 0 (`MJ.C16.escape_table_high_plain`), so
escaping per character is the same function.
-/
namespace MJ.Json
open MJ.Serde

inductive J where
  | null
  | bool (b : Bool)
  /-- a number, by its literal -/
  | num (text : List Char)
  | str (s : List Char)
  | arr (xs : List J)
  | obj (kvs : List (List Char × J))
  deriving Repr, Inhabited

/-! ## numbers -/

def digitChar (n : Nat) : Char := Char.ofNat (48 + n % 10)

def natDigits (n : Nat) : List Char :=
  if _h : n < 10 then [digitChar n] else natDigits (n / 10) ++ [digitChar n]
termination_by n
decreasing_by omega

def intDigits (i : Int) : List Char :=
  if i < 0 then '-' :: natDigits i.natAbs else natDigits i.natAbs

def f64Finite (bits : Nat) : Bool := bits / 4503599627370496 % 2048 != 2047

/-! ### shortest round-trip text of a finite double (what serde_json prints through `ryu`)

Exact integer arithmetic: the double is `m·2^e`; its rounding interval reaches half-way to the
neighbours (closed when `m` is even); the output is the decimal `d·10^k` in that interval with the
largest `k`, the `d` closest to the value (ties to even), laid out by ryu's `format64`. -/

/-- `⌊a / b⌋` and `⌈a / b⌉` on naturals -/
def ceilDiv (a b : Nat) : Nat := (a + b - 1) / b

/-- round `a / b` to the nearest integer, ties to even -/
def roundDivEven (a b : Nat) : Nat :=
  let q := a / b
  let r := a % b
  if 2 * r < b then q else if b < 2 * r then q + 1 else if q % 2 = 0 then q else q + 1

/-- candidates at power `k`: `(dmin, dmax, closest)` for the interval `[lo, hi]/den` around `v/den` -/
def decCandidates (lo v hi den : Nat) (closed : Bool) (k : Int) : Nat × Nat × Nat :=
  let a := if k < 0 then 10 ^ k.natAbs else 1
  let b := den * (if k < 0 then 1 else 10 ^ k.natAbs)
  let dmax0 := hi * a / b
  let dmax := if !closed && hi * a % b = 0 then dmax0 - 1 else dmax0
  let dmin0 := ceilDiv (lo * a) b
  let dmin := if !closed && lo * a % b = 0 then dmin0 + 1 else dmin0
  (dmin, dmax, roundDivEven (v * a) b)

/-- search downwards from `k` for the first power with a candidate -/
def shortestFrom (lo v hi den : Nat) (closed : Bool) : Nat → Int → Nat × Int
  | 0, k => (1, k)
  | fuel + 1, k =>
    let c := decCandidates lo v hi den closed k
    if c.1 ≤ c.2.1 ∧ 1 ≤ c.2.1 then
      (Nat.max 1 (if c.2.2 < c.1 then c.1 else if c.2.1 < c.2.2 then c.2.1 else c.2.2), k)
    else shortestFrom lo v hi den closed fuel (k - 1)

/-- `(d, k)` with `|x| = d·10^k` the shortest decimal that reads back as the double -/
def shortestDec (bits : Nat) : Nat × Int :=
  let ef := bits / 4503599627370496 % 2048
  let mf := bits % 4503599627370496
  let m := if ef = 0 then mf else 4503599627370496 + mf
  let e2 : Int := (if ef = 0 then 1 else (ef : Int)) - 1075 - 2      -- all quantities are scaled by 4
  let v := 4 * m
  let hi := v + 2
  let lo := v - (if mf = 0 ∧ 1 < ef then 1 else 2)
  let closed := m % 2 == 0
  let num := if e2 < 0 then 1 else 2 ^ e2.natAbs
  let den := if e2 < 0 then 2 ^ e2.natAbs else 1
  let kStart : Int := ((e2 + 56) * 30103) / 100000 + 2
  shortestFrom (lo * num) (v * num) (hi * num) den closed 800 kStart

def zeros (n : Nat) : List Char := List.replicate n '0'

/-- ryu's `format64` layout of the decimal `ds·10^k` (`ds` = the digits) -/
def layoutF (sign ds : List Char) (k : Int) : List Char :=
  let len : Int := ds.length
  let kk := len + k
  if 0 ≤ k ∧ kk ≤ 16 then sign ++ (ds ++ (zeros k.natAbs ++ ['.', '0']))
  else if 0 < kk ∧ kk ≤ 16 then sign ++ (ds.take kk.natAbs ++ ('.' :: ds.drop kk.natAbs))
  else if -5 < kk ∧ kk ≤ 0 then sign ++ ('0' :: '.' :: (zeros kk.natAbs ++ ds))
  else if ds.length = 1 then sign ++ (ds ++ ('e' :: intDigits (kk - 1)))
  else sign ++ (ds.take 1 ++ ('.' :: (ds.drop 1 ++ ('e' :: intDigits (kk - 1)))))

/-- ryu's `format64` for a finite double -/
def f64Text (bits : Nat) : List Char :=
  let sign : List Char := if bits / 9223372036854775808 % 2 = 1 then ['-'] else []
  if bits % 9223372036854775808 = 0 then sign ++ ['0', '.', '0']
  else
    let dk := shortestDec bits
    layoutF sign (natDigits dk.1) dk.2

/-! ## image of a value -/

inductive JR (α : Type) where
  | ok (a : α)
  /-- serde_json refuses (map key without string form): the filter fails, nothing is emitted -/
  | refuse
  /-- a dynamic object: not modelled -/
  | unmodelled
  deriving Repr, Inhabited

def JR.join2 {α β γ : Type} (f : α → β → γ) : JR α → JR β → JR γ
  | .ok a, .ok b => .ok (f a b)
  | .refuse, _ => .refuse
  | _, .refuse => .refuse
  | _, _ => .unmodelled

def keyOf : V → JR (List Char)
  | .str s _ => .ok s
  | .int _ i => .ok (intDigits i)
  | .bool b => .ok (if b then ['t', 'r', 'u', 'e'] else ['f', 'a', 'l', 's', 'e'])
  | .f64 bits => if f64Finite bits then .ok (f64Text bits) else .refuse   -- "float key must be finite"
  | .obj _ => .unmodelled
  | _ => .refuse

mutual
def jsonOf : V → JR J
  | .undefined => .ok .null
  | .none => .ok .null
  | .invalid => .ok .null
  | .bool b => .ok (.bool b)
  | .int _ i => .ok (.num (intDigits i))
  | .f64 bits => if f64Finite bits then .ok (.num (f64Text bits)) else .ok .null
  | .str s _ => .ok (.str s)
  | .bytes b => .ok (.arr (b.map fun n => .num (natDigits n)))
  | .seq _ xs => match jsonOfList xs with
                 | .ok js => .ok (.arr js)
                 | .refuse => .refuse
                 | .unmodelled => .unmodelled
  | .map kvs => match jsonOfPairs kvs with
                | .ok js => .ok (.obj js)
                | .refuse => .refuse
                | .unmodelled => .unmodelled
  | .obj _ => .unmodelled
def jsonOfList : List V → JR (List J)
  | [] => .ok []
  | x :: xs => JR.join2 (· :: ·) (jsonOf x) (jsonOfList xs)
def jsonOfPairs : List (V × V) → JR (List (List Char × J))
  | [] => .ok []
  | (k, v) :: rest => JR.join2 (· :: ·) (JR.join2 (·, ·) (keyOf k) (jsonOf v)) (jsonOfPairs rest)
end

/-! ## writer -/

def hexLower (n : Nat) : Char := if n < 10 then Char.ofNat (48 + n) else Char.ofNat (87 + n)

def escCode (n : Nat) : Nat := MJ.Gen.jsonEscapeTable.getD n 0

/-- `format_escaped_str_contents` for one character -/
def escChar (c : Char) : List Char :=
  if c.toNat < 128 then
    let code := escCode c.toNat
    if code = 0 then [c]
    else if code = 117 then ['\\', 'u', '0', '0', hexLower (c.toNat / 16), hexLower (c.toNat % 16)]
    else ['\\', Char.ofNat code]
  else [c]

def escBody (s : List Char) : List Char := s.flatMap escChar

def writeStr (s : List Char) : List Char := '"' :: (escBody s ++ ['"'])

inductive Style where
  | compact             -- serde_json::to_string (JSON auto-escaping)
  | jinja               -- JinjaJsonFormatter (tojson)
  | pretty (indent : Nat)  -- PrettyFormatter::with_indent (tojson(indent))

def indentOf (n lvl : Nat) : List Char := List.replicate (n * lvl) ' '

/-- text written before an array element / object member -/
def Style.before (st : Style) (lvl : Nat) (first : Bool) (arr : Bool) : List Char :=
  match st with
  | .compact => if first then [] else [',']
  | .jinja => if first then [] else (if arr then MJ.Gen.jinjaArraySep else MJ.Gen.jinjaMemberSep)
  | .pretty n => (if first then ['\n'] else [',', '\n']) ++ indentOf n lvl

def Style.keySep : Style → List Char
  | .compact => [':']
  | .jinja => MJ.Gen.jinjaKeySep
  | .pretty _ => [':', ' ']

/-- text written before the closing bracket of a non-empty container -/
def Style.close (st : Style) (lvl : Nat) : List Char :=
  match st with
  | .pretty n => '\n' :: indentOf n lvl
  | _ => []

mutual
def writeAt (st : Style) (lvl : Nat) : J → List Char
  | .null => ['n', 'u', 'l', 'l']
  | .bool true => ['t', 'r', 'u', 'e']
  | .bool false => ['f', 'a', 'l', 's', 'e']
  | .num t => t
  | .str s => writeStr s
  | .arr [] => ['[', ']']
  | .arr (x :: xs) => '[' :: (writeElems st (lvl + 1) true (x :: xs) ++ st.close lvl ++ [']'])
  | .obj [] => ['{', '}']
  | .obj (m :: ms) => '{' :: (writeMembers st (lvl + 1) true (m :: ms) ++ st.close lvl ++ ['}'])
def writeElems (st : Style) (lvl : Nat) (first : Bool) : List J → List Char
  | [] => []
  | x :: xs => st.before lvl first true ++ writeAt st lvl x ++ writeElems st lvl false xs
def writeMembers (st : Style) (lvl : Nat) (first : Bool) : List (List Char × J) → List Char
  | [] => []
  | (k, v) :: ms =>
    st.before lvl first false ++ writeStr k ++ st.keySep ++ writeAt st lvl v ++ writeMembers st lvl false ms
end

def writeJ (st : Style) (j : J) : List Char := writeAt st 0 j

/-! ## `tojson` post-processing -/

def replOf (c : Char) : List (Char × List Char) → List Char
  | [] => [c]
  | (k, r) :: rest => if k = c then r else replOf c rest

def htmlSafe (s : List Char) : List Char := s.flatMap fun c => replOf c MJ.Gen.tojsonReplacements

/-- the text `{{ v|tojson }}` emits, given serde_json's text -/
def tojson (s : List Char) : List Char := htmlSafe s

/-! ## an independent strict JSON reader -/

def hexVal? (c : Char) : Option Nat :=
  let n := c.toNat
  if 48 ≤ n ∧ n ≤ 57 then some (n - 48)
  else if 97 ≤ n ∧ n ≤ 102 then some (n - 87)
  else if 65 ≤ n ∧ n ≤ 70 then some (n - 55)
  else none

def hex4? (a b c d : Char) : Option Nat :=
  match hexVal? a, hexVal? b, hexVal? c, hexVal? d with
  | some w, some x, some y, some z => some (w * 4096 + x * 256 + y * 16 + z)
  | _, _, _, _ => none

/-- the character after a backslash (other than `u`) -/
def shortUnescape (c : Char) : Option Char :=
  if c = '"' then some '"' else if c = '\\' then some '\\' else if c = '/' then some '/'
  else if c = 'b' then some (Char.ofNat 8) else if c = 'f' then some (Char.ofNat 12)
  else if c = 'n' then some (Char.ofNat 10) else if c = 'r' then some (Char.ofNat 13)
  else if c = 't' then some (Char.ofNat 9) else none

def consTo (c : Char) : Option (List Char × List Char) → Option (List Char × List Char)
  | some (s, r) => some (c :: s, r)
  | none => none

/-- string contents after the opening quote: `(decoded, text after the closing quote)`.
Raw control characters, unknown escapes, bad hex and lone surrogates are errors. -/
def parseStrBody : List Char → Option (List Char × List Char)
  | [] => none
  | c :: rest =>
    if c = '"' then some ([], rest)
    else if c = '\\' then
      match rest with
      | [] => none
      | e :: rest1 =>
        if e = 'u' then
          match rest1 with
          | h1 :: h2 :: h3 :: h4 :: rest2 =>
            match hex4? h1 h2 h3 h4 with
            | none => none
            | some n =>
              if 55296 ≤ n ∧ n ≤ 56319 then
                -- high surrogate: a low surrogate escape must follow
                match rest2 with
                | b :: u :: l1 :: l2 :: l3 :: l4 :: rest3 =>
                  if b = '\\' ∧ u = 'u' then
                    match hex4? l1 l2 l3 l4 with
                    | none => none
                    | some m =>
                      if 56320 ≤ m ∧ m ≤ 57343 then
                        consTo (Char.ofNat (65536 + (n - 55296) * 1024 + (m - 56320))) (parseStrBody rest3)
                      else none
                  else none
                | _ => none
              else if 56320 ≤ n ∧ n ≤ 57343 then none
              else consTo (Char.ofNat n) (parseStrBody rest2)
          | _ => none
        else
          match shortUnescape e with
          | some ch => consTo ch (parseStrBody rest1)
          | none => none
    else if c.toNat < 32 then none
    else consTo c (parseStrBody rest)

def isWs (c : Char) : Bool := c = ' ' || c = '\n' || c = '\t' || c = '\r'

def skipWs : List Char → List Char
  | [] => []
  | c :: rest => if isWs c then skipWs rest else c :: rest

def isDigit (c : Char) : Bool := 48 ≤ c.toNat && c.toNat ≤ 57

def isNumChar (c : Char) : Bool :=
  isDigit c || c = '-' || c = '+' || c = '.' || c = 'e' || c = 'E'

def spanNum : List Char → List Char × List Char
  | [] => ([], [])
  | c :: rest => if isNumChar c then let r := spanNum rest; (c :: r.1, r.2) else ([], c :: rest)

def spanDigits : List Char → List Char × List Char
  | [] => ([], [])
  | c :: rest => if isDigit c then let r := spanDigits rest; (c :: r.1, r.2) else ([], c :: rest)

/-- `[+-]?[0-9]+` -/
def validExp (s : List Char) : Bool :=
  let body := match s with
    | c :: r => if c = '+' ∨ c = '-' then r else c :: r
    | [] => []
  let sp := spanDigits body
  !sp.1.isEmpty && sp.2.isEmpty

/-- `([eE] exp)?` -/
def validExpOpt : List Char → Bool
  | [] => true
  | c :: r => (c = 'e' || c = 'E') && validExp r

/-- `(\.[0-9]+)? ([eE][+-]?[0-9]+)?` -/
def validFracExp : List Char → Bool
  | [] => true
  | c :: r =>
    if c = '.' then
      let sp := spanDigits r
      !sp.1.isEmpty && validExpOpt sp.2
    else validExpOpt (c :: r)

/-- `(0|[1-9][0-9]*)(\.[0-9]+)?([eE][+-]?[0-9]+)?` -/
def validBody : List Char → Bool
  | [] => false
  | c :: r =>
    if c = '0' then validFracExp r
    else if isDigit c then validFracExp (spanDigits r).2
    else false

/-- the JSON number grammar `-?(0|[1-9][0-9]*)(\.[0-9]+)?([eE][+-]?[0-9]+)?` -/
def validNum : List Char → Bool
  | [] => false
  | c :: r => if c = '-' then validBody r else validBody (c :: r)

/-- the three literals -/
def pLit : List Char → Option (J × List Char)
  | 'n' :: 'u' :: 'l' :: 'l' :: r => some (.null, r)
  | 't' :: 'r' :: 'u' :: 'e' :: r => some (.bool true, r)
  | 'f' :: 'a' :: 'l' :: 's' :: 'e' :: r => some (.bool false, r)
  | _ => none

mutual
/-- a value (leading whitespace allowed); `fuel` bounds the size of the value -/
def pValue : Nat → List Char → Option (J × List Char)
  | 0, _ => none
  | fuel + 1, cs =>
    match skipWs cs with
    | [] => none
    | c :: r =>
      if c = '"' then
        match parseStrBody r with
        | some (s, r') => some (.str s, r')
        | none => none
      else if c = '[' then
        match skipWs r with
        | [] => none
        | c2 :: r2 =>
          if c2 = ']' then some (.arr [], r2)
          else
            match pElems fuel (c2 :: r2) with
            | some (xs, r') => some (.arr xs, r')
            | none => none
      else if c = '{' then
        match skipWs r with
        | [] => none
        | c2 :: r2 =>
          if c2 = '}' then some (.obj [], r2)
          else
            match pMembers fuel (c2 :: r2) with
            | some (ms, r') => some (.obj ms, r')
            | none => none
      else if isNumChar c then
        let sp := spanNum (c :: r)
        if validNum sp.1 then some (.num sp.1, sp.2) else none
      else pLit (c :: r)
/-- one or more elements, then `]` -/
def pElems : Nat → List Char → Option (List J × List Char)
  | 0, _ => none
  | fuel + 1, cs =>
    match pValue fuel cs with
    | none => none
    | some (x, r) =>
      match skipWs r with
      | [] => none
      | c :: r' =>
        if c = ',' then
          match pElems fuel r' with
          | some (xs, r'') => some (x :: xs, r'')
          | none => none
        else if c = ']' then some ([x], r')
        else none
/-- one or more members, then `}` -/
def pMembers : Nat → List Char → Option (List (List Char × J) × List Char)
  | 0, _ => none
  | fuel + 1, cs =>
    match skipWs cs with
    | [] => none
    | q :: r =>
      if q = '"' then
        match parseStrBody r with
        | none => none
        | some (k, r1) =>
          match skipWs r1 with
          | [] => none
          | c :: r2 =>
            if c = ':' then
              match pValue fuel r2 with
              | none => none
              | some (v, r3) =>
                match skipWs r3 with
                | [] => none
                | c' :: r4 =>
                  if c' = ',' then
                    match pMembers fuel r4 with
                    | some (ms, r5) => some ((k, v) :: ms, r5)
                    | none => none
                  else if c' = '}' then some ([(k, v)], r4)
                  else none
            else none
      else none
end

/-- a whole document: one value, then only whitespace -/
def parseJ (text : List Char) : Option J :=
  match pValue (text.length + 1) text with
  | some (j, r) => if (skipWs r).isEmpty then some j else none
  | none => none

/-! ## the iteration order of the value map (`BTreeMap<Value, Value>`): `impl Ord for Value` on keys

Kinds first (`ValueKind` order: undefined < none < bool < number < string < bytes < …), numbers by
exact value (whatever their representation), strings and bytes lexicographically. -/

def kindRank : V → Nat
  | .undefined => 0
  | .none => 1
  | .bool _ => 2
  | .int _ _ => 3
  | .f64 _ => 3
  | .str _ _ => 4
  | .bytes _ => 5
  | .seq _ _ => 6
  | .map _ => 7
  | .obj _ => 8
  | .invalid => 9

/-- a finite double as `(numerator, binary exponent)` -/
def f64Exact (bits : Nat) : Int × Int :=
  let ef := bits / 4503599627370496 % 2048
  let mf := bits % 4503599627370496
  let m : Int := if ef = 0 then mf else 4503599627370496 + mf
  let e : Int := (if ef = 0 then 1 else (ef : Int)) - 1075
  (if bits / 9223372036854775808 % 2 = 1 then -m else m, e)

def numExact : V → Int × Int
  | .int _ i => (i, 0)
  | .f64 b => f64Exact b
  | _ => (0, 0)

def cmpExact (x y : Int × Int) : Ordering :=
  let r := min x.2 y.2
  compare (x.1 * 2 ^ (x.2 - r).natAbs) (y.1 * 2 ^ (y.2 - r).natAbs)

def cmpCharList : List Char → List Char → Ordering
  | [], [] => .eq
  | [], _ :: _ => .lt
  | _ :: _, [] => .gt
  | a :: as, b :: bs => (compare a.toNat b.toNat).then (cmpCharList as bs)

def cmpNatList : List Nat → List Nat → Ordering
  | [], [] => .eq
  | [], _ :: _ => .lt
  | _ :: _, [] => .gt
  | a :: as, b :: bs => (compare a b).then (cmpNatList as bs)

/-- `Value::cmp` on map keys that have a JSON string form (and none / bytes) -/
def keyCmp (a b : V) : Ordering :=
  match compare (kindRank a) (kindRank b) with
  | .eq =>
    match a, b with
    | .bool x, .bool y => compare x.toNat y.toNat
    | .str x _, .str y _ => cmpCharList x y          -- UTF-8 byte order = code point order
    | .bytes x, .bytes y => cmpNatList x y
    | .int _ _, _ => cmpExact (numExact a) (numExact b)
    | .f64 _, _ => cmpExact (numExact a) (numExact b)
    | _, _ => .eq
  | o => o

def insertSorted (p : V × V) : List (V × V) → List (V × V)
  | [] => [p]
  | q :: rest => if keyCmp p.1 q.1 == .lt then p :: q :: rest else q :: insertSorted p rest

def sortEntries (kvs : List (V × V)) : List (V × V) := kvs.foldr insertSorted []

mutual
/-- every map of the value in the iteration order of the `BTreeMap` build -/
def sortMaps : V → V
  | .seq t xs => .seq t (sortMapsList xs)
  | .map kvs => .map (sortEntries (sortMapsPairs kvs))
  | v => v
def sortMapsList : List V → List V
  | [] => []
  | x :: xs => sortMaps x :: sortMapsList xs
def sortMapsPairs : List (V × V) → List (V × V)
  | [] => []
  | (k, v) :: rest => (sortMaps k, sortMaps v) :: sortMapsPairs rest
end

mutual
def J.beq : J → J → Bool
  | .null, .null => true
  | .bool a, .bool b => a == b
  | .num a, .num b => a == b
  | .str a, .str b => a == b
  | .arr xs, .arr ys => J.beqList xs ys
  | .obj xs, .obj ys => J.beqMembers xs ys
  | _, _ => false
def J.beqList : List J → List J → Bool
  | [], [] => true
  | x :: xs, y :: ys => J.beq x y && J.beqList xs ys
  | _, _ => false
def J.beqMembers : List (List Char × J) → List (List Char × J) → Bool
  | [], [] => true
  | (k, x) :: xs, (l, y) :: ys => k == l && J.beq x y && J.beqMembers xs ys
  | _, _ => false
end

instance : BEq J := ⟨J.beq⟩

end MJ.Json
