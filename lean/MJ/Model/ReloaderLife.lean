import MJ.Model.Reloader
/-!
# Lifetime of the reloader: notifier handles that outlive it, and several reloaders

`AutoReloader.notifier` holds the ONLY strong handle (`NotifierImplHandle::Strong`, made in the private
`Notifier::new`, which only `AutoReloader::new` calls); every notifier that leaves the reloader
(`AutoReloader::notifier()`, the creator's argument) is `Weak` (tied to the source by
`MJ.C20.one_strong_handle_per_reloader`).  So:

* while the reloader exists every `handle()` upgrade succeeds — the protocol is `MJ.Reloader.step`;
* `drop(reloader)` needs exclusive ownership: no `acquire_env` call is in progress, no guard alive
  (`cur = none`), and nobody can call `acquire_env` afterwards;
* afterwards every notifier entry point finds `handle() = None` and does nothing — except a
  `request_reload` that had already upgraded (it is between its two critical sections and holds a strong
  `Arc` of its own): it finishes, on state nobody reads any more.

Two reloaders have two `NotifierImpl`s: the product system steps one component at a time.
-/
namespace MJ.Reloader

structure LState where
  base : State
  alive : Bool := true          -- the AutoReloader exists
  deadCalls : Nat := 0          -- notifier calls that found the notifier dead
  deriving Repr

inductive LEv where
  | thread (i : Nat)            -- thread `i` takes its next step
  | drop                        -- the reloader is dropped
  deriving DecidableEq, Repr

/-- a step of thread `i` after the reloader is gone -/
def stepDead (σ : State) (i : Nat) : Option State :=
  let t := σ.now
  match σ.threads[i]? with
  | some .reqIdle => some { σ with now := t + 1, threads := σ.threads.set i .reqDone }
  | some (.reqSet s) =>
    -- upgraded before the drop: it still owns the state and finishes its second critical section
    some { σ with now := t + 1, reqLog := ⟨s, t, i⟩ :: σ.reqLog, onCalls := σ.onCalls + 1,
                  threads := σ.threads.set i .reqDone }
  | some (.fastIdle _) => some { σ with now := t + 1, threads := σ.threads.set i .fastDone }
  | some (.cbIdle _) => some { σ with now := t + 1, threads := σ.threads.set i .cbDone }
  | some .watchIdle => some { σ with now := t + 1, threads := σ.threads.set i .watchDone }
  | some (.persistIdle _) => some { σ with now := t + 1, threads := σ.threads.set i .persistDone }
  | _ => none     -- in particular `acqIdle`: there is no reloader to call `acquire_env` on

/-- does this step of a dead notifier count as a call that found it dead? -/
def isDeadCall (σ : State) (i : Nat) : Bool :=
  match σ.threads[i]? with
  | some (.reqSet _) => false
  | _ => true

def lstep (l : LState) : LEv → Option LState
  | .drop =>
    if l.alive && l.base.cur.isNone then
      some { l with alive := false, base := { l.base with now := l.base.now + 1 } }
    else none
  | .thread i =>
    if l.alive then (step l.base i).map fun σ' => { l with base := σ' }
    else (stepDead l.base i).map fun σ' =>
      { l with base := σ', deadCalls := if isDeadCall l.base i then l.deadCalls + 1 else l.deadCalls }

def linit (ths : List Thread) : LState := { base := init ths }

inductive LReachable : LState → Prop where
  | init (ths : List Thread) (h : ∀ t ∈ ths, t.initial = true) : LReachable (linit ths)
  | step {l l' : LState} (ev : LEv) (h : LReachable l) (hs : lstep l ev = some l') : LReachable l'

def lrun (l : LState) : List LEv → LState
  | [] => l
  | ev :: evs => lrun ((lstep l ev).getD l) evs

theorem lreachable_run {l : LState} (h : LReachable l) (evs : List LEv) : LReachable (lrun l evs) := by
  induction evs generalizing l with
  | nil => exact h
  | cons ev evs ih =>
    simp only [lrun]
    cases hs : lstep l ev with
    | none => simpa using ih h
    | some l' => exact ih (LReachable.step ev h hs)

/-! ## theorems -/

/-- the part of the state anybody can observe through the reloader or that decides a reload -/
def protocolState (σ : State) :=
  (σ.flag, σ.fast, σ.env, σ.cur, σ.creates, σ.clears, σ.acqLog, σ.sets, σ.cbConst, σ.persistent, σ.watching)

/-- **while the reloader exists the lifetime model IS the protocol model**: every reachable alive state's
    base is a reachable state of `MJ.Reloader` (so all of C20's theorems hold for it) -/
theorem lstep_alive {l l' : LState} {ev : LEv} (hs : lstep l ev = some l') (ha : l'.alive = true) :
    l.alive = true ∧ ∃ i, step l.base i = some l'.base := by
  cases ev with
  | drop =>
    simp only [lstep] at hs
    split at hs
    · cases hs; simp at ha
    · cases hs
  | thread i =>
    cases hal : l.alive with
    | true =>
      simp only [lstep, hal, if_true] at hs
      cases hb : step l.base i with
      | none => simp [hb] at hs
      | some σ' => simp [hb] at hs; cases hs; exact ⟨rfl, i, hb⟩
    | false =>
      simp only [lstep, hal] at hs
      cases hb : stepDead l.base i with
      | none => simp [hb] at hs
      | some σ' => simp [hb] at hs; cases hs; simp [hal] at ha

theorem alive_base_reachable {l : LState} (h : LReachable l) : l.alive = true → Reachable l.base := by
  induction h with
  | init ths h0 => intro _; exact .init ths h0
  | step ev hprev hs ih =>
    intro ha
    obtain ⟨hal, i, hb⟩ := lstep_alive hs ha
    exact .step i (ih hal) hb

/-- **a dead notifier does nothing, and stays dead**: after the drop no step of any thread changes the
    flag, the fast-reload switch, the callbacks, the watcher, the environment, the counters of creator
    calls and clears or the log of guards; nobody is inside `acquire_env`; the notifier never comes back -/
theorem dead_notifier_is_inert {l l' : LState} {ev : LEv} (hd : l.alive = false)
    (hs : lstep l ev = some l') :
    l'.alive = false ∧ protocolState l'.base = protocolState l.base ∧ l.deadCalls ≤ l'.deadCalls := by
  cases ev with
  | drop => simp [lstep, hd] at hs
  | thread i =>
    simp only [lstep, hd] at hs
    cases hb : stepDead l.base i with
    | none => simp [hb] at hs
    | some σ' =>
      simp [hb] at hs; cases hs
      refine ⟨rfl, ?_, by simp only; split <;> omega⟩
      unfold stepDead at hb
      split at hb <;> first | (cases hb; rfl) | cases hb

/-- no `acquire_env` after the drop: an acquirer thread is never enabled on a dead reloader -/
theorem no_acquire_after_drop {l : LState} (hd : l.alive = false) {i : Nat} {cfg : AcqCfg}
    (hi : l.base.threads[i]? = some (.acqIdle cfg)) : lstep l (.thread i) = none := by
  simp [lstep, hd, stepDead, hi]

/-- the drop needs exclusive ownership: it is enabled only when nobody is inside `acquire_env` and no
    guard is alive; and it changes nothing but the lifetime -/
theorem drop_needs_no_guard {l l' : LState} (hs : lstep l .drop = some l') :
    l.alive = true ∧ l.base.cur = none ∧ l'.alive = false ∧ protocolState l'.base = protocolState l.base := by
  simp only [lstep] at hs
  split at hs
  · rename_i h
    simp at h
    cases hs
    exact ⟨h.1, h.2, rfl, rfl⟩
  · cases hs

/-- invariant: whoever is inside `acquire_env` has a live reloader — so the `expect("notifier unexpectedly
    went away")` of `prepare_and_mark_reload` (and of `weak`) cannot fire -/
theorem lstep_cur {l l' : LState} {ev : LEv} (hs : lstep l ev = some l') (hc : l'.base.cur ≠ none)
    (ih : l.base.cur ≠ none → l.alive = true) : l'.alive = true := by
  cases hal : l.alive with
  | false =>
    have h1 := dead_notifier_is_inert hal hs
    have h2 : l'.base.cur = l.base.cur := by
      have := h1.2.1; simp only [protocolState, Prod.mk.injEq] at this; exact this.2.2.2.1
    have := ih (h2 ▸ hc)
    simp [hal] at this
  | true =>
    cases ev with
    | drop =>
      have h1 := drop_needs_no_guard hs
      have h2 : l'.base.cur = l.base.cur := by
        have := h1.2.2.2; simp only [protocolState, Prod.mk.injEq] at this; exact this.2.2.2.1
      exact absurd (h2 ▸ h1.2.1) hc
    | thread i =>
      simp only [lstep, hal, if_true] at hs
      cases hb : step l.base i with
      | none => simp [hb] at hs
      | some σ' => simp [hb] at hs; cases hs; rfl

theorem holder_implies_alive {l : LState} (h : LReachable l) : l.base.cur ≠ none → l.alive = true := by
  induction h with
  | init ths _ => intro hc; simp [linit, init] at hc
  | step ev hprev hs ih => intro hc; exact lstep_cur hs hc ih

/-! ## several reloaders -/

/-- two reloaders: two independent copies (each `AutoReloader::new` makes its own `NotifierImpl`) -/
structure PState where
  r1 : LState
  r2 : LState
  deriving Repr

/-- a step of the pair is a step of one component -/
def pstep (p : PState) (second : Bool) (ev : LEv) : Option PState :=
  if second then (lstep p.r2 ev).map fun l => { p with r2 := l }
  else (lstep p.r1 ev).map fun l => { p with r1 := l }

inductive PReachable : PState → Prop where
  | init (t1 t2 : List Thread) (h1 : ∀ t ∈ t1, t.initial = true) (h2 : ∀ t ∈ t2, t.initial = true) :
      PReachable ⟨linit t1, linit t2⟩
  | step {p p' : PState} (second : Bool) (ev : LEv) (h : PReachable p) (hs : pstep p second ev = some p') :
      PReachable p'

/-- **reloaders do not interfere**: a request, a callback registration, a drop … on one reloader leaves the
    other's state untouched, and each component is a reachable state of the single-reloader system -/
def prun (p : PState) : List (Bool × LEv) → PState
  | [] => p
  | (b, ev) :: evs => prun ((pstep p b ev).getD p) evs

theorem preachable_run {p : PState} (h : PReachable p) (evs : List (Bool × LEv)) : PReachable (prun p evs) := by
  induction evs generalizing p with
  | nil => exact h
  | cons e evs ih =>
    obtain ⟨b, ev⟩ := e
    simp only [prun]
    cases hs : pstep p b ev with
    | none => simpa using ih h
    | some p' => exact ih (PReachable.step b ev h hs)

theorem pstep_cases {p p' : PState} {second : Bool} {ev : LEv} (hs : pstep p second ev = some p') :
    (second = true ∧ p'.r1 = p.r1 ∧ lstep p.r2 ev = some p'.r2) ∨
    (second = false ∧ p'.r2 = p.r2 ∧ lstep p.r1 ev = some p'.r1) := by
  unfold pstep at hs
  cases second with
  | true =>
    simp only [if_true] at hs
    cases hb : lstep p.r2 ev with
    | none => simp [hb] at hs
    | some l => simp [hb] at hs; cases hs; exact Or.inl ⟨rfl, rfl, rfl⟩
  | false =>
    simp only [Bool.false_eq_true, if_false] at hs
    cases hb : lstep p.r1 ev with
    | none => simp [hb] at hs
    | some l => simp [hb] at hs; cases hs; exact Or.inr ⟨rfl, rfl, rfl⟩

theorem reloaders_independent {p : PState} (h : PReachable p) : LReachable p.r1 ∧ LReachable p.r2 := by
  induction h with
  | init t1 t2 h1 h2 => exact ⟨.init t1 h1, .init t2 h2⟩
  | step second ev _ hs ih =>
    rcases pstep_cases hs with ⟨_, h1, h2⟩ | ⟨_, h1, h2⟩
    · exact ⟨h1 ▸ ih.1, .step ev ih.2 h2⟩
    · exact ⟨.step ev ih.1 h2, h1 ▸ ih.2⟩

theorem pstep_leaves_other {p p' : PState} {second : Bool} {ev : LEv} (hs : pstep p second ev = some p') :
    (second = true → p'.r1 = p.r1) ∧ (second = false → p'.r2 = p.r2) := by
  rcases pstep_cases hs with ⟨h0, h1, _⟩ | ⟨h0, h1, _⟩
  · exact ⟨fun _ => h1, fun h => by simp [h0] at h⟩
  · exact ⟨fun h => by simp [h0] at h, fun _ => h1⟩

end MJ.Reloader
