import MJ.Model.Chk
/-!
# The collection filters of `minijinja/src/filters.rs` built on `Value`'s order

`sort`, `dictsort`, `unique`, `groupby`, `batch`, `slice`, `reverse`, `min`, `max`, `first`, `last`,
over an arbitrary item type `α` with the comparison `cmp` the filter uses (`cmp_helper`: `Value::cmp`,
on lower-cased strings unless `case_sensitive`, reversed with `reverse=true`).

External code as a recorded assumption: Rust's `slice::sort_by` is a *stable* sort; for a total
preorder there is exactly one stable sorted permutation, which is `List.mergeSort`.
`BTreeSet::contains`/`insert` under a total order find an element iff one compares `Equal`.
-/
namespace MJ.Coll
open MJ

variable {α κ : Type}

/-- result of a filter: a value, an `Error` (`Err(..)`), or a Rust panic -/
inductive Out (β : Type) where
  | ok (b : β)
  | error
  | panic
  deriving Repr, DecidableEq

/-- `a <= b` in the order `cmp` -/
def leOf (cmp : α → α → Ordering) (a b : α) : Bool := cmp a b != .gt

/-- `cmp_helper(.., reverse)`: `ordering.reverse()` when `reverse` -/
def revCmp (cmp : α → α → Ordering) (rev : Bool) (a b : α) : Ordering :=
  if rev then (cmp a b).swap else cmp a b

/-- `safe_sort(&mut items, |a, b| cmp_helper(key(a), key(b), case_sensitive, reverse))` -/
def sort (cmp : κ → κ → Ordering) (key : α → κ) (rev : Bool) (xs : List α) : List α :=
  xs.mergeSort (fun a b => leOf (revCmp cmp rev) (key a) (key b))

/-- `unique`: keep an item iff no earlier kept item has an `Equal` key (`seen` = keys so far) -/
def uniqueLoop (cmp : κ → κ → Ordering) (key : α → κ) : List α → List κ → List α
  | [], _ => []
  | x :: xs, seen =>
    if seen.any (fun s => cmp s (key x) == .eq) then uniqueLoop cmp key xs seen
    else x :: uniqueLoop cmp key xs (key x :: seen)

def unique (cmp : κ → κ → Ordering) (key : α → κ) (xs : List α) : List α := uniqueLoop cmp key xs []

/-- the grouping loop of `groupby` over the sorted items: `grouper` is the key of the previous item,
    `lst` the group under construction -/
def groupLoop (cmp : κ → κ → Ordering) (key : α → κ) : List α → Option κ → List α → List (κ × List α)
  | [], g, lst =>
    match g with
    | some g => if lst.isEmpty then [] else [(g, lst)]
    | none => []
  | x :: xs, g, lst =>
    match g with
    | some lg =>
      if cmp lg (key x) != .eq then (lg, lst) :: groupLoop cmp key xs (some (key x)) [x]
      else groupLoop cmp key xs (some (key x)) (lst ++ [x])
    | none => groupLoop cmp key xs (some (key x)) (lst ++ [x])

/-- `groupby`: sort by key, then cut into runs of `Equal` keys -/
def groupby (cmp : κ → κ → Ordering) (key : α → κ) (xs : List α) : List (κ × List α) :=
  groupLoop cmp key (sort cmp key false xs) none []

/-- `Iterator::min` (`min_by`: the first of several minima) -/
def minBy (cmp : α → α → Ordering) : List α → Option α
  | [] => none
  | x :: xs => some (xs.foldl (fun m y => if cmp m y == .gt then y else m) x)

/-- `Iterator::max` (`max_by`: the last of several maxima) -/
def maxBy (cmp : α → α → Ordering) : List α → Option α
  | [] => none
  | x :: xs => some (xs.foldl (fun m y => if cmp m y == .gt then m else y) x)

def first (xs : List α) : Option α := xs.head?
def last (xs : List α) : Option α := xs.reverse.head?

/-- `Value::reverse` on `Enumerator::Seq(l)`: `(0..l).rev().map(|idx| get_value(idx).unwrap_or_default())` -/
def reverseSeq (dflt : α) (xs : List α) : List α :=
  (List.range xs.length).reverse.map (fun i => xs.getD i dflt)

/-- `Value::reverse` on `Enumerator::Iter` / `Values`: collect, then `Vec::reverse` -/
def reverseIter (xs : List α) : List α := xs.reverse

/-! ## batch / slice -/

def usizeMax : Nat := 18446744073709551615
def isizeMax : Nat := 9223372036854775807
/-- `size_of::<Value>()` -/
def valueSize : Nat := 24

/-- `Vec::<Value>::try_reserve_exact(n)` on an empty vector succeeds.  Deterministic part: the
    request fails with `CapacityOverflow` when `n * 24 > isize::MAX`.  (Assumption: below that the
    allocator grants the request; if it does not, the filter returns the same `Err`.) -/
def reservable (n : Nat) : Bool := decide (n * valueSize ≤ isizeMax)

/-- the `for item in ..` loop of `batch`: `tmp` is the run being filled, `rv` the finished runs -/
def batchLoop (count : Nat) : List α → List α → List (List α) → List (List α) × List α
  | [], tmp, rv => (rv, tmp)
  | x :: xs, tmp, rv =>
    if tmp.length = count then batchLoop count xs [x] (rv ++ [tmp])
    else batchLoop count xs (tmp ++ [x]) rv

/-- `filters::batch(value, count, fill_with)` on the items of `value` -/
def batch (xs : List α) (count : Nat) (fill : Option α) : Out (List (List α)) :=
  if count = 0 then .error
  else
    let (rv, tmp) := batchLoop count xs [] []
    if tmp.isEmpty then .ok rv
    else
      match fill with
      | none => .ok (rv ++ [tmp])
      | some f =>
        -- `count - tmp.len()` (usize subtraction: a panic if it underflowed)
        if count < tmp.length then .panic
        else
          let missing := count - tmp.length
          if !reservable (tmp.length + missing) then .error
          else .ok (rv ++ [tmp ++ List.replicate missing f])

/-- `&items[start..end]` -/
def range (xs : List α) (s e : Nat) : Chk (List α) :=
  if s ≤ e ∧ e ≤ xs.length then .ok ((xs.drop s).take (e - s)) else .panic

/-- the `for slice in 0..count` loop of `slice` (`n` = iterations left) -/
def sliceLoop (xs : List α) (ips extra : Nat) (fill : Option α) :
    Nat → Nat → Nat → Chk (List (List α))
  | 0, _, _ => .ok []
  | n + 1, slice, offset =>
    (Chk.usize ((slice : Int) * ips)).bind fun m1 =>
    (Chk.usize ((offset : Int) + m1)).bind fun start =>
    let offset' := if slice < extra then offset + 1 else offset
    (Chk.usize ((offset' : Int))).bind fun off' =>
    (Chk.usize (((slice : Int) + 1) * ips)).bind fun m2 =>
    (Chk.usize ((off' : Int) + m2)).bind fun stop =>
    (range xs start stop).bind fun tmp =>
    let run := match fill with
      | some f => if extra ≤ slice then tmp ++ [f] else tmp
      | none => tmp
    (sliceLoop xs ips extra fill n (slice + 1) off').bind fun rest =>
    .ok (run :: rest)

/-- `filters::slice(value, count, fill_with)` on the items of `value` -/
def slicef (xs : List α) (count : Nat) (fill : Option α) : Out (List (List α)) :=
  if count = 0 then .error
  else if !reservable count then .error
  else
    -- `len / count`, `len % count` (count ≠ 0 here; a zero divisor would panic)
    match sliceLoop xs (xs.length / count) (xs.length % count) fill count 0 0 with
    | .ok rs => .ok rs
    | .panic => .panic

end MJ.Coll
