import MJ.Model.Loc
/-!
# How the parser builds the span of an AST node (C14)

`compiler/parser.rs`: `TokenStream::{next, current_span, last_span, expand_span}`.  Every parse
function remembers a start span when it is entered, consumes the tokens of its construct with `next`
and builds the node's span with `expand_span(start)`, which takes the end from `last_span` (the
token consumed last).  Which start a function remembers is read off the source (table
`c14ParserSpans`): `current_span()` (the first token of the construct), the span of a token it has
just consumed, a span handed in by its caller — or `last_span()`, the token in FRONT of the construct.
-/
namespace MJ.LocParse
open MJ MJ.Loc

/-- `TokenStream` over the spans of the tokens: index of the current token, `last_span` -/
structure TS where
  toks : List Span
  pos : Nat
  last : Span
  deriving Repr, DecidableEq

/-- `TokenStream::new`: `last_span: Span::default()` -/
def TS.new (toks : List Span) : TS := ⟨toks, 0, Span.default⟩

/-- `TokenStream::next` -/
def TS.next (s : TS) : TS :=
  match s.toks[s.pos]? with
  | some sp => ⟨s.toks, s.pos + 1, sp⟩
  | none => s

/-- `TokenStream::current_span`: the span of the current token, at the end of the input the last one -/
def TS.currentSpan (s : TS) : Span :=
  match s.toks[s.pos]? with
  | some sp => sp
  | none => s.last

/-- `TokenStream::expand_span` -/
def TS.expand (s : TS) (span : Span) : Span := expandSpan span s.last

def nextN : Nat → TS → TS
  | 0, s => s
  | k + 1, s => nextN k s.next

/-- where a parse function takes the start of the span from -/
inductive Cap where
  | current   -- `self.stream.current_span()` before the construct is consumed
  | last      -- `self.stream.last_span()` before the construct is consumed
  deriving Repr, DecidableEq

def capture : Cap → TS → Span
  | .current, s => s.currentSpan
  | .last, s => s.last

/-- the span of a node whose parse function captures the start, consumes `k` tokens and expands -/
def built (c : Cap) (s : TS) (k : Nat) : Span := (nextN k s).expand (capture c s)

/-- the span from the start of token `a` to the end of token `b` -/
def cover (a b : Span) : Span := ⟨a.startLine, a.startCol, a.startOffset, b.endLine, b.endCol, b.endOffset⟩

/-- the stream is where `new` and `next` can bring it -/
def Inv (s : TS) : Prop :=
  s.pos ≤ s.toks.length ∧ (s.pos = 0 → s.last = Span.default) ∧ (∀ j, s.pos = j + 1 → s.toks[j]? = some s.last)

/-- parser.rs sites (function, node) that take the start from `last_span()` -/
def lastSpanSites : List (String × String) :=
  [("parse", "Template"), ("parse_ifexpr", "IfExpr"), ("parse_compare", "BinOp"), ("parse_compare", "UnaryOp"),
   ("parse_compare", "Compare"), ("parse_call_block", "Macro")]

/-- starts that denote a token of the construct itself -/
def coveringStart (s : String) : Bool := s == "current_span" || s == "token" || s == "param" || s == "name_token"

end MJ.LocParse
