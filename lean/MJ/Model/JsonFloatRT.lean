import MJ.Model.Json
/-!
# The rounding interval of a finite double and the search outcome (C16; theorems in Proofs/JsonFloatRT.lean)

`shortestDec` searches, in exact integer arithmetic, for the decimal `d·10^k` with the largest `k` inside the
double's rounding interval.  Proved here: whenever the search stops at a candidate (`f64Found`), the decimal it
returns lies in the interval — open or closed exactly as round-to-nearest-even makes it — so a correctly rounded
reader gives the double back.  Not proved: that the search always stops within its 800 steps (`f64Found` is
evaluated by the driver on every float case of the `ff` stream) and that ryu's layout of the digits denotes
`d·10^k` (the emitted token is read by Python's and Rust's correctly rounded readers on every float case).
-/
namespace MJ.Json

/-- `d·10^k` lies in the interval from `lo/den` to `hi/den` (end points included iff `closed`) -/
def InInterval (lo hi den : Nat) (closed : Bool) (d : Nat) (k : Int) : Prop :=
  let a := if k < 0 then 10 ^ k.natAbs else 1
  let b := den * (if k < 0 then 1 else 10 ^ k.natAbs)
  if closed then lo * a ≤ d * b ∧ d * b ≤ hi * a else lo * a < d * b ∧ d * b < hi * a

/-- did the search stop at a candidate (and not because it ran out of steps)? -/
def shortestFound (lo v hi den : Nat) (closed : Bool) : Nat → Int → Bool
  | 0, _ => false
  | fuel + 1, k =>
    let c := decCandidates lo v hi den closed k
    if c.1 ≤ c.2.1 ∧ 1 ≤ c.2.1 then true else shortestFound lo v hi den closed fuel (k - 1)

/-- the rounding interval of a finite double, as `shortestDec` computes it: every real `y` with
`lo/den < y < hi/den` (end points included when the significand is even) rounds to `v/den`, the double's
magnitude times 4·2^-e, under round-to-nearest-even -/
structure F64Interval where
  lo : Nat
  v : Nat
  hi : Nat
  den : Nat
  closed : Bool
  kStart : Int

def f64Interval (bits : Nat) : F64Interval :=
  let ef := bits / 4503599627370496 % 2048
  let mf := bits % 4503599627370496
  let m := if ef = 0 then mf else 4503599627370496 + mf
  let e2 : Int := (if ef = 0 then 1 else (ef : Int)) - 1075 - 2
  let v := 4 * m
  let hi := v + 2
  let lo := v - (if mf = 0 ∧ 1 < ef then 1 else 2)
  let num := if e2 < 0 then 1 else 2 ^ e2.natAbs
  let den := if e2 < 0 then 2 ^ e2.natAbs else 1
  { lo := lo * num, v := v * num, hi := hi * num, den := den, closed := m % 2 == 0,
    kStart := ((e2 + 56) * 30103) / 100000 + 2 }

/-- the search for the digits of this double stops at a candidate -/
def f64Found (bits : Nat) : Bool :=
  shortestFound (f64Interval bits).lo (f64Interval bits).v (f64Interval bits).hi
    (f64Interval bits).den (f64Interval bits).closed 800 (f64Interval bits).kStart

/-- the decimal `d·10^k` rounds to the double (round-to-nearest-even): it lies in the rounding interval -/
def ReadsBack (bits d : Nat) (k : Int) : Prop :=
  InInterval (f64Interval bits).lo (f64Interval bits).hi (f64Interval bits).den (f64Interval bits).closed d k

instance (bits d : Nat) (k : Int) : Decidable (ReadsBack bits d k) := by
  unfold ReadsBack InInterval; simp only; split <;> infer_instance

/-! ## what a number token denotes (an independent reader of the digits) -/

def digVal (c : Char) : Nat := c.toNat - 48
def natOfDigits (ds : List Char) : Nat := ds.foldl (fun acc c => acc * 10 + digVal c) 0
def readExp (s : List Char) : Int :=
  match s with
  | '-' :: r => -(natOfDigits r : Int)
  | '+' :: r => (natOfDigits r : Int)
  | r => (natOfDigits r : Int)
/-- the decimal `(m, e)` = `m·10^e` an unsigned JSON number token denotes: integer part, optional fraction,
optional exponent -/
def readTok (t : List Char) : Nat × Int :=
  let sp := spanDigits t
  let fr := match sp.2 with
    | '.' :: r => spanDigits r
    | r => ([], r)
  let ex : Int := match fr.2 with
    | 'e' :: r => readExp r
    | 'E' :: r => readExp r
    | _ => 0
  (natOfDigits (sp.1 ++ fr.1), ex - (fr.1.length : Int))

/-- `m·10^e = d·10^k` as rationals -/
def sameDec (m : Nat) (e : Int) (d : Nat) (k : Int) : Prop :=
  m * 10 ^ (e - min e k).toNat = d * 10 ^ (k - min e k).toNat

/-- a correctly rounded reader of JSON number tokens (the reader is not part of the engine: this is its
specification): a token made of the sign of the double `bits` and a body that denotes a decimal inside the
rounding interval of `bits` — or zero, for ±0 — is read as `bits` -/
def CorrectlyRounded (readNumber : List Char → Option Nat) : Prop :=
  ∀ (bits : Nat) (body : List Char), bits < 18446744073709551616 → f64Finite bits = true →
    ((bits % 9223372036854775808 ≠ 0 ∧
        ∃ d k, sameDec (readTok body).1 (readTok body).2 d k ∧ ReadsBack bits d k) ∨
      (bits % 9223372036854775808 = 0 ∧ (readTok body).1 = 0)) →
    readNumber ((if bits / 9223372036854775808 % 2 = 1 then ['-'] else []) ++ body) = some bits

end MJ.Json
