import MJ.Model.Loc
/-!
# The code generator's line / span bookkeeping on whole programs (C14)

Executable model of `compiler/codegen.rs`: every `compile_*` arm, reduced to the calls that decide
which line / span an instruction is recorded with — `set_line` / `set_line_from_span`, `push_span`,
`pop_span`, `add`, `add_with_span`, the location-less `Instructions::add` of `sc_bool`, and the
sub-generator of a `{% block %}` (`new_subgenerator` / `finish_subgenerator`).

The AST is a rose tree (`Node`): kind, span, one flag, a name, a number and the children *in the
order in which the code generator visits them* (absent optional children are `absent` nodes,
statement lists are `body` nodes).  Three attributes of a node are inputs computed elsewhere in
/repo and not modelled here: the flag `as_const().is_some()` of an expression (constant folding,
`ast.rs`), the number of `Enclose` instructions of a macro (`meta.rs`), and `lo`/`hi` — the first
and last source line of the construct (tokens) the node was parsed from, which only the statement
of the theorems uses (`add` events are tagged with the range of the node whose arm emits them).
-/
namespace MJ.LocAst
open MJ MJ.Loc

inductive Kind where
  | absent | body
  | var | const | slice | not | neg | bin | cmp | cmpop | ifx | filter | test | attr | item | call
  | list | tuple | map
  | apos | akw | asplat | akwsplat
  | template | emitexpr | emitraw | forloop | ifcond | withblock | withassign | set | setblock
  | autoescape | filterblock | block | importS | fromimport | importname | extends | includeS
  | macroS | callermacro | macroarg | callblock | continueS | breakS | doS
  deriving DecidableEq, Repr

inductive Node where
  | mk (kind : Kind) (sp : Span) (flag : Bool) (name : String) (num : Nat) (lo hi : Nat) (kids : List Node)

namespace Node
def kind : Node → Kind | .mk k _ _ _ _ _ _ _ => k
def sp : Node → Span | .mk _ s _ _ _ _ _ _ => s
def flag : Node → Bool | .mk _ _ f _ _ _ _ _ => f
def name : Node → String | .mk _ _ _ n _ _ _ _ => n
def num : Node → Nat | .mk _ _ _ _ n _ _ _ => n
def lo : Node → Nat | .mk _ _ _ _ _ l _ _ => l
def hi : Node → Nat | .mk _ _ _ _ _ _ h _ => h
def kids : Node → List Node | .mk _ _ _ _ _ _ _ k => k
end Node

/-- the calls of the code generator that matter for locations -/
inductive Ev where
  | setLine (l : Nat)                                   -- `set_line`, `set_line_from_span`
  | push (sp : Span)                                    -- `push_span`
  | pop                                                 -- `pop_span`
  | add (name : String) (lo hi : Nat)                   -- `CodeGenerator::add`
  | addSpan (name : String) (sp : Span) (lo hi : Nat)   -- `CodeGenerator::add_with_span`
  | raw (name : String) (lo hi : Nat)                   -- `self.instructions.add` (no location: `sc_bool`)
  | blockBegin (name : String)                          -- `new_subgenerator`
  | blockEnd                                            -- `finish_subgenerator` + `blocks.insert`
  deriving Repr, DecidableEq

/-- what `pending_block` holds that `leave_scopes_of_innermost_loop` / `continue` / `break` look at -/
inductive Pend where
  | loop | withS | capture | autoescape
  deriving Repr, DecidableEq

/-! ## helpers without recursion -/

def isSc (op : String) : Bool := op == "ScAnd" || op == "ScOr"

/-- `compile_bin_op`: the instruction of a binary operator -/
def binInstr (op : String) : String :=
  if op == "FloorDiv" then "IntDiv" else if op == "Concat" then "StringConcat" else op

/-- `emit_compare` -/
def emitCompare (op : String) (lo hi : Nat) : List Ev :=
  if op == "NotIn" then [.add "In" lo hi, .add "Not" lo hi]
  else [.add (if op == "In" then "In" else op) lo hi]

/-- `start_for_loop` / `end_for_loop` -/
def startFor (lo hi : Nat) : List Ev := [.add "PushLoop" lo hi, .add "Iterate" lo hi]
def endFor (pushDidNotIterate : Bool) (lo hi : Nat) : List Ev :=
  [.add "Jump" lo hi] ++ (if pushDidNotIterate then [.add "PushDidNotIterate" lo hi] else []) ++
    [.add "PopLoopFrame" lo hi]

/-- `leave_scopes_of_innermost_loop` -/
def leaveScopes (lo hi : Nat) : List Pend → List Ev
  | [] => []
  | .loop :: _ => []
  | .withS :: r => .add "PopFrame" lo hi :: leaveScopes lo hi r
  | .capture :: r => .add "EndCapture" lo hi :: .add "DiscardTop" lo hi :: leaveScopes lo hi r
  | .autoescape :: r => .add "PopAutoEscape" lo hi :: leaveScopes lo hi r

def hasLoop (ctx : List Pend) : Bool := ctx.any (· == .loop)

/-- first pass of `compile_call_args` over the kinds of the arguments: `(pending_args, num_args_batches)` -/
def counts1 : Nat → Nat → List Node → Nat × Nat
  | p, b, [] => (p, b)
  | p, b, n :: rest =>
    match n.kind with
    | .apos => counts1 (p + 1) b rest
    | .asplat => counts1 0 ((if p > 0 then b + 1 else b) + 1) rest
    | _ => counts1 p b rest

def hasKw (args : List Node) : Bool := args.any (fun n => n.kind == .akw || n.kind == .akwsplat)
def anyKw (args : List Node) : Bool := args.any (fun n => n.kind == .akw)

/-- `static_kwargs`: every keyword argument is a literal constant and there is no `**splat` -/
def staticKw (args : List Node) : Bool :=
  args.all (fun n =>
    if n.kind == .akwsplat then false
    else if n.kind == .akw then (match n.kids with | [e] => e.kind == .const | _ => false)
    else true)

/-- second pass over the kinds: `(pending_kwargs, num_kwargs_batches)` (not static) -/
def counts2 : Nat → Nat → List Node → Nat × Nat
  | p, b, [] => (p, b)
  | p, b, n :: rest =>
    match n.kind with
    | .akw => counts2 (p + 1) b rest
    | .akwsplat => counts2 0 ((if p > 0 then b + 1 else b) + 1) rest
    | _ => counts2 p b rest

/-- `has_kwargs` / `static_kwargs` after the first loop (`c` = the compiled caller of a call block) -/
def argsHas (args : List Node) (c : Option (List Ev)) : Bool := c.isSome || hasKw args
def argsStatic (args : List Node) (c : Option (List Ev)) : Bool := c.isNone && staticKw args

/-- the end of the keyword arguments: `BuildKwargs` / `MergeKwargs` -/
def kwBuild (lo hi pk nb : Nat) : List Ev :=
  if nb > 0 then (if pk > 0 then [.add "BuildKwargs" lo hi] else []) ++ [.add "MergeKwargs" lo hi]
  else [.add "BuildKwargs" lo hi]

/-- what `compile_call_args` emits for the keyword arguments after its second loop.  `c`: the compiled
    caller macro of a `{% call %}` block; `callLine`: the start line of the innermost span (the
    call's), to which the line is set back after the caller's body -/
def argsKw (lo hi callLine : Nat) (args : List Node) (c : Option (List Ev)) : List Ev :=
  if !(argsHas args c) then []
  else if argsStatic args c && anyKw args then [.add "LoadConst" lo hi]
  else match c with
    | some evs =>
      ([.add "LoadConst" lo hi] ++ evs ++ [.setLine callLine]) ++
        kwBuild lo hi ((if argsStatic args c then 0 else (counts2 0 0 args).1) + 1)
          (if argsStatic args c then 0 else (counts2 0 0 args).2)
    | none =>
      kwBuild lo hi (if argsStatic args c then 0 else (counts2 0 0 args).1)
        (if argsStatic args c then 0 else (counts2 0 0 args).2)

/-- the end of the positional arguments: `BuildList` / `UnpackLists` -/
def argsList (lo hi pending batches : Nat) : List Ev :=
  if batches > 0 then (if pending > 0 then [.add "BuildList" lo hi] else []) ++ [.add "UnpackLists" lo hi] else []

/-- what `compile_call_args` emits after its two loops -/
def argsTail (lo hi callLine : Nat) (extra : Nat) (args : List Node) (c : Option (List Ev)) : List Ev :=
  argsKw lo hi callLine args c ++
    argsList lo hi (if argsHas args c then (counts1 extra 0 args).1 + 1 else (counts1 extra 0 args).1) (counts1 extra 0 args).2

/-! ## the compile arms -/

mutual
/-- `compile_expr` -/
def cExpr (ctx : List Pend) : Node → List Ev
  | .mk kind sp k name _ lo hi kids =>
    if k then [.setLine sp.startLine, .add "LoadConst" lo hi] else
    match kind, kids with
    | .var, _ => [.setLine sp.startLine, .add "Lookup" lo hi]
    | .slice, [e, a, b, c] =>
      [.push sp] ++ cExpr ctx e ++
        (if a.kind == .absent then [.add "LoadConst" lo hi] else cExpr ctx a) ++
        (if b.kind == .absent then [.add "LoadConst" lo hi] else cExpr ctx b) ++
        (if c.kind == .absent then [.add "LoadConst" lo hi] else cExpr ctx c) ++
        [.add "Slice" lo hi, .pop]
    | .not, [e] => [.setLine sp.startLine] ++ cExpr ctx e ++ [.add "Not" lo hi]
    | .neg, [e] => [.setLine sp.startLine] ++ cExpr ctx e ++ [.addSpan "Neg" sp lo hi]
    | .bin, [l, r] =>
      if isSc name then
        [.push sp] ++ cExpr ctx l ++
          [.raw (if name == "ScAnd" then "JumpIfFalseOrPop" else "JumpIfTrueOrPop") lo hi] ++ cExpr ctx r ++ [.pop]
      else [.push sp] ++ cExpr ctx l ++ cExpr ctx r ++ [.add (binInstr name) lo hi, .pop]
    | .cmp, e :: ops =>
      [.push sp] ++ cExpr ctx e ++ cCmpOps ctx lo hi ops ++
        (if ops.length ≥ 2 then [.add "Jump" lo hi, .add "Swap" lo hi, .add "DiscardTop" lo hi] else []) ++ [.pop]
    | .ifx, [t, a, b] =>
      [.setLine sp.startLine] ++ cExpr ctx t ++ [.add "JumpIfFalse" lo hi] ++ cExpr ctx a ++ [.add "Jump" lo hi] ++
        (if b.kind == .absent then [.add "LoadConst" lo hi] else cExpr ctx b)
    | .filter, e :: args =>
      [.push sp] ++ (if e.kind == .absent then [] else cExpr ctx e) ++ cArgs1 ctx lo hi 1 args ++
        cArgs2 ctx lo hi (staticKw args) 0 args ++ argsTail lo hi sp.startLine 1 args none ++
        [.add "ApplyFilter" lo hi, .pop]
    | .test, e :: args =>
      [.push sp] ++ cExpr ctx e ++ cArgs1 ctx lo hi 1 args ++
        cArgs2 ctx lo hi (staticKw args) 0 args ++ argsTail lo hi sp.startLine 1 args none ++
        [.add "PerformTest" lo hi, .pop]
    | .attr, [e] => [.push sp] ++ cExpr ctx e ++ [.add "GetAttr" lo hi, .pop]
    | .item, [e, s] => [.push sp] ++ cExpr ctx e ++ cExpr ctx s ++ [.add "GetItem" lo hi, .pop]
    | .call, ck => cCallBody ctx none sp lo hi ck
    | .list, items => [.setLine sp.startLine] ++ cExprs ctx items ++ [.add "BuildList" lo hi]
    | .tuple, items => [.setLine sp.startLine] ++ cExprs ctx items ++ [.add "BuildTuple" lo hi]
    | .map, items => [.setLine sp.startLine] ++ cExprs ctx items ++ [.add "BuildMap" lo hi]
    | _, _ => []

def cExprs (ctx : List Pend) : List Node → List Ev
  | [] => []
  | n :: rest => cExpr ctx n ++ cExprs ctx rest

/-- the operands of `compile_compare` after the first -/
def cCmpOps (ctx : List Pend) (lo hi : Nat) : List Node → List Ev
  | [] => []
  | [.mk _ _ _ op _ _ _ [x]] => cExpr ctx x ++ emitCompare op lo hi
  | (.mk _ _ _ _ _ _ _ [x]) :: rest =>
    cExpr ctx x ++ [.add "CompareAndPreserve" lo hi, .add "JumpIfFalseOrPop" lo hi] ++ cCmpOps ctx lo hi rest
  | _ :: rest => cCmpOps ctx lo hi rest

/-- `compile_call` on the children of the call node (callee, then the arguments), with the call's
    span and range -/
def cCallBody (ctx : List Pend) (callerEvs : Option (List Ev)) (sp : Span) (lo hi : Nat) : List Node → List Ev
  | [] => []
  | (.mk .var _ _ _ _ _ _ _) :: args =>
    [.push sp] ++ cArgs1 ctx lo hi 0 args ++
      (if callerEvs.isSome || hasKw args then cArgs2 ctx lo hi (callerEvs.isNone && staticKw args) 0 args else []) ++
      argsTail lo hi sp.startLine 0 args callerEvs ++ [.add "CallFunction" lo hi, .pop]
  | (.mk .attr _ _ _ _ _ _ [inner]) :: args =>
    if inner.kind == .var && inner.name == "self" then
      [.push sp, .add "BeginCapture" lo hi, .add "CallBlock" lo hi, .add "EndCapture" lo hi, .pop]
    else
      [.push sp] ++ cExpr ctx inner ++ cArgs1 ctx lo hi 1 args ++
        (if callerEvs.isSome || hasKw args then cArgs2 ctx lo hi (callerEvs.isNone && staticKw args) 0 args else []) ++
        argsTail lo hi sp.startLine 1 args callerEvs ++ [.add "CallMethod" lo hi, .pop]
  | other :: args =>
    [.push sp] ++ cExpr ctx other ++ cArgs1 ctx lo hi 1 args ++
      (if callerEvs.isSome || hasKw args then cArgs2 ctx lo hi (callerEvs.isNone && staticKw args) 0 args else []) ++
      argsTail lo hi sp.startLine 1 args callerEvs ++ [.add "CallObject" lo hi, .pop]

/-- first loop of `compile_call_args` (`p` = pending_args) -/
def cArgs1 (ctx : List Pend) (lo hi : Nat) : Nat → List Node → List Ev
  | _, [] => []
  | p, (.mk .apos _ _ _ _ _ _ [e]) :: rest => cExpr ctx e ++ cArgs1 ctx lo hi (p + 1) rest
  | p, (.mk .asplat _ _ _ _ _ _ [e]) :: rest =>
    (if p > 0 then [.add "BuildList" lo hi] else []) ++ cExpr ctx e ++ cArgs1 ctx lo hi 0 rest
  | p, _ :: rest => cArgs1 ctx lo hi p rest

/-- second loop (`p` = pending_kwargs) -/
def cArgs2 (ctx : List Pend) (lo hi : Nat) (static : Bool) : Nat → List Node → List Ev
  | _, [] => []
  | p, (.mk .akw _ _ _ _ _ _ [e]) :: rest =>
    if static then cArgs2 ctx lo hi static p rest
    else [.add "LoadConst" lo hi] ++ cExpr ctx e ++ cArgs2 ctx lo hi static (p + 1) rest
  | p, (.mk .akwsplat _ _ _ _ _ _ [e]) :: rest =>
    (if p > 0 then [.add "BuildKwargs" lo hi] else []) ++ cExpr ctx e ++ cArgs2 ctx lo hi static 0 rest
  | p, _ :: rest => cArgs2 ctx lo hi static p rest

/-- `compile_assignment`; its instructions belong to the enclosing construct `lo..hi` -/
def cAssign (ctx : List Pend) (lo hi : Nat) : Node → List Ev
  | .mk kind sp _ _ _ _ _ kids =>
    match kind, kids with
    | .var, _ => [.add "StoreLocal" lo hi]
    | .list, items => [.push sp, .add "UnpackList" lo hi] ++ cAssigns ctx lo hi items ++ [.pop]
    | .attr, [e] => [.push sp] ++ cExpr ctx e ++ [.add "SetAttr" lo hi, .pop]
    | _, _ => []

def cAssigns (ctx : List Pend) (lo hi : Nat) : List Node → List Ev
  | [] => []
  | n :: rest => cAssign ctx lo hi n ++ cAssigns ctx lo hi rest

/-- `compile_macro_expression` on the children of a macro: the arguments (last first, each with its
    default) and the body -/
def cMacroKids (ctx : List Pend) (lo hi : Nat) : List Node → List Ev
  | [] => []
  | (.mk .macroarg _ _ _ _ _ _ [arg, dflt]) :: rest =>
    (if dflt.kind == .absent then []
     else [.add "DupTop" lo hi, .add "IsUndefined" lo hi, .add "JumpIfFalse" lo hi, .add "DiscardTop" lo hi] ++
       cExpr ctx dflt) ++ cAssign ctx lo hi arg ++ cMacroKids ctx lo hi rest
  | (.mk .body _ _ _ _ _ _ stmts) :: rest => cStmts ctx stmts ++ cMacroKids ctx lo hi rest
  | _ :: rest => cMacroKids ctx lo hi rest

/-- `{% with %}` assignments followed by the body -/
def cWithKids (ctx : List Pend) (lo hi : Nat) : List Node → List Ev
  | [] => []
  | (.mk .withassign _ _ _ _ _ _ [target, e]) :: rest => cExpr ctx e ++ cAssign ctx lo hi target ++ cWithKids ctx lo hi rest
  | (.mk .body _ _ _ _ _ _ stmts) :: rest => cStmts (.withS :: ctx) stmts ++ cWithKids ctx lo hi rest
  | _ :: rest => cWithKids ctx lo hi rest

/-- the names of `{% from … import %}` -/
def cImportNames (ctx : List Pend) (lo hi : Nat) : List Node → List Ev
  | [] => []
  | (.mk .importname _ _ _ _ _ _ [nm, al]) :: rest =>
    [.add "DupTop" lo hi, .addSpan "GetAttr" nm.sp lo hi] ++
      (if al.kind == .absent then cAssign ctx lo hi nm else cAssign ctx lo hi al) ++ cImportNames ctx lo hi rest
  | _ :: rest => cImportNames ctx lo hi rest

/-- `compile_stmt` -/
def cStmt (ctx : List Pend) : Node → List Ev
  | .mk kind sp _ name num lo hi kids =>
    match kind, kids with
    | .template, children => [.setLine sp.startLine] ++ cStmts ctx children
    | .emitexpr, [e] =>
      (if e.kind == .call then [.setLine e.sp.startLine] else []) ++
      (match e with
       | .mk .call esp _ _ _ elo ehi (callee :: args) =>
         match callee with
         | .mk .var _ _ fname _ _ _ _ =>
           if fname == "super" && args.isEmpty then [.addSpan "FastSuper" esp elo ehi]
           else if fname == "loop" && args.length == 1 then
             cArgs1 ctx elo ehi 0 args ++ (if hasKw args then cArgs2 ctx elo ehi (staticKw args) 0 args else []) ++
               argsTail elo ehi esp.startLine 0 args none ++ [.addSpan "FastRecurse" esp elo ehi]
           else [.push esp] ++ cCallBody ctx none esp elo ehi (callee :: args) ++ [.add "Emit" lo hi, .pop]
         | .mk .attr _ _ _ _ _ _ [inner] =>
           if inner.kind == .var && inner.name == "self" then [.add "CallBlock" elo ehi]
           else [.push esp] ++ cCallBody ctx none esp elo ehi (callee :: args) ++ [.add "Emit" lo hi, .pop]
         | _ => [.push esp] ++ cCallBody ctx none esp elo ehi (callee :: args) ++ [.add "Emit" lo hi, .pop]
       | other => [.push other.sp] ++ cExpr ctx other ++ [.add "Emit" lo hi, .pop])
    | .emitraw, _ => [.setLine sp.startLine, .add "EmitRaw" lo hi]
    | .forloop, [target, iter, filt, .mk .body _ _ _ _ _ _ body, .mk .body _ _ _ _ _ _ els] =>
      [.setLine sp.startLine] ++
      (if filt.kind == .absent then [.push iter.sp] ++ cExpr ctx iter ++ startFor lo hi ++ [.pop]
       else
         [.add "LoadConst" lo hi, .push filt.sp] ++ cExpr ctx iter ++ startFor lo hi ++ [.add "DupTop" lo hi] ++
           cAssign ctx lo hi target ++ cExpr ctx filt ++
           [.add "JumpIfFalse" lo hi, .add "Swap" lo hi, .add "LoadConst" lo hi, .add "Add" lo hi, .add "Jump" lo hi,
            .add "DiscardTop" lo hi, .pop] ++ endFor false lo hi ++ [.add "BuildList" lo hi] ++ startFor lo hi) ++
      cAssign ctx lo hi target ++ cStmts (.loop :: ctx) body ++ endFor (!els.isEmpty) lo hi ++
      (if els.isEmpty then [] else [.add "JumpIfFalse" lo hi] ++ cStmts ctx els)
    | .ifcond, [e, .mk .body _ _ _ _ _ _ tb, .mk .body _ _ _ _ _ _ fb] =>
      [.setLine sp.startLine, .push e.sp] ++ cExpr ctx e ++ [.add "JumpIfFalse" lo hi, .pop] ++ cStmts ctx tb ++
        (if fb.isEmpty then [] else [.add "Jump" lo hi] ++ cStmts ctx fb)
    | .withblock, ws =>
      [.setLine sp.startLine, .add "PushWith" lo hi] ++ cWithKids ctx lo hi ws ++ [.add "PopFrame" lo hi]
    | .set, [target, e] => [.setLine sp.startLine] ++ cExpr ctx e ++ cAssign ctx lo hi target
    | .setblock, [target, filt, .mk .body _ _ _ _ _ _ body] =>
      [.setLine sp.startLine, .add "BeginCapture" lo hi] ++ cStmts (.capture :: ctx) body ++ [.add "EndCapture" lo hi] ++
        (if filt.kind == .absent then [] else cExpr ctx filt) ++ cAssign ctx lo hi target
    | .autoescape, [e, .mk .body _ _ _ _ _ _ body] =>
      [.setLine sp.startLine] ++ cExpr ctx e ++ [.add "PushAutoEscape" lo hi] ++ cStmts (.autoescape :: ctx) body ++
        [.add "PopAutoEscape" lo hi]
    | .filterblock, [f, .mk .body _ _ _ _ _ _ body] =>
      [.setLine sp.startLine, .add "BeginCapture" lo hi] ++ cStmts (.capture :: ctx) body ++ [.add "EndCapture" lo hi] ++
        cExpr ctx f ++ [.add "Emit" lo hi]
    | .block, [.mk .body _ _ _ _ _ _ body] =>
      [.setLine sp.startLine, .blockBegin name] ++ cStmts [] body ++ [.blockEnd, .add "CallBlock" lo hi]
    | .importS, [e, nm] =>
      [.setLine sp.startLine, .add "BeginCapture" lo hi, .add "PushWith" lo hi] ++ cExpr ctx e ++
        [.addSpan "Include" sp lo hi, .add "EndCapture" lo hi, .add "ExportLocals" lo hi, .add "PopFrame" lo hi] ++
        cAssign ctx lo hi nm
    | .fromimport, e :: names =>
      [.setLine sp.startLine, .add "BeginCapture" lo hi, .add "PushWith" lo hi] ++ cExpr ctx e ++
        [.addSpan "Include" sp lo hi, .add "EndCapture" lo hi, .add "ExportLocals" lo hi, .add "PopFrame" lo hi] ++
        cImportNames ctx lo hi names ++ [.add "DiscardTop" lo hi]
    | .extends, [e] => [.setLine sp.startLine] ++ cExpr ctx e ++ [.addSpan "LoadBlocks" sp lo hi]
    | .includeS, [e] => [.setLine sp.startLine] ++ cExpr ctx e ++ [.addSpan "Include" sp lo hi]
    | .macroS, mk =>
      [.setLine sp.startLine, .add "Jump" lo hi] ++ cMacroKids ctx lo hi mk ++ [.add "Return" lo hi] ++
        List.replicate num (.add "Enclose" lo hi) ++
        [.add "GetClosure" lo hi, .add "LoadConst" lo hi, .add "BuildMacro" lo hi, .add "StoreLocal" lo hi]
    | .callblock, [.mk .call csp _ _ _ clo chi ck, .mk .callermacro msp _ _ mnum mlo mhi mk] =>
      cCallBody ctx
        (some ([.setLine msp.startLine, .add "Jump" mlo mhi] ++ cMacroKids ctx mlo mhi mk ++ [.add "Return" mlo mhi] ++
          List.replicate mnum (.add "Enclose" mlo mhi) ++
          [.add "GetClosure" mlo mhi, .add "LoadConst" mlo mhi, .add "BuildMacro" mlo mhi]))
        csp clo chi ck ++ [.add "Emit" lo hi]
    | .continueS, _ =>
      [.setLine sp.startLine] ++ leaveScopes lo hi ctx ++ (if hasLoop ctx then [.add "Jump" lo hi] else [])
    | .breakS, _ => [.setLine sp.startLine] ++ leaveScopes lo hi ctx ++ [.add "Jump" lo hi]
    | .doS, [.mk .call csp _ _ _ clo chi ck] => cCallBody ctx none csp clo chi ck ++ [.add "DiscardTop" lo hi]
    | _, _ => []

def cStmts (ctx : List Pend) : List Node → List Ev
  | [] => []
  | n :: rest => cStmt ctx n ++ cStmts ctx rest
end

/-! ## the lines the instructions get

`CodeGenerator::add` records `current_line` whichever branch it takes (the innermost span only if it
starts on that very line), `add_with_span` the start line of the given span, the location-less add
inherits the run of the previous instruction of the same `Instructions`. -/

structure Em where
  name : String
  line : Option Nat
  lo : Nat
  hi : Nat
  deriving Repr, DecidableEq

/-- current line, line of the previous instruction of the generator at hand, those of the suspended
    generators (a `{% block %}` body is compiled by a sub-generator) -/
structure LS where
  cur : Nat
  prev : Option Nat
  saved : List (Option Nat)
  deriving Repr, DecidableEq

def LS.init : LS := ⟨0, none, []⟩

def stepL (s : LS) : Ev → LS × List Em
  | .setLine l => ({ s with cur := l }, [])
  | .push sp => ({ s with cur := sp.startLine }, [])
  | .pop => (s, [])
  | .add nm lo hi => ({ s with prev := some s.cur }, [⟨nm, some s.cur, lo, hi⟩])
  | .addSpan nm sp lo hi => ({ s with prev := some sp.startLine }, [⟨nm, some sp.startLine, lo, hi⟩])
  | .raw nm lo hi => (s, [⟨nm, s.prev, lo, hi⟩])
  | .blockBegin _ => ({ s with prev := none, saved := s.prev :: s.saved }, [])
  | .blockEnd => ({ s with prev := s.saved.head?.join, saved := s.saved.tail }, [])

def execL : LS → List Ev → LS × List Em
  | s, [] => (s, [])
  | s, e :: es =>
    let r := stepL s e
    let r2 := execL r.1 es
    (r2.1, r.2 ++ r2.2)

/-- the recorded line lies within the lines of the construct whose arm emitted the instruction -/
def Em.ok (e : Em) : Bool :=
  match e.line with
  | some l => e.lo ≤ l && l ≤ e.hi
  | none => false

/-! ## the same program through the real side tables (`Cg`, `Instrs` of `Model/Loc.lean`) -/

structure Gen where
  cg : Cg
  names : List String   -- reversed

structure GS where
  cur : Gen
  stack : List (Gen × String)
  done : List (String × Gen)

def GS.init : GS := ⟨⟨Cg.new, []⟩, [], []⟩

def stepG (s : GS) : Ev → GS
  | .setLine l => { s with cur := { s.cur with cg := s.cur.cg.step (.setLine l) } }
  | .push sp => { s with cur := { s.cur with cg := s.cur.cg.step (.pushSpan sp) } }
  | .pop => { s with cur := { s.cur with cg := s.cur.cg.step .popSpan } }
  | .add nm _ _ => { s with cur := ⟨s.cur.cg.step .add, nm :: s.cur.names⟩ }
  | .addSpan nm sp _ _ => { s with cur := ⟨s.cur.cg.step (.addWithSpan sp), nm :: s.cur.names⟩ }
  | .raw nm _ _ => { s with cur := ⟨{ s.cur.cg with instrs := s.cur.cg.instrs.add.1 }, nm :: s.cur.names⟩ }
  | .blockBegin nm =>
    -- `new_subgenerator`: the current line and the innermost span are carried over
    let sub : Gen := ⟨⟨s.cur.cg.currentLine, s.cur.cg.spanStack.head?.toList, Instrs.empty⟩, []⟩
    { s with cur := sub, stack := (s.cur, nm) :: s.stack }
  | .blockEnd =>
    match s.stack with
    | [] => s
    | (outer, nm) :: rest =>
      -- `finish_subgenerator`: the line comes back; `blocks.insert(name, instructions)`
      { cur := { outer with cg := { outer.cg with currentLine := s.cur.cg.currentLine } }, stack := rest,
        done := (s.done.filter (·.1 != nm)) ++ [(nm, s.cur)] }

def execG (s : GS) (evs : List Ev) : GS := evs.foldl stepG s

/-! ## well-formed trees: what the parser guarantees about spans and construct ranges -/

/-- nodes whose span need not start inside the construct: `parse_ifexpr` and `parse_compare` take the
    start of the span from the token *before* the expression -/
def startsAtPreviousToken (n : Node) : Bool :=
  n.kind == .ifx || n.kind == .cmp || n.kind == .not ||
    (n.kind == .bin && (n.name == "Eq" || n.name == "Ne" || n.name == "Lt" || n.name == "Lte" || n.name == "Gt" ||
      n.name == "Gte" || n.name == "In"))

/-- kinds without a span of their own -/
def spanless (k : Kind) : Bool :=
  k == .absent || k == .body || k == .cmpop || k == .apos || k == .akw || k == .asplat || k == .akwsplat ||
    k == .withassign || k == .importname || k == .macroarg

/-- must the span of the node start on a line of its construct?  Everywhere, except for the nodes
    above as long as they are not folded to a constant (then `compile_expr` records the `LoadConst`
    on the start line of their span) -/
def mustAnchor (n : Node) : Bool := !spanless n.kind && (!startsAtPreviousToken n || n.flag)

def exprKind : Kind → Bool
  | .var | .const | .slice | .not | .neg | .bin | .cmp | .ifx | .filter | .test | .attr | .item | .call
  | .list | .tuple | .map => true
  | _ => false

def isE (n : Node) : Bool := exprKind n.kind
def isEo (n : Node) : Bool := n.kind == .absent || isE n
def isArg (n : Node) : Bool := n.kind == .apos || n.kind == .akw || n.kind == .asplat || n.kind == .akwsplat

/-- the children a node of each kind has, as far as the code generator compiles them as expressions -/
def shapeOk : Kind → List Node → Bool
  | .slice, [e, a, b, c] => isE e && isEo a && isEo b && isEo c
  | .not, [e] => isE e
  | .neg, [e] => isE e
  | .attr, [e] => isE e
  | .bin, [l, r] => isE l && isE r
  | .item, [l, r] => isE l && isE r
  | .cmp, e :: ops => isE e && ops.all (fun o => o.kind == .cmpop)
  | .cmpop, [x] => isE x
  | .ifx, [t, a, b] => isE t && isE a && isEo b
  | .filter, e :: args => isEo e && args.all isArg
  | .test, e :: args => isE e && args.all isArg
  | .call, c :: args => isE c && args.all isArg
  | .list, items => items.all isE
  | .tuple, items => items.all isE
  | .map, items => items.all isE
  | .apos, [e] => isE e
  | .akw, [e] => isE e
  | .asplat, [e] => isE e
  | .akwsplat, [e] => isE e
  | .var, _ => true
  | .const, _ => true
  | .emitexpr, [e] => isE e
  | .forloop, [_, i, f, _, _] => isE i && isEo f
  | .ifcond, [e, _, _] => isE e
  | .withassign, [_, e] => isE e
  | .set, [_, e] => isE e
  | .setblock, [_, f, _] => isEo f
  | .autoescape, [e, _] => isE e
  | .filterblock, [f, _] => isE f
  | .importS, [e, _] => isE e
  | .fromimport, e :: _ => isE e
  | .extends, [e] => isE e
  | .includeS, [e] => isE e
  | .macroarg, [_, d] => isEo d
  | .importname, [nm, _] => nm.kind == .var
  | .callblock, [c, m] => c.kind == .call && m.kind == .callermacro
  | .doS, [c] => c.kind == .call
  | k, _ => !exprKind k && !isArg (.mk k Span.default false "" 0 0 0 []) && k != .cmpop

mutual
/-- what the parser guarantees (checked on every dumped AST by the driver): the line range of a
    construct contains those of its parts and, unless the node is one of `startsAtPreviousToken`, the
    start line of its span; a constant is folded; the children have the shape of the node's kind -/
def wf : Node → Bool
  | .mk kind sp flag name num lo hi kids =>
    lo ≤ hi && (!mustAnchor (.mk kind sp flag name num lo hi []) || (lo ≤ sp.startLine && sp.startLine ≤ hi)) &&
      (kind != .const || flag) && shapeOk kind kids && wfKids lo hi kids
def wfKids (lo hi : Nat) : List Node → Bool
  | [] => true
  | n :: rest => lo ≤ n.lo && n.hi ≤ hi && wf n && wfKids lo hi rest
end

mutual
/-- what the parser guarantees on its own (`wf` without the extra demand on constant-folded
    comparisons / conditional expressions): the full statement of `instr_line_in_construct` over
    these trees is false -/
def wfP : Node → Bool
  | .mk kind sp flag name _ lo hi kids =>
    lo ≤ hi && (spanless kind || startsAtPreviousToken (.mk kind sp flag name 0 0 0 []) ||
      (lo ≤ sp.startLine && sp.startLine ≤ hi)) && (kind != .const || flag) && shapeOk kind kids && wfPKids lo hi kids
def wfPKids (lo hi : Nat) : List Node → Bool
  | [] => true
  | n :: rest => lo ≤ n.lo && n.hi ≤ hi && wfP n && wfPKids lo hi rest
end

end MJ.LocAst
