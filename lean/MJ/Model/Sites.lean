import MJ.Model.Chk
import MJ.Gen.Tables
/-!
# Small kernels behind individual crash sites (C01, class `a` of `MJ/Model/PanicSites.lean`)

* `SmallStr` (`value/mod.rs`): `try_new` slices `buf[..len]` of a `[u8; SMALL_STR_CAP]` after checking
  `len <= SMALL_STR_CAP` and stores `len as u8`; `as_str` slices `buf[..self.len as usize]`.
  `Value::from(char)` does `SmallStr::try_new(c.encode_utf8(..)).unwrap()` (at most 4 bytes).
-/
namespace MJ.Sites
open MJ Chk

/-- `&buf[..n]` of a buffer of `cap` bytes -/
def sliceTo (cap n : Nat) : Chk Nat := if n ≤ cap then .ok n else .panic

/-- `x as u8` -/
def asU8 (x : Nat) : Nat := x % 256

/-- `SmallStr::try_new`: `Some(len field)` or `None`; `.panic` = the slice is out of range -/
def smallStrTryNew (cap len : Nat) : Chk (Option Nat) :=
  if len ≤ cap then
    match sliceTo cap len with
    | .panic => .panic
    | .ok _ => .ok (some (asU8 len))
  else .ok none

/-- `SmallStr::as_str` of a value whose length field is `lenField` -/
def smallStrAsStr (cap lenField : Nat) : Chk Nat := sliceTo cap lenField

/-- `try_new` followed by `as_str` on the result: the length that comes back -/
def smallStrRoundTrip (cap len : Nat) : Chk (Option Nat) :=
  match smallStrTryNew cap len with
  | .panic => .panic
  | .ok none => .ok none
  | .ok (some f) => match smallStrAsStr cap f with
    | .panic => .panic
    | .ok n => .ok (some n)

/-- `Value::from(char)`: `SmallStr::try_new(&utf8[..k]).unwrap()`, `k` = `len_utf8()` ∈ 1..4 -/
def smallStrFromChar (cap k : Nat) : Chk Nat :=
  match smallStrTryNew cap k with
  | .panic => .panic
  | .ok none => .panic      -- `unwrap()` on `None`
  | .ok (some f) => .ok f

end MJ.Sites
