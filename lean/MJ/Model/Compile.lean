import MJ.Model.Eval
/-!
# Model of the code generator (C03 stage 2)

`compiler/codegen.rs` transcribed: a state-passing generator that appends instructions and
back-patches **absolute** jump targets through a stack of pending blocks
(`PendingBlock::{Branch, Loop, ScBool, Scope}`), including the constant folding of
`Expr::as_const` that `compile_expr` tries first.

Fragment: every expression form incl. calls with positional and keyword arguments; statements
`text`, `emit`, `if`, `for` (filter, else, unpacking), `set`, set-block, `with`, filter-block,
`break`, `continue`, macros (with the closure analysis of `compiler/meta.rs: find_macro_closure`)
and call blocks.  What is still outside (method calls `x.f()`, keyword arguments of filters / tests,
constants outside the value model) sets the flag `CG.oof`.

The output of `compileTemplate` is compared instruction by instruction (jump targets included)
with the instruction stream of the real `CodeGenerator` on the ASTs of the real parser
(`lib/props/c03.py`, stream `codegen`).
-/
namespace MJ.Compile
open MJ.Eval

inductive Instr where
  | emitRaw (s : String)
  | storeLocal (x : String)
  | lookup (x : String)
  | getAttr (n : String)
  | getItem
  | loadConst (v : Val)
  | buildMap (n : Nat)
  | buildList (n : Option Nat)
  | unpackList (n : Nat)
  | add | sub | mul | intDiv | rem | neg
  | eq | ne | gt | gte | lt | lte
  | not | stringConcat | isIn
  | compareAndPreserve (op : CmpOp)
  | applyFilter (name : String) (argc : Nat) (localId : Nat)
  | performTest (name : String) (argc : Nat) (localId : Nat)
  | emit
  | pushLoop (flags : Nat)
  | pushWith
  | iterate (target : Nat)
  | pushDidNotIterate
  | popFrame
  | popLoopFrame
  | jump (target : Nat)
  | jumpIfFalse (target : Nat)
  | jumpIfFalseOrPop (target : Nat)
  | jumpIfTrueOrPop (target : Nat)
  | beginCapture
  | endCapture
  | dupTop
  | discardTop
  | swap
  -- macros and calls (executed by the extended VM model `MJ.VmM` only)
  | buildKwargs (n : Nat)
  | callFunction (name : String) (argc : Nat)
  | callObject (argc : Nat)
  | isUndefined
  | return_
  | enclose (x : String)
  | getClosure
  | buildMacro (name : String) (offset : Nat) (flags : Nat)
  deriving Repr, Inhabited

inductive ScopeKind where | with_ | capture
  deriving Repr, DecidableEq, Inhabited

/-- the name of the engine's `Instruction` variant this model instruction stands for -/
def Instr.opName : Instr → String
  | .emitRaw .. => "EmitRaw"
  | .storeLocal .. => "StoreLocal"
  | .lookup .. => "Lookup"
  | .getAttr .. => "GetAttr"
  | .getItem .. => "GetItem"
  | .loadConst .. => "LoadConst"
  | .buildMap .. => "BuildMap"
  | .buildList .. => "BuildList"
  | .unpackList .. => "UnpackList"
  | .add .. => "Add"
  | .sub .. => "Sub"
  | .mul .. => "Mul"
  | .intDiv .. => "IntDiv"
  | .rem .. => "Rem"
  | .neg .. => "Neg"
  | .eq .. => "Eq"
  | .ne .. => "Ne"
  | .gt .. => "Gt"
  | .gte .. => "Gte"
  | .lt .. => "Lt"
  | .lte .. => "Lte"
  | .not .. => "Not"
  | .stringConcat .. => "StringConcat"
  | .isIn .. => "In"
  | .compareAndPreserve .. => "CompareAndPreserve"
  | .applyFilter .. => "ApplyFilter"
  | .performTest .. => "PerformTest"
  | .emit .. => "Emit"
  | .pushLoop .. => "PushLoop"
  | .pushWith .. => "PushWith"
  | .iterate .. => "Iterate"
  | .pushDidNotIterate .. => "PushDidNotIterate"
  | .popFrame .. => "PopFrame"
  | .popLoopFrame .. => "PopLoopFrame"
  | .jump .. => "Jump"
  | .jumpIfFalse .. => "JumpIfFalse"
  | .jumpIfFalseOrPop .. => "JumpIfFalseOrPop"
  | .jumpIfTrueOrPop .. => "JumpIfTrueOrPop"
  | .beginCapture .. => "BeginCapture"
  | .endCapture .. => "EndCapture"
  | .dupTop .. => "DupTop"
  | .discardTop .. => "DiscardTop"
  | .swap .. => "Swap"
  | .buildKwargs .. => "BuildKwargs"
  | .callFunction .. => "CallFunction"
  | .callObject .. => "CallObject"
  | .isUndefined .. => "IsUndefined"
  | .return_ .. => "Return"
  | .enclose .. => "Enclose"
  | .getClosure .. => "GetClosure"
  | .buildMacro .. => "BuildMacro"

/-- `MACRO_CALLER`: the macro looks up `caller` -/
def macroCallerFlag : Nat := 2

/-- `PendingBlock` -/
inductive Pending where
  | branch (jumpInstr : Nat)
  | loop (iterInstr : Nat) (jumpInstrs : List Nat)
  | scBool (jumpInstrs : List Nat)
  | scope (k : ScopeKind)
  deriving Repr, Inhabited

/-- the placeholder `!0` of a jump that is patched later -/
def unpatched : Nat := 4294967295
/-- `MAX_LOCALS`: filters/tests beyond get the id `!0` -/
def maxLocals : Nat := 50
def noLocal : Nat := 255

/-- the part of the generator state that is not code: local ids of filters / tests, and the flag
"a construct outside the modelled fragment was met" -/
structure Aux where
  filterIds : List String := []
  testIds : List String := []
  oof : Bool := false
  deriving Inhabited

/-- `get_local_id` -/
def localId (ids : List String) (name : String) : Nat × List String :=
  match ids.idxOf? name with
  | some i => (i, ids)
  | none => if ids.length ≥ maxLocals then (noLocal, ids) else (ids.length, ids ++ [name])

namespace Aux
def markOof (a : Aux) : Aux := { a with oof := true }
def filterId (a : Aux) (name : String) : Nat × Aux :=
  ((localId a.filterIds name).1, { a with filterIds := (localId a.filterIds name).2 })
def testId (a : Aux) (name : String) : Nat × Aux :=
  ((localId a.testIds name).1, { a with testIds := (localId a.testIds name).2 })
end Aux

structure CG where
  code : List Instr := []
  pending : List Pending := []
  aux : Aux := {}
  deriving Inhabited

namespace CG

def add (g : CG) (i : Instr) : CG := { g with code := g.code ++ [i] }
def next (g : CG) : Nat := g.code.length
def markOof (g : CG) : CG := { g with aux := g.aux.markOof }
def oof (g : CG) : Bool := g.aux.oof

/-- overwrite the target of the jump-like instruction at `idx` -/
def patch (g : CG) (idx : Nat) (target : Nat) : CG :=
  match g.code[idx]? with
  | some (.jump _) => { g with code := g.code.set idx (.jump target) }
  | some (.jumpIfFalse _) => { g with code := g.code.set idx (.jumpIfFalse target) }
  | some (.jumpIfFalseOrPop _) => { g with code := g.code.set idx (.jumpIfFalseOrPop target) }
  | some (.jumpIfTrueOrPop _) => { g with code := g.code.set idx (.jumpIfTrueOrPop target) }
  | some (.iterate _) => { g with code := g.code.set idx (.iterate target) }
  | _ => g

def patchAll (g : CG) (idxs : List Nat) (target : Nat) : CG :=
  idxs.foldl (fun g i => g.patch i target) g

def filterId (g : CG) (name : String) : Nat × CG :=
  ((g.aux.filterId name).1, { g with aux := (g.aux.filterId name).2 })

def testId (g : CG) (name : String) : Nat × CG :=
  ((g.aux.testId name).1, { g with aux := (g.aux.testId name).2 })

-- structured blocks ---------------------------------------------------------------------------

def startIf (g : CG) : CG :=
  let j := g.next
  let g := g.add (.jumpIfFalse unpatched)
  { g with pending := .branch j :: g.pending }

def endCondition (g : CG) (newTarget : Nat) : CG :=
  match g.pending with
  | .branch j :: rest => { (g.patch j newTarget) with pending := rest }
  | _ => g.markOof

def startElse (g : CG) : CG :=
  let j := g.next
  let g := g.add (.jump unpatched)
  let g := g.endCondition (j + 1)
  { g with pending := .branch j :: g.pending }

def endIf (g : CG) : CG := g.endCondition g.next

def startScBool (g : CG) : CG := { g with pending := .scBool [] :: g.pending }

def scBool (g : CG) (isAnd : Bool) : CG :=
  match g.pending with
  | .scBool js :: rest =>
    let j := g.next
    let g := g.add (if isAnd then .jumpIfFalseOrPop unpatched else .jumpIfTrueOrPop unpatched)
    { g with pending := .scBool (js ++ [j]) :: rest }
  | _ => g.markOof

def endScBool (g : CG) : CG :=
  match g.pending with
  | .scBool js :: rest => { (g.patchAll js g.next) with pending := rest }
  | _ => g.markOof

def startForLoop (g : CG) (withLoopVar : Bool) : CG :=
  let g := g.add (.pushLoop (if withLoopVar then 1 else 0))
  let j := g.next
  let g := g.add (.iterate unpatched)
  { g with pending := .loop j [] :: g.pending }

def endForLoop (g : CG) (pushDidNotIterate : Bool) : CG :=
  match g.pending with
  | .loop iter jumps :: rest =>
    let g := g.add (.jump iter)
    let loopEnd := g.next
    let g := if pushDidNotIterate then g.add .pushDidNotIterate else g
    let g := g.add .popLoopFrame
    { (g.patchAll (jumps ++ [iter]) loopEnd) with pending := rest }
  | _ => g.markOof

def startScope (g : CG) (k : ScopeKind) : CG := { g with pending := .scope k :: g.pending }

def endScope (g : CG) : CG :=
  match g.pending with
  | .scope _ :: rest => { g with pending := rest }
  | _ => g.markOof

/-- the scopes opened inside the innermost loop, innermost first -/
def scopesOfInnermostLoop : List Pending → List ScopeKind
  | [] => []
  | .loop _ _ :: _ => []
  | .scope k :: rest => k :: scopesOfInnermostLoop rest
  | _ :: rest => scopesOfInnermostLoop rest

def leaveScopes (g : CG) : CG :=
  (scopesOfInnermostLoop g.pending).foldl (fun g k =>
    match k with
    | .with_ => g.add .popFrame
    | .capture => (g.add .endCapture).add .discardTop) g

def innermostLoopIter : List Pending → Option Nat
  | [] => none
  | .loop iter _ :: _ => some iter
  | _ :: rest => innermostLoopIter rest

def addBreakJump (instr : Nat) : List Pending → List Pending
  | [] => []
  | .loop iter js :: rest => .loop iter (js ++ [instr]) :: rest
  | p :: rest => p :: addBreakJump instr rest

end CG

/-! ## Constant folding (`Expr::as_const`) -/

inductive Fold where
  | no                -- not a constant (or folding it fails at compile time): generate code
  | val (v : Val)
  | oof               -- the folded value is outside the fragment of the value model
  deriving Inhabited

def Fold.ofRes : Res Val → Fold
  | .ok v => .val v
  | .error .outOfFragment => .oof
  | .error _ => .no

/-- `const_values`: all items are literal constants (not merely foldable) -/
def constItems : List Expr → Option (List Val)
  | [] => some []
  | .const l :: rest => (constItems rest).map (litVal l :: ·)
  | _ :: _ => none

def constPairs : List (Expr × Expr) → Option (List (Val × Val))
  | [] => some []
  | (.const k, .const v) :: rest => (constPairs rest).map ((litVal k, litVal v) :: ·)
  | _ :: _ => none

/-- a map literal of constants -/
def foldMap (ps : List (Val × Val)) : Fold := Fold.ofRes ((insertPairs ps []).map .map)

/-- `eval_binop` -/
def foldBinop (op : BinOp) (a b : Val) : Fold :=
  match op with
  | .concat => .val (.str (render a ++ render b))
  | .eq => Fold.ofRes ((compareOp .eq a b).map .bool)
  | .ne => Fold.ofRes ((compareOp .ne a b).map .bool)
  | .lt => Fold.ofRes ((compareOp .lt a b).map .bool)
  | .le => Fold.ofRes ((compareOp .le a b).map .bool)
  | .gt => Fold.ofRes ((compareOp .gt a b).map .bool)
  | .ge => Fold.ofRes ((compareOp .ge a b).map .bool)
  | .isin => Fold.ofRes ((compareOp .isin a b).map .bool)
  | .and => .val (if truthy a then b else a)
  | .or => .val (if truthy a then a else b)
  | op => Fold.ofRes (arith op a b)

mutual
  def asConst : Expr → Fold
    | .const l => .val (litVal l)
    | .list items => match constItems items with
      | some vs => .val (.list vs)
      | none => .no
    | .map kvs => match constPairs kvs with
      | some ps => foldMap ps
      | none => .no
    | .unop .not e => match asConst e with
      | .val v => .val (.bool (!truthy v))
      | f => f
    | .unop .neg e => match asConst e with
      | .val v => Fold.ofRes (negVal v)
      | f => f
    | .binop op l r => match asConst l, asConst r with
      | .val a, .val b => foldBinop op a b
      | .oof, _ => .oof
      | _, .oof => .oof
      | _, _ => .no
    | .cmp e ops => match asConst e with
      | .val a => asConstChain a ops
      | f => f
    | _ => .no
  def asConstChain : Val → List (CmpOp × Expr) → Fold
    | _, [] => .val (.bool true)
    | a, (op, e) :: rest => match asConst e with
      | .val b => match compareOp op a b with
        | .ok true => asConstChain b rest
        | .ok false => .val (.bool false)
        | .error .outOfFragment => .oof
        | .error _ => .no
      | f => f
end

/-! ## `compiler/meta.rs`: the names a macro has to enclose -/

/-- `AssignmentTracker` (without nested tracking): names looked up before being assigned, and the
stack of assigned-name sets -/
structure Tracker where
  out : List String := []
  assigned : List (List String) := [[]]
  deriving Inhabited

namespace Tracker
def isAssigned (t : Tracker) (x : String) : Bool := t.assigned.any (·.contains x)
def assign (t : Tracker) (x : String) : Tracker :=
  match t.assigned with
  | top :: rest => { t with assigned := (x :: top) :: rest }
  | [] => { t with assigned := [[x]] }
def push (t : Tracker) : Tracker := { t with assigned := [] :: t.assigned }
def pop (t : Tracker) : Tracker := { t with assigned := t.assigned.tail }
/-- a variable lookup: recorded (and from then on treated as known) unless assigned before -/
def look (t : Tracker) (x : String) : Tracker :=
  if t.isAssigned x then t else ({ t with out := if t.out.contains x then t.out else t.out ++ [x] }).assign x
end Tracker

mutual
  def trackExpr : Expr → Tracker → Tracker
    | .const _, t => t
    | .var x, t => t.look x
    | .unop _ e, t => trackExpr e t
    | .binop _ l r, t => trackExpr r (trackExpr l t)
    | .cmp e ops, t => trackChain ops (trackExpr e t)
    | .ife c a none, t => trackExpr a (trackExpr c t)
    | .ife c a (some b), t => trackExpr b (trackExpr a (trackExpr c t))
    | .filter _ e args, t => trackArgs args (trackExpr e t)
    | .test _ e args, t => trackArgs args (trackExpr e t)
    | .getattr e _, t => trackExpr e t
    | .getitem e i, t => trackExpr i (trackExpr e t)
    | .call f args, t =>
      -- `tracker_visit_call`: `super()` and `self.block()` look up neither `super` nor `self`
      match f with
      | .var "super" => trackArgs args t
      | .getattr (.var "self") _ => trackArgs args t
      | f => trackArgs args (trackExpr f t)
    | .list items, t => trackList items t
    | .map kvs, t => trackPairs kvs t
  def trackChain : List (CmpOp × Expr) → Tracker → Tracker
    | [], t => t
    | (_, e) :: rest, t => trackChain rest (trackExpr e t)
  def trackArgs : List (Option String × Expr) → Tracker → Tracker
    | [], t => t
    | (_, e) :: rest, t => trackArgs rest (trackExpr e t)
  def trackList : List Expr → Tracker → Tracker
    | [], t => t
    | e :: rest, t => trackList rest (trackExpr e t)
  def trackPairs : List (Expr × Expr) → Tracker → Tracker
    | [], t => t
    | (k, v) :: rest, t => trackPairs rest (trackExpr v (trackExpr k t))
end

mutual
  def trackAssign : Target → Tracker → Tracker
    | .var x, t => t.assign x
    | .tuple ts, t => trackAssigns ts t
  def trackAssigns : List Target → Tracker → Tracker
    | [], t => t
    | x :: rest, t => trackAssigns rest (trackAssign x t)
end

def trackFilterApps : List FilterApp → Tracker → Tracker
  | [], t => t
  | (_, args) :: rest, t => trackFilterApps rest (trackArgs args t)

/-- the defaults belong to the last parameters; parameters are bound back to front and a default
is looked at right before its parameter is bound -/
def trackParams : List String → List Expr → Tracker → Tracker
  | ps, ds, t =>
    let n := ps.length - ds.length
    let withDefault : List (String × Option Expr) :=
      (ps.zipIdx).map fun (p, i) => (p, if n ≤ i then ds[i - n]? else none)
    withDefault.reverse.foldl (fun t pd =>
      let t := match pd.2 with
        | some d => trackExpr d t
        | none => t
      t.assign pd.1) t

mutual
  /-- `track_walk` -/
  def trackStmt : Stmt → Tracker → Tracker
    | .text _, t => t
    | .emit e, t => trackExpr e t
    | .ifS c a b, t => (trackBlock b ((trackBlock a (trackExpr c t).push).pop).push).pop
    | .forS target iter flt body els, t =>
      let t := trackAssign target (trackExpr iter t.push)
      let t := match flt with
        | some f => trackExpr f t
        | none => t
      let t := (trackBlock body (t.assign "loop")).pop
      (trackBlock els t.push).pop
    | .set target e, t => trackAssign target (trackExpr e t)
    | .setBlock x fs body, t => (trackFilterApps fs (trackBlock body t.push).pop).assign x
    | .withS binds body, t => (trackBlock body (trackBinds binds t.push)).pop
    | .filterBlock fs body, t => trackFilterApps fs (trackBlock body t.push).pop
    | .macroS name params defaults body _, t =>
      -- the values a macro refers to are captured when it is declared, which is before its own
      -- name is assigned: the name is assigned after the walk
      ((trackBlock body (trackParams params defaults (t.push.assign "caller"))).pop).assign name
    | .callBlock callee args params defaults body _, t =>
      let t := trackArgs args (trackExpr callee t)
      (trackBlock body (trackParams params defaults (t.push.assign "caller"))).pop
    | .breakS, t => t
    | .continueS, t => t
  def trackBlock : List Stmt → Tracker → Tracker
    | [], t => t
    | s :: rest, t => trackBlock rest (trackStmt s t)
  def trackBinds : List (Target × Expr) → Tracker → Tracker
    | [], t => t
    | (target, e) :: rest, t => trackBinds rest (trackAssign target (trackExpr e t))
end

/-- `find_macro_closure`: the free names of a macro (`caller` included if it is looked up) -/
def findMacroClosure (params : List String) (defaults : List Expr) (body : List Stmt) : List String :=
  (trackBlock body (trackParams params defaults {})).out

/-- insertion sort (the engine iterates a `HashSet`: the order of the `Enclose` instructions is
unspecified, the comparison canonicalises it) -/
def insertSorted (x : String) : List String → List String
  | [] => [x]
  | y :: rest => if x ≤ y then x :: y :: rest else y :: insertSorted x rest
def sortNames (xs : List String) : List String := xs.foldr insertSorted []

/-! ## Code generation -/

def binInstr : BinOp → Instr
  | .add => .add | .sub => .sub | .mul => .mul | .floordiv => .intDiv | .rem => .rem
  | .concat => .stringConcat | .eq => .eq | .ne => .ne | .lt => .lt | .le => .lte
  | .gt => .gt | .ge => .gte | .isin => .isIn
  | .and => .jumpIfFalseOrPop unpatched   -- not used: and/or are compiled as short-circuit blocks
  | .or => .jumpIfTrueOrPop unpatched

/-- `emit_compare` -/
def emitCompare (g : CG) : CmpOp → CG
  | .eq => g.add .eq | .ne => g.add .ne | .lt => g.add .lt | .le => g.add .lte
  | .gt => g.add .gt | .ge => g.add .gte | .isin => g.add .isIn
  | .notin => (g.add .isIn).add .not

mutual
  /-- `compile_assignment` -/
  def cTarget : Target → CG → CG
    | .var x, g => g.add (.storeLocal x)
    | .tuple ts, g => cTargets ts (g.add (.unpackList ts.length))
  def cTargets : List Target → CG → CG
    | [], g => g
    | t :: ts, g => cTargets ts (cTarget t g)
end

/-- `Call::identify_call` -/
inductive CallKind where | function | method | object
  deriving DecidableEq, Repr, Inhabited
def callKind : Expr → CallKind
  | .var _ => .function
  | .getattr _ _ => .method
  | _ => .object
def callName : Expr → String
  | .var x => x
  | _ => ""

def posArgs (args : List (Option String × Expr)) : List Expr :=
  args.filterMap fun a => match a.1 with | none => some a.2 | some _ => none
def kwArgs (args : List (Option String × Expr)) : List (String × Expr) :=
  args.filterMap fun a => match a.1 with | none => none | some k => some (k, a.2)
/-- keyword arguments whose values are all literal constants are collected at compile time -/
def staticKwargs : List (String × Expr) → Option (List (String × Val))
  | [] => some []
  | (k, .const l) :: rest => (staticKwargs rest).map fun m =>
      match assocGet k m with
      | some _ => m                      -- a later duplicate overwrites an earlier one
      | none => mapInsert k (litVal l) m
  | _ :: _ => none

mutual
  /-- `compile_expr` -/
  def cExpr : Expr → CG → CG
    | e, g =>
      match asConst e with
      | .val v => g.add (.loadConst v)
      | .oof => g.markOof
      | .no =>
        match e with
        | .const l => g.add (.loadConst (litVal l))
        | .var x => g.add (.lookup x)
        | .unop .not a => (cExpr a g).add .not
        | .unop .neg a => (cExpr a g).add .neg
        | .binop .and l r => ((cExpr r ((cExpr l g.startScBool).scBool true))).endScBool
        | .binop .or l r => ((cExpr r ((cExpr l g.startScBool).scBool false))).endScBool
        | .binop op l r => (cExpr r (cExpr l g)).add (binInstr op)
        | .cmp a ops =>
          let g := cExpr a g
          let r := cChain ops [] g
          let g := r.1
          match r.2 with
          | [] => g
          | jumps =>
            let jumpEnd := g.next
            let g := g.add (.jump unpatched)
            let cleanupStart := g.next
            let g := (g.add .swap).add .discardTop
            let g := g.patchAll jumps cleanupStart
            g.patch jumpEnd g.next
        | .ife c t f =>
          let g := (cExpr c g).startIf
          let g := (cExpr t g).startElse
          let g := match f with
            | some f => cExpr f g
            | none => g.add (.loadConst .undef)
          g.endIf
        | .filter name a args =>
          let g := cArgs args (cExpr a g)
          let r := g.filterId name
          r.2.add (.applyFilter name (1 + args.length) r.1)
        | .test name a args =>
          let g := cArgs args (cExpr a g)
          let r := g.testId name
          r.2.add (.performTest name (1 + args.length) r.1)
        | .getattr a name => (cExpr a g).add (.getAttr name)
        | .getitem a i => (cExpr i (cExpr a g)).add .getItem
        | .call f args =>
          -- `compile_call` + `compile_call_args` (no splats; `x.f()` method calls are outside)
          match callKind f with
          | .method => g.markOof
          | kind =>
            let extra := if kind == .function then 0 else 1
            let g := if kind == .function then g else cExpr f g
            let g := cPosArgs args g
            let argc := extra + (posArgs args).length
            let g := match kwArgs args with
              | [] => (g, argc)
              | kws =>
                match staticKwargs kws with
                | some m => (g.add (.loadConst (.kwargs m)), argc + 1)
                | none => ((cKwArgs args g).add (.buildKwargs kws.length), argc + 1)
            if kind == .function then g.1.add (.callFunction (callName f) g.2)
            else g.1.add (.callObject g.2)
        | .list items => (cList items g).add (.buildList (some items.length))
        | .map kvs => (cPairs kvs g).add (.buildMap kvs.length)
  /-- the positional arguments of a call, in order -/
  def cPosArgs : List (Option String × Expr) → CG → CG
    | [], g => g
    | (none, e) :: rest, g => cPosArgs rest (cExpr e g)
    | (some _, _) :: rest, g => cPosArgs rest g
  /-- the keyword arguments of a call as `LoadConst key; value` pairs -/
  def cKwArgs : List (Option String × Expr) → CG → CG
    | [], g => g
    | (none, _) :: rest, g => cKwArgs rest g
    | (some k, e) :: rest, g => cKwArgs rest (cExpr e (g.add (.loadConst (.str k))))
  /-- positional arguments only -/
  def cArgs : List (Option String × Expr) → CG → CG
    | [], g => g
    | (none, e) :: rest, g => cArgs rest (cExpr e g)
    | (some _, _) :: _, g => g.markOof
  def cList : List Expr → CG → CG
    | [], g => g
    | e :: rest, g => cList rest (cExpr e g)
  def cPairs : List (Expr × Expr) → CG → CG
    | [], g => g
    | (k, v) :: rest, g => cPairs rest (cExpr v (cExpr k g))
  /-- the operator loop of `compile_compare`; returns the `JumpIfFalseOrPop`s to patch -/
  def cChain : List (CmpOp × Expr) → List Nat → CG → CG × List Nat
    | [], jumps, g => (g, jumps)
    | [(op, e)], jumps, g => (emitCompare (cExpr e g) op, jumps)
    | (op, e) :: o2 :: rest, jumps, g =>
      let g := (cExpr e g).add (.compareAndPreserve op)
      let j := g.next
      cChain (o2 :: rest) (jumps ++ [j]) (g.add (.jumpIfFalseOrPop unpatched))
end

/-- the filter chain of a set-block / filter-block, applied to the captured value on the stack -/
def cFilters : List FilterApp → CG → CG
  | [], g => g
  | (name, args) :: rest, g =>
    let g := cArgs args g
    let r := g.filterId name
    cFilters rest (r.2.add (.applyFilter name (1 + args.length) r.1))

/-- parameters paired with their default (the defaults belong to the last parameters) -/
def paramDefaults (params : List String) (defaults : List Expr) : List (String × Option Expr) :=
  let n := params.length - defaults.length
  (params.zipIdx).map fun (p, i) => (p, if n ≤ i then defaults[i - n]? else none)

/-- the prologue of a macro: the arguments are on the operand stack, last one on top; they are
bound back to front, an undefined one with a default gets the default -/
def cMacroPrologue (pds : List (String × Option Expr)) (g : CG) : CG :=
  pds.reverse.foldl (fun g pd =>
    let g := match pd.2 with
      | some d => (cExpr d ((((g.add .dupTop).add .isUndefined).startIf).add .discardTop)).endIf
      | none => g
    g.add (.storeLocal pd.1)) g

/-- the epilogue of `compile_macro_expression`: closure, argument names, `BuildMacro`, and the
jump over the body is patched -/
def cMacroEpilogue (name : String) (params : List String) (closure : List String) (jumpInstr : Nat) (g : CG) : CG :=
  let g := g.add .return_
  let macroInstr := g.next
  let g := (sortNames (closure.filter (· != "caller"))).foldl (fun g n => g.add (.enclose n)) g
  let g := g.add .getClosure
  let g := g.add (.loadConst (.list (params.map Val.str)))
  let g := g.add (.buildMacro name (jumpInstr + 1) (if closure.contains "caller" then macroCallerFlag else 0))
  g.patch jumpInstr macroInstr

mutual
  /-- `compile_stmt` -/
  def cStmt : Stmt → CG → CG
    | .text t, g => g.add (.emitRaw t)
    | .emit e, g => (cExpr e g).add .emit
    | .ifS c t f, g =>
      let g := cBlock t (cExpr c g).startIf
      let g := match f with
        | [] => g
        | _ :: _ => cBlock f g.startElse
      g.endIf
    | .forS target iter filter body els, g =>
      let g := match filter with
        | some cond =>
          let g := g.add (.loadConst (.int 0))
          let g := (cExpr iter g).startForLoop false
          let g := cTarget target (g.add .dupTop)
          let g := (cExpr cond g).startIf
          let g := ((g.add .swap).add (.loadConst (.int 1))).add .add
          let g := (g.startElse.add .discardTop).endIf
          let g := (g.endForLoop false).add (.buildList none)
          g.startForLoop true
        | none => (cExpr iter g).startForLoop true
      let g := cBlock body (cTarget target g)
      match els with
      | [] => g.endForLoop false
      | _ :: _ => (cBlock els (g.endForLoop true).startIf).endIf
    | .set target e, g => cTarget target (cExpr e g)
    | .setBlock x filters body, g =>
      let g := cBlock body ((g.add .beginCapture).startScope .capture)
      let g := cFilters filters (g.endScope.add .endCapture)
      g.add (.storeLocal x)
    | .withS binds body, g =>
      let g := cBinds binds ((g.add .pushWith).startScope .with_)
      (cBlock body g).endScope.add .popFrame
    | .filterBlock filters body, g =>
      let g := cBlock body ((g.add .beginCapture).startScope .capture)
      (cFilters filters (g.endScope.add .endCapture)).add .emit
    | .macroS name params defaults body _, g =>
      -- `compile_macro`
      let j := g.next
      let g := cMacroPrologue (paramDefaults params defaults) (g.add (.jump unpatched))
      let g := cBlock body g
      (cMacroEpilogue name params (findMacroClosure params defaults body) j g).add (.storeLocal name)
    | .callBlock callee args params defaults body _, g =>
      -- `compile_call_block`: the call gets the extra keyword argument `caller=<macro>`
      match callKind callee with
      | .method => g.markOof
      | kind =>
        let extra := if kind == .function then 0 else 1
        let g := if kind == .function then g else cExpr callee g
        let g := cKwArgs args (cPosArgs args g)
        let g := g.add (.loadConst (.str "caller"))
        let j := g.next
        let g := cMacroPrologue (paramDefaults params defaults) (g.add (.jump unpatched))
        let g := cBlock body g
        let g := cMacroEpilogue "caller" params (findMacroClosure params defaults body) j g
        let g := g.add (.buildKwargs ((kwArgs args).length + 1))
        let argc := extra + (posArgs args).length + 1
        let g := if kind == .function then g.add (.callFunction (callName callee) argc) else g.add (.callObject argc)
        g.add .emit
    | .continueS, g =>
      let g := g.leaveScopes
      match CG.innermostLoopIter g.pending with
      | some iter => g.add (.jump iter)
      | none => g
    | .breakS, g =>
      let g := g.leaveScopes
      let j := g.next
      let g := g.add (.jump 0)
      { g with pending := CG.addBreakJump j g.pending }
  def cBlock : List Stmt → CG → CG
    | [], g => g
    | s :: rest, g => cBlock rest (cStmt s g)
  def cBinds : List (Target × Expr) → CG → CG
    | [], g => g
    | (t, e) :: rest, g => cBinds rest (cTarget t (cExpr e g))
end

/-- compile a template; `none` if it leaves the modelled fragment -/
def compileTemplate (prog : List Stmt) : Option (List Instr) :=
  let g := cBlock prog {}
  if g.oof || !g.pending.isEmpty then none else some g.code

end MJ.Compile
