import MJ.Model.Cmp
import MJ.Model.Coll
/-!
# The collection filters and the containment operator on template values

Concrete instances of `MJ.Coll` for `Value`s, written the way `filters.rs` / `ops.rs` / `tests.rs`
write them: `cmp_helper` (case folding only when *both* operands are strings), attribute
extraction through the string lookup of a map, `ops::contains`, the comparison tests used by
`select` / `reject` / `selectattr` / `rejectattr`, and `BTreeMap::insert` as a map literal uses it.
-/
namespace MJ.CollV
open MJ MJ.Val MJ.Cmp MJ.Coll

/-- `str::to_ascii_lowercase` on UTF-8 bytes (what `cmp_helper` uses without the `unicode` feature) -/
def lowerAscii (s : List Nat) : List Nat := s.map (fun c => if 65 ≤ c ∧ c ≤ 90 then c + 32 else c)

/-- the ordering `cmp_helper` computes before `reverse` is applied: both operands strings and not
    `case_sensitive` → compare the lower-cased texts, otherwise `Value::cmp` -/
def cmpCore (cs : Bool) (a b : V) : Ordering :=
  if cs then cmpV a b
  else
    match a, b with
    | .str x, .str y => cmpBytes (lowerAscii x) (lowerAscii y)
    | _, _ => cmpV a b

/-- `cmp_helper(a, b, case_sensitive, reverse)` -/
def cmpHelper (cs rev : Bool) (a b : V) : Ordering :=
  if rev then (cmpCore cs a b).swap else cmpCore cs a b

/-- the key `cmp_helper` effectively compares: a string is case-folded unless `case_sensitive` -/
def foldCase (cs : Bool) : V → V
  | .str s => if cs then .str s else .str (lowerAscii s)
  | v => v

/-- `value.get_path_or_default(name, default)` for a single attribute name on a `BTreeMap`/`IndexMap`
    backed map (anything else has no attributes) -/
def attrOr (m : Mode) (name : List Nat) (dflt : V) : V → V
  | .map ps =>
    match getByStr m ps name with
    | some (.undef) => dflt
    | some v => v
    | Option.none => dflt
  | _ => dflt

/-- the sort key of an item: the item itself, or its attribute -/
def keyOf (m : Mode) (attr : Option (List Nat)) (x : V) : V :=
  match attr with
  | some name => attrOr m name .undef x
  | Option.none => x

/-- `safe_sort(&mut items, |a, b| cmp_helper(&key(a), &key(b), case_sensitive, reverse))` -/
def sortKV (cs rev : Bool) (kf : V → V) (xs : List V) : List V :=
  xs.mergeSort (fun a b => cmpHelper cs rev (kf a) (kf b) != .gt)

/-- `sort(value, case_sensitive, reverse, attribute)` with no or one attribute name -/
def sortV (m : Mode) (cs rev : Bool) (attr : Option (List Nat)) (xs : List V) : List V :=
  sortKV cs rev (keyOf m attr) xs

/-- the key of `sort(attribute="a, b, …")`: `Value::from_iter` of the attributes (a list, so no case
    folding applies inside it) -/
def keyMulti (m : Mode) (names : List (List Nat)) (x : V) : V :=
  .seq (names.map (fun n => attrOr m n .undef x))

/-- `sort` with several attribute names -/
def sortMultiV (m : Mode) (cs rev : Bool) (names : List (List Nat)) (xs : List V) : List V :=
  sortKV cs rev (keyMulti m names) xs

/-- `dictsort(map, case_sensitive, reverse, by)` on the `(key, value)` pairs in iteration order -/
def dictsortV (cs rev byValue : Bool) (ps : List (V × V)) : List (V × V) :=
  ps.mergeSort (fun a b =>
    cmpHelper cs rev (if byValue then a.2 else a.1) (if byValue then b.2 else b.1) != .gt)

/-- `unique(values, case_sensitive, attribute)`; `lower` is `str::to_lowercase` (full Unicode in
    the Rust, a parameter here), `seen` the `BTreeSet` of memorised keys -/
def uniqueV (m : Mode) (lower : List Nat → List Nat) (cs : Bool) (attr : Option (List Nat)) (xs : List V) : List V :=
  uniqueLoop cmpV (fun x => match keyOf m attr x with
    | .str s => if cs then .str s else .str (lower s)
    | v => v) xs []

/-- `groupby(value, attribute, default, case_sensitive)`: the `(grouper, items)` groups -/
def groupbyV (m : Mode) (cs : Bool) (name : List Nat) (dflt : V) (xs : List V) : List (V × List V) :=
  groupLoop (cmpHelper cs false) (attrOr m name dflt)
    (xs.mergeSort (fun a b => cmpHelper cs false (attrOr m name dflt a) (attrOr m name dflt b) != .gt))
    Option.none []

/-- is `needle` a contiguous part of `hay` (`str::contains`) -/
def isInfix (needle : List Nat) : List Nat → Bool
  | [] => needle.isEmpty
  | c :: cs => needle.isPrefixOf (c :: cs) || isInfix needle cs

/-- `ops::contains(container, value)`: `none` = an `Err` (not a container) or a case that is not
    modelled (a non-string searched in a string goes through `to_string`) -/
def containsV (m : Mode) (container value : V) : Option Bool :=
  match container with
  | .undef => some false
  | .str s =>
    match value with
    | .str t => some (isInfix t s)
    | _ => Option.none
  | .seq xs => some (xs.any (fun v => eqV m v value))
  | .tuple xs => some (xs.any (fun v => eqV m v value))
  | .iter xs => some (xs.any (fun v => eqV m v value))
  | .map ps => some (getV m ps value).isSome
  | .plain _ => some false
  | _ => Option.none

/-- the binary tests `select` / `reject` (and their `attr` forms) are usually given -/
inductive Test where
  | eq | ne | lt | le | gt | ge | isIn
  deriving Repr, DecidableEq

/-- `tests::is_eq` … `is_ge` (derived `PartialOrd` operators of `Value`), `is_in` -/
def testV (m : Mode) (t : Test) (a b : V) : Bool :=
  match t with
  | .eq => eqV m a b
  | .ne => !eqV m a b
  | .lt => cmpV a b == .lt
  | .le => cmpV a b != .gt
  | .gt => cmpV a b == .gt
  | .ge => cmpV a b != .lt
  | .isIn => (containsV m b a).getD false

/-- `select_or_reject(invert, value, attr, test, [arg])` -/
def selectV (m : Mode) (invert : Bool) (attr : Option (List Nat)) (t : Test) (arg : V) (xs : List V) : List V :=
  xs.filter (fun x => testV m t (keyOf m attr x) arg != invert)

/-- `BTreeMap::insert` as a map literal `{k: v, …}` uses it: the same function that builds every
    `BTreeMap`-backed map -/
abbrev insertLit (k v : V) (ps : List (V × V)) : List (V × V) := insertB k v ps

/-- the map a literal builds -/
def mapLit (m : Mode) (ps : List (V × V)) : List (V × V) :=
  match m with
  | .btree => ps.foldl (fun acc p => insertLit p.1 p.2 acc) []
  | .index => ps.foldl (fun acc p => insertI p.1 p.2 acc) []

end MJ.CollV
