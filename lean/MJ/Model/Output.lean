import MJ.Model.Chk
/-!
# Output state machine (C19): sink, `write_all`, `WriteWrapper`, `Output`, the VM's view of it

Transcribed from `/repo/minijinja/src/output.rs`, `template.rs::render_captured_to`,
`vm/state.rs::render_block_to_write`, `vm/mod.rs` (emit sites, captures, include/super error
wrapping), `error.rs` (`From<fmt::Error>`, `with_source`) and `std::io::Write::write_all`.

* A **sink** is an `io::Write` whose `write` method behaves, call by call, as a script says
  (`Beh`): accept everything, accept at most `k` bytes (short write, `k = 0` is the zero-length
  write), accept half, or return an error.  After the script it accepts everything.  (A sink
  that answers `Interrupted` forever makes `write_all` spin forever in std as well; every
  terminating run only sees a finite script.)  The sink honours the `io::Write` contract
  `n ≤ buf.len()`.
* Every call of `write` is logged (`Call`): bytes offered and the result.  The bytes the sink
  *accepted* are derived from the log, exactly like the instrumented writer of the harness.
* `writeAll` is the loop of `std::io::Write::write_all`.
* `WriteWrapper` adapts the sink to `fmt::Write`, stores the I/O error and reports `fmt::Error`.
* `Out B` is `Output<'_>` over any `dyn fmt::Write` (`B` with a `FmtWrite` instance): the capture
  stack routes a write to the base writer, to a capture buffer or nowhere.
* A render is the sequence of output operations (`Op`) the VM performs; the VM stops at the first
  `fmt::Error`, at the first other error, or at a panic.
-/
namespace MJ.Output
open MJ

abbrev Bytes := List UInt8

/-! ## the sink -/

inductive IoKind where
  | brokenPipe | other | wouldBlock | interrupted | writeZero | timedOut
  deriving DecidableEq, Repr

/-- kinds of `minijinja::Error` (as far as a sink may carry one around) -/
inductive EngKind where
  | invalidOperation | undefinedError | writeFailure | templateNotFound | badSerialization
  deriving DecidableEq, Repr

/-- a `minijinja::Error` as *data* carried by somebody else's error: its kind and its own source
    chain (nothing, another engine error, or an `io::Error` with a message) -/
inductive EngErr where
  | leaf (k : EngKind)
  | chain (k : EngKind) (source : EngErr)
  | overIo (k : EngKind) (ioKind : IoKind) (ioId : Nat)
  deriving DecidableEq, Repr

/-- how the sink built the `io::Error` it returns — what is *inside* it.  Nothing of the engine may
    depend on this: `write_all` looks at the kind only (`is_interrupted`), the API boundary at
    nothing. -/
inductive Payload where
  | bare                                   -- `io::Error::from(kind)`
  | os (code : Nat)                        -- `io::Error::from_raw_os_error(code)`
  | msg                                    -- `io::Error::new(kind, String)`
  | custom                                 -- `io::Error::new(kind, <the sink's own error type>)`
  | engine (e : EngErr)                    -- `io::Error::new(kind, minijinja::Error)`: looks like an engine error
  | io (kind : IoKind) (inner : Payload)   -- `io::Error::new(kind, <another io::Error>)`
  deriving DecidableEq, Repr

/-- an `io::Error` produced by the sink: an opaque token.  `id` stands for its identity (the
    harness compares the address of the payload and a serial number in it), `payload` for how it
    was built. -/
structure IoErr where
  kind : IoKind
  id : Nat
  payload : Payload
  deriving DecidableEq, Repr

/-- the error `write_all` makes up when `write` returns `Ok(0)` (a constant of std, no payload) -/
def writeZeroErr : IoErr := ⟨.writeZero, 0, .bare⟩

/-- behaviour of the sink at one `write` call -/
inductive Beh where
  | all                 -- `Ok(buf.len())`
  | accept (k : Nat)    -- `Ok(min(k, buf.len()))`
  | half                -- `Ok(ceil(buf.len() / 2))`
  | err (e : IoErr)     -- `Err(e)`
  deriving DecidableEq, Repr

inductive CallRes where
  | ok (n : Nat)
  | err (e : IoErr)
  deriving DecidableEq, Repr

/-- one logged call of `io::Write::write` -/
structure Call where
  offered : Bytes
  res : CallRes
  deriving DecidableEq, Repr

def Beh.apply (b : Beh) (buf : Bytes) : CallRes :=
  match b with
  | .all => .ok buf.length
  | .accept k => .ok (min k buf.length)
  | .half => .ok ((buf.length + 1) / 2)
  | .err e => .err e

/-- the bytes the sink took at this call -/
def Call.accepted (c : Call) : Bytes :=
  match c.res with
  | .ok n => c.offered.take n
  | .err _ => []

/-- the error with which this call ends `write_all`, if it does: a non-`Interrupted` error, or
    the `WriteZero` error for `Ok(0)` -/
def Call.failure (c : Call) : Option IoErr :=
  match c.res with
  | .ok 0 => some writeZeroErr
  | .ok (_ + 1) => none
  | .err e => if e.kind = .interrupted then none else some e

/-- everything the sink accepted, in order -/
def delivered (cs : List Call) : Bytes := (cs.map Call.accepted).flatten

/-- result of one `write_all`: remaining script, the calls made, the error if any -/
structure WA where
  rest : List Beh
  calls : List Call
  err : Option IoErr
  deriving Repr

/-- `std::io::Write::write_all`:
```
while !buf.is_empty() {
    match self.write(buf) {
        Ok(0) => return Err(WriteZero),
        Ok(n) => buf = &buf[n..],
        Err(ref e) if e.is_interrupted() => {}
        Err(e) => return Err(e),
    }
}
Ok(())
``` -/
def writeAll (script : List Beh) (buf : Bytes) : WA :=
  match script with
  | [] => if buf = [] then ⟨[], [], none⟩ else ⟨[], [⟨buf, .ok buf.length⟩], none⟩
  | beh :: rest =>
    if buf = [] then ⟨beh :: rest, [], none⟩ else
    match beh.apply buf with
    | .ok 0 => ⟨rest, [⟨buf, .ok 0⟩], some writeZeroErr⟩
    | .ok (n + 1) =>
      let r := writeAll rest (buf.drop (n + 1))
      ⟨r.rest, ⟨buf, .ok (n + 1)⟩ :: r.calls, r.err⟩
    | .err e =>
      if e.kind = .interrupted then
        let r := writeAll rest buf
        ⟨r.rest, ⟨buf, .err e⟩ :: r.calls, r.err⟩
      else ⟨rest, [⟨buf, .err e⟩], some e⟩

/-! ## `fmt::Write` and its implementors -/

/-- what is handed to a `fmt::Write`: `write_str(s)` or `write_char(c)` (its UTF-8 bytes) -/
inductive Chunk where
  | str (s : Bytes)
  | chr (c : Bytes)
  deriving DecidableEq, Repr

def Chunk.bytes : Chunk → Bytes
  | .str s => s
  | .chr c => c

/-- `dyn fmt::Write`; `false` is `Err(fmt::Error)` -/
class FmtWrite (B : Type) where
  writeStr : B → Bytes → B × Bool
  writeChar : B → Bytes → B × Bool

def put {B : Type} [FmtWrite B] (b : B) : Chunk → B × Bool
  | .str s => FmtWrite.writeStr b s
  | .chr c => FmtWrite.writeChar b c

/-- `String` (the plain render) -/
instance : FmtWrite Bytes where
  writeStr b s := (b ++ s, true)
  writeChar b c := (b ++ c, true)

/-- a recorder of the chunks (used to state what the VM hands to the base writer) -/
instance : FmtWrite (List Chunk) where
  writeStr b s := (b ++ [.str s], true)
  writeChar b c := (b ++ [.chr c], true)

/-- `NullWriter` -/
instance : FmtWrite Unit where
  writeStr b _ := (b, true)
  writeChar b _ := (b, true)

/-- `WriteWrapper<W>`: the sink `w` (its remaining script and its call log) and `err` -/
structure WriteWrapper where
  script : List Beh
  calls : List Call
  err : Option IoErr
  deriving Repr

/-- `if self.err.is_some() { return Err(fmt::Error) }` — once the sink failed nothing else is
    handed to it — then `self.w.write_all(bytes).map_err(|e| { self.err = Some(e); fmt::Error })` -/
def WriteWrapper.writeBytesOk (w : WriteWrapper) (s : Bytes) : WriteWrapper × Bool :=
  let r := writeAll w.script s
  match r.err with
  | none => ({ w with script := r.rest, calls := w.calls ++ r.calls }, true)
  | some e => ({ script := r.rest, calls := w.calls ++ r.calls, err := some e }, false)

def WriteWrapper.writeBytes (w : WriteWrapper) (s : Bytes) : WriteWrapper × Bool :=
  match w.err with
  | some _ => (w, false)
  | none => w.writeBytesOk s

instance : FmtWrite WriteWrapper where
  writeStr := WriteWrapper.writeBytes
  writeChar := WriteWrapper.writeBytes

/-! ## errors -/

/-- error wrappers added while unwinding out of a nested evaluation -/
inductive Wrap where
  | badInclude   -- `perform_include`: `BadInclude` with the inner error as source
  | evalBlock    -- `perform_super`: `EvalBlock` with the inner error as source
  deriving DecidableEq, Repr

inductive Err where
  | writeFailure (source : Option IoErr)   -- `ErrorKind::WriteFailure`
  | wrapped (w : Wrap) (source : Err)
  | other (id : Nat)                       -- any error that is not about the output
  deriving DecidableEq, Repr

/-- `Error::from(fmt::Error)`: "formatting failed", no source -/
def Err.fromFmt : Err := .writeFailure none

/-- `fn write_failure(io_err: io::Error) -> Error`:
    `Error::new(ErrorKind::WriteFailure, "I/O error during rendering").with_source(io_err)` — the
    sink's error goes in as it is; nothing of it is looked at (tie: `MJ.Gen.c19BoundaryBodies`) -/
def writeFailure (io : IoErr) : Err := .writeFailure (some io)

/-- `WriteWrapper::take_err`: `self.err.take().map(write_failure).unwrap_or(original)` -/
def WriteWrapper.takeErr (w : WriteWrapper) (original : Err) : Err :=
  (w.err.map writeFailure).getD original

/-- `WriteWrapper::check`:
    `match self.err.take() { Some(io_err) => Err(write_failure(io_err)), None => Ok(rv) }` -/
def WriteWrapper.check (w : WriteWrapper) : Except Err Unit :=
  match w.err with
  | some io => .error (writeFailure io)
  | none => .ok ()

/-- what an error token would turn into if somebody *unwrapped* it instead of wrapping it: the
    engine error it carries (used only to state that this never happens) -/
def EngKind.code : EngKind → Nat
  | .invalidOperation => 1 | .undefinedError => 2 | .writeFailure => 3
  | .templateNotFound => 4 | .badSerialization => 5

def EngErr.kind : EngErr → EngKind
  | .leaf k => k
  | .chain k _ => k
  | .overIo k _ _ => k

def EngErr.toErr (e : EngErr) : Err :=
  match e.kind with
  | .writeFailure =>
    match e with
    | .overIo _ ik iid => .writeFailure (some ⟨ik, iid, .msg⟩)
    | _ => .writeFailure none
  | k => .other (1000 + k.code)

def IoErr.unwrapped (io : IoErr) : Option Err :=
  match io.payload with
  | .engine e => some e.toErr
  | _ => none

/-! ## `Output` -/

/-- `Output<'_>`: the base writer and the capture stack (`Some(buf)` capture, `None` discard) -/
structure Out (B : Type) where
  w : B
  stack : List (Option Bytes)

/-- `Output::write_str` / `write_char` / `write_fmt` pieces: go to `self.target` -/
def Out.write {B : Type} [FmtWrite B] (o : Out B) (c : Chunk) : Out B × Bool :=
  match o.stack with
  | [] => let r := put o.w c; ({ o with w := r.1 }, r.2)
  | some buf :: rest => ({ o with stack := some (buf ++ c.bytes) :: rest }, true)
  | none :: _ => (o, true)

def Out.beginCapture {B : Type} (o : Out B) (discard : Bool) : Out B :=
  { o with stack := (if discard then none else some []) :: o.stack }

/-- `end_capture`: `self.capture_stack.pop().unwrap()`; the value goes to the VM stack -/
def Out.endCapture {B : Type} (o : Out B) : Chk (Out B × Option Bytes) :=
  match o.stack with
  | [] => .panic
  | top :: rest => .ok ({ o with stack := rest }, top)

/-! ## the VM as a producer of output operations -/

inductive Op where
  | write (c : Chunk)              -- `EmitRaw`, every piece written by `Emit`
  | beginCapture (discard : Bool)  -- set/filter/call blocks, macros' callers, `super()`, `loop()`, extends
  | endCapture
  | enter (w : Wrap)               -- start of an include / super evaluation
  | leave                          -- its normal end
  | panic                          -- user code unwinds (e.g. `to_string()` of a value whose `Display` fails)
  | fail (e : Err)                 -- an error not caused by the sink: a template error (`.other`), or user formatting code returning `fmt::Error` by itself (`Err.fromFmt`)
  deriving DecidableEq, Repr

structure St (B : Type) where
  out : Out B
  wraps : List Wrap

/-- the error as seen by the API boundary: wrapped once per nested evaluation being unwound -/
def wrapAll (ws : List Wrap) (e : Err) : Err := ws.foldl (fun e w => .wrapped w e) e

/-- how one operation ends: `none` = go on -/
abbrev Halt := Option (Chk Err)

def step {B : Type} [FmtWrite B] (op : Op) (st : St B) : St B × Halt :=
  match op with
  | .write c =>
    let r := st.out.write c
    ({ st with out := r.1 }, if r.2 then none else some (.ok (wrapAll st.wraps Err.fromFmt)))
  | .beginCapture d => ({ st with out := st.out.beginCapture d }, none)
  | .endCapture =>
    match st.out.endCapture with
    | .ok (o, _) => ({ st with out := o }, none)
    | .panic => (st, some .panic)
  | .enter w => ({ st with wraps := w :: st.wraps }, none)
  | .leave => ({ st with wraps := st.wraps.tail }, none)
  | .fail e => (st, some (.ok (wrapAll st.wraps e)))
  | .panic => (st, some .panic)

/-- the evaluation loop: stops at the first error (`ok!`/`ctx_ok!` at every emit site) -/
def run {B : Type} [FmtWrite B] : List Op → St B → St B × Chk (Except Err Unit)
  | [], st => (st, .ok (.ok ()))
  | op :: ops, st =>
    match step op st with
    | (st', none) => run ops st'
    | (st', some (.ok e)) => (st', .ok (.error e))
    | (st', some .panic) => (st', .panic)

def St.init {B : Type} (b : B) : St B := ⟨⟨b, []⟩, []⟩

/-! ## API boundaries -/

structure Outcome where
  calls : List Call
  result : Chk (Except Err Unit)
  deriving Repr

/-- `WriteWrapper::check` / `take_err` at the API boundary: the held I/O error wins over whatever
    the evaluation returned, also over `Ok` (the error may have been dropped by user code) -/
def WriteWrapper.finish (w : WriteWrapper) : Chk (Except Err Unit) → Chk (Except Err Unit)
  | .ok (.error e) => .ok (.error (w.takeErr e))
  | .ok (.ok ()) => .ok w.check
  | .panic => .panic

/-- `Template::render_captured_to` / `State::render_block_to_write`:
    `Output::new(&mut WriteWrapper { w, err: None })`, evaluate, then
    `Ok(x) => wrapper.check(x)`, `Err(e) => Err(wrapper.take_err(e))` -/
def renderTo (ops : List Op) (script : List Beh) : Outcome :=
  let r := run ops (St.init (⟨script, [], none⟩ : WriteWrapper))
  ⟨r.1.out.w.calls, r.1.out.w.finish r.2⟩

structure StrOutcome where
  buf : Bytes        -- content of the `String` when the evaluation stopped
  result : Chk (Except Err Unit)
  deriving Repr

/-- `Template::render` / `State::render_block`: `Output::new(&mut String)` -/
def renderString (ops : List Op) : StrOutcome :=
  let r := run ops (St.init ([] : Bytes))
  ⟨r.1.out.w, r.2⟩

/-- `Expression::eval`: `Output::null()` — the `NullWriter` under one discarding entry -/
def renderNull (ops : List Op) : Chk (Except Err Unit) :=
  (run ops (⟨⟨(), [none]⟩, []⟩ : St Unit)).2

/-- the chunks the VM hands to the base writer when nothing fails -/
def chunksOf (ops : List Op) : List Chunk := (run ops (St.init ([] : List Chunk))).1.out.w

/-! ## user code that ignores the result of a write

A custom formatter or an `Object::render` may drop the `fmt::Error` of a write and go on (writing
more, returning `Ok`, returning some other error).  `UOp.writeIgn` is such a write: the evaluation
does not stop at it. -/

inductive UOp where
  | strict (o : Op)
  | writeIgn (c : Chunk)
  deriving DecidableEq, Repr

def stepU {B : Type} [FmtWrite B] (u : UOp) (st : St B) : St B × Halt :=
  match u with
  | .strict o => step o st
  | .writeIgn c => ({ st with out := (st.out.write c).1 }, none)

def runU {B : Type} [FmtWrite B] : List UOp → St B → St B × Chk (Except Err Unit)
  | [], st => (st, .ok (.ok ()))
  | u :: us, st =>
    match stepU u st with
    | (st', none) => runU us st'
    | (st', some (.ok e)) => (st', .ok (.error e))
    | (st', some .panic) => (st', .panic)

/-- the same operations with well-behaved user code (every write result is respected) -/
def strictU : List UOp → List Op
  | [] => []
  | .strict o :: us => o :: strictU us
  | .writeIgn c :: us => .write c :: strictU us

def renderToU (uops : List UOp) (script : List Beh) : Outcome :=
  let r := runU uops (St.init (⟨script, [], none⟩ : WriteWrapper))
  ⟨r.1.out.w.calls, r.1.out.w.finish r.2⟩

/-! ## user code as a strategy

`UOp.writeIgn` is user code that ignores a result.  In general user code (a custom formatter, an
`Object::render`, a `Display` impl) *sees* the result of each of its writes and may do anything
with it: stop, go on writing something else, report `Ok` or `Err(fmt::Error)`.  `UserCode` is such
a strategy; the theorems quantify over all of them. -/

inductive UserCode where
  /-- return `Ok(())` (`true`) or `Err(fmt::Error)` -/
  | ret (ok : Bool)
  /-- write `c` (through any method of `fmt::Write` / `Formatter` / `Output`), then go on
      depending on whether that write succeeded -/
  | write (c : Chunk) (k : Bool → UserCode)

def UserCode.run {B : Type} [FmtWrite B] : UserCode → Out B → Out B × Bool
  | .ret ok, o => (o, ok)
  | .write c k, o => (k (o.write c).2).run (o.write c).1

/-- operations of a render in which user code takes part -/
inductive XOp where
  | strict (o : Op)
  /-- a call of user formatting code; `Err(fmt::Error)` from it stops the evaluation
      (`Error::from(fmt::Error)`), `Ok` lets it go on -/
  | user (u : UserCode)

def stepX {B : Type} [FmtWrite B] (x : XOp) (st : St B) : St B × Halt :=
  match x with
  | .strict o => step o st
  | .user u =>
    ({ st with out := (u.run st.out).1 },
      if (u.run st.out).2 then none else some (.ok (wrapAll st.wraps Err.fromFmt)))

def runX {B : Type} [FmtWrite B] : List XOp → St B → St B × Chk (Except Err Unit)
  | [], st => (st, .ok (.ok ()))
  | x :: xs, st =>
    match stepX x st with
    | (st', none) => runX xs st'
    | (st', some (.ok e)) => (st', .ok (.error e))
    | (st', some .panic) => (st', .panic)

def renderToX (xops : List XOp) (script : List Beh) : Outcome :=
  let r := runX xops (St.init (⟨script, [], none⟩ : WriteWrapper))
  ⟨r.1.out.w.calls, r.1.out.w.finish r.2⟩

/-- the plain render of the same operations: every write succeeds, so every strategy takes its
    all-writes-succeeded path -/
def renderStringX (xops : List XOp) : StrOutcome :=
  let r := runX xops (St.init ([] : Bytes))
  ⟨r.1.out.w, r.2⟩

/-- `Track` in `DynObject::render_guarded`: `failed |= rv.is_err()` over the results of the
    object's writes (`true` = the write succeeded) -/
def trackFailed (results : List Bool) : Bool :=
  results.foldl (fun failed ok => failed || !ok) false

/-! ## specification helpers -/

/-- delete everything that happens inside captures, and the capture brackets themselves
    (`d` = number of captures open at this point) -/
def erase : Nat → List Op → List Op
  | _, [] => []
  | d, .write c :: ops => if d = 0 then .write c :: erase d ops else erase d ops
  | d, .beginCapture _ :: ops => erase (d + 1) ops
  | d, .endCapture :: ops => if d = 0 then .endCapture :: erase 0 ops else erase (d - 1) ops
  | d, .enter w :: ops => .enter w :: erase d ops
  | d, .leave :: ops => .leave :: erase d ops
  | d, .fail id :: ops => .fail id :: erase d ops
  | d, .panic :: ops => .panic :: erase d ops

/-- no `end_capture` without a matching `begin_capture` (what the code generator guarantees)
    and no user code that unwinds -/
def balanced : Nat → List Op → Bool
  | _, [] => true
  | d, .beginCapture _ :: ops => balanced (d + 1) ops
  | 0, .endCapture :: _ => false
  | d + 1, .endCapture :: ops => balanced d ops
  | d, .write _ :: ops => balanced d ops
  | d, .enter _ :: ops => balanced d ops
  | d, .leave :: ops => balanced d ops
  | d, .fail _ :: ops => balanced d ops
  | _, .panic :: _ => false

/-! ## structured renders

The flat operation sequence above abstracts a structured evaluation in which what is written
*later* may depend on what was captured *earlier* (a set block printed afterwards, a filter block,
the string returned by a macro or by `super()`).  `Prog` makes that dependency explicit (`capture`
hands the captured value to the rest of the program), `exec` evaluates it the way the VM does
(errors of nested evaluations are wrapped on the way out), and `flatten` computes the operation
sequence — without looking at the writer. -/

/-- the writer of an `Output` of its own that a nested evaluation creates -/
inductive Fresh where
  /-- `Output::new(&mut String)`: a macro, a call block's `caller()`, `State::render_block` -/
  | string
  /-- `Output::null()`: `Expression::eval` -/
  | null
  /-- `Output::new(&mut WriteWrapper { w, err: None })` over another sink with this behaviour:
      `State::render_block_to_write` called from a function / filter / test during a render -/
  | sink (script : List Beh)

inductive Prog where
  | skip
  | emit (c : Chunk)
  | fail (e : Err)
  | seq (a b : Prog)
  /-- `begin_capture(mode)`, body, `end_capture()`; the value (`none` for a discard) is available
      to everything that follows -/
  | capture (discard : Bool) (body : Prog) (k : Option Bytes → Prog)
  /-- include / super: evaluate `body`, wrap its error -/
  | nested (w : Wrap) (body : Prog)
  /-- evaluate `body` on an `Output` of its own (macro call, `caller()`, `Expression::eval`,
      block rendering from a function); the string it built is available to what follows, an
      error of it is the error of the call -/
  | own (f : Fresh) (body : Prog) (k : Bytes → Prog)

/-- how the caller goes on after an evaluation on an `Output` of its own -/
def ownThen {α : Type} (r : Bytes × Chk (Except Err Unit)) (ok : Bytes → α)
    (bad : Chk (Except Err Unit) → α) : α :=
  match r with
  | (v, .ok (.ok ())) => ok v
  | (_, res) => bad res

/-- big-step evaluation against an `Output` -/
def exec : {B : Type} → [FmtWrite B] → Prog → Out B → Out B × Chk (Except Err Unit)
  | _, _, .skip, o => (o, .ok (.ok ()))
  | _, _, .emit c, o =>
    let r := o.write c
    (r.1, if r.2 then .ok (.ok ()) else .ok (.error Err.fromFmt))
  | _, _, .fail e, o => (o, .ok (.error e))
  | _, _, .seq a b, o =>
    match exec a o with
    | (o', .ok (.ok ())) => exec b o'
    | r => r
  | _, _, .capture d body k, o =>
    match exec body (o.beginCapture d) with
    | (o', .ok (.ok ())) =>
      match o'.endCapture with
      | .ok (o'', v) => exec (k v) o''
      | .panic => (o', .panic)
    | r => r
  | _, _, .nested w body, o =>
    match exec body o with
    | (o', .ok (.error e)) => (o', .ok (.error (.wrapped w e)))
    | r => r
  | _, _, .own f body k, o =>
    ownThen
      (match f with
      | .string => ((exec body (⟨([] : Bytes), []⟩ : Out Bytes)).1.w, (exec body (⟨([] : Bytes), []⟩ : Out Bytes)).2)
      | .null => ([], (exec body (⟨(), [none]⟩ : Out Unit)).2)
      | .sink script =>
        ([], (exec body (⟨(⟨script, [], none⟩ : WriteWrapper), []⟩ : Out WriteWrapper)).1.w.finish
          (exec body (⟨(⟨script, [], none⟩ : WriteWrapper), []⟩ : Out WriteWrapper)).2))
      (fun v => exec (k v) o) (fun res => (o, res))

/-- the evaluation of an `own` body: the string it builds and how it ends.  It does not depend
    on the `Output` of the caller. -/
def ownRun (f : Fresh) (body : Prog) : Bytes × Chk (Except Err Unit) :=
  match f with
  | .string => ((exec body (⟨([] : Bytes), []⟩ : Out Bytes)).1.w, (exec body (⟨([] : Bytes), []⟩ : Out Bytes)).2)
  | .null => ([], (exec body (⟨(), [none]⟩ : Out Unit)).2)
  | .sink script =>
    ([], (exec body (⟨(⟨script, [], none⟩ : WriteWrapper), []⟩ : Out WriteWrapper)).1.w.finish
      (exec body (⟨(⟨script, [], none⟩ : WriteWrapper), []⟩ : Out WriteWrapper)).2)

/-- what the sink of a `Fresh.sink` evaluation saw and what the call returned -/
def ownOutcome (script : List Beh) (body : Prog) : Outcome :=
  let x := exec body (⟨(⟨script, [], none⟩ : WriteWrapper), []⟩ : Out WriteWrapper)
  ⟨x.1.w.calls, x.1.w.finish x.2⟩

/-- what a program that runs to completion writes to the target that is current at its start -/
def written : Prog → Bytes
  | .skip => []
  | .emit c => c.bytes
  | .fail _ => []
  | .seq a b => written a ++ written b
  | .capture d body k => written (k (if d then none else some (written body)))
  | .nested _ body => written body
  | .own f body k => written (k (ownRun f body).1)

/-- the operation sequence of a structured program (independent of any writer): what happens on
    an `Output` of its own is not among the operations of this one; only its failure is -/
def flatten : Prog → List Op
  | .skip => []
  | .emit c => [.write c]
  | .fail id => [.fail id]
  | .seq a b => flatten a ++ flatten b
  | .capture d body k =>
    .beginCapture d :: (flatten body ++ .endCapture :: flatten (k (if d then none else some (written body))))
  | .nested w body => .enter w :: (flatten body ++ [.leave])
  | .own f body k =>
    match (ownRun f body).2 with
    | .ok (.ok ()) => flatten (k (ownRun f body).1)
    | .ok (.error e) => [.fail e]
    | .panic => [.panic]

/-- the writer API on a structured program -/
def renderProgTo (p : Prog) (script : List Beh) : Outcome :=
  let r := exec p (⟨(⟨script, [], none⟩ : WriteWrapper), []⟩ : Out WriteWrapper)
  ⟨r.1.w.calls, r.1.w.finish r.2⟩

/-- the plain render of a structured program -/
def renderProgString (p : Prog) : StrOutcome :=
  let r := exec p (⟨([] : Bytes), []⟩ : Out Bytes)
  ⟨r.1.w, r.2⟩

end MJ.Output
