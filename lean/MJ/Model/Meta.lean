/-!
# C18 — model of `compiler/meta.rs` (find_undeclared) and of run-time name resolution

Two artefacts over one AST (single-file templates: no include/import/extends/block):

* `findUndeclared` — transcription of `find_undeclared(t, false)` /
  `AssignmentTracker` / `track_walk` / `track_assign` / `tracker_visit_expr` /
  `tracker_visit_macro` / `find_macro_closure` of `minijinja/src/compiler/meta.rs`
  (scope stack `assigned : Vec<HashSet>`, `out : HashSet`; sets are lists here, only
  membership is ever observed).
* `reads` — reference semantics of NAME RESOLUTION ONLY of the code that
  `compiler/codegen.rs` emits and `vm/context.rs: Context::load` executes: which names are
  asked from the render context (the `ctx` of the root frame).  Values are not modelled; every
  data-dependent decision (branch taken, number of loop items, number of macro invocations) is
  supplied by a *choice tree* `Ch` that mirrors the statement structure, so the set of all
  choice trees covers whatever control flow a render takes.

Run-time facts the semantics encodes (with their source):

* `Context::load` walks the frames from the top; a name reaches the context only when no
  frame has it in `locals`, it is not `loop` below a loop frame, and it is not in the
  `closure_context` of a macro frame.  A frame is modelled as the list of names bound in it.
* `Context::store` writes into the top frame only, therefore `exec` receives the top frame
  and the frames below separately and returns the new top frame: lower frames cannot change.
* frames are pushed by `PushWith` (with blocks), `PushLoop` (for loops) and macro calls only;
  `if`, `autoescape`, `filter`, `set` blocks run in the current frame.
* `Stmt::Set`: right-hand side first, then `StoreLocal`; `WithBlock`: `PushWith`, then for each
  pair the expression (in the new frame) and the store; `SetBlock`: body, filter, store;
  `FilterBlock`: body then filter; `AutoEscape`: expression then body.
* `compile_for_loop`: iterable evaluated outside; with a filter a first loop frame without the
  loop variable binds the target and evaluates the filter per item; then a loop frame with
  `loop`; `next_loop_item` clears the frame's locals before every item, so every iteration
  starts from the same frame; the else body runs after `PopLoopFrame`, in the outer frame.
* `compile_macro_expression`: at the declaration `Enclose(n)` looks up every `n` in
  `find_macro_closure(m) \ {caller}` (that is the same analysis, run on the macro alone) and
  stores it in the frame's closure — *before* `StoreLocal(name)`.  A call runs the body in a
  fresh context `[closure frame, base frame]`; `caller` is stored as a local iff the closure
  analysis saw `caller`; arguments are bound back to front, a default is evaluated right
  before its argument is bound.
* Expressions never bind names.  Expression-level control flow (`and`/`or`, `x if c else y`,
  chained comparisons, constant folding, the special forms `loop(..)`, `super()`, `self.b()`)
  can only *skip* look-ups, so an expression is over-approximated by the look-up of every
  variable leaf (`vars`, in the order `tracker_visit_expr` visits them).
* Errors abort a render: the look-ups of an aborted render are a prefix of the look-ups of
  the run that the same choices describe, so they are covered.
* Macro bodies run when the macro is called, which may be anywhere later and any number of
  times; the frames a call sees depend only on the declaration (closure names), so the body
  executions are accounted for at the declaration, once per entry of the choice tree.

Not modelled (validated by the oracle of the harness only): recursive loops re-entering their
body through `loop(..)`, `{% break %}`/`{% continue %}`, blocks/includes/imports, the
`nested = true` mode of the analysis, debug-mode error reports.
-/

namespace MJ.Meta

/-! ## AST (`compiler/ast.rs`; spans and constant values dropped, operator kinds dropped) -/

mutual
inductive Expr where
  | var (id : String)
  | const
  | slice (e : Expr) (start stop step : Option Expr)
  | unary (e : Expr)
  | binop (l r : Expr)
  | compare (e : Expr) (ops : List Expr)
  | ifExpr (c t : Expr) (f : Option Expr)
  | filter (name : String) (e : Option Expr) (args : List CallArg)
  | test (name : String) (e : Expr) (args : List CallArg)
  | getattr (e : Expr) (name : String)
  | getitem (e s : Expr)
  | call (e : Expr) (args : List CallArg)
  | list (items : List Expr)
  | tuple (items : List Expr)
  /-- `keys.zip(values)` flattened: `k₁, v₁, k₂, v₂, …` -/
  | map (kvs : List Expr)
inductive CallArg where
  | pos (e : Expr)
  | kwarg (k : String) (e : Expr)
  | posSplat (e : Expr)
  | kwargSplat (e : Expr)
end

inductive Stmt where
  | emit (e : Expr)
  | raw
  | forLoop (target iter : Expr) (filter : Option Expr) (body els : List Stmt)
  | ifCond (c : Expr) (t f : List Stmt)
  | withBlock (assigns : List (Expr × Expr)) (body : List Stmt)
  | set (target e : Expr)
  | setBlock (target : Expr) (filter : Option Expr) (body : List Stmt)
  | autoEscape (e : Expr) (body : List Stmt)
  | filterBlock (filter : Expr) (body : List Stmt)
  /-- `Macro { name, args, defaults, body }`; the parser only produces `Var` arguments -/
  | macro (name : String) (args : List String) (defaults : List Expr) (body : List Stmt)
  /-- `CallBlock { call: Call { expr, args }, macro_decl }` (the macro is named `caller`) -/
  | callBlock (callee : Expr) (cargs : List CallArg)
      (args : List String) (defaults : List Expr) (body : List Stmt)
  | doStmt (callee : Expr) (cargs : List CallArg)

/-! ## variable leaves of an expression, in the order of `tracker_visit_expr` -/

/-- `Call::identify_call() == CallType::Block(_)` (feature `multi_template`): `self.name(..)`
renders a block (`Instruction::CallBlock`) and looks nothing up; `tracker_visit_call` skips
the callee in that case. -/
def isSelfBlockCall : Expr → Bool
  | .getattr (.var id) _ => id == "self"
  | _ => false

mutual
def vars : Expr → List String
  | .var id => [id]
  | .const => []
  | .slice e a b c => vars e ++ (varsOpt a ++ (varsOpt b ++ varsOpt c))
  | .unary e => vars e
  | .binop l r => vars l ++ vars r
  | .compare e ops => vars e ++ varsList ops
  | .ifExpr c t f => vars c ++ (vars t ++ varsOpt f)
  | .filter _ e args => varsOpt e ++ varsArgs args
  | .test _ e args => vars e ++ varsArgs args
  | .getattr e _ => vars e
  | .getitem e s => vars e ++ vars s
  | .call e args => (if isSelfBlockCall e then [] else vars e) ++ varsArgs args
  | .list items => varsList items
  | .tuple items => varsList items
  | .map kvs => varsList kvs
def varsOpt : Option Expr → List String
  | none => []
  | some e => vars e
def varsList : List Expr → List String
  | [] => []
  | e :: es => vars e ++ varsList es
def varsArg : CallArg → List String
  | .pos e => vars e
  | .kwarg _ e => vars e
  | .posSplat e => vars e
  | .kwargSplat e => vars e
def varsArgs : List CallArg → List String
  | [] => []
  | a :: as => varsArg a ++ varsArgs as
end

/-- `tracker_visit_call` on a `Call { expr, args }` -/
def varsCall (callee : Expr) (cargs : List CallArg) : List String :=
  (if isSelfBlockCall callee then [] else vars callee) ++ varsArgs cargs

/-! ## assignment targets

`track_assign` (analysis) and `compile_assignment` (code) recurse over the target in the same
way: a `Var` is assigned/stored, a `List` (the analysis also accepts `Tuple`) is unpacked item
by item, a `GetAttr` (`set ns.attr = …`) *looks up* its base expression and assigns nothing. -/

inductive TAtom where
  | name (x : String)
  | look (e : Expr)

mutual
def targetAtoms : Expr → List TAtom
  | .var x => [.name x]
  | .list items => targetAtomsL items
  | .tuple items => targetAtomsL items
  | .getattr e _ => [.look e]
  | _ => []
def targetAtomsL : List Expr → List TAtom
  | [] => []
  | e :: es => targetAtoms e ++ targetAtomsL es
end

/-! ## the analysis (`meta.rs`) -/

structure St where
  /-- `out: HashSet<&str>` -/
  out : List String
  /-- `assigned: Vec<HashSet<&str>>`, head = `last()` -/
  assigned : List (List String)
  /-- a `last_mut().unwrap()` on an empty stack happened (Rust would panic) -/
  bad : Bool := false

def St.isAssigned (st : St) (x : String) : Bool := st.assigned.any (·.contains x)

def St.assign (st : St) (x : String) : St :=
  match st.assigned with
  | f :: fs => { st with assigned := (x :: f) :: fs }
  | [] => { st with bad := true }

def St.push (st : St) : St := { st with assigned := [] :: st.assigned }

def St.pop (st : St) : St := { st with assigned := st.assigned.tail }

/-- `Expr::Var` case of `tracker_visit_expr` with `nested_out = None` -/
def visitVar (st : St) (x : String) : St :=
  if st.isAssigned x then st else ({ st with out := x :: st.out }).assign x

def visitVars (st : St) (xs : List String) : St := xs.foldl visitVar st

def visitExpr (st : St) (e : Expr) : St := visitVars st (vars e)

def visitOpt (st : St) (e : Option Expr) : St := visitVars st (varsOpt e)

def trackAtom (st : St) : TAtom → St
  | .name x => st.assign x
  | .look e => visitExpr st e

/-- `track_assign` -/
def trackAssign (st : St) (target : Expr) : St := (targetAtoms target).foldl trackAtom st

/-- the loop of `tracker_visit_macro` over `args.rev()` / `defaults.rev()` -/
def macroArgs (st : St) : List String → List Expr → St
  | [], _ => st
  | a :: as, [] => macroArgs (st.assign a) as []
  | a :: as, d :: ds => macroArgs ((visitExpr st d).assign a) as ds

def withAssigns (st : St) : List (Expr × Expr) → St
  | [] => st
  | (t, e) :: rest => withAssigns (trackAssign (visitExpr st e) t) rest

mutual
/-- `track_walk` -/
def walk (st : St) : Stmt → St
  | .emit e => visitExpr st e
  | .raw => st
  | .forLoop target iter filter body els =>
      let st := st.push
      let st := visitExpr st iter
      let st := trackAssign st target
      let st := visitOpt st filter
      let st := st.assign "loop"
      let st := walkList st body
      let st := st.pop
      let st := st.push
      let st := walkList st els
      st.pop
  | .ifCond c t f =>
      let st := visitExpr st c
      let st := st.push
      let st := walkList st t
      let st := st.pop
      let st := st.push
      let st := walkList st f
      st.pop
  | .withBlock assigns body =>
      let st := st.push
      let st := withAssigns st assigns
      let st := walkList st body
      st.pop
  | .set target e =>
      let st := visitExpr st e
      trackAssign st target
  | .autoEscape e body =>
      let st := visitExpr st e
      let st := st.push
      let st := walkList st body
      st.pop
  | .filterBlock filter body =>
      let st := st.push
      let st := walkList st body
      let st := st.pop
      visitExpr st filter
  | .setBlock target filter body =>
      let st := st.push
      let st := walkList st body
      let st := st.pop
      let st := visitOpt st filter
      trackAssign st target
  | .macro name args defaults body =>
      let st := st.assign name
      let st := st.push
      -- tracker_visit_macro(stmt, state, declare_caller = true)
      let st := st.assign "caller"
      let st := macroArgs st args.reverse defaults.reverse
      let st := walkList st body
      st.pop
  | .callBlock callee cargs args defaults body =>
      let st := visitVars st (varsCall callee cargs)
      let st := st.push
      let st := st.assign "caller"
      let st := macroArgs st args.reverse defaults.reverse
      let st := walkList st body
      st.pop
  | .doStmt callee cargs => visitVars st (varsCall callee cargs)
def walkList (st : St) : List Stmt → St
  | [] => st
  | s :: ss => walkList (walk st s) ss
end

/-- `AssignmentTracker { out: {}, nested_out: None, assigned: vec![{}] }` -/
def St.init : St := { out := [], assigned := [[]] }

/-- `find_undeclared(&Stmt::Template { children }, false)` -/
def findUndeclared (t : List Stmt) : List String := (walkList St.init t).out

/-- `find_macro_closure(m)`: `tracker_visit_macro(m, state, declare_caller = false)` on a
fresh tracker -/
def macroClosureSt (args : List String) (defaults : List Expr) (body : List Stmt) : St :=
  walkList (macroArgs St.init args.reverse defaults.reverse) body

def findMacroClosure (args : List String) (defaults : List Expr) (body : List Stmt) : List String :=
  (macroClosureSt args defaults body).out

/-- the names `compile_macro_expression` emits `Enclose` for -/
def closureNames (args : List String) (defaults : List Expr) (body : List Stmt) : List String :=
  (findMacroClosure args defaults body).filter (· != "caller")

/-- `caller_reference` (flag `MACRO_CALLER`) -/
def callerRef (args : List String) (defaults : List Expr) (body : List Stmt) : Bool :=
  (findMacroClosure args defaults body).contains "caller"

/-! ## run-time name resolution -/

abbrev Frame := List String

/-- is `x` resolved by a frame (so that `Context::load` does not reach the context) -/
def bound (top : Frame) (below : List Frame) (x : String) : Bool :=
  top.contains x || below.any (·.contains x)

/-- look-ups of an expression: every variable leaf that no frame resolves -/
def lookups (top : Frame) (below : List Frame) (xs : List String) : List String :=
  xs.filter (fun x => !bound top below x)

/-- choice tree: `n` = the decision taken at this statement, `subs` = choices for the
executions of sub-bodies -/
inductive Ch where
  | mk (n : Nat) (subs : List (List Ch))

def Ch.n : Ch → Nat
  | .mk n _ => n

def Ch.subs : Ch → List (List Ch)
  | .mk _ s => s

def Ch.sub0 (c : Ch) : List Ch := c.subs.headD []

def Ch.default : Ch := .mk 0 []

/-- `compile_assignment`: stores and the look-up of `set ns.attr` -/
def bindAtoms (top : Frame) (below : List Frame) : List TAtom → Frame × List String
  | [] => (top, [])
  | .name x :: rest => bindAtoms (x :: top) below rest
  | .look e :: rest =>
      let r := bindAtoms top below rest
      (r.1, lookups top below (vars e) ++ r.2)

/-- with-block assignments, in the freshly pushed frame -/
def bindWith (top : Frame) (below : List Frame) : List (Expr × Expr) → Frame × List String
  | [] => (top, [])
  | (t, e) :: rest =>
      let r0 := lookups top below (vars e)
      let r1 := bindAtoms top below (targetAtoms t)
      let r2 := bindWith r1.1 below rest
      (r2.1, r0 ++ (r1.2 ++ r2.2))

/-- macro prologue over `args.rev()` / `defaults.rev()`: a default is evaluated (when the
argument is undefined — over-approximated as always) right before its argument is stored -/
def bindArgs (top : Frame) (below : List Frame) : List String → List Expr → Frame × List String
  | [], _ => (top, [])
  | a :: as, [] => bindArgs (a :: top) below as []
  | a :: as, d :: ds =>
      let r := bindArgs (a :: top) below as ds
      (r.1, lookups top below (vars d) ++ r.2)

/-- the frame a macro body starts in: `closure_context` + the `caller` local -/
def macroFrame (args : List String) (defaults : List Expr) (body : List Stmt) : Frame :=
  (if callerRef args defaults body then ["caller"] else []) ++ closureNames args defaults body

mutual
/-- look-ups of one statement, started with top frame `top` above `below`;
returns the new top frame and the context keys asked -/
def exec (top : Frame) (below : List Frame) (c : Ch) : Stmt → Frame × List String
  | .emit e => (top, lookups top below (vars e))
  | .raw => (top, [])
  | .forLoop target iter filter body els =>
      let r0 := lookups top below (vars iter)
      if c.n = 0 then
        -- nothing to iterate: else body in the outer frame
        let r := execList top below c.sub0 els
        (r.1, r0 ++ r.2)
      else
        -- filter pass: frame without `loop`, target bound
        let ft := bindAtoms [] (top :: below) (targetAtoms target)
        let rf := ft.2 ++ lookups ft.1 (top :: below) (varsOpt filter)
        if c.n = 1 then
          -- every item filtered out: else body
          let r := execList top below c.sub0 els
          (r.1, r0 ++ (rf ++ r.2))
        else
          -- one entry of `subs` per iteration; each starts from the cleared loop frame
          let it := bindAtoms ["loop"] (top :: below) (targetAtoms target)
          let rb := c.subs.flatMap (fun kid => (execList it.1 (top :: below) kid body).2)
          (top, r0 ++ (rf ++ (it.2 ++ rb)))
  | .ifCond e t f =>
      let r0 := lookups top below (vars e)
      if c.n = 0 then
        let r := execList top below c.sub0 f
        (r.1, r0 ++ r.2)
      else
        let r := execList top below c.sub0 t
        (r.1, r0 ++ r.2)
  | .withBlock assigns body =>
      let w := bindWith [] (top :: below) assigns
      let r := execList w.1 (top :: below) c.sub0 body
      (top, w.2 ++ r.2)
  | .set target e =>
      let r0 := lookups top below (vars e)
      let r := bindAtoms top below (targetAtoms target)
      (r.1, r0 ++ r.2)
  | .autoEscape e body =>
      let r0 := lookups top below (vars e)
      let r := execList top below c.sub0 body
      (r.1, r0 ++ r.2)
  | .filterBlock filter body =>
      let r := execList top below c.sub0 body
      (r.1, r.2 ++ lookups r.1 below (vars filter))
  | .setBlock target filter body =>
      let r := execList top below c.sub0 body
      let rf := lookups r.1 below (varsOpt filter)
      let r2 := bindAtoms r.1 below (targetAtoms target)
      (r2.1, r.2 ++ (rf ++ r2.2))
  | .macro name args defaults body =>
      -- Enclose(n) for every closure name, then BuildMacro, StoreLocal(name)
      let rd := lookups top below (closureNames args defaults body)
      -- body executions (calls), each in [closure frame, base frame]
      let rb := c.subs.flatMap (fun kid =>
        let a := bindArgs (macroFrame args defaults body) [[]] args.reverse defaults.reverse
        a.2 ++ (execList a.1 [[]] kid body).2)
      (name :: top, rd ++ rb)
  | .callBlock callee cargs args defaults body =>
      let r0 := lookups top below (varsCall callee cargs)
      let rd := lookups top below (closureNames args defaults body)
      let rb := c.subs.flatMap (fun kid =>
        let a := bindArgs (macroFrame args defaults body) [[]] args.reverse defaults.reverse
        a.2 ++ (execList a.1 [[]] kid body).2)
      (top, r0 ++ (rd ++ rb))
  | .doStmt callee cargs => (top, lookups top below (varsCall callee cargs))
def execList (top : Frame) (below : List Frame) : List Ch → List Stmt → Frame × List String
  | _, [] => (top, [])
  | cs, s :: ss =>
      let r1 := exec top below (cs.headD Ch.default) s
      let r2 := execList r1.1 below cs.tail ss
      (r2.1, r1.2 ++ r2.2)
end

/-- context keys a render of template `t` asks for under the choices `cs`; the root frame has
no locals and the render context as `ctx` -/
def reads (t : List Stmt) (cs : List Ch) : List String := (execList [] [] cs t).2

/-! ## the exception set of the known finding: macros that mention their own name -/

mutual
/-- names of macro declarations whose closure analysis contains the macro's own name
(`Enclose(name)` runs before `StoreLocal(name)`) -/
def selfRefs : Stmt → List String
  | .emit _ => []
  | .raw => []
  | .forLoop _ _ _ body els => selfRefsL body ++ selfRefsL els
  | .ifCond _ t f => selfRefsL t ++ selfRefsL f
  | .withBlock _ body => selfRefsL body
  | .set _ _ => []
  | .setBlock _ _ body => selfRefsL body
  | .autoEscape _ body => selfRefsL body
  | .filterBlock _ body => selfRefsL body
  | .macro name args defaults body =>
      (if (closureNames args defaults body).contains name then [name] else []) ++ selfRefsL body
  | .callBlock _ _ _ _ body => selfRefsL body
  | .doStmt _ _ => []
def selfRefsL : List Stmt → List String
  | [] => []
  | s :: ss => selfRefs s ++ selfRefsL ss
end

mutual
/-- the macro-free fragment (phase 1) -/
def noMacro : Stmt → Bool
  | .emit _ => true
  | .raw => true
  | .forLoop _ _ _ body els => noMacroL body && noMacroL els
  | .ifCond _ t f => noMacroL t && noMacroL f
  | .withBlock _ body => noMacroL body
  | .set _ _ => true
  | .setBlock _ _ body => noMacroL body
  | .autoEscape _ body => noMacroL body
  | .filterBlock _ body => noMacroL body
  | .macro _ _ _ _ => false
  | .callBlock _ _ _ _ _ => false
  | .doStmt _ _ => true
def noMacroL : List Stmt → Bool
  | [] => true
  | s :: ss => noMacro s && noMacroL ss
end

end MJ.Meta
