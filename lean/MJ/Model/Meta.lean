/-!
# C18 — model of `compiler/meta.rs` (find_undeclared) and of run-time name resolution

Two artefacts over one AST (single-file templates: no include/import/extends):

* `findUndeclared` / `findUndeclaredNested` — transcription of `find_undeclared(t, false)` and
  `find_undeclared(t, true)`: `AssignmentTracker` / `track_walk` / `track_assign` /
  `tracker_visit_expr` / `tracker_visit_call` / `tracker_visit_macro` / `find_macro_closure` of
  `minijinja/src/compiler/meta.rs` (scope stack `assigned : Vec<HashSet>`, `out : HashSet`,
  `nested_out : Option<HashSet<String>>`; sets are lists here, only membership is ever
  observed; a dotted name `a.b.c` is kept as the pair `("a", ["b", "c"])`).
* `reads` — reference semantics of NAME RESOLUTION ONLY of the code that
  `compiler/codegen.rs` emits and `vm/context.rs: Context::load` executes: which names are
  asked from the render context (the `ctx` of the root frame).  Values are not modelled; every
  data-dependent decision (branch taken, number of loop items, number of macro invocations,
  re-entries of recursive loops, `self.block()` calls) is supplied by a *choice tree* `Ch`
  that mirrors the statement structure, so the set of all choice trees covers whatever control
  flow a render takes.

Run-time facts the semantics encodes (with their source):

* `Context::load` walks the frames from the top; a name reaches the context only when no
  frame has it in `locals`, it is not `loop` below a loop frame, and it is not in the
  `closure_context` of a macro frame.  A frame is modelled as the list of names bound in it.
* `Context::store` writes into the top frame only, therefore `exec` receives the top frame
  and the frames below separately and returns the new top frame: lower frames cannot change.
* frames are pushed by `PushWith` (with blocks), `PushLoop` (for loops), block calls and macro
  calls only; `if`, `autoescape`, `filter`, `set` blocks run in the current frame.
* `Stmt::Set`: right-hand side first, then `StoreLocal`; `WithBlock`: `PushWith`, then for each
  pair the expression (in the new frame) and the store; `SetBlock`: body, filter, store;
  `FilterBlock`: body then filter; `AutoEscape`: expression then body.
* `compile_for_loop`: iterable evaluated outside; with a filter a first loop frame without the
  loop variable binds the target and evaluates the filter per item; then a loop frame with
  `loop`; `next_loop_item` clears the frame's locals (and its macro closure) before every
  item, so every iteration starts from the same frame; the else body runs after
  `PopLoopFrame`, in the outer frame, and belongs to the enclosing loop.
* `{% break %}` / `{% continue %}` (`leave_scopes_of_innermost_loop` + `Jump`): the rest of
  the iteration is skipped, the with frames opened inside the loop are popped, a set/filter
  block that is left neither applies its filter nor assigns.  `exec` reports `stopped`, every
  construct up to the loop iteration passes it on.
* recursive loops (`recurse_loop!`, `FastRecurse` / `CallFunction` on a `Loop` object): the
  jump goes to the `PushLoop` of the loop, i.e. a new loop frame (`loop`, targets) is pushed on
  top of *the frames at the call* and the body runs again (the loop filter is not applied
  again); only loops that are running in the current context can be re-entered
  (`Context::is_active_loop`), not from a block (`instructions_id`), not from a macro.  A
  re-entry is a request of the choice tree, served at the start of the statement that contains
  the call (expressions bind nothing, so the frames of the statement start bind at most what
  the frames at the call bind).
* `{% block name %}`: compiled to separate instructions, rendered by `CallBlock` in a fresh
  frame on top of the current frames; `self.name()` does the same from anywhere in the
  template (macros included).  In-place rendering is the `block` statement, `self.name()` is a
  request like a loop re-entry; a block body cannot re-enter a loop around it.
* `compile_macro_expression`: at the declaration `Enclose(n)` looks up every `n` in
  `find_macro_closure(m) \ {caller}` (that is the same analysis, run on the macro alone) and
  stores it in the frame's closure — *before* `StoreLocal(name)`.  A call runs the body in a
  fresh context `[closure frame, base frame]`; `caller` is stored as a local iff the closure
  analysis saw `caller`; arguments are bound back to front, a default is evaluated right
  before its argument is bound.
* Expressions never bind names.  Expression-level control flow (`and`/`or`, `x if c else y`,
  chained comparisons, constant folding) can only *skip* look-ups, so an expression is
  over-approximated by the look-up of every variable leaf (`vars`, in the order
  `tracker_visit_expr` visits them).  `self.name(..)` and `super(..)` do not look up their
  callee (`CallType::Block`, the `super` case of `CallFunction`).
* Errors abort a render: the look-ups of an aborted render are a prefix of the look-ups of
  the run that the same choices describe, so they are covered.
* Macro bodies run when the macro is called, which may be anywhere later and any number of
  times; the frames a call sees depend only on the declaration (closure names), so the body
  executions are accounted for at the declaration, once per entry of the choice tree.

* `include` / `import … as` / `from … import` / `extends`: the *name expression* is evaluated
  in the current frames (`import` pushes an empty frame first); an import then stores its
  alias(es) (`from … import` resolves the names against the exported locals of the module, not
  against the context).  What the other template itself asks the context for belongs to that
  template's own report and not to this file's look-ups (`MJ/Model/MetaSet.lean`: every code
  unit of a file — top level, block bodies, macros — may be entered by the other files of a
  set with arbitrary frames); the names an included template leaves behind in the includer's
  frame are part of the choice tree (`Ch.leak`).
* A render can fail anywhere (undefined values, unknown filters, fuel, …): the choice tree can
  cut the look-ups of any statement after any number of them (`Ch.ab`); the failure propagates
  through every construct (a failing macro body fails the caller at the call, not at the
  declaration where the model accounts for it; there it is ignored).

Macro and call-block bodies called at any later point (instead of accounted for at the
declaration), the frame structure of `Context::load` (locals → loop → closure → context) and
file sets: `MJ/Model/MetaSet.lean`.

Not modelled (validated by the oracle of the harness only): debug-mode error reports, globals
(they are consulted after the context, so they never save a context look-up), host callables
that read the context through `State::lookup`.
-/

namespace MJ.Meta

/-! ## AST (`compiler/ast.rs`; spans and constant values dropped, operator kinds dropped) -/

mutual
inductive Expr where
  | var (id : String)
  | const
  | slice (e : Expr) (start stop step : Option Expr)
  | unary (e : Expr)
  | binop (l r : Expr)
  | compare (e : Expr) (ops : List Expr)
  | ifExpr (c t : Expr) (f : Option Expr)
  | filter (name : String) (e : Option Expr) (args : List CallArg)
  | test (name : String) (e : Expr) (args : List CallArg)
  | getattr (e : Expr) (name : String)
  | getitem (e s : Expr)
  | call (e : Expr) (args : List CallArg)
  | list (items : List Expr)
  | tuple (items : List Expr)
  /-- `keys.zip(values)` flattened: `k₁, v₁, k₂, v₂, …` -/
  | map (kvs : List Expr)
inductive CallArg where
  | pos (e : Expr)
  | kwarg (k : String) (e : Expr)
  | posSplat (e : Expr)
  | kwargSplat (e : Expr)
end

inductive Stmt where
  | emit (e : Expr)
  | raw
  | forLoop (target iter : Expr) (filter : Option Expr) (recursive : Bool) (body els : List Stmt)
  | ifCond (c : Expr) (t f : List Stmt)
  | withBlock (assigns : List (Expr × Expr)) (body : List Stmt)
  | set (target e : Expr)
  | setBlock (target : Expr) (filter : Option Expr) (body : List Stmt)
  | autoEscape (e : Expr) (body : List Stmt)
  | filterBlock (filter : Expr) (body : List Stmt)
  /-- `Macro { name, args, defaults, body }`; the parser only produces `Var` arguments -/
  | macro (name : String) (args : List String) (defaults : List Expr) (body : List Stmt)
  /-- `CallBlock { call: Call { expr, args }, macro_decl }` (the macro is named `caller`) -/
  | callBlock (callee : Expr) (cargs : List CallArg)
      (args : List String) (defaults : List Expr) (body : List Stmt)
  | doStmt (callee : Expr) (cargs : List CallArg)
  | brk
  | cont
  | block (name : String) (body : List Stmt)
  | include (name : Expr)
  | extends (name : Expr)
  /-- `Import { expr, name }` -/
  | importAs (e : Expr) (target : Expr)
  /-- `FromImport { expr, names }`; `targets` = the alias (or the name) of every entry -/
  | fromImport (e : Expr) (targets : List Expr)

/-! ## variable leaves of an expression, in the order of `tracker_visit_expr`

A leaf is the variable together with the chain of attribute look-ups directly above it
(`foo.bar.baz` ↦ `("foo", ["bar", "baz"])`): in nested mode `Expr::GetAttr` follows the chain
down to the variable and reports the dotted name, otherwise it visits the variable. -/

abbrev Leaf := String × List String

/-- `Call::identify_call() == CallType::Block(_)` (feature `multi_template`): `self.name(..)`
renders a block (`Instruction::CallBlock`) and looks nothing up. -/
def isSelfBlockCall : Expr → Bool
  | .getattr (.var id) _ => id == "self"
  | _ => false

/-- `CallType::Function("super")`: `CallFunction("super", ..)` / `FastSuper` render the parent
block without looking `super` up. -/
def isSuperCall : Expr → Bool
  | .var id => id == "super"
  | _ => false

/-- `tracker_visit_call` skips the callee of `self.name(..)` and `super(..)` -/
def skipsCallee (e : Expr) : Bool := isSelfBlockCall e || isSuperCall e

/-- a chain of attribute look-ups that ends in a variable -/
def chainOf : Expr → Option Leaf
  | .var id => some (id, [])
  | .getattr e name =>
      match chainOf e with
      | some (id, attrs) => some (id, attrs ++ [name])
      | none => none
  | _ => none

mutual
def nvars : Expr → List Leaf
  | .var id => [(id, [])]
  | .const => []
  | .slice e a b c => nvars e ++ (nvarsOpt a ++ (nvarsOpt b ++ nvarsOpt c))
  | .unary e => nvars e
  | .binop l r => nvars l ++ nvars r
  | .compare e ops => nvars e ++ nvarsList ops
  | .ifExpr c t f => nvars c ++ (nvars t ++ nvarsOpt f)
  | .filter _ e args => nvarsOpt e ++ nvarsArgs args
  | .test _ e args => nvars e ++ nvarsArgs args
  | .getattr e name =>
      match chainOf (.getattr e name) with
      | some l => [l]
      | none => nvars e
  | .getitem e s => nvars e ++ nvars s
  | .call e args => (if skipsCallee e then [] else nvars e) ++ nvarsArgs args
  | .list items => nvarsList items
  | .tuple items => nvarsList items
  | .map kvs => nvarsList kvs
def nvarsOpt : Option Expr → List Leaf
  | none => []
  | some e => nvars e
def nvarsList : List Expr → List Leaf
  | [] => []
  | e :: es => nvars e ++ nvarsList es
def nvarsArg : CallArg → List Leaf
  | .pos e => nvars e
  | .kwarg _ e => nvars e
  | .posSplat e => nvars e
  | .kwargSplat e => nvars e
def nvarsArgs : List CallArg → List Leaf
  | [] => []
  | a :: as => nvarsArg a ++ nvarsArgs as
end

/-- `tracker_visit_call` on a `Call { expr, args }` -/
def nvarsCall (callee : Expr) (cargs : List CallArg) : List Leaf :=
  (if skipsCallee callee then [] else nvars callee) ++ nvarsArgs cargs

/-- the variables an expression looks up (`Instruction::Lookup` / `CallFunction`) -/
def roots (ls : List Leaf) : List String := ls.map Prod.fst

def vars (e : Expr) : List String := roots (nvars e)
def varsOpt (e : Option Expr) : List String := roots (nvarsOpt e)
def varsCall (callee : Expr) (cargs : List CallArg) : List String := roots (nvarsCall callee cargs)

/-! ## assignment targets

`track_assign` (analysis) and `compile_assignment` (code) recurse over the target in the same
way: a `Var` is assigned/stored, a `List` (the analysis also accepts `Tuple`) is unpacked item
by item, a `GetAttr` (`set ns.attr = …`) *looks up* its base expression and assigns nothing. -/

inductive TAtom where
  | name (x : String)
  | look (e : Expr)

mutual
def targetAtoms : Expr → List TAtom
  | .var x => [.name x]
  | .list items => targetAtomsL items
  | .tuple items => targetAtomsL items
  | .getattr e _ => [.look e]
  | _ => []
def targetAtomsL : List Expr → List TAtom
  | [] => []
  | e :: es => targetAtoms e ++ targetAtomsL es
end

/-! ## the analysis (`meta.rs`) -/

structure St where
  /-- `out: HashSet<&str>` (the result when `nested_out` is `None`; not the result, and not
  modelled, otherwise) -/
  out : List String
  /-- `assigned: Vec<HashSet<&str>>`, head = `last()` -/
  assigned : List (List String)
  /-- `nested_out: Option<HashSet<String>>` -/
  nested : Option (List Leaf) := none
  /-- a `last_mut().unwrap()` on an empty stack happened (Rust would panic) -/
  bad : Bool := false

def St.isAssigned (st : St) (x : String) : Bool := st.assigned.any (·.contains x)

def St.assign (st : St) (x : String) : St :=
  match st.assigned with
  | f :: fs => { st with assigned := (x :: f) :: fs }
  | [] => { st with bad := true }

def St.push (st : St) : St := { st with assigned := [] :: st.assigned }

def St.pop (st : St) : St := { st with assigned := st.assigned.tail }

/-- `Expr::Var` / `Expr::GetAttr` cases of `tracker_visit_expr`: an assigned variable is
skipped; otherwise, without nested tracking, it is reported and considered assigned from now
on; with nested tracking the (dotted) name is recorded and nothing is assigned. -/
def visitLeaf (st : St) (l : Leaf) : St :=
  if st.isAssigned l.1 then st
  else match st.nested with
    | none => ({ st with out := l.1 :: st.out }).assign l.1
    | some n => { st with nested := some (l :: n) }

def visitLeaves (st : St) (ls : List Leaf) : St := ls.foldl visitLeaf st

def visitExpr (st : St) (e : Expr) : St := visitLeaves st (nvars e)

def visitOpt (st : St) (e : Option Expr) : St := visitLeaves st (nvarsOpt e)

def trackAtom (st : St) : TAtom → St
  | .name x => st.assign x
  | .look e => visitExpr st e

/-- `track_assign` -/
def trackAssign (st : St) (target : Expr) : St := (targetAtoms target).foldl trackAtom st

/-- the loop of `tracker_visit_macro` over `args.rev()` / `defaults.rev()` -/
def macroArgs (st : St) : List String → List Expr → St
  | [], _ => st
  | a :: as, [] => macroArgs (st.assign a) as []
  | a :: as, d :: ds => macroArgs ((visitExpr st d).assign a) as ds

def withAssigns (st : St) : List (Expr × Expr) → St
  | [] => st
  | (t, e) :: rest => withAssigns (trackAssign (visitExpr st e) t) rest

mutual
/-- `track_walk` -/
def walk (st : St) : Stmt → St
  | .emit e => visitExpr st e
  | .raw => st
  | .forLoop target iter filter _ body els =>
      let st := st.push
      let st := visitExpr st iter
      let st := trackAssign st target
      let st := visitOpt st filter
      let st := st.assign "loop"
      let st := walkList st body
      let st := st.pop
      let st := st.push
      let st := walkList st els
      st.pop
  | .ifCond c t f =>
      let st := visitExpr st c
      let st := st.push
      let st := walkList st t
      let st := st.pop
      let st := st.push
      let st := walkList st f
      st.pop
  | .withBlock assigns body =>
      let st := st.push
      let st := withAssigns st assigns
      let st := walkList st body
      st.pop
  | .set target e =>
      let st := visitExpr st e
      trackAssign st target
  | .autoEscape e body =>
      let st := visitExpr st e
      let st := st.push
      let st := walkList st body
      st.pop
  | .filterBlock filter body =>
      let st := st.push
      let st := walkList st body
      let st := st.pop
      visitExpr st filter
  | .setBlock target filter body =>
      let st := st.push
      let st := walkList st body
      let st := st.pop
      let st := visitOpt st filter
      trackAssign st target
  | .macro name args defaults body =>
      let st := st.push
      -- tracker_visit_macro(stmt, state, declare_caller = true)
      let st := st.assign "caller"
      let st := macroArgs st args.reverse defaults.reverse
      let st := walkList st body
      let st := st.pop
      st.assign name
  | .callBlock callee cargs args defaults body =>
      let st := visitLeaves st (nvarsCall callee cargs)
      let st := st.push
      let st := st.assign "caller"
      let st := macroArgs st args.reverse defaults.reverse
      let st := walkList st body
      st.pop
  | .doStmt callee cargs => visitLeaves st (nvarsCall callee cargs)
  | .brk => st
  | .cont => st
  | .block _ body =>
      -- `mem::replace(&mut state.assigned, vec![Default::default()])` … restore
      let inner := walkList { st with assigned := [[]] } body
      { inner with assigned := st.assigned }
  | .include name => visitExpr st name
  | .extends name => visitExpr st name
  | .importAs e target => trackAssign (visitExpr st e) target
  | .fromImport e targets => targets.foldl trackAssign (visitExpr st e)
def walkList (st : St) : List Stmt → St
  | [] => st
  | s :: ss => walkList (walk st s) ss
end

/-- `AssignmentTracker { out: {}, nested_out: None, assigned: vec![{}] }` -/
def St.init : St := { out := [], assigned := [[]] }

/-- `AssignmentTracker { out: {}, nested_out: Some({}), assigned: vec![{}] }` -/
def St.initNested : St := { out := [], assigned := [[]], nested := some [] }

/-- `find_undeclared(&Stmt::Template { children }, false)` -/
def findUndeclared (t : List Stmt) : List String := (walkList St.init t).out

/-- `find_undeclared(&Stmt::Template { children }, true)`; `(a, [b, c])` stands for `a.b.c` -/
def findUndeclaredNested (t : List Stmt) : List Leaf := ((walkList St.initNested t).nested).getD []

/-- `find_macro_closure(m)`: `tracker_visit_macro(m, state, declare_caller = false)` on a
fresh tracker (never nested) -/
def macroClosureSt (args : List String) (defaults : List Expr) (body : List Stmt) : St :=
  walkList (macroArgs St.init args.reverse defaults.reverse) body

def findMacroClosure (args : List String) (defaults : List Expr) (body : List Stmt) : List String :=
  (macroClosureSt args defaults body).out

/-- the names `compile_macro_expression` emits `Enclose` for -/
def closureNames (args : List String) (defaults : List Expr) (body : List Stmt) : List String :=
  (findMacroClosure args defaults body).filter (· != "caller")

/-- `caller_reference` (flag `MACRO_CALLER`) -/
def callerRef (args : List String) (defaults : List Expr) (body : List Stmt) : Bool :=
  (findMacroClosure args defaults body).contains "caller"

/-! ## run-time name resolution -/

abbrev Frame := List String

/-- is `x` resolved by a frame (so that `Context::load` does not reach the context) -/
def bound (top : Frame) (below : List Frame) (x : String) : Bool :=
  top.contains x || below.any (·.contains x)

/-- look-ups of an expression: every variable leaf that no frame resolves -/
def lookups (top : Frame) (below : List Frame) (xs : List String) : List String :=
  xs.filter (fun x => !bound top below x)

/-- choice tree: `n` = the decision taken at this statement, `subs` = choices for the
executions of sub-bodies, `reqs` = re-entries (recursive loop bodies, `self.block()` calls)
that happen while this statement runs: request `r` re-enters target number `r.n` with the
choices `r.sub0` -/
inductive Ch where
  | mk (n : Nat) (subs : List (List Ch)) (reqs : List Ch) (ab : Nat)

def Ch.n : Ch → Nat
  | .mk n _ _ _ => n

def Ch.subs : Ch → List (List Ch)
  | .mk _ s _ _ => s

def Ch.reqs : Ch → List Ch
  | .mk _ _ r _ => r

/-- `0`: the statement completes; `k + 1`: the render fails inside the statement after `k` of
its look-ups -/
def Ch.ab : Ch → Nat
  | .mk _ _ _ a => a

def Ch.sub0 (c : Ch) : List Ch := c.subs.headD []

/-- for an `include`: the names the included template stores into the includer's frame
(`Include` runs the other template's code in the current frames, so its `StoreLocal`s land in
the top frame of the includer).  Spelled by the choice tree: one entry of `subs` per name, one
`Ch` per character (`n` = code point), so every finite list of names is some choice. -/
def Ch.leak (c : Ch) : List String :=
  c.subs.map (fun l => String.ofList (l.map (fun ch => Char.ofNat ch.n)))

def Ch.default : Ch := .mk 0 [] [] 0

/-- result of running a piece of code: the new top frame, the context keys asked, whether
control does not reach the next statement (`break`/`continue` on its way to the enclosing
loop, or a failure), and whether that is a failure (which no loop absorbs) -/
structure Res where
  top : Frame
  reads : List String
  stopped : Bool := false
  aborted : Bool := false

/-- `compile_assignment`: stores and the look-up of `set ns.attr` -/
def bindAtoms (top : Frame) (below : List Frame) : List TAtom → Frame × List String
  | [] => (top, [])
  | .name x :: rest => bindAtoms (x :: top) below rest
  | .look e :: rest =>
      let r := bindAtoms top below rest
      (r.1, lookups top below (vars e) ++ r.2)

/-- the aliases of a `from … import` -/
def bindTargets (top : Frame) (below : List Frame) : List Expr → Frame × List String
  | [] => (top, [])
  | t :: rest =>
      let r1 := bindAtoms top below (targetAtoms t)
      let r2 := bindTargets r1.1 below rest
      (r2.1, r1.2 ++ r2.2)

/-- with-block assignments, in the freshly pushed frame -/
def bindWith (top : Frame) (below : List Frame) : List (Expr × Expr) → Frame × List String
  | [] => (top, [])
  | (t, e) :: rest =>
      let r0 := lookups top below (vars e)
      let r1 := bindAtoms top below (targetAtoms t)
      let r2 := bindWith r1.1 below rest
      (r2.1, r0 ++ (r1.2 ++ r2.2))

/-- macro prologue over `args.rev()` / `defaults.rev()`: a default is evaluated (when the
argument is undefined — over-approximated as always) right before its argument is stored -/
def bindArgs (top : Frame) (below : List Frame) : List String → List Expr → Frame × List String
  | [], _ => (top, [])
  | a :: as, [] => bindArgs (a :: top) below as []
  | a :: as, d :: ds =>
      let r := bindArgs (a :: top) below as ds
      (r.1, lookups top below (vars d) ++ r.2)

/-- the frame a macro body starts in: `closure_context` + the `caller` local -/
def macroFrame (args : List String) (defaults : List Expr) (body : List Stmt) : Frame :=
  (if callerRef args defaults body then ["caller"] else []) ++ closureNames args defaults body

/-- the recursive loops around the current statement that are running in this context,
innermost first: targets and body -/
abbrev RC := List (List TAtom × List Stmt)

/-- the bodies of the blocks of the template (`state.blocks`) -/
abbrev BT := List (List Stmt)

/-- serves the re-entry requests of a statement: look-ups they perform -/
abbrev Reenter := RC → BT → Frame → List Frame → List Ch → List String

mutual
/-- look-ups of one statement, started with top frame `top` above `below` -/
def exec (K : Reenter) (rc : RC) (bt : BT) (top : Frame) (below : List Frame) (c : Ch) :
    Stmt → Res
  | .emit e => ⟨top, lookups top below (vars e), false, false⟩
  | .raw => ⟨top, [], false, false⟩
  | .forLoop target iter filter recursive body els =>
      let r0 := lookups top below (vars iter)
      if c.n = 0 then
        -- nothing to iterate: else body in the outer frame (part of the enclosing loop)
        let r := execList K rc bt top below c.sub0 els
        ⟨r.top, r0 ++ r.reads, r.stopped, r.aborted⟩
      else
        -- filter pass: frame without `loop`, target bound
        let ft := bindAtoms [] (top :: below) (targetAtoms target)
        let rf := ft.2 ++ lookups ft.1 (top :: below) (varsOpt filter)
        if c.n = 1 then
          -- every item filtered out: else body
          let r := execList K rc bt top below c.sub0 els
          ⟨r.top, r0 ++ (rf ++ r.reads), r.stopped, r.aborted⟩
        else
          -- one entry of `subs` per iteration; each starts from the cleared loop frame; a
          -- `break`/`continue` ends the iteration
          let it := bindAtoms ["loop"] (top :: below) (targetAtoms target)
          let rc' := if recursive then (targetAtoms target, body) :: rc else rc
          let rb := c.subs.flatMap (fun kid =>
            (execList K rc' bt it.1 (top :: below) kid body).reads)
          -- a failing iteration fails the loop
          let ab := c.subs.any (fun kid =>
            (execList K rc' bt it.1 (top :: below) kid body).aborted)
          ⟨top, r0 ++ (rf ++ (it.2 ++ rb)), ab, ab⟩
  | .ifCond e t f =>
      let r0 := lookups top below (vars e)
      if c.n = 0 then
        let r := execList K rc bt top below c.sub0 f
        ⟨r.top, r0 ++ r.reads, r.stopped, r.aborted⟩
      else
        let r := execList K rc bt top below c.sub0 t
        ⟨r.top, r0 ++ r.reads, r.stopped, r.aborted⟩
  | .withBlock assigns body =>
      let w := bindWith [] (top :: below) assigns
      let r := execList K rc bt w.1 (top :: below) c.sub0 body
      ⟨top, w.2 ++ r.reads, r.stopped, r.aborted⟩
  | .set target e =>
      let r0 := lookups top below (vars e)
      let r := bindAtoms top below (targetAtoms target)
      ⟨r.1, r0 ++ r.2, false, false⟩
  | .autoEscape e body =>
      let r0 := lookups top below (vars e)
      let r := execList K rc bt top below c.sub0 body
      ⟨r.top, r0 ++ r.reads, r.stopped, r.aborted⟩
  | .filterBlock filter body =>
      let r := execList K rc bt top below c.sub0 body
      if r.stopped then r
      else ⟨r.top, r.reads ++ lookups r.top below (vars filter), false, false⟩
  | .setBlock target filter body =>
      let r := execList K rc bt top below c.sub0 body
      if r.stopped then r
      else
        let rf := lookups r.top below (varsOpt filter)
        let r2 := bindAtoms r.top below (targetAtoms target)
        ⟨r2.1, r.reads ++ (rf ++ r2.2), false, false⟩
  | .macro name args defaults body =>
      -- Enclose(n) for every closure name, then BuildMacro, StoreLocal(name)
      let rd := lookups top below (closureNames args defaults body)
      -- body executions (calls), each in [closure frame, base frame]; no loop of the caller
      -- is running in that context
      let rb := c.subs.flatMap (fun kid =>
        let a := bindArgs (macroFrame args defaults body) [[]] args.reverse defaults.reverse
        a.2 ++ (execList K [] bt a.1 [[]] kid body).reads)
      ⟨name :: top, rd ++ rb, false, false⟩
  | .callBlock callee cargs args defaults body =>
      let r0 := lookups top below (varsCall callee cargs)
      let rd := lookups top below (closureNames args defaults body)
      let rb := c.subs.flatMap (fun kid =>
        let a := bindArgs (macroFrame args defaults body) [[]] args.reverse defaults.reverse
        a.2 ++ (execList K [] bt a.1 [[]] kid body).reads)
      ⟨top, r0 ++ (rd ++ rb), false, false⟩
  | .doStmt callee cargs => ⟨top, lookups top below (varsCall callee cargs), false, false⟩
  | .brk => ⟨top, [], true, false⟩
  | .cont => ⟨top, [], true, false⟩
  | .block _ body =>
      -- CallBlock: fresh frame on top of the current ones, separate instructions
      let r := execList K [] bt [] (top :: below) c.sub0 body
      ⟨top, r.reads, r.aborted, r.aborted⟩
  | .include name =>
      -- the name expression is evaluated first; then the other template runs in the current
      -- frames and may leave any names behind in the top frame
      ⟨c.leak ++ top, lookups top below (vars name), false, false⟩
  | .extends name => ⟨top, lookups top below (vars name), false, false⟩
  | .importAs e target =>
      -- PushWith; name expression; Include; …; PopFrame; store the alias
      let r0 := lookups [] (top :: below) (vars e)
      let r := bindAtoms top below (targetAtoms target)
      ⟨r.1, r0 ++ r.2, false, false⟩
  | .fromImport e targets =>
      let r0 := lookups [] (top :: below) (vars e)
      let r := bindTargets top below targets
      ⟨r.1, r0 ++ r.2, false, false⟩
def execList (K : Reenter) (rc : RC) (bt : BT) (top : Frame) (below : List Frame) :
    List Ch → List Stmt → Res
  | _, [] => ⟨top, [], false, false⟩
  | cs, s :: ss =>
      let c := cs.headD Ch.default
      -- re-entries that happen while `s` runs, with the frames of its start
      let rq := K rc bt top below c.reqs
      let r1 := exec K rc bt top below c s
      if c.ab ≠ 0 then
        -- the render fails inside `s`, after `c.ab - 1` look-ups
        ⟨r1.top, (rq ++ r1.reads).take (c.ab - 1), true, true⟩
      else if r1.stopped then ⟨r1.top, rq ++ r1.reads, true, r1.aborted⟩
      else
        let r2 := execList K rc bt r1.top below cs.tail ss
        ⟨r2.top, rq ++ (r1.reads ++ r2.reads), r2.stopped, r2.aborted⟩
end

/-- one re-entry request: targets `0 … rc.length-1` are the running recursive loops (a new
loop frame on top of the current frames, then the body; the loops inside the re-entered one
are not running in the new activation), the following targets are the blocks of the template
(`self.name()`: fresh frame, no loop can be re-entered from there) -/
def serve (K : Reenter) (rc : RC) (bt : BT) (top : Frame) (below : List Frame) (r : Ch) :
    List String :=
  if r.n < rc.length then
    match rc.drop r.n with
    | (atoms, body) :: rest =>
        let it := bindAtoms ["loop"] (top :: below) atoms
        it.2 ++ (execList K ((atoms, body) :: rest) bt it.1 (top :: below) r.sub0 body).reads
    | [] => []
  else
    match bt[r.n - rc.length]? with
    | some body => (execList K [] bt [] (top :: below) r.sub0 body).reads
    | none => []

/-- re-entries nested at most `d` deep -/
def reenter : Nat → Reenter
  | 0 => fun _ _ _ _ _ => []
  | d + 1 => fun rc bt top below reqs =>
      reqs.flatMap (serve (reenter d) rc bt top below)

mutual
/-- the block table of a template -/
def blockBodies : Stmt → BT
  | .emit _ => []
  | .raw => []
  | .forLoop _ _ _ _ body els => blockBodiesL body ++ blockBodiesL els
  | .ifCond _ t f => blockBodiesL t ++ blockBodiesL f
  | .withBlock _ body => blockBodiesL body
  | .set _ _ => []
  | .setBlock _ _ body => blockBodiesL body
  | .autoEscape _ body => blockBodiesL body
  | .filterBlock _ body => blockBodiesL body
  | .macro _ _ _ body => blockBodiesL body
  | .callBlock _ _ _ _ body => blockBodiesL body
  | .doStmt _ _ => []
  | .brk => []
  | .cont => []
  | .block _ body => body :: blockBodiesL body
  | .include _ => []
  | .extends _ => []
  | .importAs _ _ => []
  | .fromImport _ _ => []
def blockBodiesL : List Stmt → BT
  | [] => []
  | s :: ss => blockBodies s ++ blockBodiesL ss
end

/-- context keys a render of template `t` asks for under the choices `cs`, re-entries nested
at most `d` deep; the root frame has no locals and the render context as `ctx` -/
def reads (t : List Stmt) (cs : List Ch) (d : Nat) : List String :=
  (execList (reenter d) [] (blockBodiesL t) [] [] cs t).reads

/-! ## the attribute paths that occur in a template

Every expression the analysis visits, as leaves: a variable with the attribute look-ups that
directly follow it (`a.b.c` ↦ `("a", ["b", "c"])`). -/

def atomLeaves : List TAtom → List Leaf
  | [] => []
  | .name _ :: rest => atomLeaves rest
  | .look e :: rest => nvars e ++ atomLeaves rest

def targetLeaves (t : Expr) : List Leaf := atomLeaves (targetAtoms t)

def targetsLeaves : List Expr → List Leaf
  | [] => []
  | t :: ts => targetLeaves t ++ targetsLeaves ts

def assignsLeaves : List (Expr × Expr) → List Leaf
  | [] => []
  | (t, e) :: rest => nvars e ++ (targetLeaves t ++ assignsLeaves rest)

/-- the defaults the macro prologue walks (`args.rev()` zipped with `defaults.rev()`) -/
def defaultsLeaves : List String → List Expr → List Leaf
  | [], _ => []
  | _ :: as, [] => defaultsLeaves as []
  | _ :: as, d :: ds => nvars d ++ defaultsLeaves as ds

mutual
def leaves : Stmt → List Leaf
  | .emit e => nvars e
  | .raw => []
  | .forLoop target iter filter _ body els =>
      nvars iter ++ (targetLeaves target ++ (nvarsOpt filter ++ (leavesL body ++ leavesL els)))
  | .ifCond c t f => nvars c ++ (leavesL t ++ leavesL f)
  | .withBlock assigns body => assignsLeaves assigns ++ leavesL body
  | .set target e => nvars e ++ targetLeaves target
  | .setBlock target filter body => leavesL body ++ (nvarsOpt filter ++ targetLeaves target)
  | .autoEscape e body => nvars e ++ leavesL body
  | .filterBlock filter body => leavesL body ++ nvars filter
  | .macro _ args defaults body => defaultsLeaves args.reverse defaults.reverse ++ leavesL body
  | .callBlock callee cargs args defaults body =>
      nvarsCall callee cargs ++ (defaultsLeaves args.reverse defaults.reverse ++ leavesL body)
  | .doStmt callee cargs => nvarsCall callee cargs
  | .brk => []
  | .cont => []
  | .block _ body => leavesL body
  | .include name => nvars name
  | .extends name => nvars name
  | .importAs e target => nvars e ++ targetLeaves target
  | .fromImport e targets => nvars e ++ targetsLeaves targets
def leavesL : List Stmt → List Leaf
  | [] => []
  | s :: ss => leaves s ++ leavesL ss
end

end MJ.Meta
