import MJ.Model.Store
/-!
# The memoising tier under concurrency  (C15)

`Environment: Sync` — any number of threads may hold `&Environment` and call `get_template` (directly
or through `include`/`extends`/`import`) at once.  `LoaderStore::get(&self)`:

```
if let Some(rv) = self.borrowed_templates.get(name) { Ok(rv) }          // plain BTreeMap, read-only under &self
else { self.owned_templates.get_or_try_insert(&name, || { loader(name) … make_owned_template(…) }) }
```
and `memo_map::MemoMap::get_or_try_insert` (memo-map 0.3.3, the facts are regenerated as
`MJ.Gen.c15MemoMap`):

```
let mut inner = lock!(self.inner);                       // acquire
let value = if let Some(value) = inner.get(key) { value } // look
            else { inner.insert(key.to_owned(), Box::new(creator()?)); inner.get(key).unwrap() };  // create + insert
Ok(…)                                                     // guard dropped: release
```
Everything that takes `&mut self` (`replace`, `remove`, `clear`, and the `BTreeMap` of the borrowed
tier, the loader and the configuration) cannot run while another thread holds `&Environment`.

The model runs the threads step by step — `acquire`, `look`, `create+insert`, `release` are SEPARATE
steps — under an arbitrary schedule; between any two steps of one thread any other thread may run
and the outside world may change what the loader answers (`Ev.world`).  The mutex is modelled
explicitly (`lock : Option Nat`, a thread that finds it taken does not move).  The linearisation
(`trace`) records each lookup at the step where it takes effect.

No Mathlib import.
-/
namespace MJ.MemoConc
open MJ.Store

/-- where a thread is inside `get_or_try_insert` -/
inductive Pc where
  | idle
  | locked (n : Name)       -- holds the mutex, has not looked yet
  | missed (n : Name)       -- holds the mutex, has looked: the name is not in the map
  | releasing (n : Name) (r : Res)   -- holds the mutex, the result is known
  deriving DecidableEq

structure Thr where
  pc : Pc
  /-- names this thread is still going to look up (the renders it performs, flattened) -/
  todo : List Name
  /-- answers it got so far, most recent first -/
  done : List (Name × Res)

/-- who caused an entry of the linearisation -/
abbrev Who := Option Nat

structure Sys where
  store : Store
  /-- the mutex inside the `MemoMap` -/
  lock : Option Nat
  thr : List Thr
  /-- ghost: the linearisation, most recent first -/
  trace : List (Who × Op)

/-- the closure handed to `get_or_try_insert` followed by the insert: ask the loader, compile under
    the current load-time configuration, store -/
def creator (c : LtCfg → Source → Bool) (s : Store) (n : Name) : Store × Res :=
  match s.loader with
  | none => (s, .notFound)
  | some l =>
    match l n with
    | .err => (s, .loaderError)
    | .panics => (s, .panicked)
    | .missing => (s, .notFound)
    | .src src =>
      if c s.cfg src then
        ({ s with owned := ins s.owned n ((src, s.cfg), .loaded) }, .found (src, s.cfg))
      else (s, .compileError)

inductive Ev where
  | thread (i : Nat)                 -- thread `i` performs its next step (if it can)
  | world (l : Name → LoadRes)       -- the outside world changes: the loader now answers like `l`

/-- one step of thread `i` -/
def Sys.stepThr (c : LtCfg → Source → Bool) (σ : Sys) (i : Nat) : Sys :=
  match σ.thr[i]? with
  | none => σ
  | some t =>
    match t.pc with
    | .idle =>
      match t.todo with
      | [] => σ
      | n :: rest =>
        match find σ.store.borrowed n with
        | some tm =>   -- the borrowed tier answers; the mutex is not touched
          { σ with thr := σ.thr.set i { pc := .idle, todo := rest, done := (n, .found tm) :: t.done },
                   trace := (some i, .get n) :: σ.trace }
        | none =>
          match σ.lock with
          | some _ => σ    -- blocked
          | none => { σ with lock := some i, thr := σ.thr.set i { t with pc := .locked n } }
    | .locked n =>
      match find σ.store.owned n with
      | some (tm, _) =>
        { σ with thr := σ.thr.set i { t with pc := .releasing n (.found tm) }, trace := (some i, .get n) :: σ.trace }
      | none => { σ with thr := σ.thr.set i { t with pc := .missed n } }
    | .missed n =>
      { σ with store := (creator c σ.store n).1,
               thr := σ.thr.set i { t with pc := .releasing n (creator c σ.store n).2 },
               trace := (some i, .get n) :: σ.trace }
    | .releasing n r =>
      { σ with lock := none, thr := σ.thr.set i { pc := .idle, todo := t.todo.drop 1, done := (n, r) :: t.done } }

def Sys.step (c : LtCfg → Source → Bool) (σ : Sys) : Ev → Sys
  | .thread i => σ.stepThr c i
  | .world l => { σ with store := { σ.store with loader := some l }, trace := (none, .setLoader l) :: σ.trace }

def Sys.run (c : LtCfg → Source → Bool) (σ : Sys) : List Ev → Sys
  | [] => σ
  | e :: es => Sys.run c (σ.step c e) es

/-- threads `0 … k-1` about to perform the lookups `todos[i]` on a shared store -/
def Sys.start (s : Store) (todos : List (List Name)) : Sys :=
  { store := s, lock := none, thr := todos.map (fun td => { pc := .idle, todo := td, done := [] }), trace := [] }

/-- the sequential history a run is equivalent to -/
def Sys.history (σ : Sys) : List Op := σ.trace.reverse.map (·.2)

/-- the answers thread `i` has (incl. the one it is about to return) — most recent first -/
def Thr.answers (t : Thr) : List (Name × Res) :=
  match t.pc with
  | .releasing n r => (n, r) :: t.done
  | _ => t.done

/-- the answers the sequential history gives to the lookups attributed to `who` (most recent first):
    entry `(w, get n)` of the linearisation is answered by `Store.get` in the state the sequential
    run of everything BEFORE it ends in -/
def seqAnswers (c : LtCfg → Source → Bool) (s₀ : Store) : List (Who × Op) → Who → List (Name × Res)
  | [], _ => []
  | (w, op) :: older, who =>
    match op with
    | .get n =>
      if w = who then (n, ((Store.run c s₀ (older.reverse.map (·.2))).get c n).2) :: seqAnswers c s₀ older who
      else seqAnswers c s₀ older who
    | _ => seqAnswers c s₀ older who

/-! ## what happens without the mutex

The same steps with `acquire`/`release` doing nothing: two threads can both miss and both create. -/

def Sys.stepThrNoLock (c : LtCfg → Source → Bool) (σ : Sys) (i : Nat) : Sys :=
  match σ.thr[i]? with
  | none => σ
  | some t =>
    match t.pc with
    | .idle =>
      match t.todo with
      | [] => σ
      | n :: _ => { σ with thr := σ.thr.set i { t with pc := .locked n } }
    | _ => σ.stepThr c i

def Sys.runNoLock (c : LtCfg → Source → Bool) (σ : Sys) : List Ev → Sys
  | [] => σ
  | .thread i :: es => Sys.runNoLock c (σ.stepThrNoLock c i) es
  | .world l :: es => Sys.runNoLock c (σ.step c (.world l)) es

/-- the facts about memo-map's source the model transcribes (regenerated: `MJ.Gen.c15MemoMap`; every
    method of `MemoMap` that `loader.rs` calls, with its receiver and what it does under the mutex):
    `get_or_try_insert(&self)` locks first and looks up, creates and inserts without letting go;
    whatever replaces or removes an entry needs `&mut self` -/
def modelMemoMap : List (String × String × List String) :=
  [("version", "0.3.3", []),
   ("clear", "&mut self", ["lock", "clear"]),
   ("contains_key", "&self", ["lock", "contains"]),
   ("get_or_try_insert", "&self", ["lock", "get", "insert(creator)"]),
   ("iter", "&self", ["lock", "iterate"]),
   ("keys", "&self", ["iterate"]),
   ("remove", "&mut self", ["lock", "remove"]),
   ("replace", "&mut self", ["lock", "insert"])]

/-- does an event change an entry of the map? -/
def writes (e : String) : Bool :=
  e == "insert" || e == "insert(creator)" || e == "remove" || e == "clear" || e == "entry" || e == "exclusive"

/-- what the concurrent model needs of these facts: the memoising lookup holds the lock from before
    its look-up to after its insert (nothing else in between), and every OTHER method of the map that
    `loader.rs` uses either needs `&mut self` or does not write -/
def memoMapSafe (rows : List (String × String × List String)) : Bool :=
  rows.lookup "get_or_try_insert" == some ("&self", ["lock", "get", "insert(creator)"]) &&
  rows.all (fun r => r.1 == "version" || r.1 == "get_or_try_insert" || r.2.1 == "&mut self" ||
                     (r.2.1 == "&self" && r.2.2.all (fun e => !writes e)))

end MJ.MemoConc
