import MJ.Model.Path
/-!
# `PathBuf::push` / `Path::components` with the platform as a parameter (C17)

`MJ/Model/Path.lean` transcribes the Unix flavour of std's path functions.  `safe_join` is compiled
for Windows as well, where a second separator (`\`) and drive prefixes (`C:`) exist.  This file
models `PathBuf::_push` (library/std/src/path.rs) for a platform given by

* its separator characters (`is_sep_byte`): Unix `{'/'}`, Windows `{'\\', '/'}`;
* its main separator (`MAIN_SEP_STR`);
* whether drive prefixes `X:` exist (`parse_prefix`; the only prefix a string WITHOUT separators
  can carry — UNC, verbatim and device prefixes all start with two separators).

What is not modelled: the verbatim branch of `_push` (`\\?\…` bases, where `.`/`..` are resolved
while pushing); a Windows base is assumed not to be verbatim.

`pushP`'s branches, in the order of the source:
1. `path.is_absolute() || path.prefix().is_some()` — the argument REPLACES the path
   (Unix: the argument starts with a separator; Windows: the argument has a prefix);
2. `path.has_root()` (Windows only: `\windows`) — everything but the path's own prefix is dropped;
3. otherwise the argument is appended, after a main separator unless the path is empty, ends in a
   separator or is a bare drive (`C:` + `foo` = `C:foo`).

`compsP` are the `Normal`/`ParentDir` components: the body (the path without its drive prefix)
split on EVERY separator of the platform — a separator inside a pushed argument creates several
components.
-/
namespace MJ.PathPlat
open MJ.Path

structure Plat where
  mainSep : Char
  altSeps : List Char
  drives : Bool
  deriving Repr

def unix : Plat := ⟨'/', [], false⟩
def windows : Plat := ⟨'\\', ['/'], true⟩

/-- `is_sep_byte` -/
def Plat.isSep (pl : Plat) (c : Char) : Bool := c == pl.mainSep || pl.altSeps.contains c

/-- split on every separator of the platform (empty pieces kept) -/
def splitSeps (pl : Plat) : Str → List Str
  | [] => [[]]
  | c :: cs => if pl.isSep c then [] :: splitSeps pl cs else consHead c (splitSeps pl cs)

/-- `u8::is_ascii_alphabetic` (`parse_drive`) -/
def isDriveLetter (c : Char) : Bool := ('a' ≤ c && c ≤ 'z') || ('A' ≤ c && c ≤ 'Z')

/-- `parse_drive`: `[drive, b':', ..] if drive.is_ascii_alphabetic()` -/
def startsWithDrive : Str → Bool
  | c :: d :: _ => d == ':' && isDriveLetter c
  | _ => false

/-- length of the drive prefix `X:` (2) or 0 -/
def driveLen (pl : Plat) (p : Str) : Nat := if pl.drives && startsWithDrive p then 2 else 0

/-- the path without its drive prefix -/
def body (pl : Plat) (p : Str) : Str := p.drop (driveLen pl p)

/-- `Path::has_root` -/
def hasRoot (pl : Plat) (p : Str) : Bool :=
  match (body pl p).head? with
  | some c => pl.isSep c
  | none => false

/-- the `Normal`/`ParentDir` components -/
def compsP (pl : Plat) (p : Str) : List Str := (splitSeps pl (body pl p)).filter keepPiece

/-- `need_clear`: the pushed argument replaces the whole path -/
def replaces (pl : Plat) (seg : Str) : Bool :=
  if pl.drives then decide (driveLen pl seg > 0) else hasRoot pl seg

/-- the rightmost character exists and is not a separator -/
def lastNotSep (pl : Plat) (p : Str) : Bool :=
  match p.getLast? with
  | some c => !pl.isSep c
  | none => false

/-- `need_sep` -/
def needSep (pl : Plat) (p : Str) : Bool :=
  if driveLen pl p > 0 ∧ driveLen pl p = p.length then false else lastNotSep pl p

/-- `PathBuf::_push` (without the verbatim branch) -/
def pushP (pl : Plat) (p seg : Str) : Str :=
  if replaces pl seg then seg
  else if hasRoot pl seg then p.take (driveLen pl p) ++ seg
  else if needSep pl p then p ++ pl.mainSep :: seg
  else p ++ seg

/-! ## `safe_join` over a platform, with a trace of what was checked and what was pushed -/

/-- what the loop did: the segments the filter looked at, the arguments handed to `push` -/
structure Trace where
  checked : List Str
  pushed : List Str
  deriving DecidableEq, Repr

/-- the loop of `safe_join`, generic in the filter (`bad`) and in how a checked segment is USED:
    `use s` are the arguments pushed for the segment `s`.  The source pushes the segment itself
    (`useSame`, tied by `MJ.Gen.c17Loop…`); the seeded change C17-5 dropped the backslash rule and
    pushed the pieces of `s.split('\\')`. -/
def joinLoopG (pl : Plat) (bad : Str → Bool) (use : Str → List Str) (rv : Str) (tr : Trace) :
    List Str → Option (Str × Trace)
  | [] => some (rv, tr)
  | s :: rest =>
    if bad s then none
    else joinLoopG pl bad use ((use s).foldl (pushP pl) rv) ⟨tr.checked ++ [s], tr.pushed ++ use s⟩ rest

/-- the source: `rv.push(segment)` -/
def useSame (s : Str) : List Str := [s]

/-- `safe_join` on the platform `pl`, with its trace -/
def safeJoinTr (pl : Plat) (base name : Str) : Option (Str × Trace) :=
  joinLoopG pl badSeg useSame base ⟨[], []⟩ (splitOn MJ.Gen.c17SafeJoinSep name)

/-- `safe_join` on the platform `pl` -/
def safeJoinP (pl : Plat) (base name : Str) : Option Str := (safeJoinTr pl base name).map (·.1)

/-! ## loaders that try several candidates -/

/-- a loader that tries several candidate NAMES in order (the name itself, the name with a
    suffix, …), each of them through `safe_join` — the shape a fallback must have to stay
    confined.  `path_loader` is the instance with the single candidate `id`. -/
structure LoaderG where
  base : Str
  cands : List (Str → Str)

/-- first candidate that can be read decides; a candidate that fails otherwise than "not found"
    makes the request "unreadable" -/
def loadCands (base : Str) (fs : Snapshot) (name : Str) : List (Str → Str) → LoadResult
  | [] => .missing
  | t :: rest =>
    match safeJoin base (t name) with
    | none => loadCands base fs name rest
    | some p =>
      match fs p with
      | .content s => .found s
      | .notFound => loadCands base fs name rest
      | .failed => .unreadable

def LoaderG.load (l : LoaderG) (fs : Snapshot) (name : Str) : LoadResult := loadCands l.base fs name l.cands

/-- the paths a request may hand to the file system -/
def LoaderG.reads (l : LoaderG) (name : Str) : List Str :=
  l.cands.filterMap (fun t => safeJoin l.base (t name))

end MJ.PathPlat
