import MJ.Gen.Tables
/-!
# Model of `Value` ⇄ serde (C16)

* `V`      — template values as far as the serde bridge can tell them apart
* `Shape`  — the serde data model of a Rust type (what its derived `Serialize`/`Deserialize` calls)
* `D`      — a value of the serde data model (meaningful together with a `Shape`)
* `ser`    — what `value/serialize.rs::ValueSerializer` builds when a type of shape `s` serialises `d`
* `de`     — what `value/deserialize.rs` (`impl Deserializer for Value`) feeds the derived visitor of
             shape `s`, and what that visitor returns
* `Registry`, `serM` — the value-handle side channel of `impl Serialize for Value`

Core Lean only.
-/
namespace MJ.Serde

abbrev Str := List Char

/-- template values.  Integers carry the representation (`u = true`: `U64`, else `I64`) because
`deserialize_any` calls `visit_u64` / `visit_i64` accordingly. `obj` is a dynamic object (identity). -/
inductive V where
  | undefined | none
  | bool (b : Bool)
  | int (u : Bool) (i : Int)
  | f64 (bits : Nat)
  | str (s : Str) (safe : Bool)
  | bytes (b : List Nat)
  | seq (tuple : Bool) (xs : List V)
  | map (kvs : List (V × V))
  | obj (id : Nat)
  | invalid
  deriving Repr, Inhabited

mutual
inductive Shape where
  | bool
  /-- `u8…u64` (`u = true`) and `i8…i64` with their value range -/
  | int (u : Bool) (lo hi : Int)
  | f32 | f64 | char | str | bytes | unit
  | opt (s : Shape) | seq (s : Shape) | map (k v : Shape) | tup (ss : List Shape)
  | ustruct | nstruct (s : Shape) | tstruct (ss : List Shape)
  | struct (names : List Str) (ss : List Shape)
  | enum (names : List Str) (vs : List VShape)
  /-- an embedded `minijinja::Value` -/
  | value
inductive VShape where
  | unit | newtype (s : Shape) | tuple (ss : List Shape) | struct (names : List Str) (ss : List Shape)
end

inductive D where
  | bool (b : Bool) | int (i : Int) | f32 (bits : Nat) | f64 (bits : Nat) | char (c : Char) | str (s : Str)
  | bytes (b : List Nat) | none | some (d : D) | unit
  /-- seq, tuple, tuple struct, struct fields in declaration order, tuple/struct variant payload -/
  | list (ds : List D)
  | map (kvs : List (D × D))
  | variant (idx : Nat) (p : D)
  | val (v : V)
  deriving Repr, Inhabited

/-! ## `f32 as f64` and `f64 as f32` on bit patterns -/

/-- `(x : f32) as f64`: exact; NaNs keep sign and payload and become quiet -/
def widen (b : Nat) : Nat :=
  let s := b / 2147483648 % 2
  let e := b / 8388608 % 256
  let m := b % 8388608
  if e = 255 then
    s * 9223372036854775808 + 9218868437227405312 +
      (if m = 0 then 0 else m * 536870912 + (if 4194304 ≤ m then 0 else 2251799813685248))
  else if e = 0 then
    if m = 0 then s * 9223372036854775808
    else
      let k := Nat.log2 m
      s * 9223372036854775808 + (874 + k) * 4503599627370496 + (m * 2 ^ (52 - k) - 4503599627370496)
  else s * 9223372036854775808 + (e + 896) * 4503599627370496 + m * 536870912

/-- `x / 2^sh` rounded to nearest, ties to even -/
def rne (x sh : Nat) : Nat :=
  let q := x / 2 ^ sh
  let r := x % 2 ^ sh
  let half := 2 ^ sh / 2
  if sh = 0 then x
  else if half < r ∨ (r = half ∧ q % 2 = 1) then q + 1 else q

/-- `(x : f64) as f32`: round to nearest even, overflow to infinity, NaNs truncated and quiet -/
def narrow (b : Nat) : Nat :=
  let s := b / 9223372036854775808 % 2
  let e := b / 4503599627370496 % 2048
  let m := b % 4503599627370496
  if e = 2047 then
    s * 2147483648 + 2139095040 + (if m = 0 then 0 else m / 536870912 % 4194304 + 4194304)
  else if 897 ≤ e then
    s * 2147483648 + Nat.min ((e - 897) * 8388608 + rne (4503599627370496 + m) 29) 2139095040
  else if 873 ≤ e then
    s * 2147483648 + rne (4503599627370496 + m) (29 + (897 - e))
  else s * 2147483648

/-- signalling NaN of `f32` (the conversion to `f64` quiets it: not preserved) -/
def isSNaN32 (b : Nat) : Bool :=
  b / 8388608 % 256 == 255 && b % 8388608 != 0 && b % 8388608 < 4194304

/-! ## integer → float casts, UTF-8 (serde's lenient primitive visitors) -/

/-- `n as f64` / `n as f32` for `n ≥ 0`: round to nearest even (`mbits` = 52 / 23, `ebias` = 1023 / 127);
no 64-bit integer overflows either format -/
def natToFloat (mbits ebias n : Nat) : Nat :=
  if n = 0 then 0
  else
    let len := Nat.log2 n + 1
    if len ≤ mbits + 1 then
      (ebias + len - 1) * 2 ^ mbits + (n * 2 ^ (mbits + 1 - len) - 2 ^ mbits)
    else
      (ebias + len - 1) * 2 ^ mbits + (rne n (len - (mbits + 1)) - 2 ^ mbits)

def intToF64 (i : Int) : Nat :=
  if i < 0 then 9223372036854775808 + natToFloat 52 1023 i.natAbs else natToFloat 52 1023 i.natAbs

def intToF32 (i : Int) : Nat :=
  if i < 0 then 2147483648 + natToFloat 23 127 i.natAbs else natToFloat 23 127 i.natAbs

/-- does the integer have a 64-bit representation (`U64` / `I64`)?  128-bit representations are
`visit_i128` / `visit_u128`, which the 8…64-bit and float visitors do not accept -/
def fits64 (i : Int) : Bool := decide (-9223372036854775808 ≤ i ∧ i ≤ 18446744073709551615)

def utf8EncodeChar (c : Char) : List Nat :=
  let n := c.toNat
  if n < 128 then [n]
  else if n < 2048 then [192 + n / 64, 128 + n % 64]
  else if n < 65536 then [224 + n / 4096, 128 + n / 64 % 64, 128 + n % 64]
  else [240 + n / 262144, 128 + n / 4096 % 64, 128 + n / 64 % 64, 128 + n % 64]

def utf8Encode (s : Str) : List Nat := s.flatMap utf8EncodeChar

def isCont (b : Nat) : Bool := 128 ≤ b && b < 192

def consOpt (c : Char) : Option Str → Option Str
  | some s => some (c :: s)
  | none => none

/-- `str::from_utf8`: strict (no overlong forms, no surrogates, nothing above U+10FFFF) -/
def utf8Decode : List Nat → Option Str
  | [] => some []
  | b0 :: rest =>
    if b0 < 128 then consOpt (Char.ofNat b0) (utf8Decode rest)
    else if 194 ≤ b0 ∧ b0 < 224 then
      match rest with
      | b1 :: rest1 =>
        if isCont b1 then consOpt (Char.ofNat ((b0 - 192) * 64 + (b1 - 128))) (utf8Decode rest1) else none
      | _ => none
    else if 224 ≤ b0 ∧ b0 < 240 then
      match rest with
      | b1 :: b2 :: rest2 =>
        let lo := if b0 = 224 then 160 else 128
        let hi := if b0 = 237 then 160 else 192
        if lo ≤ b1 ∧ b1 < hi ∧ isCont b2 then
          consOpt (Char.ofNat ((b0 - 224) * 4096 + (b1 - 128) * 64 + (b2 - 128))) (utf8Decode rest2)
        else none
      | _ => none
    else if 240 ≤ b0 ∧ b0 < 245 then
      match rest with
      | b1 :: b2 :: b3 :: rest3 =>
        let lo := if b0 = 240 then 144 else 128
        let hi := if b0 = 244 then 144 else 192
        if lo ≤ b1 ∧ b1 < hi ∧ isCont b2 ∧ isCont b3 then
          consOpt (Char.ofNat ((b0 - 240) * 262144 + (b1 - 128) * 4096 + (b2 - 128) * 64 + (b3 - 128)))
            (utf8Decode rest3)
        else none
      | _ => none
    else none

/-! ## map keys -/

mutual
/-- key equality of the value map on serialised keys (structural, ignoring the `safe` flag and the
integer representation).  The engine's `Value::eq` is coarser on numbers (`1 == 1.0 == true`);
the two agree on float-free keys of one shape, which is all the round-trip theorem uses. -/
def keyEq : V → V → Bool
  | .undefined, .undefined => true
  | .none, .none => true
  | .bool a, .bool b => a == b
  | .int _ a, .int _ b => a == b
  | .f64 a, .f64 b => a == b
  | .str a _, .str b _ => a == b
  | .bytes a, .bytes b => a == b
  | .seq ta xs, .seq tb ys => ta == tb && keyEqList xs ys
  | .map xs, .map ys => keyEqPairs xs ys
  | .obj a, .obj b => a == b
  | _, _ => false
def keyEqList : List V → List V → Bool
  | [], [] => true
  | x :: xs, y :: ys => keyEq x y && keyEqList xs ys
  | _, _ => false
def keyEqPairs : List (V × V) → List (V × V) → Bool
  | [], [] => true
  | (a, b) :: xs, (c, d) :: ys => keyEq a c && keyEq b d && keyEqPairs xs ys
  | _, _ => false
end

/-- `ValueMap::insert` (position of an existing key is kept, its value replaced) -/
def mapInsert : List (V × V) → V → V → List (V × V)
  | [], k, v => [(k, v)]
  | (k', v') :: rest, k, v => if keyEq k' k then (k', v) :: rest else (k', v') :: mapInsert rest k v

def buildMap (kvs : List (V × V)) : List (V × V) :=
  kvs.foldl (fun m p => mapInsert m p.1 p.2) []

def zipKeys : List Str → List V → List (V × V)
  | n :: ns, v :: vs => (.str n false, v) :: zipKeys ns vs
  | _, _ => []

/-! ## `ValueSerializer` -/

mutual
def ser : Shape → D → V
  | .bool, .bool b => .bool b                       -- serialize_bool
  | .int u _ _, .int i => .int u i                  -- serialize_u8…u64 → U64, serialize_i8…i64 → I64
  | .f32, .f32 b => .f64 (widen b)                  -- serialize_f32: `v as f64`
  | .f64, .f64 b => .f64 b
  | .char, .char c => .str [c] false                -- serialize_char → Value::from(char)
  | .str, .str s => .str s false
  | .bytes, .bytes b => .bytes b
  | .unit, .unit => .none                           -- serialize_unit
  | .opt _, .none => .none                          -- serialize_none
  | .opt s, .some d => ser s d                      -- serialize_some → transform(value)
  | .seq s, .list ds => .seq false (ds.map (ser s))
  | .map k v, .map kvs => .map (buildMap (kvs.map fun p => (ser k p.1, ser v p.2)))
  | .tup ss, .list ds => .seq true (serList ss ds)  -- Value::from(Tuple)
  | .ustruct, .unit => .none                        -- serialize_unit_struct
  | .nstruct s, d => ser s d                        -- serialize_newtype_struct → transform(value)
  | .tstruct ss, .list ds => .seq false (serList ss ds)
  | .struct names ss, .list ds => .map (zipKeys names (serList ss ds))   -- StaticKeyMap
  | .enum names vs, .variant i p => serVariant names vs i p
  | .value, .val v => v                             -- value handle (see `serM`)
  | _, _ => .invalid
def serList : List Shape → List D → List V
  | s :: ss, d :: ds => ser s d :: serList ss ds
  | _, _ => []
def serVariant : List Str → List VShape → Nat → D → V
  | n :: _, v :: _, 0, p => serV n v p
  | _ :: ns, _ :: vs, i+1, p => serVariant ns vs i p
  | _, _, _, _ => .invalid
def serV : Str → VShape → D → V
  | n, .unit, .unit => .str n false                                       -- serialize_unit_variant
  | n, .newtype s, p => .map [(.str n false, ser s p)]                    -- serialize_newtype_variant
  | n, .tuple ss, .list ds => .map [(.str n false, .seq false (serList ss ds))]
  | n, .struct names ss, .list ds => .map [(.str n false, .map (zipKeys names (serList ss ds)))]
  | _, _, _ => .invalid
end

/-! ## `Deserializer for Value` driven by the derived visitor of a shape -/

inductive Err where
  /-- the real code returns an error -/
  | err
  /-- outside the modelled fragment (lenient conversions of serde's own visitors, objects) -/
  | unmodelled
  deriving Repr, DecidableEq, Inhabited

abbrev R := Except Err

def lookupStr (n : Str) : List (V × V) → Option V
  | [] => none
  | (.str k _, v) :: rest => if k = n then some v else lookupStr n rest
  | _ :: rest => lookupStr n rest

def allStrKeys : List (V × V) → Bool
  | [] => true
  | (.str _ _, _) :: rest => allStrKeys rest
  | _ => false

def findBytes (n : List Nat) : List (List Nat) → Option Nat
  | [] => none
  | m :: ms => if m = n then some 0 else (findBytes n ms).map (· + 1)

def findName (n : Str) : List Str → Option Nat
  | [] => none
  | m :: ms => if m = n then some 0 else (findName n ms).map (· + 1)

def isOpt : Shape → Bool
  | .opt _ => true
  | _ => false

/-- apply `f` to a successful result -/
def mapOk {α β : Type} (f : α → β) : R α → R β
  | .ok a => .ok (f a)
  | .error e => .error e

@[simp] theorem mapOk_ok {α β : Type} (f : α → β) (a : α) : mapOk f (.ok a : R α) = .ok (f a) := rfl
@[simp] theorem mapOk_error {α β : Type} (f : α → β) (e : Err) : mapOk f (.error e : R α) = .error e := rfl

/-- `Vec::mapM` written out (so that proofs can unfold it) -/
def mapMR {α β : Type} (f : α → R β) : List α → R (List β)
  | [] => .ok []
  | x :: xs =>
    match f x with
    | .error e => .error e
    | .ok y =>
      match mapMR f xs with
      | .error e => .error e
      | .ok ys => .ok (y :: ys)

/-- one element of a byte sequence (`u8::deserialize`) -/
def deByte : V → R Nat
  | .int _ i => if 0 ≤ i ∧ i ≤ 255 then .ok i.toNat else .error .err
  | .obj _ => .error .unmodelled
  | _ => .error .err

/-- the derived field identifier: `visit_str` / `visit_bytes` by name, `visit_u64` by index (unknown
names and indices are ignored fields), any other key is a type error -/
def fieldOfKey (names : List Str) : V → R (Option Nat)
  | .str n _ => .ok (findName n names)
  | .bytes b => .ok (findBytes b (names.map utf8Encode))
  | .int true i => .ok (if i.toNat < names.length then some i.toNat else Option.none)
  | .obj _ => .error .unmodelled
  | _ => .error .err

/-- the entries of a map with the field each key names (derived `visit_map`, first pass) -/
def resolveKeys (names : List Str) : List (V × V) → R (List (Option Nat × V))
  | [] => .ok []
  | (k, v) :: rest =>
    match fieldOfKey names k with
    | .error e => .error e
    | .ok i =>
      match resolveKeys names rest with
      | .error e => .error e
      | .ok l => .ok ((i, v) :: l)

/-- two entries name the same field (`duplicate_field`) -/
def dupSlots : List (Option Nat × V) → Bool
  | [] => false
  | (some i, _) :: rest => rest.any (fun p => p.1 == some i) || dupSlots rest
  | (Option.none, _) :: rest => dupSlots rest

def findSlot (i : Nat) : List (Option Nat × V) → Option V
  | [] => Option.none
  | (j, v) :: rest => if j = some i then some v else findSlot i rest

def pairR {α β : Type} : R α → R β → R (α × β)
  | .ok a, .ok b => .ok (a, b)
  | .error e, _ => .error e
  | .ok _, .error e => .error e

def consR {α : Type} : R α → R (List α) → R (List α)
  | .ok a, .ok l => .ok (a :: l)
  | .error e, _ => .error e
  | .ok _, .error e => .error e

@[simp] theorem consR_ok {α : Type} (a : α) (l : List α) : consR (.ok a : R α) (.ok l) = .ok (a :: l) := rfl
@[simp] theorem pairR_ok {α β : Type} (a : α) (b : β) : pairR (.ok a : R α) (.ok b : R β) = .ok (a, b) := rfl

/-! ### ignored fields (`deserialize_ignored_any`)

The derived `visit_map` reads the value of an entry that names no field as `IgnoredAny`;
`deserialize_ignored_any` is forwarded to `deserialize_any`, so the whole value is walked: an invalid
value or a plain object inside it fails the deserialisation although the field is ignored. -/

mutual
def ignoreV : V → R Unit
  | .invalid => .error .err
  | .obj _ => .error .unmodelled
  | .seq _ xs => ignoreList xs
  | .map kvs => ignorePairs kvs
  | _ => .ok ()
def ignoreList : List V → R Unit
  | [] => .ok ()
  | x :: xs =>
    match ignoreV x with
    | .error e => .error e
    | .ok _ => ignoreList xs
def ignorePairs : List (V × V) → R Unit
  | [] => .ok ()
  | (k, v) :: rest =>
    match ignoreV k with
    | .error e => .error e
    | .ok _ =>
      match ignoreV v with
      | .error e => .error e
      | .ok _ => ignorePairs rest
end

/-- `r`, provided the guard succeeded -/
def guardR {α : Type} (g : R Unit) (r : R α) : R α :=
  match g with
  | .ok _ => r
  | .error e => .error e

@[simp] theorem guardR_ok {α : Type} (r : R α) : guardR (.ok ()) r = r := rfl

/-- the values under keys that name no field, in a map with string keys -/
def ignoredOK (names : List Str) : List (V × V) → R Unit
  | [] => .ok ()
  | (.str n _, v) :: rest =>
    match findName n names with
    | some _ => ignoredOK names rest
    | Option.none => guardR (ignoreV v) (ignoredOK names rest)
  | _ :: rest => ignoredOK names rest

/-- the values of the resolved entries that name no field -/
def ignoredSlots : List (Option Nat × V) → R Unit
  | [] => .ok ()
  | (some _, _) :: rest => ignoredSlots rest
  | (Option.none, v) :: rest => guardR (ignoreV v) (ignoredSlots rest)

mutual
def de : Shape → V → R D
  | .bool, v =>
    match v with
    | .bool b => .ok (.bool b)
    | .obj _ => .error .unmodelled
    | _ => .error .err
  | .int _ lo hi, v =>
    match v with
    | .int _ i => if lo ≤ i ∧ i ≤ hi ∧ fits64 i = true then .ok (.int i) else .error .err   -- visit_u64 / visit_i64 range check
    | .obj _ => .error .unmodelled
    | _ => .error .err
  | .f32, v =>
    match v with
    | .f64 b => .ok (.f32 (narrow b))                                      -- visit_f64: `v as f32`
    | .int _ i => if fits64 i then .ok (.f32 (intToF32 i)) else .error .err   -- visit_u64 / visit_i64: `v as f32`
    | .obj _ => .error .unmodelled
    | _ => .error .err
  | .f64, v =>
    match v with
    | .f64 b => .ok (.f64 b)
    | .int _ i => if fits64 i then .ok (.f64 (intToF64 i)) else .error .err
    | .obj _ => .error .unmodelled
    | _ => .error .err
  | .char, v =>
    match v with
    | .str [c] _ => .ok (.char c)                                          -- visit_str with exactly one char
    | .obj _ => .error .unmodelled
    | _ => .error .err
  | .str, v =>
    match v with
    | .str s _ => .ok (.str s)
    | .bytes b =>                                                          -- visit_bytes: str::from_utf8
      match utf8Decode b with
      | some s => .ok (.str s)
      | Option.none => .error .err
    | .obj _ => .error .unmodelled
    | _ => .error .err
  | .bytes, v =>
    match v with
    | .bytes b => .ok (.bytes b)
    | .str s _ => .ok (.bytes (utf8Encode s))                              -- ByteBuf::visit_str
    | .seq _ xs => mapOk D.bytes (mapMR deByte xs)                         -- ByteBuf::visit_seq of u8
    | .obj _ => .error .unmodelled
    | _ => .error .err
  | .unit, v =>
    match v with
    | .none => .ok .unit                                                   -- visit_unit
    | .undefined => .ok .unit
    | .obj _ => .error .unmodelled
    | _ => .error .err
  | .ustruct, v =>
    match v with
    | .none => .ok .unit
    | .undefined => .ok .unit
    | .obj _ => .error .unmodelled
    | _ => .error .err
  | .opt s, v =>
    match v with
    | .none => .ok .none                                                   -- deserialize_option
    | .undefined => .ok .none
    | v =>
      mapOk D.some (de s v)
  | .nstruct s, v => de s v                                               -- visit_newtype_struct(self)
  | .seq s, v =>
    match v with
    | .seq _ xs =>
      mapOk D.list (mapMR (de s) xs)
    | .obj _ => .error .unmodelled
    | _ => .error .err
  | .map k w, v =>
    match v with
    | .map kvs =>
      mapOk D.map (mapMR (fun p => pairR (de k p.1) (de w p.2)) kvs)
    | .obj _ => .error .unmodelled
    | _ => .error .err
  | .tup ss, v =>
    match v with
    | .seq _ xs =>
      mapOk D.list (deList ss xs)
    | .obj _ => .error .unmodelled
    | _ => .error .err
  | .tstruct ss, v =>
    match v with
    | .seq _ xs =>
      mapOk D.list (deList ss xs)
    | .obj _ => .error .unmodelled
    | _ => .error .err
  | .struct names ss, v =>
    match v with
    | .map kvs =>
      if allStrKeys kvs then
        guardR (ignoredOK names kvs) (mapOk D.list (deFields names ss kvs))
      else
        match resolveKeys names kvs with
        | .error e => .error e
        | .ok slots =>
          if dupSlots slots then .error .err else guardR (ignoredSlots slots) (mapOk D.list (deSlots names ss 0 slots))
    | .seq _ xs =>                                                         -- derived visit_seq
      mapOk D.list (deList ss xs)
    | .obj _ => .error .unmodelled
    | _ => .error .err
  | .enum names vs, v =>
    match v with
    | .str n _ =>                                                          -- (variant, no payload)
      match findName n names with
      | some i => deVariant vs i i Option.none
      | Option.none => .error .err
    | .map [(.str n _, payload)] =>                                        -- map with a single key
      match findName n names with
      | some i => deVariant vs i i (some payload)
      | Option.none => .error .err
    | .map [(.int true i, payload)] =>                                     -- variant index (visit_u64)
      if i.toNat < vs.length then deVariant vs i.toNat i.toNat (some payload) else .error .err
    | .map [(.bytes b, payload)] =>                                        -- visit_bytes
      match findBytes b (names.map utf8Encode) with
      | some i => deVariant vs i i (some payload)
      | Option.none => .error .err
    | .map _ => .error .err
    | .obj _ => .error .unmodelled
    | _ => .error .err
  | .value, _ => .error .unmodelled
/-- derived `visit_seq` of tuples / tuple structs / structs: exactly one element per field, extra
elements are not looked at -/
def deList : List Shape → List V → R (List D)
  | [], _ => .ok []
  | _ :: _, [] => .error .err
  | s :: ss, x :: xs => consR (de s x) (deList ss xs)
/-- derived `visit_map` of structs on a map with string keys: fields by name, unknown keys ignored,
a missing field is an error unless it is an `Option` -/
def deFields : List Str → List Shape → List (V × V) → R (List D)
  | n :: ns, s :: ss, kvs =>
    match lookupStr n kvs with
    | some x => consR (de s x) (deFields ns ss kvs)
    | Option.none =>
      if isOpt s then consR (.ok .none) (deFields ns ss kvs) else .error .err
  | _, _, _ => .ok []
/-- derived `visit_map`, second pass: every field from its slot; a missing field is an error unless
it is an `Option` -/
def deSlots : List Str → List Shape → Nat → List (Option Nat × V) → R (List D)
  | _ :: ns, s :: ss, j, slots =>
    match findSlot j slots with
    | some x => consR (de s x) (deSlots ns ss (j + 1) slots)
    | Option.none =>
      if isOpt s then consR (.ok .none) (deSlots ns ss (j + 1) slots) else .error .err
  | _, _, _, _ => .ok []
/-- the variant chosen by the identifier (`orig` = its index, reported in the result) -/
def deVariant : List VShape → Nat → Nat → Option V → R D
  | v :: _, 0, orig, payload =>
    mapOk (D.variant orig) (deV v payload)
  | _ :: vs, i+1, orig, payload => deVariant vs i orig payload
  | [], _, _, _ => .error .err
/-- `VariantAccess` -/
def deV : VShape → Option V → R D
  | .unit, payload =>
    match payload with
    | Option.none => .ok .unit
    | some .none => .ok .unit                                              -- `()` from the payload
    | some .undefined => .ok .unit
    | some (.obj _) => .error .unmodelled
    | some _ => .error .err
  | .newtype s, payload =>
    match payload with
    | some x => de s x
    | Option.none => .error .err
  | .tuple ss, payload =>
    match payload with
    | some (.seq _ xs) =>
      -- `SeqDeserializer::deserialize_any` = visit_seq, then `end()`: left-over elements are an error
      if ss.length < xs.length then .error .err else mapOk D.list (deList ss xs)
    | some (.obj _) => .error .unmodelled
    | _ => .error .err
  | .struct names ss, payload =>
    match payload with
    | some (.map kvs) =>
      if allStrKeys kvs then
        guardR (ignoredOK names kvs) (mapOk D.list (deFields names ss kvs))
      else
        match resolveKeys names kvs with
        | .error e => .error e
        | .ok slots =>
          if dupSlots slots then .error .err else guardR (ignoredSlots slots) (mapOk D.list (deSlots names ss 0 slots))
    | some (.obj _) => .error .unmodelled
    | _ => .error .err
end

/-! ## Well-formed data of a shape (the domain of the round-trip theorem) -/

mutual
/-- can a value of this shape serialise to `none`? -/
def mayBeNone : Shape → Bool
  | .unit => true
  | .ustruct => true
  | .opt _ => true
  | .value => true
  | .nstruct s => mayBeNone s
  | _ => false
end

mutual
def floatFree : Shape → Bool
  | .f32 => false
  | .f64 => false
  | .value => false
  | .opt s => floatFree s
  | .seq s => floatFree s
  | .nstruct s => floatFree s
  | .map k v => floatFree k && floatFree v
  | .tup ss => floatFreeList ss
  | .tstruct ss => floatFreeList ss
  | .struct _ ss => floatFreeList ss
  | .enum _ vs => floatFreeVs vs
  | _ => true
def floatFreeList : List Shape → Bool
  | [] => true
  | s :: ss => floatFree s && floatFreeList ss
def floatFreeVs : List VShape → Bool
  | [] => true
  | v :: vs => floatFreeV v && floatFreeVs vs
def floatFreeV : VShape → Bool
  | .unit => true
  | .newtype s => floatFree s
  | .tuple ss => floatFreeList ss
  | .struct _ ss => floatFreeList ss
end

def nodupStr : List Str → Bool
  | [] => true
  | n :: ns => !ns.contains n && nodupStr ns

/-- no two of the keys are the same map key -/
def distinctKeys : List V → Bool
  | [] => true
  | k :: ks => ks.all (fun k' => !keyEq k k') && distinctKeys ks

mutual
def wf : Shape → D → Bool
  | .bool, .bool _ => true
  | .int _ lo hi, .int i => decide (lo ≤ i ∧ i ≤ hi) && fits64 i
  | .f32, .f32 b => decide (b < 4294967296) && !isSNaN32 b
  | .f64, .f64 _ => true
  | .char, .char _ => true
  | .str, .str _ => true
  | .bytes, .bytes _ => true
  | .unit, .unit => true
  | .opt _, .none => true
  | .opt s, .some d => !mayBeNone s && wf s d          -- options of non-optional, non-unit payloads
  | .seq s, .list ds => ds.all (wf s)
  | .map k v, .map kvs =>
      kvs.all (fun p => wf k p.1 && wf v p.2) && distinctKeys (kvs.map fun p => ser k p.1)
  | .tup ss, .list ds => wfList ss ds
  | .ustruct, .unit => true
  | .nstruct s, d => wf s d
  | .tstruct ss, .list ds => wfList ss ds
  | .struct names ss, .list ds => nodupStr names && names.length == ss.length && wfList ss ds
  | .enum names vs, .variant i p => nodupStr names && names.length == vs.length && wfVariant vs i p
  | _, _ => false
def wfList : List Shape → List D → Bool
  | [], [] => true
  | s :: ss, d :: ds => wf s d && wfList ss ds
  | _, _ => false
def wfVariant : List VShape → Nat → D → Bool
  | v :: _, 0, p => wfV v p
  | _ :: vs, i+1, p => wfVariant vs i p
  | [], _, _ => false
def wfV : VShape → D → Bool
  | .unit, .unit => true
  | .newtype s, p => wf s p
  | .tuple ss, .list ds => wfList ss ds
  | .struct names ss, .list ds => nodupStr names && names.length == ss.length && wfList ss ds
  | _, _ => false
end

/-! ## The value-handle registry (`ValueHandleRegistry`, `impl Serialize for Value`) -/

structure Registry where
  single : Option (Nat × V)
  overflow : List (Nat × V)      -- BTreeMap<u32, Value> as an association list without duplicate keys
  deriving Inhabited

def ovInsert : List (Nat × V) → Nat → V → List (Nat × V)
  | [], h, v => [(h, v)]
  | (h', v') :: rest, h, v => if h' = h then (h, v) :: rest else (h', v') :: ovInsert rest h v

def ovRemove : List (Nat × V) → Nat → Option V × List (Nat × V)
  | [], _ => (none, [])
  | (h', v') :: rest, h =>
    if h' = h then (some v', rest)
    else
      let r := ovRemove rest h
      (r.1, (h', v') :: r.2)

/-- `ValueHandleRegistry::insert`: the inline slot if the fast-path condition (regenerated from the
source: `MJ.Gen.registryInsertFastPath`) holds, otherwise the inline entry spills into the map and the
new entry goes into the map -/
def Registry.insert (r : Registry) (h : Nat) (v : V) : Registry :=
  if MJ.Gen.registryInsertFastPath r.single.isNone r.overflow.isEmpty then
    { single := some (h, v), overflow := r.overflow }
  else
    match r.single with
    | some (h0, v0) => { single := none, overflow := ovInsert (ovInsert r.overflow h0 v0) h v }
    | none => { single := none, overflow := ovInsert r.overflow h v }

def Registry.remove (r : Registry) (h : Nat) : Option V × Registry :=
  match r.single with
  | some (h0, v0) =>
    if h0 = h then (some v0, { r with single := none })
    else
      let x := ovRemove r.overflow h
      (x.1, { r with overflow := x.2 })
  | none =>
    let x := ovRemove r.overflow h
    (x.1, { r with overflow := x.2 })

/-! ### sequences of registry operations (for the refinement theorem and the differential run) -/

/-- operations on the registry during serialisations -/
inductive RegOp where
  | ins (h : Nat) (v : V)
  | rem (h : Nat)

/-- the two-tier store: final registry and what each `remove` returned -/
def runReg : List RegOp → Registry → Registry × List (Option V)
  | [], r => (r, [])
  | .ins h v :: ops, r => runReg ops (r.insert h v)
  | .rem h :: ops, r =>
    let x := r.remove h
    let rest := runReg ops x.2
    (rest.1, x.1 :: rest.2)

/-- the registry a thread starts with -/
def Registry.empty : Registry := { single := none, overflow := [] }

structure HState where
  last : Nat           -- LAST_VALUE_HANDLE (u32, wrapping)
  reg : Registry

/-- `impl Serialize for Value` while `serializing_for_value()`, consumed by
`SerializeTupleStruct::{serialize_field,end}` of `ValueSerializer` -/
def serValueM (v : V) (st : HState) : V × HState :=
  let h := (st.last + 1) % 4294967296
  let reg1 := st.reg.insert h v
  -- serialize_field(&handle): transform(u32) = U64 → as_usize() → `as u32`
  let h' := h % 4294967296
  let x := reg1.remove h'
  match x.1 with
  | some v' => (v', { last := h, reg := x.2 })
  | none => (.invalid, { last := h, reg := x.2 })

/-- state-threading `map` (elements of a sequence) -/
def seqM (f : D → HState → V × HState) : List D → HState → List V × HState
  | [], st => ([], st)
  | d :: ds, st =>
    let a := f d st
    let b := seqM f ds a.2
    (a.1 :: b.1, b.2)

/-- state-threading `map` over entries: key first, then value -/
def pairsM (f g : D → HState → V × HState) : List (D × D) → HState → List (V × V) × HState
  | [], st => ([], st)
  | p :: ps, st =>
    let a := f p.1 st
    let b := g p.2 a.2
    let c := pairsM f g ps b.2
    ((a.1, b.1) :: c.1, c.2)

mutual
def serM : Shape → D → HState → V × HState
  | .opt s, .some d, st => serM s d st
  | .seq s, .list ds, st =>
    let r := seqM (serM s) ds st
    (.seq false r.1, r.2)
  | .map k v, .map kvs, st =>
    let r := pairsM (serM k) (serM v) kvs st
    (.map (buildMap r.1), r.2)
  | .tup ss, .list ds, st =>
    let r := serListM ss ds st
    (.seq true r.1, r.2)
  | .nstruct s, d, st => serM s d st
  | .tstruct ss, .list ds, st =>
    let r := serListM ss ds st
    (.seq false r.1, r.2)
  | .struct names ss, .list ds, st =>
    let r := serListM ss ds st
    (.map (zipKeys names r.1), r.2)
  | .enum names vs, .variant i p, st => serVariantM names vs i p st
  | .value, .val v, st => serValueM v st
  | s, d, st => (ser s d, st)
def serListM : List Shape → List D → HState → List V × HState
  | s :: ss, d :: ds, st =>
    let a := serM s d st
    let b := serListM ss ds a.2
    (a.1 :: b.1, b.2)
  | _, _, st => ([], st)
def serVariantM : List Str → List VShape → Nat → D → HState → V × HState
  | n :: _, v :: _, 0, p, st => serVM n v p st
  | _ :: ns, _ :: vs, i+1, p, st => serVariantM ns vs i p st
  | _, _, _, _, st => (.invalid, st)
def serVM : Str → VShape → D → HState → V × HState
  | n, .newtype s, p, st =>
    let r := serM s p st
    (.map [(.str n false, r.1)], r.2)
  | n, .tuple ss, .list ds, st =>
    let r := serListM ss ds st
    (.map [(.str n false, .seq false r.1)], r.2)
  | n, .struct names ss, .list ds, st =>
    let r := serListM ss ds st
    (.map [(.str n false, .map (zipKeys names r.1))], r.2)
  | n, v, p, st => (serV n v p, st)
end

end MJ.Serde
