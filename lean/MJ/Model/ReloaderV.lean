import MJ.Model.Reloader
/-!
# VARIANT of the reloader protocol: the reload check is taken BEFORE `cached_env` is locked

```
acquire_env':  let reload_requested = notifier.should_reload();      (pre-check: NO lock held)
               lock cached_env
               if is_none() || reload_requested { … as before … }
```

This is what the seeded change C20-6 did ("poll the notifier first: the freshness callback can be slow
and must not run while other users wait on the environment").  Everything else is the transition
system of `MJ/Model/Reloader.lean`; only the `.locked` step uses the decision remembered from the
pre-check instead of reading the flag under the lock.  The variant is NOT what /repo does (the
source tie `MJ.C20.accesses_as_modelled` pins the order lock → check); it exists to show, with
concrete schedules, that the order is what the property rests on (`MJ.C20.variant_*`).
-/
namespace MJ.Reloader

structure VState where
  base : State
  /-- thread ↦ (reload decision, the flag was read as true), taken before the lock -/
  pre : List (Nat × (Bool × Bool)) := []
  deriving Repr

def vinit (ths : List Thread) : VState := { base := init ths }

def stepV (v : VState) (i : Nat) : Option VState :=
  let σ := v.base
  let t := σ.now
  match σ.threads[i]? with
  | some (.acqIdle cfg) =>
    match v.pre.lookup i with
    | none =>
      -- `should_reload()` with no lock on `cached_env`: one critical section of the notifier mutex
      if σ.flag then
        some ⟨{ σ with now := t + 1, flagObs := σ.flagObs + 1 }, (i, (true, true)) :: v.pre⟩
      else if σ.cbConst.getD cfg.cb then
        some ⟨{ σ with now := t + 1, cbObs := σ.cbObs + 1, onCalls := σ.onCalls + 1 }, (i, (true, false)) :: v.pre⟩
      else
        some ⟨{ σ with now := t + 1 }, (i, (false, false)) :: v.pre⟩
    | some _ => (step σ i).map fun σ' => ⟨σ', v.pre⟩      -- the lock
  | some .acqActive =>
    match σ.cur with
    | some c =>
      if c.tid = i then
        match c.pc with
        | .locked =>
          -- `mutex_guard.is_none() || reload_requested`: the decision is the remembered one
          let (reload, saw) := (v.pre.lookup i).getD (false, false)
          match σ.env with
          | none =>
            let c' : Active := { c with pc := .checked true, checkedAt := t, sawFlag := saw }
            some ⟨{ σ with now := t + 1, noneObs := σ.noneObs + 1, cur := some c' }, v.pre⟩
          | some _ =>
            let c' : Active := { c with pc := .checked reload, checkedAt := t, sawFlag := saw }
            some ⟨{ σ with now := t + 1, cur := some c' }, v.pre⟩
        | _ => (stepActive σ c).map fun σ' => ⟨σ', v.pre⟩
      else none
    | none => none
  | _ => (step σ i).map fun σ' => ⟨σ', v.pre⟩

/-- run a schedule on the variant; disabled entries are skipped -/
def runV (v : VState) : List Nat → VState
  | [] => v
  | i :: is => runV ((stepV v i).getD v) is

end MJ.Reloader
