import MJ.Model.Value
/-!
# `impl Ord / PartialEq / Hash for Value` (`minijinja/src/value/mod.rs`, `value/object.rs`)

Hand transcription of the code as it is after the `fix:` commits (63b23f6: `as_f64` no longer fooled
by the saturating cast, two `u128` compared directly; cea73bf: iterables share the slot of the
sequences in the ordering, float `2^63` is not `i64::MAX`).  Tied to the code by the C07
correspondence (every ordered pair of the value zoo through `Value::cmp`, `==`, `Hash`).

`hkey` is the canonical *hash key*: the sequence of items fed to the `Hasher`; two values hash alike
(for every `Hasher`) when their keys are equal.
-/
namespace MJ.Cmp
open MJ.F64 MJ.Val

/-! ## numbers -/

/-- `value/mod.rs: Number` — `number()` widens `U64`/`I64` -/
inductive Num3 where
  | i (x : Int)
  | u (x : Nat)
  | f (b : Nat)

def number : N → Num3
  | .u64 x => .u x
  | .u128 x => .u x
  | .i64 x => .i x
  | .i128 x => .i x
  | .f64 b => .f b

/-- `cmp_i128_u128` -/
def cmpI128U128 (l : Int) (r : Nat) : Ordering :=
  if l < 0 then .lt else compare l.toNat r

/-- `cmp_f64_i128` -/
def cmpF64I128 (l : Nat) (r : Int) : Ordering :=
  match cmpF64 l (ofInt r) with
  | .eq =>
    if isFinite l then
      if fge l (ofInt i128Max) then .gt
      else (compare (castInt i128Min i128Max l) r).then (cmpWithTrunc l)
    else .eq
  | rv => rv

/-- `cmp_f64_u128` -/
def cmpF64U128 (l : Nat) (r : Nat) : Ordering :=
  match cmpF64 l (ofInt r) with
  | .eq =>
    if isFinite l then
      if flt l 0 then .lt
      else if fge l (ofInt u128Max) then .gt
      else compare (castInt 0 u128Max l) (r : Int)
    else .eq
  | rv => rv

/-- `cmp_uncoercible_numbers` -/
def cmpUncoercible (a b : N) : Ordering :=
  match number a, number b with
  | .f x, .f y => cmpF64 x y
  | .f x, .i y => cmpF64I128 x y
  | .i x, .f y => (cmpF64I128 y x).swap
  | .f x, .u y => cmpF64U128 x y
  | .u x, .f y => (cmpF64U128 y x).swap
  | .i x, .i y => compare x y
  | .u x, .u y => compare x y
  | .i x, .u y => cmpI128U128 x y
  | .u x, .i y => (cmpI128U128 y x).swap

/-- the numeric part of `Ord::cmp` -/
def cmpN (a b : N) : Ordering :=
  match a, b with
  | .u128 x, .u128 y => compare x y
  | _, _ =>
    match coerceN a b with
    | some (.f x y) => cmpF64 x y
    | some (.i x y) => compare x y
    | Option.none => cmpUncoercible a b

/-- the numeric part of `PartialEq::eq` -/
def eqN (a b : N) : Bool :=
  match a, b with
  | .u128 x, .u128 y => x == y
  | _, _ =>
    match coerceN a b with
    | some (.f x y) => feq x y
    | some (.i x y) => x == y
    | Option.none => false

/-! ## ordering -/

/-- `<[u8]>::cmp` / `str::cmp` (byte-wise lexicographic) -/
def cmpBytes (x y : List Nat) : Ordering := List.compareLex compare x y

mutual
/-- `impl Ord for Value` -/
def cmpV (a b : V) : Ordering :=
  if a.rank ≠ b.rank then compare a.rank b.rank
  else
    match a, b with
    | .none, .none => .eq
    | .undef, .undef => .eq
    | .str x, .str y => cmpBytes x y
    | .bytes x, .bytes y => cmpBytes x y
    | .bool x, .bool y => compare (boolN x).int (boolN y).int
    | .num x, .num y => cmpN x y
    -- objects: `is_tuple()` first (false < true), then by `repr()`
    | .seq xs, .seq ys => cmpL xs ys
    | .seq xs, .iter ys => cmpL xs ys
    | .iter xs, .seq ys => cmpL xs ys
    | .iter xs, .iter ys => cmpL xs ys
    | .tuple xs, .tuple ys => cmpL xs ys
    | .seq _, .tuple _ => .lt
    | .iter _, .tuple _ => .lt
    | .tuple _, .seq _ => .gt
    | .tuple _, .iter _ => .gt
    | .map ps, .map qs => cmpPL ps qs
    | .plain x, .plain y => cmpBytes x y
    -- `unreachable!()` / `as_object().unwrap()` in the Rust; see `MJ.C07.cmp_no_unreachable`
    | _, _ => .eq
/-- `Iterator::cmp` over the items -/
def cmpL (xs ys : List V) : Ordering :=
  match xs, ys with
  | [], [] => .eq
  | [], _ :: _ => .lt
  | _ :: _, [] => .gt
  | x :: xs, y :: ys => (cmpV x y).then (cmpL xs ys)
/-- `Iterator::cmp` over `(key, value)` pairs (tuples compare lexicographically) -/
def cmpPL (ps qs : List (V × V)) : Ordering :=
  match ps, qs with
  | [], [] => .eq
  | [], _ :: _ => .lt
  | _ :: _, [] => .gt
  | (k, v) :: ps, (k', v') :: qs => ((cmpV k k').then (cmpV v v')).then (cmpPL ps qs)
end

/-! ## hash key -/

/-- what `Hash::hash` writes -/
inductive HTok where
  /-- `write_u8` (`0u8.hash`, `bool::hash`) -/
  | u8 (n : Nat)
  /-- `i64::hash` -/
  | i64 (n : Int)
  /-- `Option<u64>::hash` of `as_f64(self, true).map(f64::to_bits)` -/
  | bits (o : Option Nat)
  /-- `str::hash` -/
  | str (s : List Nat)
  /-- `Vec<u8>::hash` -/
  | bytes (s : List Nat)
  deriving Repr, DecidableEq

def hkeyN (n : N) : HTok :=
  match n.toI64 with
  | some v => .i64 v
  | Option.none => .bits (n.asF64 true)

mutual
/-- `impl Hash for Value` (+ `impl Hash for DynObject`: the `(key, value)` pairs in order; for
    sequences and iterables the key is the index) -/
def hkey : V → List HTok
  | .none => [.u8 0]
  | .undef => [.u8 0]
  | .str s => [.str s]
  | .bool b => [.u8 (if b then 1 else 0)]
  | .bytes s => [.bytes s]
  | .num n => [hkeyN n]
  | .seq xs => .u8 0 :: hkeyL 0 xs
  | .iter xs => .u8 0 :: hkeyL 0 xs
  | .tuple xs => .u8 1 :: hkeyL 0 xs
  | .map ps => .u8 0 :: hkeyPL ps
  | .plain _ => [.u8 0]
def hkeyL (i : Nat) : List V → List HTok
  | [] => []
  | x :: xs => .i64 i :: (hkey x ++ hkeyL (i + 1) xs)
def hkeyPL : List (V × V) → List HTok
  | [] => []
  | (k, v) :: ps => hkey k ++ (hkey v ++ hkeyPL ps)
end

/-! ## equality -/

/-- which map type backs `ValueMap`: `BTreeMap` (default) or `IndexMap` (`preserve_order`) -/
inductive Mode where
  | btree
  | index
  deriving Repr, DecidableEq

mutual
/-- `impl PartialEq for Value` -/
def eqV (m : Mode) (a b : V) : Bool :=
  match a, b with
  | .none, .none => true
  | .undef, .undef => true
  | .str x, .str y => x == y
  | .bytes x, .bytes y => x == y
  | .bool x, .bool y => x == y
  | .bool x, .num y => eqN (boolN x) y
  | .num x, .bool y => eqN x (boolN y)
  | .num x, .num y => eqN x y
  | .seq xs, .seq ys => eqL m xs ys
  | .seq xs, .iter ys => eqL m xs ys
  | .iter xs, .seq ys => eqL m xs ys
  | .iter xs, .iter ys => eqL m xs ys
  | .tuple xs, .tuple ys => eqL m xs ys
  | .map ps, .map qs => if ps.length ≠ qs.length then false else eqAll m ps qs
  | .plain x, .plain y => x == y
  | _, _ => false
termination_by sizeOf a + sizeOf b
/-- `Iterator::eq` -/
def eqL (m : Mode) (xs ys : List V) : Bool :=
  match xs, ys with
  | [], [] => true
  | x :: xs, y :: ys => eqV m x y && eqL m xs ys
  | _, _ => false
termination_by sizeOf xs + sizeOf ys
/-- `a.try_iter_pairs().all(|(k, v1)| b.get_value(&k) == Some(v1))` -/
def eqAll (m : Mode) (ps qs : List (V × V)) : Bool :=
  match ps with
  | [] => true
  | (k, v1) :: ps' =>
    (match m with
      | .btree => findB m k v1 qs
      | .index => findI m k v1 (decide (qs.length = 1)) qs) && eqAll m ps' qs
termination_by sizeOf ps + sizeOf qs
/-- `BTreeMap::get(k) == Some(v1)`: the entry whose key compares `Equal` to `k` -/
def findB (m : Mode) (k v1 : V) (qs : List (V × V)) : Bool :=
  match qs with
  | [] => false
  | (k', v') :: qs' => if cmpV k k' = .eq then eqV m v' v1 else findB m k v1 qs'
termination_by sizeOf v1 + sizeOf qs
/-- `IndexMap::get(k) == Some(v1)`: same hash and `k == stored key` (a one-entry map skips the hash) -/
def findI (m : Mode) (k v1 : V) (single : Bool) (qs : List (V × V)) : Bool :=
  match qs with
  | [] => false
  | (k', v') :: qs' =>
    if (single || hkey k == hkey k') && eqV m k k' then eqV m v' v1 else findI m k v1 single qs'
termination_by sizeOf k + sizeOf v1 + sizeOf qs
end

/-! ## building a map (`Value::from_pairs` / a map literal with distinct keys) -/

/-- `BTreeMap::insert` (`Value::from_pairs` and a map literal insert their pairs one by one):
    entries kept in key order; an entry whose key compares `Equal` keeps its key and gets the new value -/
def insertB (k v : V) : List (V × V) → List (V × V)
  | [] => [(k, v)]
  | (k', v') :: ps =>
    match cmpV k k' with
    | .lt => (k, v) :: (k', v') :: ps
    | .eq => (k', v) :: ps
    | .gt => (k', v') :: insertB k v ps

/-- `IndexMap::insert`: the value of an equal key is replaced in place, otherwise appended -/
def insertI (k v : V) (ps : List (V × V)) : List (V × V) :=
  if ps.any (fun p => hkey k == hkey p.1 && eqV .index k p.1) then
    ps.map (fun p => if hkey k == hkey p.1 && eqV .index k p.1 then (p.1, v) else p)
  else ps ++ [(k, v)]

def mkMap (m : Mode) (ps : List (V × V)) : V :=
  match m with
  | .btree => .map (ps.foldl (fun acc p => insertB p.1 p.2 acc) [])
  | .index => .map (ps.foldl (fun acc p => insertI p.1 p.2 acc) [])

/-! ## the lookup entry points of a `ValueMap` (`impl_value_map!` in `value/object.rs`) -/

/-- `Object::get_value` on a `BTreeMap<Value, _>`: the entry whose key compares `Equal` -/
def getB (k : V) : List (V × V) → Option V
  | [] => Option.none
  | (k', v') :: ps => if cmpV k k' = .eq then some v' else getB k ps

/-- `Object::get_value` on an `IndexMap<Value, _>`: same hash and `==` (a one-entry map skips the hash) -/
def getI (single : Bool) (k : V) : List (V × V) → Option V
  | [] => Option.none
  | (k', v') :: ps =>
    if (single || hkey k == hkey k') && eqV .index k k' then some v' else getI single k ps

/-- `Object::get_value(&key)` — what `m[key]`, `Value::get_item`, `key in m` use -/
def getV (m : Mode) (ps : List (V × V)) (k : V) : Option V :=
  match m with
  | .btree => getB k ps
  | .index => getI (decide (ps.length = 1)) k ps

/-- the linear scan of the small-map fast path: the first *string* key with that text -/
def scanStr (s : List Nat) : List (V × V) → Option V
  | [] => Option.none
  | (.str t, v') :: ps => if t = s then some v' else scanStr s ps
  | _ :: ps => scanStr s ps

/-- `Object::get_value_by_str(key)` — what `m.key`, `Value::get_attr`, context variable resolution
    and every `attribute=` filter use: a linear scan for maps of at most `valueMapStrScanMax` (regenerated from the source: 12) entries, otherwise
    `self.get(&Value::from(key))` -/
def getByStr (m : Mode) (ps : List (V × V)) (s : List Nat) : Option V :=
  if ps.length ≤ MJ.Gen.valueMapStrScanMax then scanStr s ps else getV m ps (.str s)

/-! ## reported lengths (`Enumerator::query_len`, the default of `Object::enumerator_len`) -/

/-- what `query_len` sees of an enumerator: the variant, and either the stored count or the
    iterator's `size_hint()` -/
inductive EnumShape where
  | empty
  | values (n : Nat)
  | str (n : Nat)
  | seq (n : Nat)
  | nonEnumerable
  /-- `Iter` / `KeyValueIter` / `RevIter` / `RevKeyValueIter` with `size_hint() = (lo, hi)` -/
  | hinted (variant : String) (lo : Nat) (hi : Option Nat)
  deriving Repr, DecidableEq

/-- the guard `a OP b` of a size-hint arm, by its regenerated operator text -/
def guardHolds (op : String) (a b : Nat) : Bool :=
  if op = "==" then a == b
  else if op = "<=" then decide (a ≤ b)
  else if op = "<" then decide (a < b)
  else if op = ">=" then decide (b ≤ a)
  else if op = ">" then decide (b < a)
  else if op = "!=" then a != b
  else false

/-- `Enumerator::query_len`, arm by arm as regenerated from the source (`MJ.Gen.queryLenArms`) -/
def queryLen : EnumShape → Option Nat
  | .empty => if MJ.Gen.queryLenArms.lookup "Empty" = some "direct" then some 0 else Option.none
  | .values n => if MJ.Gen.queryLenArms.lookup "Values" = some "direct" then some n else Option.none
  | .str n => if MJ.Gen.queryLenArms.lookup "Str" = some "direct" then some n else Option.none
  | .seq n => if MJ.Gen.queryLenArms.lookup "Seq" = some "direct" then some n else Option.none
  | .nonEnumerable => Option.none
  | .hinted variant lo hi =>
    match MJ.Gen.queryLenArms.lookup variant, hi with
    | some op, some b => if guardHolds op lo b then some lo else Option.none
    | _, _ => Option.none

/-- the four iterator-backed variants -/
def hintedVariants : List String := ["Iter", "KeyValueIter", "RevIter", "RevKeyValueIter"]

/-- the enumerator really yields `count` items: stored counts are the count, and an iterator's size
    hint brackets it (the contract of `Iterator::size_hint`) -/
def EnumShape.Yields (s : EnumShape) (count : Nat) : Prop :=
  match s with
  | .empty => count = 0
  | .values n => count = n
  | .str n => count = n
  | .seq n => count = n
  | .nonEnumerable => True
  | .hinted v lo hi => v ∈ hintedVariants ∧ lo ≤ count ∧ (∀ b, hi = some b → count ≤ b)

/-- the Map/Map arm of `PartialEq` as the Rust writes it, with the lengths the two objects report:
    both known → unequal lengths settle it and otherwise only `a ⊆ b` is checked; else `a ⊆ b` and
    the number of `a`'s entries equals the number of items `b` yields -/
def eqMapWithLen (m : Mode) (la lb : Option Nat) (ps qs : List (V × V)) : Bool :=
  match la, lb with
  | some a, some b => if a ≠ b then false else eqAll m ps qs
  | _, _ => eqAll m ps qs && (ps.length == qs.length)

end MJ.Cmp
