/-!
# Hidden state of the engine: classes and their small models  (C15)

Everything in `minijinja/src` that is process-global, thread-local or interior-mutable and reachable
from `Environment`, `Template`, `State` and `Value` — as enumerated from the source by
`lib/tables/c15.py` (`C15_HIDDEN_STATE`: every `static`, every `thread_local!`, every struct field
whose type mentions `Cell/RefCell/Mutex/RwLock/Atomic*/OnceLock/OnceCell/Lazy*/MemoMap/UnsafeCell`,
every field named `*pool*`, every `Arc::make_mut(&mut self.x)` registry and every function that
creates such a value) — is given a class here.  `MJ.C15.all_hidden_state_classified` compares the
regenerated list with `modelHiddenState`: a new piece of hidden state stops the proof build until it
is classified.

For each class there is a small model of the discipline that makes it harmless and a theorem in
`MJ/Props/C15.lean`:

* `onceCache`        a `OnceLock` written once with the value of a fixed initialiser (`Once`)
* `memoCache`        the memoising template map (`MJ.Store`, the main model)
* `idGenerator`      a counter that is only ever incremented and read for freshness (`MJ.Store.IdSys`,
                     `ThreadState.lastHandle`)
* `guard`            a flag that a drop guard restores on every way out (`MJ.Store.ThreadState`)
* `freshKeyRegistry` a map keyed by fresh handles: an entry left behind is never read (`HandleReg`)
* `pool`             recycled buffers that are cleared before use (`Pool`)
* `copyOnWrite`      `Arc<BTreeMap>` registries written through `Arc::make_mut` (`MJ.Store.Cow`)
* `immutable`        never written after construction (a zero-sized writer, an empty instruction list,
                     the `render!` macro's thread-local default environment)
* `renderLocal`      created by one render (or one call) and reachable only through values of that
                     render: `Loop`, `Kwargs.used`, the `WriteWrapper` of `render_captured_to`
* `valueState`       state of a VALUE the template can see and mutate by design (a namespace, a
                     one-shot iterator): it is part of the context; "the same context" means the
                     same state of these
* `guardRef`         the reference a guard holds to the flag it restores

No Mathlib import.
-/
namespace MJ.Hidden

inductive StateClass where
  | onceCache | memoCache | idGenerator | guard | guardRef | freshKeyRegistry | pool | copyOnWrite
  | immutable | renderLocal | valueState
  deriving Repr, DecidableEq

/-- every row of the regenerated table `MJ.Gen.c15HiddenState` with its class -/
def modelHiddenState : List (String × StateClass) :=
  [("compiler/codegen.rs|thread_local|PENDING_BLOCK_POOL|refcell", .pool),
   ("compiler/codegen.rs|thread_local|SPAN_STACK_POOL|refcell", .pool),
   ("compiler/instructions.rs|static|EMPTY_INSTRUCTIONS|plain", .immutable),
   ("defaults.rs|static|FILTERS|once|filled-at-1-site", .onceCache),
   ("defaults.rs|static|GLOBALS|once|filled-at-1-site", .onceCache),
   ("defaults.rs|static|TESTS|once|filled-at-1-site", .onceCache),
   ("environment.rs|cow|filters|arc", .copyOnWrite),
   ("environment.rs|cow|globals|arc", .copyOnWrite),
   ("environment.rs|cow|tests|arc", .copyOnWrite),
   ("environment.rs|static|DEFAULT_AUTO_ESCAPE|once|filled-at-1-site", .onceCache),
   ("environment.rs|static|FORMATTER|once|filled-at-1-site", .onceCache),
   ("environment.rs|static|NO_AUTO_ESCAPE|once|filled-at-1-site", .onceCache),
   ("loader.rs|created-in|new|memo", .memoCache),
   ("loader.rs|field|LoaderStore.owned_templates|memo", .memoCache),
   ("macros.rs|thread_local|ENV|plain", .immutable),
   ("output.rs|static-mut|NULL_WRITER|plain", .immutable),
   ("syntax.rs|cow|delims|arc", .copyOnWrite),
   ("syntax.rs|static|DEFAULT_DELIMS_ARC|once|filled-at-1-site", .onceCache),
   ("template.rs|created-in|render_captured_to|refcell", .renderLocal),
   ("utils.rs|static|CACHE|once|filled-at-1-site", .onceCache),
   ("value/argtypes.rs|created-in|new|refcell", .renderLocal),
   ("value/argtypes.rs|field|Kwargs.used|refcell", .renderLocal),
   ("value/mod.rs|created-in|make_one_shot_iterator|mutex", .valueState),
   ("value/mod.rs|created-in|reverse|mutex", .valueState),
   ("value/mod.rs|field|InternalSerializationGuard.flag|cell", .guardRef),
   ("value/mod.rs|thread_local|INTERNAL_SERIALIZATION|cell", .guard),
   ("value/mod.rs|thread_local|LAST_VALUE_HANDLE|cell", .idGenerator),
   ("value/mod.rs|thread_local|VALUE_HANDLES|refcell", .freshKeyRegistry),
   ("value/namespace_object.rs|field|Namespace.data|mutex", .valueState),
   ("vm/loop_object.rs|created-in|new|atomic", .renderLocal),
   ("vm/loop_object.rs|created-in|new|mutex", .renderLocal),
   ("vm/loop_object.rs|field|Loop.idx|atomic", .renderLocal),
   ("vm/loop_object.rs|field|Loop.iter|mutex", .renderLocal),
   ("vm/loop_object.rs|field|Loop.last_changed_value|mutex", .renderLocal),
   ("vm/state.rs|field|State.macro_context_pool|pool", .pool),
   ("vm/state.rs|static|STATE_ID|atomic", .idGenerator)]

/-! ## `onceCache`: a `OnceLock` filled by a fixed initialiser

All `OnceLock` statics of the crate are function-local (`static X: OnceLock<_>` inside the only
function that reads it), so there is exactly one initialiser per cell; it takes no argument. -/

structure Once (α : Type) where
  cell : Option α

/-- `X.get_or_init(init)`: the stored value, storing `init ()` first when the cell is empty -/
def Once.getOrInit {α : Type} (o : Once α) (init : Unit → α) : Once α × α :=
  match o.cell with
  | some v => (o, v)
  | none => (⟨some (init ())⟩, init ())

/-- `n` reads, by whatever threads, in whatever order (the lock serialises them) -/
def Once.reads {α : Type} (o : Once α) (init : Unit → α) : Nat → List α
  | 0 => []
  | n + 1 => (o.getOrInit init).2 :: Once.reads (o.getOrInit init).1 init n

/-! ## `pool`: recycled buffers

`compiler/codegen.rs`: `take_*_buffer` pops a pooled `Vec` (or allocates one) and — `takeClears` —
clears it; `recycle_*_buffer` — `recycleClears` — clears the buffer and pushes it back when the
pool has room and the buffer is small.  A generator that unwinds, or a sub-generator whose buffer
was replaced, just drops its buffer.  Either of the two clears is enough; the regenerated table
`MJ.Gen.c15Pools` says which are present. -/

structure Pool (α : Type) where
  /-- the pooled buffers (`Vec<Vec<α>>`), the next one to be taken first -/
  free : List (List α)
  /-- buffers currently taken (held by code generators) -/
  live : List (List α)
  /-- what every `take` so far returned, most recent first -/
  handedOut : List (List α)

inductive PoolEv (α : Type) where
  | take                       -- `take_*_buffer()`
  | push (i : Nat) (x : α)     -- the holder of live buffer `i` pushes an element
  | pop (i : Nat)              -- … pops one
  | recycle (i : Nat)          -- `recycle_*_buffer(live[i])` (pool has room, buffer is small)
  | recycleFull (i : Nat)      -- `recycle_*_buffer(live[i])` when the pool is full / the buffer too big: dropped
  | drop (i : Nat)             -- the holder goes away without recycling (unwinding, replaced buffer)

def Pool.step {α : Type} (takeClears recycleClears : Bool) (p : Pool α) : PoolEv α → Pool α
  | .take =>
    let raw := p.free.headD []
    let buf := if takeClears then [] else raw
    { free := p.free.drop 1, live := buf :: p.live, handedOut := buf :: p.handedOut }
  | .push i x => { p with live := p.live.modify i (x :: ·) }
  | .pop i => { p with live := p.live.modify i (·.drop 1) }
  | .recycle i =>
    match p.live[i]? with
    | none => p
    | some b => { p with free := (if recycleClears then [] else b) :: p.free, live := p.live.eraseIdx i }
  | .recycleFull i => { p with live := p.live.eraseIdx i }
  | .drop i => { p with live := p.live.eraseIdx i }

def Pool.run {α : Type} (tc rc : Bool) (p : Pool α) : List (PoolEv α) → Pool α
  | [] => p
  | e :: es => Pool.run tc rc (p.step tc rc e) es

def Pool.empty {α : Type} : Pool α := { free := [], live := [], handedOut := [] }

/-! ## `freshKeyRegistry`: the value-handle registry

`value/mod.rs: ValueHandleRegistry { single: Option<(u32, Value)>, overflow: BTreeMap<u32, Value> }`
— a map with a one-entry fast path.  `insert` uses `single` only when the whole registry is empty,
otherwise it moves `single` into `overflow` first; `remove` takes `single` only when its handle is
the requested one.  The registry must behave as a map whatever else it holds: entries that a foreign
serializer or an unwound conversion left behind stay in it for the life of the thread. -/

structure HandleReg where
  single : Option (Nat × Nat)
  overflow : List (Nat × Nat)

def HandleReg.empty : HandleReg := { single := none, overflow := [] }

def ofind : List (Nat × Nat) → Nat → Option Nat
  | [], _ => none
  | (k, v) :: t, h => if k = h then some v else ofind t h

def odel (l : List (Nat × Nat)) (h : Nat) : List (Nat × Nat) := l.filter (fun p => p.1 != h)

def oins (l : List (Nat × Nat)) (h v : Nat) : List (Nat × Nat) := (h, v) :: odel l h

/-- `ValueHandleRegistry::insert` -/
def HandleReg.insert (r : HandleReg) (h v : Nat) : HandleReg :=
  if r.single.isNone && r.overflow.isEmpty then { r with single := some (h, v) }
  else
    match r.single with
    | some (oh, ov) => { single := none, overflow := oins (oins r.overflow oh ov) h v }
    | none => { r with overflow := oins r.overflow h v }

/-- `ValueHandleRegistry::remove`; `checksHandle = true` is the code as it is, `false` the variant
    that takes `single` whatever handle was asked for ("handles come back in LIFO order") -/
def HandleReg.remove (checksHandle : Bool) (r : HandleReg) (h : Nat) : HandleReg × Option Nat :=
  match r.single with
  | some (sh, sv) =>
    if !checksHandle || sh = h then ({ r with single := none }, some sv)
    else ({ r with overflow := odel r.overflow h }, ofind r.overflow h)
  | none => ({ r with overflow := odel r.overflow h }, ofind r.overflow h)

/-- the registry as a map -/
def HandleReg.lookup (r : HandleReg) (h : Nat) : Option Nat :=
  match r.single with
  | some (sh, sv) => if sh = h then some sv else ofind r.overflow h
  | none => ofind r.overflow h

/-- the single slot is used only while the overflow map is empty -/
def HandleReg.Inv (r : HandleReg) : Prop := r.single.isSome → r.overflow = []

/-! ## the source facts about pools and the handle registry -/

/-- pools of `compiler/codegen.rs` and the per-render pool of macro contexts of `vm/mod.rs`: (take, does
    it clear, recycle, does it clear) -/
def modelPools : List (String × Bool × String × Bool) :=
  [("take_pending_block_buffer", true, "recycle_pending_block_buffer", true),
   ("take_span_stack_buffer", true, "recycle_span_stack_buffer", true),
   ("macro_context_pool.pop+reset_with_frame", true, "macro_context_pool.push", true)]

/-- is a pool discipline safe?  one of the two clears has to be there -/
def poolSafe (row : String × Bool × String × Bool) : Bool := row.2.1 || row.2.2.2

/-- `ValueHandleRegistry`: `remove` compares the handle of the single slot; `insert` uses the single
    slot only when the registry is entirely empty -/
def modelHandleRegistry : List (String × Bool) :=
  [("remove-compares-single-handle", true), ("insert-single-only-when-empty", true)]

/-- What the model's theorems need of the source: `insert` keeps the invariant "the single slot is
    occupied only while it is the only entry".  Whether `remove` then compares the single slot's
    handle makes no difference for handles that are present (`lifo_agrees_when_present`), so that
    fact is recorded but not demanded. -/
def handleRegistrySafe (rows : List (String × Bool)) : Bool :=
  rows.lookup "insert-single-only-when-empty" == some true

end MJ.Hidden
