/-!
# Hidden state of the engine: classes and their small models  (C15)

Everything in `minijinja/src` that is process-global, thread-local or interior-mutable and reachable
from `Environment`, `Template`, `State` and `Value` — as enumerated from the source by
`lib/tables/c15.py` (`C15_HIDDEN_STATE`: every `static`, every `thread_local!`, every struct field
whose type mentions `Cell/RefCell/Mutex/RwLock/Atomic*/OnceLock/OnceCell/Lazy*/MemoMap/UnsafeCell`,
every field named `*pool*`, every `Arc::make_mut(&mut self.x)` registry and every function that
creates such a value) — is given a class here.  `MJ.C15.all_hidden_state_classified` compares the
regenerated list with `modelHiddenState`: a new piece of hidden state stops the proof build until it
is classified.

For each class there is a small model of the discipline that makes it harmless and a theorem in
`MJ/Props/C15.lean`:

* `onceCache`        a `OnceLock` written once with the value of a fixed initialiser (`Once`)
* `memoCache`        the memoising template map (`MJ.Store`, the main model)
* `idGenerator`      a counter that is only ever incremented and read for freshness (`MJ.Store.IdSys`,
                     `ThreadState.lastHandle`)
* `guard`            a flag that a drop guard restores on every way out (`MJ.Store.ThreadState`)
* `freshKeyRegistry` a map keyed by fresh handles: an entry left behind is never read (`HandleReg`)
* `pool`             recycled buffers that are cleared before use (`Pool`)
* `copyOnWrite`      `Arc<BTreeMap>` registries written through `Arc::make_mut` (`MJ.Store.Cow`)
* `immutable`        never written after construction (a zero-sized writer, an empty instruction list,
                     the `render!` macro's thread-local default environment)
* `renderLocal`      created by one render (or one call) and reachable only through values of that
                     render: `Loop`, `Kwargs.used`, the `WriteWrapper` of `render_captured_to`
* `valueState`       state of a VALUE the template can see and mutate by design (a namespace, a
                     one-shot iterator): it is part of the context; "the same context" means the
                     same state of these
* `guardRef`         the reference a guard holds to the flag it restores

* `reloader`         (minijinja-autoreload only) the `AutoReloader`'s cached environment and notifier
                     behind their mutexes: a layer ABOVE `Environment` with a property of its own (C20,
                     `MJ/Model/Reloader.lean`); an environment it hands out is an ordinary environment

No Mathlib import.
-/
namespace MJ.Hidden

inductive StateClass where
  | onceCache | memoCache | idGenerator | guard | guardRef | freshKeyRegistry | pool | copyOnWrite
  | immutable | renderLocal | valueState | reloader
  deriving Repr, DecidableEq

/-- every row of the regenerated table `MJ.Gen.c15HiddenState` with its class -/
def modelHiddenState : List (String × StateClass) :=
  [("compiler/codegen.rs|thread_local|PENDING_BLOCK_POOL|refcell", .pool),
   ("compiler/codegen.rs|thread_local|SPAN_STACK_POOL|refcell", .pool),
   ("compiler/instructions.rs|static|EMPTY_INSTRUCTIONS|plain", .immutable),
   ("defaults.rs|static|FILTERS|once|filled-at-1-site", .onceCache),
   ("defaults.rs|static|GLOBALS|once|filled-at-1-site", .onceCache),
   ("defaults.rs|static|TESTS|once|filled-at-1-site", .onceCache),
   ("environment.rs|cow|filters|arc", .copyOnWrite),
   ("environment.rs|cow|globals|arc", .copyOnWrite),
   ("environment.rs|cow|tests|arc", .copyOnWrite),
   ("environment.rs|static|DEFAULT_AUTO_ESCAPE|once|filled-at-1-site", .onceCache),
   ("environment.rs|static|FORMATTER|once|filled-at-1-site", .onceCache),
   ("environment.rs|static|NO_AUTO_ESCAPE|once|filled-at-1-site", .onceCache),
   ("loader.rs|created-in|new|memo", .memoCache),
   ("loader.rs|field|LoaderStore.owned_templates|memo", .memoCache),
   ("macros.rs|thread_local|ENV|plain", .immutable),
   ("output.rs|static-mut|NULL_WRITER|plain", .immutable),
   ("syntax.rs|cow|delims|arc", .copyOnWrite),
   ("syntax.rs|static|DEFAULT_DELIMS_ARC|once|filled-at-1-site", .onceCache),
   ("template.rs|created-in|render_captured_to|refcell", .renderLocal),
   ("utils.rs|static|CACHE|once|filled-at-1-site", .onceCache),
   ("value/argtypes.rs|created-in|new|refcell", .renderLocal),
   ("value/argtypes.rs|field|Kwargs.used|refcell", .renderLocal),
   ("value/mod.rs|created-in|make_one_shot_iterator|mutex", .valueState),
   ("value/mod.rs|created-in|reverse|mutex", .valueState),
   ("value/mod.rs|field|InternalSerializationGuard.flag|cell", .guardRef),
   ("value/mod.rs|thread_local|INTERNAL_SERIALIZATION|cell", .guard),
   ("value/mod.rs|thread_local|LAST_VALUE_HANDLE|cell", .idGenerator),
   ("value/mod.rs|thread_local|VALUE_HANDLES|refcell", .freshKeyRegistry),
   ("value/namespace_object.rs|field|Namespace.data|mutex", .valueState),
   ("vm/loop_object.rs|created-in|new|atomic", .renderLocal),
   ("vm/loop_object.rs|created-in|new|mutex", .renderLocal),
   ("vm/loop_object.rs|field|Loop.idx|atomic", .renderLocal),
   ("vm/loop_object.rs|field|Loop.iter|mutex", .renderLocal),
   ("vm/loop_object.rs|field|Loop.last_changed_value|mutex", .renderLocal),
   ("vm/state.rs|field|State.macro_context_pool|pool", .pool),
   ("vm/state.rs|static|STATE_ID|atomic", .idGenerator)]

/-! ## `onceCache`: a `OnceLock` filled by a fixed initialiser

All `OnceLock` statics of the crate are function-local (`static X: OnceLock<_>` inside the only
function that reads it), so there is exactly one initialiser per cell; it takes no argument. -/

structure Once (α : Type) where
  cell : Option α

/-- `X.get_or_init(init)`: the stored value, storing `init ()` first when the cell is empty -/
def Once.getOrInit {α : Type} (o : Once α) (init : Unit → α) : Once α × α :=
  match o.cell with
  | some v => (o, v)
  | none => (⟨some (init ())⟩, init ())

/-- `n` reads, by whatever threads, in whatever order (the lock serialises them) -/
def Once.reads {α : Type} (o : Once α) (init : Unit → α) : Nat → List α
  | 0 => []
  | n + 1 => (o.getOrInit init).2 :: Once.reads (o.getOrInit init).1 init n

/-! ## `pool`: recycled buffers

`compiler/codegen.rs`: `take_*_buffer` pops a pooled `Vec` (or allocates one) and — `takeClears` —
clears it; `recycle_*_buffer` — `recycleClears` — clears the buffer and pushes it back when the
pool has room and the buffer is small.  A generator that unwinds, or a sub-generator whose buffer
was replaced, just drops its buffer.  Either of the two clears is enough; the regenerated table
`MJ.Gen.c15Pools` says which are present. -/

structure Pool (α : Type) where
  /-- the pooled buffers (`Vec<Vec<α>>`), the next one to be taken first -/
  free : List (List α)
  /-- buffers currently taken (held by code generators) -/
  live : List (List α)
  /-- what every `take` so far returned, most recent first -/
  handedOut : List (List α)

inductive PoolEv (α : Type) where
  | take                       -- `take_*_buffer()`
  | push (i : Nat) (x : α)     -- the holder of live buffer `i` pushes an element
  | pop (i : Nat)              -- … pops one
  | recycle (i : Nat)          -- `recycle_*_buffer(live[i])` (pool has room, buffer is small)
  | recycleFull (i : Nat)      -- `recycle_*_buffer(live[i])` when the pool is full / the buffer too big: dropped
  | drop (i : Nat)             -- the holder goes away without recycling (unwinding, replaced buffer)

def Pool.step {α : Type} (takeClears recycleClears : Bool) (p : Pool α) : PoolEv α → Pool α
  | .take =>
    let raw := p.free.headD []
    let buf := if takeClears then [] else raw
    { free := p.free.drop 1, live := buf :: p.live, handedOut := buf :: p.handedOut }
  | .push i x => { p with live := p.live.modify i (x :: ·) }
  | .pop i => { p with live := p.live.modify i (·.drop 1) }
  | .recycle i =>
    match p.live[i]? with
    | none => p
    | some b => { p with free := (if recycleClears then [] else b) :: p.free, live := p.live.eraseIdx i }
  | .recycleFull i => { p with live := p.live.eraseIdx i }
  | .drop i => { p with live := p.live.eraseIdx i }

def Pool.run {α : Type} (tc rc : Bool) (p : Pool α) : List (PoolEv α) → Pool α
  | [] => p
  | e :: es => Pool.run tc rc (p.step tc rc e) es

def Pool.empty {α : Type} : Pool α := { free := [], live := [], handedOut := [] }

/-! ## `freshKeyRegistry`: the value-handle registry

`value/mod.rs: ValueHandleRegistry { single: Option<(u32, Value)>, overflow: BTreeMap<u32, Value> }`
— a map with a one-entry fast path.  `insert` uses `single` only when the whole registry is empty,
otherwise it moves `single` into `overflow` first; `remove` takes `single` only when its handle is
the requested one.  The registry must behave as a map whatever else it holds: entries that a foreign
serializer or an unwound conversion left behind stay in it for the life of the thread. -/

structure HandleReg where
  single : Option (Nat × Nat)
  overflow : List (Nat × Nat)

def HandleReg.empty : HandleReg := { single := none, overflow := [] }

def ofind : List (Nat × Nat) → Nat → Option Nat
  | [], _ => none
  | (k, v) :: t, h => if k = h then some v else ofind t h

def odel (l : List (Nat × Nat)) (h : Nat) : List (Nat × Nat) := l.filter (fun p => p.1 != h)

def oins (l : List (Nat × Nat)) (h v : Nat) : List (Nat × Nat) := (h, v) :: odel l h

/-- `ValueHandleRegistry::insert` -/
def HandleReg.insert (r : HandleReg) (h v : Nat) : HandleReg :=
  if r.single.isNone && r.overflow.isEmpty then { r with single := some (h, v) }
  else
    match r.single with
    | some (oh, ov) => { single := none, overflow := oins (oins r.overflow oh ov) h v }
    | none => { r with overflow := oins r.overflow h v }

/-- `ValueHandleRegistry::remove`; `checksHandle = true` is the code as it is, `false` the variant
    that takes `single` whatever handle was asked for ("handles come back in LIFO order") -/
def HandleReg.remove (checksHandle : Bool) (r : HandleReg) (h : Nat) : HandleReg × Option Nat :=
  match r.single with
  | some (sh, sv) =>
    if !checksHandle || sh = h then ({ r with single := none }, some sv)
    else ({ r with overflow := odel r.overflow h }, ofind r.overflow h)
  | none => ({ r with overflow := odel r.overflow h }, ofind r.overflow h)

/-- the registry as a map -/
def HandleReg.lookup (r : HandleReg) (h : Nat) : Option Nat :=
  match r.single with
  | some (sh, sv) => if sh = h then some sv else ofind r.overflow h
  | none => ofind r.overflow h

/-- the single slot is used only while the overflow map is empty -/
def HandleReg.Inv (r : HandleReg) : Prop := r.single.isSome → r.overflow = []

/-! ## the source facts about pools and the handle registry -/

/-- pools of `compiler/codegen.rs` and the per-render pool of macro contexts of `vm/mod.rs`: (take, does
    it clear, recycle, does it clear) -/
def modelPools : List (String × Bool × String × Bool) :=
  [("take_pending_block_buffer", true, "recycle_pending_block_buffer", true),
   ("take_span_stack_buffer", true, "recycle_span_stack_buffer", true),
   ("macro_context_pool.pop+reset_with_frame", true, "macro_context_pool.push", true)]

/-- is a pool discipline safe?  one of the two clears has to be there -/
def poolSafe (row : String × Bool × String × Bool) : Bool := row.2.1 || row.2.2.2

/-- `ValueHandleRegistry`: `remove` compares the handle of the single slot; `insert` uses the single
    slot only when the registry is entirely empty -/
def modelHandleRegistry : List (String × Bool) :=
  [("remove-compares-single-handle", true), ("insert-single-only-when-empty", true)]

/-- What the model's theorems need of the source: `insert` keeps the invariant "the single slot is
    occupied only while it is the only entry".  Whether `remove` then compares the single slot's
    handle makes no difference for handles that are present (`lifo_agrees_when_present`), so that
    fact is recorded but not demanded. -/
def handleRegistrySafe (rows : List (String × Bool)) : Bool :=
  rows.lookup "insert-single-only-when-empty" == some true

/-- the same for minijinja-contrib and minijinja-autoreload (`MJ.Gen.c15HiddenStateExt`): `cycler()` and
    `joiner()` return objects with a position / a used flag — values created by the render that calls
    them; the reloader's mutexes -/
def modelHiddenStateExt : List (String × StateClass) :=
  [("contrib:globals.rs|created-in|call_method|atomic", .valueState),
   ("contrib:globals.rs|created-in|call|atomic", .valueState),
   ("contrib:globals.rs|field|Cycler.pos|atomic", .valueState),
   ("contrib:globals.rs|field|Joiner.used|atomic", .valueState),
   ("autoreload:lib.rs|created-in|with_fs_watcher|mutex", .reloader),
   ("autoreload:lib.rs|field|AutoReloader.cached_env|mutex", .reloader),
   ("autoreload:lib.rs|field|NotifierImpl.fs_watcher|mutex", .reloader),
   ("autoreload:lib.rs|field|NotifierImplHandle.Strong|mutex", .reloader),
   ("autoreload:lib.rs|field|NotifierImplHandle.Weak|mutex", .reloader)]

/-! ## what a compile can depend on (`MJ.Gen.c15CompileReads`) -/

def modelCompileReads : List (String × List String) :=
  [("signature:new", ["name:&'sourcestr", "source:&'sourcestr", "config:&TemplateConfig"]),
   ("signature:_new_impl", ["name:&'sourcestr", "source:&'sourcestr", "config:&TemplateConfig"]),
   ("config-fields-read", ["default_auto_escape", "syntax_config", "ws_config"]),
   ("other-receivers", []),
   ("call:loader.rs", ["name,source,&self.template_config", "name,source,&self.template_config"]),
   ("call:environment.rs", ["name,source,&self.templates.template_config"]),
   ("compiler-imports", ["compiler", "error", "output", "syntax", "utils", "value"]),
   ("environment-mentions", []),
   ("hidden-state", ["compiler/codegen.rs|thread_local|PENDING_BLOCK_POOL|refcell",
                     "compiler/codegen.rs|thread_local|SPAN_STACK_POOL|refcell",
                     "compiler/instructions.rs|static|EMPTY_INSTRUCTIONS|plain",
                     "syntax.rs|cow|delims|arc",
                     "syntax.rs|static|DEFAULT_DELIMS_ARC|once|filled-at-1-site",
                     "template.rs|created-in|render_captured_to|refcell"])]

/-- crate modules through which a compile could reach the environment, the VM or the registries -/
def forbiddenForCompiler : List String :=
  ["environment", "vm", "loader", "template", "defaults", "filters", "tests", "functions", "expression"]

/-- the classes of hidden state a compile may touch: each is constant (`immutable`, `onceCache`,
    `copyOnWrite` on the builder's own copy), cleared before use (`pool`), or belongs to renders -/
def compileSafeClasses : List StateClass := [.pool, .immutable, .onceCache, .copyOnWrite, .renderLocal]

/-- `compile_depends_only_on`, as far as it can be read off the source: `CompiledTemplate::new` takes
    name, source and the `TemplateConfig` and nothing else; every call site hands it the store's
    CURRENT `template_config`; `_new_impl` reads exactly the fields of `TemplateConfig` (`tc`) through
    `config.` and nothing through `self.`/`env.`/`state.`; the compiler modules import no module through
    which the environment, the VM, the loader or the registries could be reached and do not mention
    them; and every piece of hidden state in the compiler modules has a class that cannot carry
    anything from one compile into the next (`classes`: the classified list). -/
def compileReadsSafe (rows : List (String × List String)) (tc : List String)
    (classes : List (String × StateClass)) : Bool :=
  rows.lookup "signature:new" == some ["name:&'sourcestr", "source:&'sourcestr", "config:&TemplateConfig"] &&
  rows.lookup "signature:_new_impl" == some ["name:&'sourcestr", "source:&'sourcestr", "config:&TemplateConfig"] &&
  (rows.filter (fun r => r.1 == "call:loader.rs" || r.1 == "call:environment.rs" || r.1 == "call:template.rs" ||
                         r.1 == "call:expression.rs" || r.1 == "call:vm/mod.rs" || r.1 == "call:vm/state.rs")).all
    (fun r => r.2.all (fun a => a == "name,source,&self.template_config" || a == "name,source,&self.templates.template_config")) &&
  (match rows.lookup "config-fields-read" with
   | some fs => fs.all (tc.contains ·) && tc.all (fs.contains ·)
   | none => false) &&
  rows.lookup "other-receivers" == some [] &&
  rows.lookup "environment-mentions" == some [] &&
  (match rows.lookup "compiler-imports" with
   | some ims => ims.all (fun m => !forbiddenForCompiler.contains m)
   | none => false) &&
  (match rows.lookup "hidden-state" with
   | some hs => hs.all (fun h => match classes.lookup h with
                                 | some cls => compileSafeClasses.contains cls
                                 | none => false)
   | none => false)

end MJ.Hidden
