import MJ.Model.Output
import MJ.Gen.Tables
/-!
# How one `Emit` turns into writes (C19)

Transcribed from `/repo/minijinja/src/utils.rs` (`write_escaped`, `write_with_html_escaping`,
`HtmlEscape::fmt`, `json_escape_write`, `small_u64_format`, `is_ascii_integer_str`,
`needs_html_escaping`) and the `Emit` arm of `vm/mod.rs`.

The escape table, the range pre-filter of `HtmlEscape` and the small-integer limit are **not**
literals of this file: they come from `MJ.Gen.Tables`, regenerated from the source on every run.

What code outside minijinja's source decides — the pieces `std` writes for numbers, what
`Display`/`Debug` of sequences and maps write, what a user's `Object::render` or custom formatter
writes and whether it returns `Err(fmt::Error)` by itself — is *data* of the value (`Val.display`,
`Val.other`); the theorems quantify over all of it.
-/
namespace MJ.Output
open MJ

/-! ## `HtmlEscape` -/

/-- the replacement of a byte, from the match arms of `HtmlEscape::fmt` (only consulted for bytes
    that pass the range pre-filter `b.wrapping_sub(LO) <= HI - LO`) -/
def htmlQuote (b : UInt8) : Option Bytes :=
  if MJ.Gen.htmlEscapeFilterLo ≤ b.toNat ∧ b.toNat ≤ MJ.Gen.htmlEscapeFilterHi then
    (MJ.Gen.htmlEscapeTable.find? (fun r => r.1.toNat = b.toNat)).map (fun r => r.2.toUTF8.toList)
  else none

/-- specification: escape byte by byte -/
def htmlEscape (s : Bytes) : Bytes :=
  (s.map fun b => (htmlQuote b).getD [b]).flatten

/-- `HtmlEscape::fmt`: `pending` = `bytes[start..i]`, the unwritten run of ordinary bytes -/
def htmlPiecesAux (pending : Bytes) : Bytes → List Bytes
  | [] => if pending = [] then [] else [pending]
  | b :: rest =>
    match htmlQuote b with
    | some q => (if pending = [] then [] else [pending]) ++ q :: htmlPiecesAux [] rest
    | none => htmlPiecesAux (pending ++ [b]) rest

/-- the `write_str` calls of `write!(out, "{}", HtmlEscape(s))` -/
def htmlPieces (s : Bytes) : List Bytes := htmlPiecesAux [] s

/-- `needs_html_escaping` -/
def needsHtmlEscaping (s : Bytes) : Bool := s.any fun b => (htmlQuote b).isSome

/-! ## values and modes -/

/-- `AutoEscape` -/
inductive AE where
  | none | html | json | custom
  deriving DecidableEq, Repr

/-- a piece written by code outside minijinja's source -/
abbrev Pieces := List Chunk

/-- what `Emit` pops, as far as writing it is concerned -/
inductive Val where
  /-- `ValueRepr::String(_, Safe)` -/
  | safe (s : Bytes)
  /-- any other value with `as_str() = Some(s)` (`String`/`SmallStr`) -/
  | str (s : Bytes)
  | bool (b : Bool)
  /-- `U64(v)` / `I64(v ≥ 0)`: `digits` = its decimal text, `ps` = what `std` writes for `{v}` -/
  | nat (v : Nat) (digits : Bytes) (ps : Pieces)
  /-- `I64(v < 0)`, floats, 128-bit integers, none, undefined: `Display` decides (`ps`) -/
  | display (ps : Pieces)
  /-- bytes, sequences, maps, iterables, plain objects: `Display` writes `ps`; `text` = what
      `to_string()` collects.  `selfErr`: the object's `render` returns `Err(fmt::Error)` by itself
      after that — `DynObject::render_guarded` drops such an error (the object renders as what it
      managed to write) unless the formatter it writes to failed. -/
  | other (ps : Pieces) (selfErr : Bool) (text : Bytes)
  deriving Repr

def strOp (s : Bytes) : Op := .write (.str s)

def piecesOps (ps : Pieces) : List Op := ps.map Op.write

/-- `write_with_html_escaping` -/
def htmlOps : Val → List Op
  | .safe s => [strOp s]                      -- (not reached: safe strings bypass)
  | .nat v digits ps => if v < MJ.Gen.c19SmallIntLimit then [strOp digits] else piecesOps ps
  | .bool b => [strOp (if b then "True".toUTF8.toList else "False".toUTF8.toList)]
  | .str s => if needsHtmlEscaping s then (htmlPieces s).map strOp else [strOp s]
  | .display ps => piecesOps ps
  | .other _ _ text => (htmlPieces text).map strOp    -- `HtmlEscape(&value.to_string())`

/-- `write!(out, "{value}")` -/
def displayOps : Val → List Op
  | .safe s => [strOp s]
  | .str s => [strOp s]
  | .bool b => [strOp (if b then "True".toUTF8.toList else "False".toUTF8.toList)]
  | .nat _ _ ps => piecesOps ps
  | .display ps => piecesOps ps
  | .other ps _ _ => piecesOps ps

/-- `Instruction::Emit` with the default formatter: `write_escaped(out, auto_escape, &value)`.
    `jsonText` = what `serde_json::to_string` returns (`none`: serialization fails) -/
def emitOps (ae : AE) (v : Val) (jsonText : Option Bytes := none) : List Op :=
  match v with
  | .safe s => [strOp s]
  | _ =>
    match ae with
    | .none => displayOps v
    | .html => htmlOps v
    | .json =>
      match jsonText with
      | some t => [strOp t]
      | none => [.fail (.other 0)]            -- `BadSerialization`
    | .custom => [.fail (.other 1)]           -- `invalid_autoescape`

/-- the VM's instructions as far as the output is concerned -/
inductive VmOp where
  | emitRaw (s : Bytes)
  | emit (ae : AE) (v : Val) (jsonText : Option Bytes)
  /-- `Emit` with a custom formatter installed: the formatter decides -/
  | emitCustom (ps : Pieces) (selfErr : Bool)
  | op (o : Op)                               -- captures, nesting, other failures

def compile : List VmOp → List Op
  | [] => []
  | .emitRaw s :: rest => strOp s :: compile rest
  | .emit ae v j :: rest => emitOps ae v j ++ compile rest
  | .emitCustom ps selfErr :: rest =>
    piecesOps ps ++ (if selfErr then [.fail Err.fromFmt] else []) ++ compile rest
  | .op o :: rest => o :: compile rest

end MJ.Output
