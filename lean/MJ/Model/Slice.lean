import MJ.Model.Chk
/-!
# Model of `minijinja/src/value/ops.rs`: `get_offset_and_len`, `range_step_backwards`, `slice`
and of `value/mod.rs: get_item_opt::index`.

Hand transcription; tied to the code by the C09 correspondence stream (exhaustive on the box of
the property's quantifier).  Sequences are `List α`; `start/stop/step` are the already converted
`Option<i64>` values (`none` = omitted).
-/
namespace MJ.Slice
open MJ Chk

/-- `Iterator::step_by(k)` for `k > 0`: first element, then every k-th. -/
def stepBy {α : Type} (k : Nat) (l : List α) : List α :=
  match l with
  | [] => []
  | x :: xs => x :: stepBy k (xs.drop (k - 1))
termination_by l.length
decreasing_by simp; omega

/-- `std::cmp::max(0, end as i64 + x) as usize` -/
def relEnd (e x : Int) : Chk Nat := do
  let t ← i64 (e + x)
  pure (asUsize (max 0 t))

/-- `get_offset_and_len(start, stop, || len)`; `len` is what the `end` closure returns. -/
def offsetLen (start stop : Option Int) (len : Nat) : Chk (Nat × Nat) := do
  let s := start.getD 0
  let stopNeg : Bool := match stop with | none => true | some x => decide (x < 0)   -- map_or(true, |x| x < 0)
  if s < 0 ∨ stopNeg = true then
    let e := asI64 len                                   -- `end as i64`
    let st ← if s < 0 then relEnd e s else pure (asUsize s)
    let sp ← match stop with
      | none => pure len
      | some x => if x < 0 then relEnd e x else pure (asUsize x)
    pure (st, sp - st)                                   -- saturating_sub
  else
    match stop with
    | some x => pure (asUsize s, asUsize x - asUsize s)
    | none => .panic                                     -- `stop.unwrap()`, unreachable

/-- the `clamp` closure of `range_step_backwards`; `e = end as i64`, `e1 = end - 1` -/
def clampBack (e e1 : Int) (b : Option Int) (d : Int) : Chk Int :=
  match b with
  | none => pure d
  | some b => if b < 0 then do
                let t ← i64 (e + b)
                pure (max t (-1))
              else pure (min b e1)

/-- the `length` computation of `range_step_backwards` -/
def backLen (st sp : Int) (step : Nat) : Chk Nat :=
  if st > sp then do
    let d ← i64 (st - sp)
    let d1 ← i64 (d - 1)
    let q ← udiv (asUsize d1) step
    usize ((q : Int) + 1)
  else pure 0

/-- `range_step_backwards(start, stop, step, end)` (after the `fix:` commit). -/
def rangeStepBackwards (start stop : Option Int) (step len : Nat) : Chk (List Nat) := do
  let e := asI64 len
  let e1 ← i64 (e - 1)                                   -- `end - 1`
  let st ← clampBack e e1 start e1
  let sp ← clampBack e e1 stop (-1)
  let n ← backLen st sp step
  (List.range n).mapM fun (idx : Nat) => do
    let m ← usize ((idx : Int) * step)                   -- `idx * step`
    usize ((asUsize st : Int) - m)                       -- `start as usize - idx * step`

inductive Res (α : Type) where
  | ok (xs : List α)
  | zeroStep
  deriving Repr, DecidableEq

/-- the sequence part of `ops::slice` for a sequence whose length is known (strings, bytes,
    tuples, lists, sized iterables; unsized iterables collect first when a bound is negative and
    otherwise behave as if `len = usize::MAX`, see `sliceUnsized`). -/
def slice {α : Type} (xs : List α) (start stop step : Option Int) : Chk (Res α) :=
  let step := step.getD 1
  if step = 0 then .ok .zeroStep
  else if step > 0 then
    match offsetLen start stop xs.length with
    | .panic => .panic
    | .ok (off, n) => .ok (.ok (stepBy (asUsize step) ((xs.drop off).take n)))
  else
    match rangeStepBackwards start stop step.natAbs xs.length with   -- `step.unsigned_abs()`
    | .panic => .panic
    | .ok idxs =>
      match idxs.mapM (index xs) with
      | .panic => .panic
      | .ok ys => .ok (.ok ys)

/-- `bound.map_or(false, |x| x < 0)` -/
def isNeg (b : Option Int) : Bool :=
  match b with
  | some x => decide (x < 0)
  | none => false

/-- forward slice of an iterable that does not know its length and has no negative bound:
    `end` is `usize::MAX`. -/
def sliceUnsized {α : Type} (xs : List α) (start stop step : Option Int) : Chk (Res α) :=
  if step.getD 1 > 0 ∧ (isNeg start || isNeg stop) = false then
    match offsetLen start stop 18446744073709551615 with
    | .panic => .panic
    | .ok (off, n) => .ok (.ok (stepBy (asUsize (step.getD 1)) ((xs.drop off).take n)))
  else slice xs start stop step

/-- `get_item_opt::index`: `none` = undefined result -/
def index? {α : Type} (xs : List α) (i : Int) : Option α :=
  if i < 0 then
    if i.natAbs ≤ xs.length then xs[xs.length - i.natAbs]? else none   -- checked_sub
  else xs[i.toNat]?

end MJ.Slice
