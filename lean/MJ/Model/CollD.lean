import MJ.Model.Cmp
/-!
# Derived dictionaries (C07)

Dictionaries that an operation of the engine derives from other dictionaries, transcribed from
`value/merge_object.rs` (`MergeDict`: `chain` of dictionaries, layered contexts `context! { ..a, ..b }` /
`merge_maps`) and `functions.rs` (`dict(m)`: a copy built by inserting the entries one by one).

Everything is generic in the key type `κ`, the value type `ν` and the three-way comparison `cmp` the ordered
map is keyed by, so that the theorems of `MJ.Proofs.CollD` name exactly the laws of `cmp` they need
(reflexivity and transitivity of `Equal` on the keys present); the instances on template values are at the end.
-/
namespace MJ.CollD

section generic
variable {κ ν : Type} (cmp : κ → κ → Ordering)

/-- `BTreeMap::insert` / `BTreeSet::insert` on the entries in key order: an entry whose key compares `Equal`
    keeps its key and gets the new value (`MJ.Cmp.insertB` for an arbitrary comparison) -/
def ins (k : κ) (v : ν) : List (κ × ν) → List (κ × ν)
  | [] => [(k, v)]
  | (k', v') :: ps =>
    match cmp k k' with
    | .lt => (k, v) :: (k', v') :: ps
    | .eq => (k', v) :: ps
    | .gt => (k', v') :: ins k v ps

/-- `BTreeMap::get`: the entry whose key compares `Equal` (`MJ.Cmp.getB`) -/
def get (k : κ) : List (κ × ν) → Option ν
  | [] => none
  | (k', v') :: ps => if cmp k k' = .eq then some v' else get k ps

/-- `functions::dict(m)` after fix 79eda21: `for (key, value) in pairs { rv.insert(key, value) }` -/
def dictCopy (ps : List (κ × ν)) : List (κ × ν) :=
  ps.foldl (fun acc p => ins cmp p.1 p.2 acc) []

/-- what `dict(m)` did before: `pairs.collect::<BTreeMap>()` = stable sort by the order, then ONE entry per run
    of adjacent keys that are `==` (`eq`, not the order: `DedupSortedIter` of the standard library keeps the
    last of the run) -/
def dedupAdj (eq : κ → κ → Bool) : List (κ × ν) → List (κ × ν)
  | [] => []
  | [p] => [p]
  | p :: q :: rest => if eq p.1 q.1 then dedupAdj eq (q :: rest) else p :: dedupAdj eq (q :: rest)

/-- stable insertion sort by the key order (structural, so that closed instances evaluate in the kernel) -/
def insStable (p : κ × ν) : List (κ × ν) → List (κ × ν)
  | [] => [p]
  | q :: rest => if cmp p.1 q.1 != .gt then p :: q :: rest else q :: insStable p rest

def stableSort (ps : List (κ × ν)) : List (κ × ν) := ps.foldr (insStable cmp) []

def dictCollect (eq : κ → κ → Bool) (ps : List (κ × ν)) : List (κ × ν) :=
  dedupAdj eq (stableSort cmp ps)

/-- `MergeDict::enumerate`: every key of every operand inserted into one `BTreeSet`, one by one -/
def mergeKeys (maps : List (List (κ × ν))) : List κ :=
  ((maps.flatMap (fun ps => ps.map Prod.fst)).foldl (fun acc k => ins cmp k () acc) []).map Prod.fst

/-- `MergeDict::get_value(key)` after fix 276e6ac: the last operand that holds a defined value for the key wins;
    a key whose entries all hold undefined values is still found (as undefined) -/
def mergeGet (isUndef : ν → Bool) (undef : ν) (maps : List (List (κ × ν))) (k : κ) : Option ν :=
  match maps.reverse.findSome? (fun ps =>
      match get cmp k ps with
      | some v => if isUndef v then none else some v
      | none => none) with
  | some v => some v
  | none => if maps.any (fun ps => (get cmp k ps).isSome) then some undef else none

/-- `MergeDict::get_value(key)` before the fix: an entry that holds an undefined value does not count -/
def mergeGetOld (isUndef : ν → Bool) (maps : List (List (κ × ν))) (k : κ) : Option ν :=
  maps.reverse.findSome? (fun ps =>
    match get cmp k ps with
    | some v => if isUndef v then none else some v
    | none => none)

end generic

/-! ## on template values -/
open MJ.Val MJ.Cmp

def isUndefV : V → Bool
  | .undef => true
  | _ => false

/-- `dict(m)` on a map of template values (BTreeMap build) -/
def dictCopyV (ps : List (V × V)) : List (V × V) := dictCopy cmpV ps

/-- the keys a merged dictionary lists -/
def mergeKeysV (maps : List (List (V × V))) : List V := mergeKeys cmpV maps

/-- `merged[key]` -/
def mergeGetV (maps : List (List (V × V))) (k : V) : Option V := mergeGet cmpV isUndefV .undef maps k

/-! ## `namespace(m)` -/

/-- `Value::as_key_str().is_some()`: string values only (bytes that hold utf-8 are not strings) -/
def isStrKey : V → Bool
  | .str _ => true
  | _ => false

/-- `namespace(m)` after fix 903639e: the entries of `m` with string keys, inserted one by one -/
def nsCopyV (ps : List (V × V)) : List (V × V) := dictCopyV (ps.filter (fun p => isStrKey p.1))

/-- `Namespace::get_value(key)`: `as_key_str` first, then the ordered map -/
def nsGetV (ps : List (V × V)) (k : V) : Option V :=
  if isStrKey k then get cmpV k (nsCopyV ps) else none

end MJ.CollD
