import MJ.Model.Cmp
import MJ.Model.Num
import MJ.Gen.Tables
/-!
# Floats in the numeric operators (`minijinja/src/value/ops.rs`, `value/mod.rs`)

Finite doubles are bit patterns (`f64::to_bits`); their exact value is the dyadic rational
`F64.key b / 2^1074` (`MJ/Model/CmpF64.lean`, shared with C07).  Everything here is computed on
those integers — no `Float`.  IEEE-754 operations are "the exact result, rounded to nearest, ties
to even"; `encodeRat` is that rounding as a total function on non-negative rationals.

Modelled: the lossy conversion `<int> as f64` (`ops::as_f64(_, true)`, via `F64.ofInt`), unary minus
and `abs` on floats, Rust's float `%` (C `fmod`, exact), `f64::rem_euclid`, the subtraction,
division, `round`, `trunc` used by `ops::f64_div_euclid` and by `f64::div_euclid`, `ops::rem` and
`ops::int_div` on operands of which at least one is a float, and the six comparison operators of
the VM (`==` is `PartialEq`, the others go through `Ord::cmp`; both are C07's `eqN`/`cmpN`).

Only finite operands with a non-zero divisor are in the domain (`none` otherwise): that is the
property's quantifier.
-/
namespace MJ.NumF
open MJ.F64 MJ.Val MJ.Cmp

def P53 : Nat := 9007199254740992

/-- round the non-negative rational `p / q` (in units of `2^-1074`) to the nearest double, ties to
    even; the result is the magnitude bits (saturating to infinity) -/
def encodeRat (p q : Nat) : Nat :=
  let s := p / q
  let rem := p % q
  if s < P53 then
    -- subnormals and the first two binades: the grid is the integers, bits = scaled value
    if q < 2 * rem ∨ (2 * rem = q ∧ s % 2 = 1) then s + 1 else s
  else
    let k := Nat.log2 s - 52
    let qq := s / 2 ^ k
    let r2 := s % 2 ^ k
    let half := 2 ^ (k - 1)
    let q' := if half < r2 ∨ (r2 = half ∧ (rem ≠ 0 ∨ qq % 2 = 1)) then qq + 1 else qq
    let m := (k + 1) * P52 + (q' - P52)
    if infMag ≤ m then infMag else m

/-- a signed result: sign bit plus rounded magnitude -/
def signedBits (neg : Bool) (magBits : Nat) : Nat := (if neg then P63 else 0) + magBits

/-- round an exact scaled integer (`value · 2^1074`); an exact zero is `+0.0` (IEEE sum rule) -/
def ofKey (k : Int) : Nat := signedBits (decide (k < 0)) (encodeRat k.natAbs 1)

def finite (b : Nat) : Bool := isFinite b

/-- `-x` -/
def fneg (b : Nat) : Nat := if sign b then mag b else P63 + mag b
/-- `x.abs()` -/
def fabs (b : Nat) : Nat := mag b

/-- `a + b` of finite floats -/
def fadd (a b : Nat) : Nat :=
  let k := key a + key b
  if k = 0 then (if sign a && sign b then P63 else 0) else ofKey k

/-- `a - b` of finite floats -/
def fsub (a b : Nat) : Nat := fadd a (fneg b)

/-- `a / b` of finite floats, `b ≠ 0` -/
def fdiv (a b : Nat) : Nat :=
  signedBits (sign a != sign b) (encodeRat (scaled a * scale) (scaled b))

/-- Rust's `a % b` on floats (C `fmod`): exact, sign of the dividend -/
def fmod (a b : Nat) : Nat := signedBits (sign a) (encodeRat (scaled a % scaled b) 1)

/-- `x.trunc()` -/
def ftrunc (b : Nat) : Nat := signedBits (sign b) (encodeRat (scaled b / scale * scale) 1)

/-- `x.round()`: nearest integer, halves away from zero -/
def fround (b : Nat) : Nat :=
  let t := scaled b / scale
  let fr := scaled b % scale
  let t' := if scale ≤ 2 * fr then t + 1 else t
  signedBits (sign b) (encodeRat (t' * scale) 1)

/-- `self.rem_euclid(rhs)`: `let r = self % rhs; if r < 0.0 { r + rhs.abs() } else { r }` -/
def fremEuclid (a b : Nat) : Nat :=
  let r := fmod a b
  if key r < 0 then fadd r (fabs b) else r

/-- `f64::div_euclid`: `let q = (self / rhs).trunc(); if self % rhs < 0.0 { if rhs > 0.0 { q - 1.0 }
    else { q + 1.0 } } else { q }`; an infinite quotient stays infinite -/
def fdivEuclidStd (a b : Nat) : Nat :=
  let d := fdiv a b
  if !isFinite d then d
  else
    let q := ftrunc d
    let one : Nat := 1023 * P52
    if key (fmod a b) < 0 then (if 0 < key b then fsub q one else fadd q one) else q

/-- `ops::f64_div_euclid`: `let q = ((a - a.rem_euclid(b)) / b).round(); if q.is_finite() { q }
    else { a.div_euclid(b) }` -/
def fdivEuclid (a b : Nat) : Nat :=
  let r := fremEuclid a b
  let d := fsub a r
  if !isFinite d then fdivEuclidStd a b
  else
    let q0 := fdiv d b
    if !isFinite q0 then fdivEuclidStd a b
    else fround q0

/-- `ops::as_f64(value, lossy = true)` -/
def asF64Lossy : N → Nat
  | .f64 b => b
  | n => ofInt n.int

/-- `filters::int` on a float (`f64_to_int`): the truncated value when it is an `i128`
    (`Value::from(t as i128)`, an `I128`), an error otherwise (NaN and the infinities included) -/
def intOfFloat (b : Nat) : MJ.Num.Res :=
  if isFinite b ∧ MJ.Num.InI128 (truncInt b) then .ok (.i128 (truncInt b)) else .err

/-- the domain of the float theorems: finite operands, non-zero divisor -/
def okPair (a b : Nat) : Bool := isFinite a && isFinite b && decide (scaled b ≠ 0)

/-- `ops::rem` when `coerce(lhs, rhs, true)` is `F64(a, b)` (at least one float operand) -/
def remF (x y : N) : Option Nat :=
  let a := asF64Lossy x
  let b := asF64Lossy y
  if okPair a b then some (fremEuclid a b) else none

/-- `ops::int_div` on the same path -/
def intDivF (x y : N) : Option Nat :=
  let a := asF64Lossy x
  let b := asF64Lossy y
  if okPair a b then some (fdivEuclid a b) else none

/-- the comparison instructions of the VM -/
inductive CmpOp where
  | lt | le | gt | ge | eq | ne
  deriving DecidableEq, Repr

/-- `Instruction::{Lt, Lte, Gt, Gte, Eq, Ne}`: `a < b` is `a.cmp(b) == Less` (`PartialOrd` is
    `Some(self.cmp(other))`), `a == b` is `PartialEq::eq` -/
def cmpOp : CmpOp → N → N → Bool
  | .lt, a, b => cmpN a b == .lt
  | .le, a, b => cmpN a b != .gt
  | .gt, a, b => cmpN a b == .gt
  | .ge, a, b => cmpN a b != .lt
  | .eq, a, b => eqN a b
  | .ne, a, b => !eqN a b

/-! ## every implementation of the comparison operators

The comparison of two values is written out in five places: the six plain VM instructions
(`op_binop!`), `Instruction::CompareAndPreserve` (every non-final link of a chained comparison),
the constant folder's `eval_compare` (chains) and `eval_binop` (single comparisons), and the tests
`is eq/ne/lt/le/gt/ge` (also what `select`/`reject`/`selectattr` call).  Which Rust operator each
arm applies is **read from the source**: `MJ.Gen.compareArms` is regenerated from vm/mod.rs,
compiler/ast.rs and tests.rs on every run (`lib/tables/c08.py`, item `C08_COMPARE_ARMS`). -/

def armName : CmpOp → String
  | .lt => "lt" | .le => "le" | .gt => "gt" | .ge => "ge" | .eq => "eq" | .ne => "ne"

/-- a Rust comparison operator by its source text -/
def opOfText (t : String) : Option CmpOp :=
  if t = "<" then some .lt else if t = "<=" then some .le else if t = ">" then some .gt
  else if t = ">=" then some .ge else if t = "==" then some .eq else if t = "!=" then some .ne else none

/-- the operator implementation `impl` applies in its arm for `op`, per the regenerated table -/
def implOp (impl : String) (op : CmpOp) : Option CmpOp :=
  match MJ.Gen.compareArms.find? (fun e => e.1 == impl && e.2.1 == armName op) with
  | some e => opOfText e.2.2
  | none => none

/-- what implementation `impl` computes for `a OP b` -/
def implCmp (impl : String) (op : CmpOp) (a b : N) : Bool :=
  match implOp impl op with
  | some o => cmpOp o a b
  | none => false

/-- `compile_compare` + VM on numbers: the last link is the plain instruction, every other link is
    `CompareAndPreserve` followed by `JumpIfFalseOrPop` (a false link ends the chain with `false`,
    otherwise the preserved right operand becomes the left operand of the next link) -/
def chain (a : N) : List (CmpOp × N) → Bool
  | [] => true
  | (op, b) :: rest =>
    match rest with
    | [] => implCmp "vm:instruction" op a b
    | _ :: _ => if implCmp "vm:compare_and_preserve" op a b then chain b rest else false

/-- `Expr::as_const` on a chain of constants: `eval_compare` link by link, `false` at the first
    link that is not true -/
def chainFolded (a : N) : List (CmpOp × N) → Bool
  | [] => true
  | (op, b) :: rest => if implCmp "ast:eval_compare" op a b then chainFolded b rest else false

/-- the conjunction of the links, each compared with the plain operator -/
def conj (a : N) : List (CmpOp × N) → Bool
  | [] => true
  | (op, b) :: rest => cmpOp op a b && conj b rest

/-- `[a, b]|min` (`Iterator::min`: `min_by` keeps the earlier element unless the later is smaller) -/
def minOf (a b : N) : N := if cmpN a b == .gt then b else a
/-- `[a, b]|max` (`Iterator::max`: `max_by` keeps the later element unless the earlier is greater) -/
def maxOf (a b : N) : N := if cmpN a b == .gt then a else b

/-- the number a C08 integer representation is in the shared value model -/
def ofRepr : MJ.Num.NumRepr → N
  | .u64 n => .u64 n
  | .i64 n => .i64 n
  | .u128 n => .u128 n
  | .i128 n => .i128 n

end MJ.NumF
