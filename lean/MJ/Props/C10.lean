import MJ.Proofs.LexerTop
import MJ.Proofs.LexerLL
/-!
# C10 — text is verbatim and whitespace control exact under any delimiter configuration

Property theorems only (helper lemmas live in `MJ/Proofs/Lexer*.lean`).

* `Lexer.lex cfg d find src` is the model of the root tokenizer of `compiler/lexer.rs`
  (`MJ/Model/Lexer.lean`); `find` is the start-marker search — `Lexer.findStart d` is what the
  tokenizer uses: `find_start_marker_memchr` for the default delimiters and the leftmost-longest
  search `findLL d` (the specification of the Aho-Corasick path) otherwise;
* `Lexer.Tmpl` is a template as a head text and (tag, text) pairs over the tag vocabulary
  `{{ v }}`, `{% if t %}`, `{% endif %}`, `{% raw %}…{% endraw %}` (each also in its tight form
  `{{v}}`, `{%if t%}`, `{%raw%}…{%endraw%}`), comments with an arbitrary body (empty, blank, made of
  `-`/`+` characters, …), every marker in {none, -, +} on every side; `unparse d` writes it with
  the delimiters `d`;
* `Lexer.specRender` applies the five whitespace rules of the statement locally
  (`MJ/Model/LexerSpec.lean`); `renderRes vm bm` is the text a render prints when a variable tag
  prints `vm` and a block tag `bm`;
* `Lexer.delimFree d tm`: no start delimiter of `d` begins inside a text of `tm` (also not
  straddling into the next tag), at a tag the tag's own start delimiter is the longest match, raw
  content contains no block start, a comment body does not contain the comment end and is not
  ambiguous with a marker (`commentOk`: e.g. `{#-#}` is the comment with a *left* `-`, so the tag
  "empty body, right `-` only" is excluded; `{# - #}` and `{#- - -#}` are fine);
* `Lexer.goodDelims d`: no line prefixes, distinct non-empty start delimiters that do not begin
  with whitespace, end delimiters that begin with a character that is neither ASCII whitespace,
  an identifier character nor `-`/`+`, and do not end in whitespace (true of every family in the
  property's quantifier except the ones with line prefixes, which are covered by the differential
  runs of the check).
-/
namespace MJ.C10
open MJ.Lexer

/-- Full-strength statement for the model: for all 8 settings, all marker placements, all line
    endings (texts are arbitrary character lists), every well-formed delimiter set and every
    delimiter-free template, the tokenizer's text output is exactly what the five rules say. -/
def C10_full : Prop :=
  ∀ (cfg : Cfg) (vm bm : List Char) (d : Delims) (tm : Tmpl),
    goodDelims d = true → delimFree d tm = true →
    renderRes vm bm (lex cfg d (findStart d) (unparse d tm)) = some (specRender cfg vm bm tm)

theorem findStart_eq_findLL (d : Delims) : findStart d = findLL d := by
  by_cases h : d = defaultDelims
  · subst h; exact findStart_default
  · simp [findStart, h]

theorem lex_eq_spec : C10_full := by
  intro cfg vm bm d tm hg hf
  rw [findStart_eq_findLL]
  exact lex_spec cfg vm bm (good_of_goodDelims hg) tm hf

/-- hypotheses are satisfiable: default delimiters, trim_blocks + lstrip_blocks,
    `a\n  {% if t %}\r\n{{- v +}} x {# c -#}\n` -/
example : goodDelims defaultDelims = true ∧
    delimFree defaultDelims ⟨['a', '\n', ' ', ' '],
      [(⟨.block .ifT false, .none, .none⟩, ['\r', '\n']), (⟨.var false, .minus, .plus⟩, [' ', 'x', ' ']),
       (⟨.comment [' ', 'c', ' '], .none, .minus⟩, ['\n'])]⟩ = true := by decide

/-- degenerate tags are inside the hypotheses: `a{#-#} {#+#}\n{##}{#--#}{# - #}{#- - -#}{{-v-}}{%-if t-%}\n{%-raw-%}{%-endraw-%}` -/
example : delimFree defaultDelims ⟨['a'],
      [(⟨.comment [], .minus, .none⟩, [' ']), (⟨.comment [], .plus, .none⟩, ['\n']),
       (⟨.comment [], .none, .none⟩, []), (⟨.comment [], .minus, .minus⟩, []),
       (⟨.comment [' ', '-', ' '], .none, .none⟩, []), (⟨.comment [' ', '-', ' '], .minus, .minus⟩, []),
       (⟨.var true, .minus, .minus⟩, []), (⟨.block .ifT true, .minus, .minus⟩, ['\n']),
       (⟨.raw [] .minus .minus true, .minus, .minus⟩, [])]⟩ = true := by decide

/-- the ambiguous writing is excluded: "empty body, right `-` only" unparses to `{#-#}`, which
    is the comment with a left marker -/
example : delimFree defaultDelims ⟨[], [(⟨.comment [], .none, .minus⟩, [])]⟩ = false := by decide

/-- the same with the search as a parameter: any search that is leftmost-longest in the sense of
    `LeftmostLongest` (leftmost start, then longest pattern, line statement prefix only at line
    start) gives the rules -/
theorem lex_eq_spec_of_leftmostLongest (cfg : Cfg) (vm bm : List Char) (d : Delims) (find : FindStart)
    (tm : Tmpl) (hfind : LeftmostLongest d find) (hg : goodDelims d = true) (hf : delimFree d tm = true) :
    renderRes vm bm (lex cfg d find (unparse d tm)) = some (specRender cfg vm bm tm) := by
  rw [leftmostLongest_unique hfind]
  exact lex_spec cfg vm bm (good_of_goodDelims hg) tm hf

example (d : Delims) : LeftmostLongest d (findLL d) := findLL_leftmostLongest d

/-- `find_start_marker_memchr` meets the specification of the search for the default delimiters -/
theorem memchr_is_leftmostLongest :
    LeftmostLongest defaultDelims (fun _ rest => findStartDefault rest) := by
  have : (fun (_ : List Char) rest => findStartDefault rest) = findLL defaultDelims := by
    funext pre rest; exact findStartDefault_eq_findLL pre rest
  rw [this]; exact findLL_leftmostLongest _

/-- Text without a start marker is reproduced byte for byte, except for the one trailing line
    break that goes unless `keep_trailing_newline` is set. -/
theorem verbatim (cfg : Cfg) (vm bm : List Char) (d : Delims) (t : List Char)
    (hg : goodDelims d = true) (hf : noStartIn d t [] = true) :
    renderRes vm bm (lex cfg d (findStart d) t) = some (if cfg.keep then t else stripTrailingNl t) := by
  have := lex_eq_spec cfg vm bm d ⟨t, []⟩ hg (by simpa [delimFree, tailFree] using hf)
  simp only [unparse, unparseTail, List.append_nil] at this
  rw [this]
  cases hk : cfg.keep <;> simp [specRender, stripFinal, specTail, hk]

example : goodDelims defaultDelims = true ∧ noStartIn defaultDelims ['{', ' ', '{', '\n', '}', '%', '}', '\r', '\n'] [] = true := by
  decide

/-- What `tokenize_root` emits in front of a tag is the text without exactly the suffix the rules
    name for that side: all trailing whitespace for `-`, the horizontal whitespace back to the
    start of the line for an unmarked block/comment/raw tag under `lstrip_blocks`, nothing
    otherwise (`rightCut`).  `l` characters were already removed on the left. -/
theorem lead_rule (cfg : Cfg) (first : Bool) (ctx : List Char) (hc : CtxOk first ctx) (g : Tag)
    (t : List Char) (l : Nat) :
    leadOf cfg g.l.ws g.marker (t.reverse ++ ctx) (t.drop l) =
      (t.drop l).take (t.length - l - rightCut cfg first g.blockish g.l t) :=
  leadOf_eq_cut cfg hc g.l g.marker g.blockish (Tag.marker_blockish g) (Tag.marker_ne_lineStmt g)
    (Tag.marker_ne_lineComment g) t l

example : CtxOk true [] := Or.inl ⟨rfl, rfl⟩
example : CtxOk false ['}', '%'] := Or.inr ⟨rfl, '}', ['%'], rfl, by decide⟩

/-- What is skipped behind a block/comment/raw tag (`handle_tail_ws`: now, or by the pending
    `trim_leading_whitespace`) is exactly the prefix the rules name: all leading whitespace for
    `-`, one line break under `trim_blocks` for an unmarked tag, nothing for `+` (`leftCut`). -/
theorem tail_rule (cfg : Cfg) (m : Mark) (t' more : List Char) (hm : NoWsHead more) :
    leftCut cfg true m t' =
      (if (tailWs cfg m.ws (t' ++ more)).2 then wsPre t' else (tailWs cfg m.ws (t' ++ more)).1) := by
  rw [tailWs_eq cfg m t' more hm, leftCut_eq]

example : NoWsHead ['{', '{'] := Or.inr ⟨'{', ['{'], rfl, by decide⟩

/-- One round of the root loop on `text ++ tag ++ …`: it emits the text minus both cuts, then the
    tag, and continues behind the tag with the next text's left cut applied or pending. -/
theorem round_rule (cfg : Cfg) (d : Delims) (hg : goodDelims d = true) (first : Bool) (ctx : List Char)
    (hc : CtxOk first ctx) (t : List Char) (l : Nat) (hl : l ≤ t.length) (g : Tag) (t' : List Char)
    (rest : List (Tag × List Char)) (hfree : tailFree d t ((g, t') :: rest) = true) :
    step cfg d (findStart d) ((t.take l).reverse ++ ctx) (t.drop l ++ unparseTail d ((g, t') :: rest)) false =
      .next (dataOut (cut l (rightCut cfg first g.blockish g.l t) t) ++ tagOuts cfg g)
        ((t'.take (nextK cfg g.blockish g.r t')).reverse ++ ((g.src d).reverse ++ (t.reverse ++ ctx)))
        (t'.drop (nextK cfg g.blockish g.r t') ++ unparseTail d rest) (nextTf g.r) := by
  rw [findStart_eq_findLL]
  exact step_text_tag cfg (good_of_goodDelims hg) hc t l hl g t' rest hfree

/-- A raw block emits its content: what is printed for the tag is the content minus the cuts the
    rules name for the inner sides of `{% raw %}` and `{% endraw %}` … -/
theorem raw_rule (cfg : Cfg) (vm bm : List Char) (d : Delims) (h t' c : List Char) (l ri l2 r : Mark)
    (tight : Bool)
    (hg : goodDelims d = true) (hf : delimFree d ⟨h, [(⟨.raw c ri l2 tight, l, r⟩, t')]⟩ = true) :
    ∃ a b, renderRes vm bm (lex cfg d (findStart d) (unparse d ⟨h, [(⟨.raw c ri l2 tight, l, r⟩, t')]⟩)) =
      some (a ++ cut (leftCut cfg true ri c) (rightCut cfg false true l2 c) c ++ b) := by
  rw [lex_eq_spec cfg vm bm d _ hg hf]
  cases hk : cfg.keep
  · exact ⟨cut 0 (rightCut cfg true true l h) h,
      (stripTrailingNl t').drop (leftCut cfg true r (stripTrailingNl t')),
      by simp [specRender, stripFinal, mapLastText, specTail, tagOut, hk, Tag.blockish, List.append_assoc]⟩
  · exact ⟨cut 0 (rightCut cfg true true l h) h, t'.drop (leftCut cfg true r t'),
      by simp [specRender, specTail, tagOut, hk, Tag.blockish, List.append_assoc]⟩

/-- … and the content is verbatim whenever no rule applies to those sides: `+` markers, or no
    marker with `trim_blocks` (start side) / `lstrip_blocks` (end side) off.  In particular the
    content is never scanned for tags. -/
theorem raw_verbatim (cfg : Cfg) (c : List Char) (ri l2 : Mark)
    (h1 : ri = .plus ∨ (ri = .none ∧ cfg.trim = false))
    (h2 : l2 = .plus ∨ (l2 = .none ∧ cfg.lstrip = false)) :
    cut (leftCut cfg true ri c) (rightCut cfg false true l2 c) c = c := by
  have hl : leftCut cfg true ri c = 0 := by
    rcases h1 with rfl | ⟨rfl, h⟩ <;> simp [leftCut, *]
  have hr : rightCut cfg false true l2 c = 0 := by
    rcases h2 with rfl | ⟨rfl, h⟩ <;> simp [rightCut, *]
  rw [hl, hr, cut_zero_right]; rfl

example : delimFree defaultDelims ⟨['x'], [(⟨.raw ['{', '{', ' ', 'v', ' ', '}', '}', '\n', ' '] .plus .none false, .none, .minus⟩, [' '])]⟩ = true := by
  decide

/-- Rewriting a template's tags to other delimiters does not change what it renders, as long as
    its texts contain no start delimiter of either set. -/
theorem delim_invariance (cfg : Cfg) (vm bm : List Char) (d d' : Delims) (tm : Tmpl)
    (hg : goodDelims d = true) (hg' : goodDelims d' = true)
    (hf : delimFree d tm = true) (hf' : delimFree d' tm = true) :
    renderRes vm bm (lex cfg d (findStart d) (unparse d tm)) =
      renderRes vm bm (lex cfg d' (findStart d') (unparse d' tm)) := by
  rw [lex_eq_spec cfg vm bm d tm hg hf, lex_eq_spec cfg vm bm d' tm hg' hf']

/-- the same for any two searches that meet the leftmost-longest specification -/
theorem delim_invariance_param (cfg : Cfg) (vm bm : List Char) (d d' : Delims) (find find' : FindStart)
    (tm : Tmpl) (hfind : LeftmostLongest d find) (hfind' : LeftmostLongest d' find')
    (hg : goodDelims d = true) (hg' : goodDelims d' = true)
    (hf : delimFree d tm = true) (hf' : delimFree d' tm = true) :
    renderRes vm bm (lex cfg d find (unparse d tm)) = renderRes vm bm (lex cfg d' find' (unparse d' tm)) := by
  rw [lex_eq_spec_of_leftmostLongest cfg vm bm d find tm hfind hg hf,
    lex_eq_spec_of_leftmostLongest cfg vm bm d' find' tm hfind' hg' hf']

/-- prefix-sharing ERB-style delimiters `<%` / `<%=` / `<%#` with a shared end marker -/
def erb : Delims :=
  { bs := ['<', '%'], be := ['%', '>'], vs := ['<', '%', '='], ve := ['%', '>'],
    cs := ['<', '%', '#'], ce := ['%', '>'], ls := [], lc := [] }

/-- nested-prefix delimiters `<<` / `<<<<` -/
def angle4 : Delims :=
  { bs := ['<', '<'], be := ['>', '>'], vs := ['<', '<', '<', '<'], ve := ['>', '>', '>', '>'],
    cs := ['<', '<', '#'], ce := ['#', '>', '>'], ls := [], lc := [] }

/-- hypotheses of `delim_invariance` are satisfiable by prefix-sharing families and a template
    with look-alike text -/
example : goodDelims erb = true ∧ goodDelims angle4 = true ∧ goodDelims defaultDelims = true ∧
    (let tm : Tmpl := ⟨[' ', '}', ' '], [(⟨.var false, .none, .minus⟩, ['\n', '%', ' ']), (⟨.block .ifT true, .plus, .none⟩, ['\n']),
       (⟨.comment [], .plus, .none⟩, ['\n'])]⟩
     delimFree erb tm = true ∧ delimFree angle4 tm = true ∧ delimFree defaultDelims tm = true) := by
  decide

/-- Text that merely looks like the default delimiters is plain text under other delimiters: the
    tokenizer reproduces it (up to the trailing line break rule) although the default search
    would find a tag in it. -/
theorem lookalike_is_text (cfg : Cfg) (vm bm : List Char) (d : Delims) (t : List Char)
    (hg : goodDelims d = true) (hf : noStartIn d t [] = true)
    (_hlook : findStartDefault t ≠ none) :
    renderRes vm bm (lex cfg d (findStart d) t) = some (if cfg.keep then t else stripTrailingNl t) :=
  verbatim cfg vm bm d t hg hf

example : noStartIn erb ['a', '{', '{', ' ', 'x', ' ', '}', '}', '{', '%', ' ', 'y', ' ', '%', '}'] [] = true ∧
    findStartDefault ['a', '{', '{', ' ', 'x', ' ', '}', '}', '{', '%', ' ', 'y', ' ', '%', '}'] ≠ none := by
  decide

end MJ.C10
