import MJ.Proofs.LexerLine
import MJ.Proofs.LexerAC
import MJ.Proofs.LexerKern
import MJ.Proofs.LexerPieces
import MJ.Proofs.LexerRules
import MJ.Gen.Tables
/-!
# C10 — text is verbatim and whitespace control exact under any delimiter configuration

Property theorems only (helper lemmas live in `MJ/Proofs/Lexer*.lean`).

* `Lexer.lex cfg d find src` is the model of the root tokenizer of `compiler/lexer.rs`
  (`MJ/Model/Lexer.lean`); `find` is the start-marker search — `Lexer.findStart d` is what the
  tokenizer uses: `find_start_marker_memchr` for the default delimiters and the leftmost-longest
  search `findLL d` (the specification of the Aho-Corasick path) otherwise;
* `Lexer.Tmpl` is a template as a head text and (tag, text) pairs; tags are variable and block tags
  whose interior is any token list (`Lexer.Tok`: blanks, identifiers, decimal integers, string
  literals with escapes, operators, brackets — e.g. `{{ v }}`, `{{v}}`, `{% if t %}`,
  `{{ {'a': '}}'} }}`), comments with an arbitrary body (empty, blank, made of `-`/`+` characters,
  …) and raw blocks `{% raw %}…{% endraw %}` / `{%raw%}…{%endraw%}`, every marker in
  {none, -, +} on every side; `unparse d` writes it with the delimiters `d`;
* `Lexer.specRender` applies the five whitespace rules of the statement locally
  (`MJ/Model/LexerSpec.lean`); `renderRes vm bm` is the text a render prints when a variable tag
  prints `vm` and a block tag `bm`;
* `Lexer.delimFree d tm`: no start delimiter of `d` begins inside a text of `tm` (also not
  straddling into the next tag), at a tag the tag's own start delimiter is the longest match, raw
  content contains no block start, and every tag reads back as written (`tagOk`): the interior of
  a variable / block tag is a well-formed token list in which the tag does not end early
  (`interiorOk`: no token at bracket depth 0 starts with the end delimiter or with `-`/`+` directly
  in front of it — `{{ x - }}` is fine, `{{ x -}}` is the tag with a right marker), a comment body
  does not contain the comment end and is not ambiguous with a marker (`{#-#}` is the comment with
  a *left* `-`; `{# - #}` and `{#- - -#}` are fine; `<!---->` is `<!--` + `-` + an unclosed body), and
  an unmarked closing side is not read as a marked one (`closeOk`: the end delimiter `--` followed
  by the text `-x`);
* `Lexer.goodDelims d`: pairwise distinct non-empty start delimiters (block, variable, comment and,
  when set, the line statement and line comment prefixes) that do not begin with whitespace, line
  prefixes that do not end in a line break, non-empty end delimiters whose last character that is
  not horizontal whitespace is not a line break, variable / block end delimiters that do not begin
  with ASCII whitespace.  Every other set `SyntaxConfigBuilder::build` accepts is covered: end
  delimiters may begin with `-`/`+` (`-->`), digits, letters, quotes, operators, the comment end
  with whitespace; they may end in blanks.  What stays outside and why (real code probed at each
  point, see lib/props/c10.py META "not covered"): whitespace that belongs to a delimiter is at the
  same time whitespace a rule of the statement removes (a start delimiter ` {%` behind `-}}`, a
  trailing `\n` of the template that is the end of `%}\n`), so the statement contradicts itself
  there; a variable / block end delimiter that begins with ASCII whitespace is never found (every
  tag is a syntax error);
* line statements and line comments are tags of their own (`Kind.lineStmt`, `Kind.lineComment`): the
  tag is the prefix and the interior / comment text, the blanks up to the end of the line and the
  line break are the beginning of the text behind it; the rules treat them as the block / comment
  tag occupying that line, i.e. with `trim_blocks` and `lstrip_blocks` on for this tag (`cfgFor`), a
  line statement also takes the blanks up to the line break (`lineCut`).
-/
namespace MJ.C10
open MJ.Lexer

/-- Full-strength statement for the model: for all 8 settings, all marker placements, all line
    endings (texts are arbitrary character lists), every well-formed delimiter set and every
    delimiter-free template, the tokenizer's text output is exactly what the five rules say. -/
def C10_full : Prop :=
  ∀ (cfg : Cfg) (vm bm : List Char) (d : Delims) (tm : Tmpl),
    goodDelims d = true → delimFree d tm = true →
    renderRes vm bm (lex cfg d (findStart d) (unparse d tm)) = some (specRender cfg vm bm tm)

/-- The search the tokenizer uses is the leftmost-longest search for every delimiter set that
    `SyntaxConfigBuilder::build` accepts (`validatedStartDelims d ≠ none`): `findStart d` is
    `find_start_marker_memchr` for the default delimiters and otherwise the model of the
    Aho-Corasick path as `syntax.rs` builds it — the validated pattern list, `pattern_to_marker`,
    all overlapping matches in the order of their end offsets, and the `max_pattern_len` loop. -/
theorem findStart_is_leftmostLongest (d : Delims) (pats : List (List Char))
    (hv : validatedStartDelims d = some pats) : LeftmostLongest d (findStart d) := by
  rw [findStart_eq_findLL_of_validated hv]; exact findLL_leftmostLongest d

example : validatedStartDelims ⟨['<', '<'], ['>', '>'], ['<', '<', '<', '<'], ['>', '>'], ['<', '<', '#'], ['>'], ['#'], ['#', '#']⟩ =
    some [['<', '<', '<', '<'], ['<', '<'], ['<', '<', '#'], ['#'], ['#', '#']] := by decide

/-- invalid sets are rejected: duplicate or empty start delimiters -/
example : validatedStartDelims ⟨['{', '{'], ['}'], ['{', '{'], ['}'], ['{', '#'], ['}'], [], []⟩ = none ∧
    validatedStartDelims ⟨['{', '%'], ['}'], [], ['}'], ['{', '#'], ['}'], [], []⟩ = none := by decide

theorem findStart_eq_findLL (d : Delims) (hg : goodDelims d = true) : findStart d = findLL d :=
  findStart_eq_findLL_of_validated (validated_of_good (good_of_goodDelims hg))

theorem lex_eq_spec : C10_full := by
  intro cfg vm bm d tm hg hf
  rw [findStart_eq_findLL d hg]
  exact lex_spec cfg vm bm (good_of_goodDelims hg) tm hf

/-- hypotheses are satisfiable: default delimiters, trim_blocks + lstrip_blocks,
    `a\n  {% if t %}\r\n{{- v +}} x {# c -#}\n` -/
example : goodDelims defaultDelims = true ∧
    delimFree defaultDelims ⟨['a', '\n', ' ', ' '],
      [(⟨.block (vocabIf false), .none, .none⟩, ['\r', '\n']), (⟨.var (vocabV false), .minus, .plus⟩, [' ', 'x', ' ']),
       (⟨.comment [' ', 'c', ' '], .none, .minus⟩, ['\n'])]⟩ = true := by decide

/-- degenerate tags are inside the hypotheses: `a{#-#} {#+#}\n{##}{#--#}{# - #}{#- - -#}{{-v-}}{%-if t-%}\n{%-raw-%}{%-endraw-%}` -/
example : delimFree defaultDelims ⟨['a'],
      [(⟨.comment [], .minus, .none⟩, [' ']), (⟨.comment [], .plus, .none⟩, ['\n']),
       (⟨.comment [], .none, .none⟩, []), (⟨.comment [], .minus, .minus⟩, []),
       (⟨.comment [' ', '-', ' '], .none, .none⟩, []), (⟨.comment [' ', '-', ' '], .minus, .minus⟩, []),
       (⟨.var (vocabV true), .minus, .minus⟩, []), (⟨.block (vocabIf true), .minus, .minus⟩, ['\n']),
       (⟨.raw [] .minus .minus true, .minus, .minus⟩, [])]⟩ = true := by decide

/-- the ambiguous writing is excluded: "empty body, right `-` only" unparses to `{#-#}`, which
    is the comment with a left marker -/
example : delimFree defaultDelims ⟨[], [(⟨.comment [], .none, .minus⟩, [])]⟩ = false := by decide

/-- comment delimiters `<!--` / `-->`: the comment end begins with `-` -/
def html : Delims :=
  { bs := ['{', '{', '%'], be := ['%', '}', '}'], vs := ['<', '<', '<'], ve := ['>', '>', '>'],
    cs := ['<', '!', '-', '-'], ce := ['-', '-', '>'], ls := [], lc := [] }

/-- all three end delimiters begin with `-` -/
def dashEnds : Delims :=
  { bs := ['<', '%'], be := ['-', '%', '>'], vs := ['<', '='], ve := ['-', '>'],
    cs := ['<', '#'], ce := ['-', '#', '>'], ls := [], lc := [] }

/-- end delimiters that end in horizontal whitespace, a comment end that begins with a blank -/
def blankEnds : Delims :=
  { bs := ['{', '%'], be := ['%', '}', ' '], vs := ['{', '{'], ve := ['}', '}', '\t'],
    cs := ['{', '#'], ce := [' ', '#', '}'], ls := [], lc := [] }

/-- `lex_eq_spec` covers end delimiters that begin with `-`/`+`, a digit or a letter, comment ends
    that begin with whitespace and end delimiters that end in horizontal whitespace:
    `x<!--+-->\n](` (the empty comment with a left marker of KNOWN_FINDINGS 2cdfe64),
    `a <% raw -%> r <% endraw -%> <= v --> <%-if t-%>\n<#--#>\n`,
    `a\n {% if t %} \n {# c #}  {{- v }}\t` -/
example : goodDelims html = true ∧ goodDelims dashEnds = true ∧ goodDelims blankEnds = true ∧
    goodDelims ⟨['<', '1'], ['1', '>'], ['<', '2'], ['2', '>'], ['<', '3'], ['3', '>'], [], []⟩ = true ∧
    goodDelims ⟨['<', 'b'], ['b', '>'], ['<', 'v'], ['v', '>'], ['<', 'c'], ['c', '>'], [], []⟩ = true ∧
    delimFree html ⟨['x'], [(⟨.comment [], .plus, .none⟩, ['\n', ']', '('])]⟩ = true ∧
    delimFree dashEnds ⟨['a', ' '],
      [(⟨.raw [' ', 'r', ' '] .none .none false, .none, .none⟩, [' ']), (⟨.var (vocabV false), .none, .minus⟩, [' ']),
       (⟨.block (vocabIf true), .minus, .none⟩, ['\n']), (⟨.comment [], .minus, .none⟩, ['\n'])]⟩ = true ∧
    delimFree blankEnds ⟨['a', '\n', ' '],
      [(⟨.block (vocabIf false), .none, .none⟩, ['\n', ' ']), (⟨.comment [' ', 'c'], .none, .none⟩, [' ']),
       (⟨.var (vocabV false), .minus, .none⟩, [])]⟩ = true := by decide

/-- the two repaired points, evaluated: the whitespace behind `<!--+-->` stays, `<% raw -%>` is a raw tag -/
example :
    renderRes ['V'] [] (lex ⟨false, false, true⟩ html (findStart html)
      ['x', '<', '!', '-', '-', '+', '-', '-', '>', '\n', ']', '(']) = some ['x', '\n', ']', '('] ∧
    renderRes ['V'] [] (lex ⟨false, false, true⟩ dashEnds (findStart dashEnds)
      "a <% raw -%> r <% endraw -%> b".toList) = some "a  r  b".toList := by decide

/-- still excluded, because the source reads differently: `<!---->` is a comment with a left `-`
    that never ends, `<= v --` followed by `-x` (end delimiter `--`) is read as `-` + `--` -/
example : delimFree html ⟨[], [(⟨.comment [], .none, .none⟩, [])]⟩ = false ∧
    closeOk ['-', '-'] .none ['-', 'x'] = false := by decide

/-- the same with the search as a parameter: any search that is leftmost-longest in the sense of
    `LeftmostLongest` (leftmost start, then longest pattern, line statement prefix only at line
    start) gives the rules -/
theorem lex_eq_spec_of_leftmostLongest (cfg : Cfg) (vm bm : List Char) (d : Delims) (find : FindStart)
    (tm : Tmpl) (hfind : LeftmostLongest d find) (hg : goodDelims d = true) (hf : delimFree d tm = true) :
    renderRes vm bm (lex cfg d find (unparse d tm)) = some (specRender cfg vm bm tm) := by
  rw [leftmostLongest_unique hfind]
  exact lex_spec cfg vm bm (good_of_goodDelims hg) tm hf

example (d : Delims) : LeftmostLongest d (findLL d) := findLL_leftmostLongest d

/-- `find_start_marker_memchr` meets the specification of the search for the default delimiters -/
theorem memchr_is_leftmostLongest :
    LeftmostLongest defaultDelims (fun _ rest => findStartDefault rest) := by
  have : (fun (_ : List Char) rest => findStartDefault rest) = findLL defaultDelims := by
    funext pre rest; exact findStartDefault_eq_findLL pre rest
  rw [this]; exact findLL_leftmostLongest _

/-- `tokenize_block_or_var` finds the end of a tag exactly behind its interior: for every end
    delimiter whose first character is not ASCII whitespace (it may be `-`, `+`, a digit, a letter,
    a quote …), every well-formed token list (blanks, identifiers, integers, string literals with
    escapes, operators, balanced brackets) in which no token at bracket depth 0 starts like the end
    of the tag, and every marker `m`, scanning `interior ++ m ++ end ++ x` stops with `x` unread and
    reports `m` — provided an unmarked end is not read as a marked one (`closeOk`: the end
    delimiter `--` followed by the text `-x` is, by the lexer as by Jinja2, read as `-` + `--`). -/
theorem interior_end_found (e : List Char) (ts : List Tok) (m : Mark) (x : List Char)
    (he : headOk e = true) (h : interiorOk e 0 ts (m.src ++ (e ++ x)) = true)
    (hc : closeOk e m x = true) :
    scanTag e false .top 0 (srcs ts ++ (m.src ++ (e ++ x))) = .found x m.ws :=
  Lexer.interior_end_found he ts m x h hc

/-- end delimiters that begin with a marker character, a digit or a letter: `<= v ->`, `<= v -->`
    (marked), `{{ 1 2}`, `{{ v end`; the ambiguous `--` + `-x` is excluded by `closeOk` -/
example :
    headOk ['-', '>'] = true ∧ interiorOk ['-', '>'] 0 [.ws [' '], .ident ['v'], .ws [' ']] ['-', '>', 'z'] = true ∧
      closeOk ['-', '>'] .none ['z'] = true ∧
    interiorOk ['-', '>'] 0 [.ws [' '], .ident ['v'], .ws [' ']] ['-', '-', '>', 'z'] = true ∧
    headOk ['2', '}'] = true ∧ interiorOk ['2', '}'] 0 [.ws [' '], .int ['1'], .ws [' ']] ['2', '}'] = true ∧
    interiorOk ['2', '}'] 0 [.ws [' '], .int ['1']] ['2', '}'] = false ∧
    headOk ['e', 'n', 'd'] = true ∧ interiorOk ['e', 'n', 'd'] 0 [.ws [' '], .ident ['v'], .ws [' ']] ['e', 'n', 'd'] = true ∧
    closeOk ['-', '-'] .none ['-', 'x'] = false ∧ closeOk ['-', '-'] .none ['x'] = true ∧
    closeOk ['-', '-'] .minus ['-', 'x'] = true := by decide

/-- `{{ {'a': '}}'} }}`: the end delimiter inside a string inside braces does not end the tag;
    `{{ x - }}` has an operator at its end, `{{ 1 -}}` a marker -/
example :
    interiorOk ['}', '}'] 0 [.ws [' '], .op '{', .str '\'' ['a'], .op ':', .ws [' '], .str '\'' ['}', '}'], .op '}', .ws [' ']]
      ['}', '}', 'z'] = true ∧
    interiorOk ['}', '}'] 0 [.ws [' '], .ident ['x'], .ws [' '], .op '-', .ws [' ']] ['}', '}'] = true ∧
    interiorOk ['}', '}'] 0 [.ws [' '], .int ['1'], .ws [' ']] ['-', '}', '}'] = true ∧
    interiorOk ['}', '}'] 0 [.ws [' '], .ident ['x'], .ws [' '], .op '-'] ['}', '}'] = false := by decide

/-- A string literal is read as one token, whatever it contains: for every quote, every body that
    `utils::unescape` accepts (`strBodyOk`: no unescaped quote; `\uXXXX` with surrogates only as a
    high one directly followed by a low one, `\xXX`, octal escapes that fit a byte, any other
    character behind a backslash) and every end delimiter, scanning `"body"rest` inside a tag
    continues behind the closing quote — end delimiters, start delimiters and markers inside the
    string do not end the tag (`{{ "}}" }}`, `{% if x == "%}" %}`).  The string must not itself
    begin like the end of the tag (an end delimiter that begins with a quote). -/
theorem string_literal_is_one_token (e : List Char) (bal : Int) (q : Char) (body rest : List Char)
    (hq : q = '\'' ∨ q = '"') (hb : strBodyOk q 0 body = true)
    (hne : bal ≠ 0 ∨ endHere e (q :: (body ++ [q] ++ rest)) = false) :
    scanTag e false .top bal (q :: (body ++ [q]) ++ rest) = scanTag e false .top bal rest :=
  tok_str q body rest hq hb ⟨noLineEnd_false _ _, noEnd_of (Or.inr hne)⟩

/-- `"}}"`, `'\u007d}'`, a surrogate pair, `\x41\101\n\q`, `\u+041`; rejected: a lone surrogate,
    a high surrogate followed by text, `\400`, three hex digits, an unescaped quote -/
example :
    strBodyOk '"' 0 ['}', '}'] = true ∧ strBodyOk '\'' 0 "\\u007d}".toList = true ∧
    strBodyOk '"' 0 "\\ud83d\\ude00".toList = true ∧ strBodyOk '"' 0 "\\x41\\101\\n\\q\\\"".toList = true ∧
    strBodyOk '"' 0 "\\u+041\\x+f\\08".toList = true ∧
    strBodyOk '"' 0 "\\ud83d".toList = false ∧ strBodyOk '"' 0 "\\ud83dx".toList = false ∧
    strBodyOk '"' 0 "\\ude00\\ud83d".toList = false ∧ strBodyOk '"' 0 "\\400".toList = false ∧
    strBodyOk '"' 0 "\\u123".toList = false ∧ strBodyOk '"' 0 "a\"b".toList = false := by decide

/-- `{{ "}}" }}`, `{% if x == "%}" %}` and `{{ '\ud83d\ude00}}' -}}` are tags that read back as written -/
example :
    interiorOk ['}', '}'] 0 [.ws [' '], .str '"' ['}', '}'], .ws [' ']] ['}', '}', 'z'] = true ∧
    interiorOk ['%', '}'] 0 [.ws [' '], .ident ['i', 'f'], .ws [' '], .ident ['x'], .ws [' '], .op2 '=' '=', .ws [' '],
      .str '"' ['%', '}'], .ws [' ']] ['%', '}'] = true ∧
    interiorOk ['}', '}'] 0 [.ws [' '], .str '\'' "\\ud83d\\ude00}}".toList, .ws [' ']] ['-', '}', '}'] = true ∧
    delimFree defaultDelims ⟨['a'], [(⟨.var [.ws [' '], .str '"' "\\u007d}".toList, .ws [' ']], .none, .minus⟩, [' ', 'b'])]⟩ = true := by
  decide

/-! ## the tokens inside a tag -/

/-- `scanPieces` (the expression-level lexer with the text of every token it emits and every blank
    it skips) is `scanTag` with bookkeeping: it ends the tag at the same place. -/
theorem pieces_same_end (e : List Char) (line : Bool) (s : List Char) (m : Mode) (bal : Int) (cur : List Char) :
    (scanPieces e line m bal s cur).2 = scanTag e line m bal s := scanPieces_snd e line s m bal cur

/-- **The lexer never loses or invents a character inside a tag**: whenever `tokenize_block_or_var`
    finds the end of an ordinary tag, the texts of the tokens it emitted and of the whitespace it
    skipped, concatenated in order, followed by the marker, the end delimiter and what is left
    unread, are exactly the input — for every end delimiter and every input (well-formed or not,
    any mixture of identifiers, numbers in every notation, string literals with escapes, one and
    two character operators, brackets). -/
theorem tokens_concat_verbatim (e s rest : List Char) (ws : Ws)
    (h : scanTag e false .top 0 s = .found rest ws) :
    s = piecesSrc (scanPieces e false .top 0 s []).1 ++ (ws.src ++ (e ++ rest)) := by
  have := scanPieces_concat e s .top 0 [] rest ws (by rw [scanPieces_snd]; exact h)
  simpa using this

/-- `{{ a.b //2 -}}x`: tokens `a`, `.`, `b`, `//`, `2` and three blanks; `0x1f**'}}'` -/
example :
    (scanPieces ['}', '}'] false .top 0 " a.b //2 -}}x".toList []).1 =
      [.blank [' '], .tok ['a'], .tok ['.'], .tok ['b'], .blank [' '], .tok ['/', '/'], .tok ['2'], .blank [' ']] ∧
    (scanPieces ['}', '}'] false .top 0 "0x1f**'}}'}}".toList []) =
      ([.tok "0x1f".toList, .tok ['*', '*'], .tok "'}}'".toList], .found [] .dflt) := by decide

/-- … and for a tag that reads back as written the pieces are a partition of its interior: their
    concatenation is the interior as written (`srcs ts`), nothing of the marker, the end delimiter
    or the text behind the tag is part of a token. -/
theorem interior_is_partitioned (e : List Char) (ts : List Tok) (m : Mark) (x : List Char)
    (he : headOk e = true) (h : interiorOk e 0 ts (m.src ++ (e ++ x)) = true) (hc : closeOk e m x = true) :
    piecesSrc (scanPieces e false .top 0 (srcs ts ++ (m.src ++ (e ++ x))) []).1 = srcs ts := by
  have hend := interior_end_found e ts m x he h hc
  have := tokens_concat_verbatim e _ x m.ws hend
  have hm : m.ws.src = m.src := by cases m <;> rfl
  rw [hm] at this
  exact (List.append_cancel_right this).symm

/-- A line statement ends at the end of its line: behind a well-formed interior (brackets closed;
    at depth 0 blanks contain no line break and are followed by another token) the blanks up to the
    line break and the line break itself (`\n`, `\r\n`, `\r`) or the end of the input are
    consumed, nothing more. -/
theorem line_interior_end_found (ts : List Tok) (fol : List Char)
    (h : lineInteriorOk 0 ts fol = true) (hf : lineFollow fol = true) :
    scanTag [] true .top 0 (srcs ts ++ fol) = .found (fol.drop (lineCut fol)) .dflt :=
  Lexer.line_interior_end_found ts fol h hf

example : lineInteriorOk 0 [.ws [' '], .ident ['i', 'f'], .ws [' '], .op '(', .ident ['t'], .ws ['\n'], .op ')']
      [' ', '\r', '\n', 'x'] = true ∧ lineFollow [' ', '\r', '\n', 'x'] = true ∧
    lineCut [' ', '\r', '\n', 'x'] = 3 := by decide

/-- default delimiters with the line statement prefix `#` and the line comment prefix `##` -/
def lineDelims : Delims := { defaultDelims with ls := ['#'], lc := ['#', '#'] }

/-- `lex_eq_spec` covers configurations with line prefixes:
    `a\n  # if t  \r\nb {{ v }}\n## note\n# endif` (last line without a line break) -/
example : goodDelims lineDelims = true ∧
    delimFree lineDelims ⟨['a', '\n', ' ', ' '],
      [(⟨.lineStmt (vocabIf false).dropLast, .none, .none⟩, [' ', ' ', '\r', '\n', 'b', ' ']),
       (⟨.var (vocabV false), .none, .none⟩, ['\n']),
       (⟨.lineComment [' ', 'n', 'o', 't', 'e'], .none, .none⟩, ['\n']),
       (⟨.lineStmt (vocabEndif false).dropLast, .none, .none⟩, [])]⟩ = true := by decide

/-- A line statement / line comment behaves as the block / comment tag occupying that whole line:
    with `trim_blocks` and `lstrip_blocks` on and nothing but the line break behind the line
    statements, the rules give the same text for the template and for its tag form (every line
    statement written as the block tag, every line comment as the comment tag, in place). -/
theorem line_statement_as_tag (cfg : Cfg) (vm bm : List Char) (tm : Tmpl) (h1 : cfg.trim = true)
    (h2 : cfg.lstrip = true) (hnt : noTrail tm.tail = true) (hm : lineMarksNone tm.tail = true) :
    specRender cfg vm bm tm = specRender cfg vm bm tm.tagForm :=
  specRender_tagForm cfg vm bm tm h1 h2 hnt hm

/-- … and so does the tokenizer: lexing the line form and lexing the tag form give the same text -/
theorem line_lex_as_tag (cfg : Cfg) (vm bm : List Char) (d : Delims) (tm : Tmpl)
    (hg : goodDelims d = true) (hf : delimFree d tm = true) (hf' : delimFree d tm.tagForm = true)
    (h1 : cfg.trim = true) (h2 : cfg.lstrip = true) (hnt : noTrail tm.tail = true)
    (hm : lineMarksNone tm.tail = true) :
    renderRes vm bm (lex cfg d (findStart d) (unparse d tm)) =
      renderRes vm bm (lex cfg d (findStart d) (unparse d tm.tagForm)) := by
  rw [lex_eq_spec cfg vm bm d tm hg hf, lex_eq_spec cfg vm bm d tm.tagForm hg hf',
    line_statement_as_tag cfg vm bm tm h1 h2 hnt hm]

/-- hypotheses are satisfiable: `x\n # if t\ny\n## c\n# endif\n` and its tag form
    `x\n {% if t%}\ny\n{# c#}\n{% endif%}\n` -/
example :
    (let tm : Tmpl := ⟨['x', '\n', ' '],
      [(⟨.lineStmt (vocabIf false).dropLast, .none, .none⟩, ['\n', 'y', '\n']),
       (⟨.lineComment [' ', 'c'], .none, .none⟩, ['\n']),
       (⟨.lineStmt (vocabEndif false).dropLast, .none, .none⟩, ['\n'])]⟩
     delimFree lineDelims tm = true ∧ delimFree lineDelims tm.tagForm = true ∧ noTrail tm.tail = true ∧
       lineMarksNone tm.tail = true) := by decide

/-- Text without a start marker is reproduced byte for byte, except for the one trailing line
    break that goes unless `keep_trailing_newline` is set. -/
theorem verbatim (cfg : Cfg) (vm bm : List Char) (d : Delims) (t : List Char)
    (hg : goodDelims d = true) (hf : noStartIn d t [] = true) :
    renderRes vm bm (lex cfg d (findStart d) t) = some (if cfg.keep then t else stripTrailingNl t) := by
  have := lex_eq_spec cfg vm bm d ⟨t, []⟩ hg (by simpa [delimFree, tailFree] using hf)
  simp only [unparse, unparseTail, List.append_nil] at this
  rw [this]
  cases hk : cfg.keep <;> simp [specRender, stripFinal, specTail, hk]

example : goodDelims defaultDelims = true ∧ noStartIn defaultDelims ['{', ' ', '{', '\n', '}', '%', '}', '\r', '\n'] [] = true := by
  decide

/-- What `tokenize_root` emits in front of a tag is the text without exactly the suffix the rules
    name for that side: all trailing whitespace for `-`, the horizontal whitespace back to the
    start of the line for an unmarked block/comment/raw tag under `lstrip_blocks`, nothing
    otherwise (`rightCut`).  `l` characters were already removed on the left. -/
theorem lead_rule (cfg : Cfg) (first : Bool) (ctx : List Char) (g : Tag) (t : List Char)
    (hc : CtxInv first ctx t) (hg : g.isLine = false) (l : Nat) :
    leadOf cfg g.l.ws g.marker (t.reverse ++ ctx) (t.drop l) =
      (t.drop l).take (t.length - l - rightCut cfg first g.blockish g.l t) :=
  leadOf_eq_cut cfg t hc g.l g.marker g.blockish (Tag.marker_blockish g) (Tag.marker_ne_lineStmt g hg)
    (Tag.marker_ne_lineComment g hg) l

/-- … and in front of a line statement / line comment it is the text without the blanks back to
    the start of the line, whatever the `lstrip_blocks` setting. -/
theorem lead_rule_line (cfg : Cfg) (first : Bool) (ctx : List Char) (marker : Marker) (t : List Char)
    (hc : CtxInv first ctx t) (hm : marker = .lineStmt ∨ marker = .lineComment) (l : Nat) :
    leadOf cfg .dflt marker (t.reverse ++ ctx) (t.drop l) =
      (t.drop l).take (t.length - l - (if atLineStart first t then sufCount isHws t else 0)) := by
  rw [leadOf_line_eq_cut cfg t hc marker hm l]
  simp [cut, rightCut]

example : CtxOk true [] := Or.inl ⟨rfl, rfl⟩
example : CtxOk false ['}', '%'] := Or.inr ⟨rfl, [], '}', ['%'], rfl, by simp, by decide⟩
example : CtxOk false [' ', '}', '%'] := Or.inr ⟨rfl, [' '], '}', ['%'], rfl, by simp [isHws, isWs, isNl], by decide⟩
example : CtxInv false [' ', 'c', '#', '#'] ['\n', ' ', ' '] := Or.inr ⟨'\n', by simp, by decide⟩

/-- What is skipped behind a block/comment/raw tag (`handle_tail_ws`: now, or by the pending
    `trim_leading_whitespace`) is exactly the prefix the rules name: all leading whitespace for
    `-`, one line break under `trim_blocks` for an unmarked tag, nothing for `+` (`leftCut`). -/
theorem tail_rule (cfg : Cfg) (m : Mark) (t' more : List Char) (hm : NoWsHead more) :
    leftCut cfg true m t' =
      (if (tailWs cfg m.ws (t' ++ more)).2 then wsPre t' else (tailWs cfg m.ws (t' ++ more)).1) := by
  rw [tailWs_eq cfg m t' more hm, leftCut_eq]

example : NoWsHead ['{', '{'] := Or.inr ⟨'{', ['{'], rfl, by decide⟩

/-- One round of the root loop on `text ++ tag ++ …`: it emits the text minus both cuts, then the
    tag, and continues behind the tag with the next text's left cut applied or pending. -/
theorem round_rule (cfg : Cfg) (d : Delims) (hg : goodDelims d = true) (first : Bool) (ctx : List Char)
    (t : List Char) (hc : CtxInv first ctx t) (l : Nat) (hl : l ≤ t.length) (g : Tag) (t' : List Char)
    (rest : List (Tag × List Char)) (hfree : tailFree d first t ((g, t') :: rest) = true) :
    step cfg d (findStart d) ((t.take l).reverse ++ ctx) (t.drop l ++ unparseTail d ((g, t') :: rest)) false =
      .next (dataOut (cut l (rightCutG cfg first g t) t) ++ tagOuts cfg g)
        ((t'.take (nextKG cfg g t')).reverse ++ ((g.src d).reverse ++ (t.reverse ++ ctx)))
        (t'.drop (nextKG cfg g t') ++ unparseTail d rest) (nextTf g.r) := by
  rw [findStart_eq_findLL d hg]
  exact step_text_tag cfg (good_of_goodDelims hg) t hc l hl g t' rest hfree

/-- A raw block emits its content: what is printed for the tag is the content minus the cuts the
    rules name for the inner sides of `{% raw %}` and `{% endraw %}` … -/
theorem raw_rule (cfg : Cfg) (vm bm : List Char) (d : Delims) (h t' c : List Char) (l ri l2 r : Mark)
    (tight : Bool)
    (hg : goodDelims d = true) (hf : delimFree d ⟨h, [(⟨.raw c ri l2 tight, l, r⟩, t')]⟩ = true) :
    ∃ a b, renderRes vm bm (lex cfg d (findStart d) (unparse d ⟨h, [(⟨.raw c ri l2 tight, l, r⟩, t')]⟩)) =
      some (a ++ cut (leftCut cfg true ri c) (rightCut cfg false true l2 c) c ++ b) := by
  rw [lex_eq_spec cfg vm bm d _ hg hf]
  cases hk : cfg.keep
  · exact ⟨cut 0 (rightCut cfg true true l h) h,
      (stripTrailingNl t').drop (leftCut cfg true r (stripTrailingNl t')),
      by simp [specRender, stripFinal, mapLastText, specTail, tagOut, hk, Tag.blockish, rightCutG, leftCutG, cfgFor,
        Tag.isLine, List.append_assoc]⟩
  · exact ⟨cut 0 (rightCut cfg true true l h) h, t'.drop (leftCut cfg true r t'),
      by simp [specRender, specTail, tagOut, hk, Tag.blockish, rightCutG, leftCutG, cfgFor, Tag.isLine,
        List.append_assoc]⟩

/-- … and the content is verbatim whenever no rule applies to those sides: `+` markers, or no
    marker with `trim_blocks` (start side) / `lstrip_blocks` (end side) off.  In particular the
    content is never scanned for tags. -/
theorem raw_verbatim (cfg : Cfg) (c : List Char) (ri l2 : Mark)
    (h1 : ri = .plus ∨ (ri = .none ∧ cfg.trim = false))
    (h2 : l2 = .plus ∨ (l2 = .none ∧ cfg.lstrip = false)) :
    cut (leftCut cfg true ri c) (rightCut cfg false true l2 c) c = c := by
  have hl : leftCut cfg true ri c = 0 := by
    rcases h1 with rfl | ⟨rfl, h⟩ <;> simp [leftCut, *]
  have hr : rightCut cfg false true l2 c = 0 := by
    rcases h2 with rfl | ⟨rfl, h⟩ <;> simp [rightCut, *]
  rw [hl, hr, cut_zero_right]; rfl

example : delimFree defaultDelims ⟨['x'], [(⟨.raw ['{', '{', ' ', 'v', ' ', '}', '}', '\n', ' '] .plus .none false, .none, .minus⟩, [' '])]⟩ = true := by
  decide

/-- Rewriting a template's tags to other delimiters does not change what it renders, as long as
    its texts contain no start delimiter of either set. -/
theorem delim_invariance (cfg : Cfg) (vm bm : List Char) (d d' : Delims) (tm : Tmpl)
    (hg : goodDelims d = true) (hg' : goodDelims d' = true)
    (hf : delimFree d tm = true) (hf' : delimFree d' tm = true) :
    renderRes vm bm (lex cfg d (findStart d) (unparse d tm)) =
      renderRes vm bm (lex cfg d' (findStart d') (unparse d' tm)) := by
  rw [lex_eq_spec cfg vm bm d tm hg hf, lex_eq_spec cfg vm bm d' tm hg' hf']

/-- the same for any two searches that meet the leftmost-longest specification -/
theorem delim_invariance_param (cfg : Cfg) (vm bm : List Char) (d d' : Delims) (find find' : FindStart)
    (tm : Tmpl) (hfind : LeftmostLongest d find) (hfind' : LeftmostLongest d' find')
    (hg : goodDelims d = true) (hg' : goodDelims d' = true)
    (hf : delimFree d tm = true) (hf' : delimFree d' tm = true) :
    renderRes vm bm (lex cfg d find (unparse d tm)) = renderRes vm bm (lex cfg d' find' (unparse d' tm)) := by
  rw [lex_eq_spec_of_leftmostLongest cfg vm bm d find tm hfind hg hf,
    lex_eq_spec_of_leftmostLongest cfg vm bm d' find' tm hfind' hg' hf']

/-- prefix-sharing ERB-style delimiters `<%` / `<%=` / `<%#` with a shared end marker -/
def erb : Delims :=
  { bs := ['<', '%'], be := ['%', '>'], vs := ['<', '%', '='], ve := ['%', '>'],
    cs := ['<', '%', '#'], ce := ['%', '>'], ls := [], lc := [] }

/-- nested-prefix delimiters `<<` / `<<<<` -/
def angle4 : Delims :=
  { bs := ['<', '<'], be := ['>', '>'], vs := ['<', '<', '<', '<'], ve := ['>', '>', '>', '>'],
    cs := ['<', '<', '#'], ce := ['#', '>', '>'], ls := [], lc := [] }

/-- hypotheses of `delim_invariance` are satisfiable by prefix-sharing families and a template
    with look-alike text -/
example : goodDelims erb = true ∧ goodDelims angle4 = true ∧ goodDelims defaultDelims = true ∧
    (let tm : Tmpl := ⟨[' ', '}', ' '], [(⟨.var (vocabV false), .none, .minus⟩, ['\n', '%', ' ']), (⟨.block (vocabIf true), .plus, .none⟩, ['\n']),
       (⟨.comment [], .plus, .none⟩, ['\n'])]⟩
     delimFree erb tm = true ∧ delimFree angle4 tm = true ∧ delimFree defaultDelims tm = true) := by
  decide

/-- Text that merely looks like the default delimiters is plain text under other delimiters: the
    tokenizer reproduces it (up to the trailing line break rule) although the default search
    would find a tag in it. -/
theorem lookalike_is_text (cfg : Cfg) (vm bm : List Char) (d : Delims) (t : List Char)
    (hg : goodDelims d = true) (hf : noStartIn d t [] = true)
    (_hlook : findStartDefault t ≠ none) :
    renderRes vm bm (lex cfg d (findStart d) t) = some (if cfg.keep then t else stripTrailingNl t) :=
  verbatim cfg vm bm d t hg hf

example : noStartIn erb ['a', '{', '{', ' ', 'x', ' ', '}', '}', '{', '%', ' ', 'y', ' ', '%', '}'] [] = true ∧
    findStartDefault ['a', '{', '{', ' ', 'x', ' ', '}', '}', '{', '%', ' ', 'y', ' ', '%', '}'] ≠ none := by
  decide

/-! ## the rules remove only the whitespace they name -/

/-- Every text of a template is partitioned into what the tag on its left removes, what is printed
    and what the tag on its right removes (`specTail` prints `cut l r t`); when the two removed
    parts meet, nothing is printed. -/
theorem text_is_partitioned (l r : Nat) (t : List Char) :
    (l + r ≤ t.length → t = t.take l ++ (cut l r t ++ t.drop (t.length - r))) ∧
    (t.length ≤ l + r → cut l r t = []) :=
  ⟨cut_partition l r t, cut_nil_of_overlap l r t⟩

/-- The characters removed at the start of a text are the ones the statement names: all leading
    whitespace behind `-`; exactly one line break (`\n`, `\r\n` or `\r`) behind an unmarked block /
    comment / raw tag under `trim_blocks`; nothing behind `+`, behind a variable tag, or with
    `trim_blocks` off.  In every case only whitespace. -/
theorem removed_left_is_named (cfg : Cfg) (blockish : Bool) (m : Mark) (t : List Char) :
    (m = .minus → t.take (leftCut cfg blockish m t) = t.takeWhile isWs) ∧
    (m = .none → blockish = true → cfg.trim = true → t.take (leftCut cfg blockish m t) = t.take (nlLen t)) ∧
    (m = .plus ∨ (m = .none ∧ (blockish = false ∨ cfg.trim = false)) → leftCut cfg blockish m t = 0) ∧
    (∀ c ∈ t.take (leftCut cfg blockish m t), isWs c = true) := leftCut_named cfg blockish m t

/-- The characters removed at the end of a text: all trailing whitespace in front of `-`; only
    horizontal whitespace in front of an unmarked tag, and only for a block / comment / raw tag
    under `lstrip_blocks` whose line holds nothing else in front of it; nothing in front of `+`. -/
theorem removed_right_is_named (cfg : Cfg) (first blockish : Bool) (m : Mark) (t : List Char) :
    (m = .minus → ∀ c ∈ t.drop (t.length - rightCut cfg first blockish m t), isWs c = true) ∧
    (m = .none → ∀ c ∈ t.drop (t.length - rightCut cfg first blockish m t), isHws c = true) ∧
    (m = .plus ∨ (m = .none ∧ (blockish = false ∨ cfg.lstrip = false ∨ atLineStart first t = false)) →
      rightCut cfg first blockish m t = 0) := rightCut_named cfg first blockish m t

/-- **Whole-source partition.**  Let `tm'` be the template without its one trailing line break
    (rule 1; `tm` itself under `keep_trailing_newline`).  The spans `specParts` — for every text the
    prefix the tag on its left removes, the printed part and the suffix the tag on its right removes,
    and every tag — in order ARE the source (every character belongs to exactly one span); the
    output of the rules is what the printed spans and the tags contribute; and the removed spans hold
    nothing but whitespace.  With `lex_eq_spec` / `C10_main` the same holds for what the tokenizer
    prints.  (Inside a tag the finer partition into tokens and blanks is `interior_is_partitioned`.) -/
theorem source_is_partitioned (cfg : Cfg) (vm bm : List Char) (d : Delims) (tm : Tmpl) :
    let tm' := if cfg.keep then tm else stripFinal tm
    let parts := specParts cfg true 0 tm'.head tm'.tail
    parts.flatMap (Part.src d) = unparse d tm' ∧
    parts.flatMap (Part.out cfg vm bm) = specRender cfg vm bm tm ∧
    (∀ s, Part.removed s ∈ parts → ∀ c ∈ s, isWs c = true) := by
  intro tm' parts
  refine ⟨specParts_src cfg d _ true 0 _, ?_, ?_⟩
  · rw [specParts_out]; rfl
  · exact specParts_removed_ws cfg _ true 0 _ (by simp)

/-- … for a template inside the hypotheses of `lex_eq_spec` the partitioned text is the source as
    `Tokenizer::new` keeps it (`prepare`: without the one trailing line break unless
    `keep_trailing_newline`), and the output of the printed spans and the tags is what the
    tokenizer prints. -/
theorem lexed_source_is_partitioned (cfg : Cfg) (vm bm : List Char) (d : Delims) (tm : Tmpl)
    (hg : goodDelims d = true) (hf : delimFree d tm = true) :
    let tm' := if cfg.keep then tm else stripFinal tm
    let parts := specParts cfg true 0 tm'.head tm'.tail
    parts.flatMap (Part.src d) = prepare cfg (unparse d tm) ∧
    renderRes vm bm (lex cfg d (findStart d) (unparse d tm)) = some (parts.flatMap (Part.out cfg vm bm)) ∧
    (∀ s, Part.removed s ∈ parts → ∀ c ∈ s, isWs c = true) := by
  intro tm' parts
  obtain ⟨h1, h2, h3⟩ := source_is_partitioned cfg vm bm d tm
  refine ⟨?_, ?_, h3⟩
  · rw [prepare_unparse cfg (good_of_goodDelims hg) tm hf]; exact h1
  · rw [lex_eq_spec cfg vm bm d tm hg hf]; exact congrArg some h2.symm

/-- `a\n  {% if t -%} \n x{# c #}\n` under trim_blocks + lstrip_blocks: 10 spans -/
example :
    (specParts ⟨true, true, true⟩ true 0 ['a', '\n', ' ', ' ']
      [(⟨.block (vocabIf false), .none, .minus⟩, [' ', '\n', ' ', 'x']), (⟨.comment [' ', 'c', ' '], .none, .none⟩, ['\n'])]).length = 10 ∧
    (specParts ⟨true, true, true⟩ true 0 ['a', '\n', ' ', ' ']
      [(⟨.block (vocabIf false), .none, .minus⟩, [' ', '\n', ' ', 'x']), (⟨.comment [' ', 'c', ' '], .none, .none⟩, ['\n'])]).flatMap
        (Part.out ⟨true, true, true⟩ ['V'] ['B']) = ['a', '\n', 'B', 'x'] := by decide

/-- `x \r\n` behind `%}` under trim_blocks loses 0 characters (it does not start with the line
    break), `\r\nx` loses 2; `a\n \t` in front of `{%` under lstrip_blocks loses the 2 blanks, `a \t`
    none -/
example :
    leftCut ⟨true, false, false⟩ true .none ['x', ' ', '\r', '\n'] = 0 ∧
    leftCut ⟨true, false, false⟩ true .none ['\r', '\n', 'x'] = 2 ∧
    rightCut ⟨false, true, false⟩ false true .none ['a', '\n', ' ', '\t'] = 2 ∧
    rightCut ⟨false, true, false⟩ false true .none ['a', ' ', '\t'] = 0 ∧
    rightCut ⟨false, true, false⟩ false true .plus ['a', '\n', ' ', '\t'] = 0 := by decide

/-! ## the Aho-Corasick automaton as an assumption with a name -/

/-- What the proof uses about `aho_corasick::find_overlapping` is `AcSpec` (`Proofs/LexerAC.lean`): on
    every haystack the automaton reports exactly the occurrences of the patterns (nothing missed,
    nothing invented; multiplicity and the order among matches that end at the same offset are free)
    in the order of their end offsets.  Over ANY such report the `max_pattern_len` loop of
    `find_start_marker` returns the leftmost-longest match.  The `kac` stream evaluates the
    hypothesis on what the real automaton reports (hook `start_marker_matches`) on every haystack
    of length ≤ 5 (thorough 6) for every generated start delimiter family, decided by `acSpecB`. -/
theorem ac_loop_of_spec (d : Delims) (pats : List (List Char)) (hv : validatedStartDelims d = some pats)
    (pre rest : List Char) (ms : List AcMatch) (hspec : AcSpec pats rest ms) :
    acLoop d (maxPatternLen pats) pre rest none ms = findLL d pre rest :=
  acLoop_eq_findLL_of_spec hv pre rest ms hspec

/-- `acSpecB` (what the driver runs on the real report) decides `AcSpec` -/
theorem ac_spec_decided (pats : List (List Char)) (rest : List Char) (ms : List AcMatch) :
    acSpecB pats rest ms = true ↔ AcSpec pats rest ms := acSpecB_iff pats rest ms

/-- patterns `a`, `aa` on `aa`: the two matches that end at offset 2 may come in either order; a
    missing, an invented or a late match is refused -/
example :
    AcSpec [['a'], ['a', 'a']] ['a', 'a'] [⟨0, 0, 1⟩, ⟨0, 1, 2⟩, ⟨1, 0, 1⟩] ∧
    AcSpec [['a'], ['a', 'a']] ['a', 'a'] [⟨0, 0, 1⟩, ⟨1, 0, 1⟩, ⟨0, 1, 2⟩] ∧
    ¬ AcSpec [['a'], ['a', 'a']] ['a', 'a'] [⟨0, 0, 1⟩, ⟨1, 0, 1⟩] ∧
    ¬ AcSpec [['a'], ['a', 'a']] ['a', 'a'] [⟨0, 0, 1⟩, ⟨0, 1, 2⟩, ⟨1, 0, 1⟩, ⟨1, 1, 2⟩] ∧
    ¬ AcSpec [['a'], ['a', 'a']] ['a', 'a'] [⟨0, 1, 2⟩, ⟨0, 0, 1⟩, ⟨1, 0, 1⟩] := by
  refine ⟨(ac_spec_decided _ _ _).1 (by decide), (ac_spec_decided _ _ _).1 (by decide), ?_, ?_, ?_⟩ <;>
    exact fun h => absurd ((ac_spec_decided _ _ _).2 h) (by decide)

/-- the start marker search of the tokenizer with the automaton's report as a parameter
    (`report pats rest` = what `find_overlapping` yields for the patterns `pats` on `rest`) -/
def findStartWith (report : List (List Char) → List Char → List AcMatch) (d : Delims) : FindStart :=
  if d = defaultDelims then fun _ rest => findStartDefault rest
  else fun pre rest =>
    match validatedStartDelims d with
    | none => none
    | some pats => acLoop d (maxPatternLen pats) pre rest none (report pats rest)

/-- the model's own `findStart` is the instance with the reference report `acMatches` -/
theorem findStartWith_acMatches (d : Delims) : findStartWith acMatches d = findStart d := by
  unfold findStartWith findStart acFind; rfl

/-- **Main theorem, with the gap to the code as named hypotheses.**  Let `realLex` be the tokenizer
    of `lexer.rs` (its text output) and `report` the overlapping-match report of the real automaton.
    * `hAc`  — the automaton meets `AcSpec` on every haystack [validated: `kac` stream, exhaustive on
      short haystacks for every generated delimiter family, decided in Lean on the real report];
    * `hLex` — the tokenizer is the model `lex` run with the search built on that report [validated:
      `seg` / `rand` / `prog` / `line` / `entry` / `wrap` / `big` correspondence streams, token by
      token, incl. sources outside the hypotheses of the theorem and lexer errors; literal tables
      regenerated from the source: `table_*`].
    Then the statement of the property holds for the tokenizer itself: for all 8 settings, every
    marker placement and line-ending style, every well-formed delimiter set (`goodDelims`) and
    every template whose texts contain no start delimiter and whose tags read back as written
    (`delimFree`), the text output is exactly what the five whitespace rules give (`specRender`);
    hence (corollaries `delim_invariance`, `lookalike_is_text`, `line_lex_as_tag`, `raw_rule`) it
    does not depend on the delimiter set, default look-alikes are plain text under other
    delimiters, and line statements / comments behave as the tags occupying their lines.
    What stays between this theorem and a render of the real engine: the parser, code generator
    and VM print `TemplateData` tokens unchanged (`EmitRaw`) — covered by the differential
    streams through `Environment::render_str` and the other entry points only. -/
theorem C10_main
    (report : List (List Char) → List Char → List AcMatch)
    (realLex : Cfg → Delims → List Char → Res)
    (hAc : ∀ pats rest, AcSpec pats rest (report pats rest))
    (hLex : ∀ cfg d src, realLex cfg d src = lex cfg d (findStartWith report d) src) :
    ∀ (cfg : Cfg) (vm bm : List Char) (d : Delims) (tm : Tmpl),
      goodDelims d = true → delimFree d tm = true →
      renderRes vm bm (realLex cfg d (unparse d tm)) = some (specRender cfg vm bm tm) := by
  intro cfg vm bm d tm hg hf
  have hfind : findStartWith report d = findLL d := by
    by_cases h : d = defaultDelims
    · subst h
      simp only [findStartWith, if_true]
      exact (findStart_default).symm ▸ (by simp [findStart])
    · obtain ⟨pats, hv⟩ : ∃ pats, validatedStartDelims d = some pats :=
        ⟨_, validated_of_good (good_of_goodDelims hg)⟩
      funext pre rest
      simp only [findStartWith, h, if_false, hv]
      exact acLoop_eq_findLL_of_spec hv pre rest _ (hAc pats rest)
  rw [hLex, hfind]
  exact lex_spec cfg vm bm (good_of_goodDelims hg) tm hf

/-- the hypotheses of `C10_main` are satisfiable: the model itself with the reference report -/
example : ∃ (report : List (List Char) → List Char → List AcMatch) (realLex : Cfg → Delims → List Char → Res),
    (∀ pats rest, AcSpec pats rest (report pats rest)) ∧
    (∀ cfg d src, realLex cfg d src = lex cfg d (findStartWith report d) src) :=
  ⟨acMatches, fun cfg d src => lex cfg d (findStartWith acMatches d) src, acSpec_acMatches, fun _ _ _ => rfl⟩

/-- `C10_main` instantiated with the model is `C10_full` -/
theorem C10_main_gives_full : C10_full := by
  intro cfg vm bm d tm hg hf
  have := C10_main acMatches (fun cfg d src => lex cfg d (findStartWith acMatches d) src) acSpec_acMatches
    (fun _ _ _ => rfl) cfg vm bm d tm hg hf
  simpa [findStartWith_acMatches] using this

/-! ## the search kernels -/

/-- `memstr` (as the lexer uses it for the comment end and for the block start inside raw blocks):
    the model `findSub` returns the least offset at which the needle is a prefix of the rest of the
    haystack, and `none` only if there is no such offset. -/
theorem memstr_is_leftmost (pat s : List Char) : LeftmostOcc pat s (findSub pat s) :=
  findSub_leftmost pat s

/-- … and that determines the function: any search with this specification is `findSub` -/
theorem memstr_unique (pat s : List Char) (r : Option Nat) (h : LeftmostOcc pat s r) : r = findSub pat s :=
  leftmostOcc_unique h

/-- `--->` contains `-->` at offset 1 (the case a skipping matcher misses) -/
example : findSub ['-', '-', '>'] ['-', '-', '-', '>'] = some 1 ∧
    findSub ['{', '{', '%'] ['x', '{', '{', '{', '%', ' '] = some 2 ∧
    findSub ['a', 'b', 'a', 'b'] ['a', 'b', 'a', 'a', 'b', 'a', 'b'] = some 3 := by decide

/-- `memchr`: the least offset of the byte -/
theorem memchr_is_leftmost (c : Char) (s : List Char) : LeftmostChar c s (findChar c s) :=
  findChar_leftmost c s

example : findChar '{' ['a', '{', '{'] = some 1 ∧ findChar '{' ['a'] = none := by decide

/-! ## literals of the source the model transcribes (regenerated into `MJ.Gen` on every run) -/

/-- `DEFAULT_DELIMS` of `syntax.rs` = `defaultDelims` -/
theorem table_default_delims :
    MJ.Gen.c10DefaultDelims.map String.toList =
      [defaultDelims.bs, defaultDelims.be, defaultDelims.vs, defaultDelims.ve, defaultDelims.cs, defaultDelims.ce,
       defaultDelims.ls, defaultDelims.lc] := by decide

/-- order and `required` flags of `validated_start_delims` = what `validatedStartDelims` iterates -/
theorem table_validated_order :
    MJ.Gen.c10ValidatedOrder =
      [("variable_start", true), ("block_start", true), ("comment_start", true),
       ("line_statement_prefix", false), ("line_comment_prefix", false)] := by decide

/-- `pattern_to_marker` = `patternToMarker` -/
theorem table_pattern_to_marker :
    MJ.Gen.c10PatternToMarker =
      [("0", ["Variable"]), ("1", ["Block"]), ("2", ["Comment"]), ("3", ["LineStatement", "LineComment"]),
       ("4", ["LineComment"]), ("_", [])] := by decide

/-- `Whitespace::from_byte` = `wsOfChar` -/
theorem table_ws_from_byte :
    MJ.Gen.c10WsFromByte = [('-', "Remove"), ('+', "Preserve")] ∧ MJ.Gen.c10WsDefault = "Default" := by decide

/-- the operator tables of `tokenize_block_or_var` = `singleOp` (on all of ASCII) / `twoCharOp` -/
theorem table_operators :
    (List.range 128).all (fun n =>
      singleOp (Char.ofNat n) == (MJ.Gen.c10SingleOps.find? (·.1 == Char.ofNat n)).map (·.2)) = true ∧
    MJ.Gen.c10TwoOps = [('/', '/'), ('*', '*'), ('=', '='), ('!', '='), ('>', '='), ('<', '=')] ∧
    MJ.Gen.c10Quotes = ['\'', '"'] := by decide

/-- `twoCharOp` is membership in that table -/
theorem twoCharOp_iff (a b : Char) :
    twoCharOp a b = true ↔ (a, b) ∈ [('/', '/'), ('*', '*'), ('=', '='), ('!', '='), ('>', '='), ('<', '=')] := by
  simp [twoCharOp, or_assoc]

/-- the radix prefixes of `eat_number` = `radixPrefix` -/
theorem table_radix :
    MJ.Gen.c10RadixPrefixes.all (fun p => radixPrefix p.1 [p.2.1] == some p.2.2) = true ∧
    (List.range 128).all (fun n =>
      (radixPrefix '0' [Char.ofNat n]).isSome == MJ.Gen.c10RadixPrefixes.any (·.2.1 == Char.ofNat n)) = true := by decide

/-- the escape table of `utils::unescape` = `strStep` behind a backslash: only `u`, `x` and the octal
    digits start an escape that takes further characters, every other character is taken as it is;
    `\u` takes 4 and `\x` 2 characters in radix 16, an octal escape up to 2 more digits, surrogates
    are `0xD800..=0xDFFF` -/
theorem table_unescape :
    MJ.Gen.c10UnescapeArms.filter (fun a => a.2 != "char") = [("'u'", "u16"), ("'x'", "hex"), ("'0'..='7'", "oct")] ∧
    MJ.Gen.c10UnescapeNums =
      [("u16_take", 4), ("u16_radix", 16), ("hex_take", 2), ("hex_radix", 16), ("oct_more", 2), ("oct_radix", 8),
       ("surrogate_first", 55296), ("surrogate_last", 57343)] ∧
    (List.range 128).all (fun n =>
      let c := Char.ofNat n
      match strStep '"' .bs 0 c with
      | .cont (.u 0 0) 0 => c == 'u'
      | .cont (.x 0) 0 => c == 'x'
      | .cont (.oct 2 v) 0 => isOct c && v == n - 48
      | .cont .txt 0 => !(c == 'u' || c == 'x' || isOct c)
      | _ => false) = true ∧
    (List.range 65536).all (fun v => isSurr v == (decide (55296 ≤ v) && decide (v ≤ 57343))) = true := by
  refine ⟨by decide, by decide, by decide, ?_⟩
  simp [isSurr]

/-- every substring / byte search of `lexer.rs` is one the model transcribes: `memchr` in
    `find_start_marker_memchr` (`findStartDefault`), `find_overlapping` and the line-start `find` in
    `find_start_marker` (`acFind`, `lineStartP`), `memstr` in `handle_start_marker` (comment end,
    `findSub`) and `handle_raw_tag` (`findEndraw`), `strip_prefix` in `skip_basic_tag` / `skip_nl`,
    `trim_*` in `lstrip_block`, `tokenize_root` and `handle_raw_tag`, `starts_with` for the end
    delimiters in `tokenize_block_or_var`, `ends_with` in `Tokenizer::new`, and the `take_while` /
    `map_while` / `position` scans of identifiers, numbers, strings, whitespace and line comments.
    A new call site or helper changes this table and breaks the theorem. -/
theorem table_search_sites :
    MJ.Gen.c10SearchSites =
      [("eat_number", "ends_with", 1), ("eat_number", "take_while", 1), ("eat_string", "take_while", 1),
       ("find_start_marker", "find", 1), ("find_start_marker", "find_overlapping", 1),
       ("find_start_marker_memchr", "memchr", 1), ("handle_raw_tag", "memstr", 1),
       ("handle_raw_tag", "starts_with", 2), ("handle_raw_tag", "trim_end", 1), ("handle_raw_tag", "trim_start", 1),
       ("handle_start_marker", "memstr", 1), ("handle_start_marker", "take_while", 1),
       ("lex_identifier", "map_while", 1), ("lex_identifier", "take_while", 1),
       ("lstrip_block", "trim_end_matches", 1), ("new", "ends_with", 2), ("skip_basic_tag", "strip_prefix", 9),
       ("skip_nl", "strip_prefix", 2), ("skip_whitespace", "map_while", 1),
       ("tokenize_block_or_var", "position", 1), ("tokenize_block_or_var", "starts_with", 4),
       ("tokenize_block_or_var", "take_while", 1), ("tokenize_root", "trim_end", 1)] := by decide

end MJ.C10
