import MJ.Model.LexerSpec
namespace MJ.C10
open MJ.Lexer

theorem placeholder : stripTrailingNl ['a', '\n'] = ['a'] := by decide

end MJ.C10
